package retry

import (
	"context"
	"math"
	"time"

	"github.com/pingcap/failpoint"
	"github.com/pkg/errors"
	tikverr "github.com/tikv/client-go/v2/error"
	"github.com/tikv/client-go/v2/kv"
	"github.com/tikv/client-go/v2/util"
)

// C20 — back-off budget and fork accounting. See DESIGN.md §3 C20.
//
// Sleeping is virtual under the engine (a symbolic duration passed to
// time.After elapses at once and is added to the ghost total read by
// zzSleptNs); natively the repo's own fastBackoffBySkipSleep failpoint skips
// the sleep so that replays do not wait.

func zzNoSleepNative() {
	if !zzInterp() {
		util.EnableFailpoints()
		_ = failpoint.Enable("tikvclient/fastBackoffBySkipSleep", "return")
	}
}

// zzCtx is a context whose cancellation point is chosen by the harness:
// Done() hands out a channel that is closed once `after` calls were made.
type zzCtx struct {
	context.Context
	ch    chan struct{}
	calls int
	after int // cancel when calls > after; <0: never
	done  bool
}

func (c *zzCtx) Done() <-chan struct{} {
	c.calls++
	if c.after >= 0 && c.calls > c.after && !c.done {
		c.done = true
		close(c.ch)
	}
	return c.ch
}

func (c *zzCtx) Err() error {
	if c.done {
		return context.Canceled
	}
	return nil
}

func zzNewCtx(after int) *zzCtx {
	return &zzCtx{Context: context.Background(), ch: make(chan struct{}), after: after}
}

func zzCap(cfg *Config) int { return cfg.fnCfg.cap }

func zzExcluded(cfg *Config) bool {
	_, ok := isSleepExcluded[cfg.name]
	return ok
}

var zzErrIn = errors.New("zz: original error")

// zzState builds an arbitrary accounting state satisfying the representation
// invariant 0 <= excluded <= total, with per-kind sleeps for cfg and two more
// kinds (one of them the excluded kind).
func zzArbitraryBackoffer(ctx context.Context, cfg *Config, vars *kv.Variables) (*Backoffer, *Config) {
	other := BoRegionMiss
	if cfg == BoRegionMiss {
		other = BoTiKVRPC
	}
	b := &Backoffer{ctx: ctx, vars: vars}
	b.maxSleep = zzInt("maxSleep")
	b.totalSleep = zzInt("total")
	b.excludedSleep = zzInt("excluded")
	zzAssume(b.maxSleep >= -1 && b.maxSleep <= math.MaxInt32)
	zzAssume(b.excludedSleep >= 0 && b.excludedSleep <= b.totalSleep && b.totalSleep < 1<<40)
	sCfg, sOther, sBusy := zzInt("sleep.cfg"), zzInt("sleep.other"), zzInt("sleep.busy")
	zzAssume(sCfg >= 0 && sCfg < 1<<40 && sOther >= 0 && sOther < 1<<40 && sBusy >= 0 && sBusy < 1<<40)
	b.backoffSleepMS = map[string]int{}
	b.backoffTimes = map[string]int{}
	b.backoffSleepMS[cfg.name] = sCfg
	b.backoffTimes[cfg.name] = 3
	b.configs = append(b.configs, cfg)
	if other != cfg {
		b.backoffSleepMS[other.name] = sOther
		b.backoffTimes[other.name] = 2
		b.configs = append(b.configs, other)
	}
	if cfg != BoTiKVServerBusy {
		b.backoffSleepMS[BoTiKVServerBusy.name] = sBusy
		b.backoffTimes[BoTiKVServerBusy.name] = 1
		b.configs = append(b.configs, BoTiKVServerBusy)
	}
	return b, other
}

// ZZ_C20_step — B1/B2/B4: one back-off from an arbitrary accounting state.
func ZZ_C20_step() {
	zzNoSleepNative()
	cfg := zzAllConfigs[zzChoice("cfg", len(zzAllConfigs))]
	// attempt index: all of 0..70 in the thorough tier (the doubling must stay capped
	// long after base*2^n has left the 64-bit range), a boundary subset in quick
	attempts := zzChoice("attempts", 71)
	if zzParam("tier", 0) == 0 {
		zzAssume(attempts <= 2 || attempts == 14 || attempts == 57 || attempts == 62 || attempts == 64)
	}
	lockFast := 10
	if cfg.name == txnLockFastName {
		lockFast = []int{2, 10, 100}[zzChoice("lockfast", 3)]
	}
	vars := &kv.Variables{BackoffLockFast: lockFast, BackOffWeight: 2}
	ctx := zzNewCtx(-1)
	b, other := zzArbitraryBackoffer(ctx, cfg, vars)

	// advance the kind's attempt counter without accounting anything
	b.fn = map[string]backoffFn{}
	f := cfg.createBackoffFn(vars)
	for i := 0; i < attempts; i++ {
		f(ctx, 0)
	}
	b.fn[cfg.name] = f
	slept0 := zzSleptNs()

	maxSleepMs := -1
	if zzBool("hasMaxSleepMs") {
		maxSleepMs = zzInt("maxSleepMs")
		zzAssume(maxSleepMs >= 0 && maxSleepMs < 1<<31)
	}
	total0, excl0, max0 := b.totalSleep, b.excludedSleep, b.maxSleep
	sCfg0, times0 := b.backoffSleepMS[cfg.name], b.backoffTimes[cfg.name]
	sOther0, sBusy0 := b.backoffSleepMS[other.name], b.backoffSleepMS[BoTiKVServerBusy.name]
	nerr0 := b.errorsNum

	err := b.BackoffWithCfgAndMaxSleep(cfg, maxSleepMs, zzErrIn)

	limit, excludedKind := isSleepExcluded[cfg.name]
	exceededNormal := total0-excl0 >= max0
	exceededExcl := excludedKind && excl0 >= limit && excl0 >= max0
	mustRefuse := max0 > 0 && (exceededNormal || exceededExcl)
	real := b.totalSleep - total0
	if err != nil {
		// budget exhausted: nothing slept, nothing accounted, error names the
		// kind that slept longest among the non-excluded ones
		zzAssert(mustRefuse, "step.refuse-only-when-exhausted")
		zzAssert(real == 0 && b.excludedSleep == excl0, "step.refuse-accounts-nothing")
		zzAssert(b.errorsNum == nerr0 && b.backoffTimes[cfg.name] == times0, "step.refuse-records-nothing")
		if zzInterp() {
			zzAssert(zzSleptNs() == slept0, "step.refuse-sleeps-nothing")
		}
		cause := errors.Cause(err)
		// candidates: non-excluded kinds with maximal positive sleep
		mx := 0
		if !zzExcluded(cfg) && sCfg0 > mx {
			mx = sCfg0
		}
		if other != cfg && !zzExcluded(other) && sOther0 > mx {
			mx = sOther0
		}
		okCause := false
		if mx == 0 {
			okCause = cause == zzErrIn
		} else {
			if !zzExcluded(cfg) && sCfg0 == mx && cause == cfg.err {
				okCause = true
			}
			if other != cfg && !zzExcluded(other) && sOther0 == mx && cause == other.err {
				okCause = true
			}
		}
		zzAssert(okCause, "step.error-names-longest-sleeper")
		_ = sBusy0
		return
	}
	zzAssert(!mustRefuse, "step.sleeps-only-within-budget")
	zzAssert(real >= 0 && real <= zzCap(cfg), "step.sleep-within-kind-cap")
	if maxSleepMs >= 0 {
		zzAssert(real <= maxSleepMs, "step.sleep-within-call-max")
	}
	if zzInterp() {
		zzAssert(zzSleptNs()-slept0 == int64(real)*int64(time.Millisecond), "step.accounted-equals-slept")
	}
	if excludedKind {
		zzAssert(b.excludedSleep-excl0 == real, "step.excluded-accounting")
	} else {
		zzAssert(b.excludedSleep == excl0, "step.excluded-untouched")
	}
	zzAssert(b.backoffSleepMS[cfg.name] == sCfg0+real, "step.kind-sleep-accounting")
	zzAssert(b.backoffTimes[cfg.name] == times0+1, "step.kind-times-accounting")
	zzAssert(b.errorsNum == nerr0+1, "step.error-recorded")
	if other != cfg {
		zzAssert(b.backoffSleepMS[other.name] == sOther0, "step.other-kind-untouched")
	}
	// the budget invariant after the step
	if max0 > 0 && !excludedKind {
		zzAssert(b.totalSleep-b.excludedSleep < max0+zzCap(cfg), "step.budget-plus-one-step")
	}
	if max0 > 0 && excludedKind {
		lim := limit
		if max0 > lim {
			lim = max0
		}
		zzAssert(b.excludedSleep < lim+zzCap(cfg), "step.excluded-budget-plus-one-step")
	}
	// B4: exponential shape of this kind's step (before the per-call cut)
	base := cfg.fnCfg.base
	if cfg.name == txnLockFastName {
		base = lockFast
	}
	if base < 2 {
		base = 2
	}
	v := expo(base, cfg.fnCfg.cap, attempts)
	if maxSleepMs < 0 {
		switch cfg.fnCfg.jitter {
		case NoJitter:
			zzAssert(real == v, "step.nojitter-exact")
		case EqualJitter:
			zzAssert(real >= v/2 && real < v/2+v/2 || v < 2, "step.equaljitter-range")
		}
	}
}

// ZZ_C20_cancel — B3: a cancelled context or a killed query stops at once.
func ZZ_C20_cancel() {
	zzNoSleepNative()
	cfg := zzAllConfigs[zzChoice("cfg", len(zzAllConfigs))]
	var killed uint32
	vars := &kv.Variables{BackoffLockFast: 10, BackOffWeight: 2, Killed: &killed}
	switch zzChoice("how", 3) {
	case 0: // cancelled before the call
		ctx := zzNewCtx(0)
		b, _ := zzArbitraryBackoffer(ctx, cfg, vars)
		total0, excl0 := b.totalSleep, b.excludedSleep
		s0 := zzSleptNs()
		err := b.BackoffWithCfgAndMaxSleep(cfg, -1, zzErrIn)
		zzAssert(err != nil, "cancel.before.error")
		zzAssert(errors.Cause(err) == zzErrIn, "cancel.before.original-error")
		zzAssert(b.totalSleep == total0 && b.excludedSleep == excl0, "cancel.before.accounts-nothing")
		if zzInterp() {
			zzAssert(zzSleptNs() == s0, "cancel.before.sleeps-nothing")
		}
	case 1: // cancelled while sleeping: the interrupted sleep accounts 0
		if !zzInterp() {
			return // natively the failpoint skips the select
		}
		ctx := zzNewCtx(1)
		b, _ := zzArbitraryBackoffer(ctx, cfg, vars)
		zzAssume(b.maxSleep <= 0 || b.totalSleep-b.excludedSleep < b.maxSleep)
		zzAssume(!zzExcluded(cfg) || b.maxSleep <= 0 || b.excludedSleep < b.maxSleep)
		total0 := b.totalSleep
		err := b.BackoffWithCfgAndMaxSleep(cfg, -1, zzErrIn)
		// the select may take either ready case; if the context won, nothing is accounted
		if ctx.done && b.totalSleep == total0 {
			zzAssert(err == nil || errors.Cause(err) != nil, "cancel.during.accounts-zero-or-full")
		}
		zzAssert(b.totalSleep == total0 || b.totalSleep-total0 <= zzCap(cfg), "cancel.during.bounded")
	case 2: // killed: the call reports the kill signal
		ctx := zzNewCtx(-1)
		b, _ := zzArbitraryBackoffer(ctx, cfg, vars)
		zzAssume(b.maxSleep <= 0 || b.totalSleep-b.excludedSleep < b.maxSleep)
		zzAssume(!zzExcluded(cfg) || b.maxSleep <= 0 || b.excludedSleep < b.maxSleep)
		sig := zzU32("signal")
		zzAssume(sig != 0)
		killed = sig
		err := b.BackoffWithCfgAndMaxSleep(cfg, -1, zzErrIn)
		zzAssert(err != nil, "kill.error")
		k, ok := errors.Cause(err).(tikverr.ErrQueryInterruptedWithSignal)
		zzAssert(ok, "kill.error-kind")
		zzAssert(k.Signal == sig, "kill.signal")
		zzAssert(b.CheckKilled() != nil, "kill.check-killed")
	}
}

// four representative kinds for sequences: no-jitter, equal-jitter, the
// budget-excluded kind, and the kind whose base comes from the variables.
func zzSeqKinds() []*Config {
	return []*Config{BoRegionMiss, BoTiKVRPC, BoTiKVServerBusy, BoTxnLockFast}
}

// ZZ_C20_sequence — k back-offs from a fresh back-offer: the ghost total of
// virtual sleep equals the accounted total, never exceeds budget + one step,
// and Reset/ResetMaxSleep restart the budget without losing per-kind totals.
func ZZ_C20_sequence() {
	zzNoSleepNative()
	k := zzParam("k", 3)
	kinds := zzSeqKinds()
	weight := 1 + zzChoice("weight", 2)
	vars := &kv.Variables{BackoffLockFast: 10, BackOffWeight: weight}
	maxSleep := zzInt("maxSleep")
	zzAssume(maxSleep >= 0 && maxSleep <= 1<<20)
	b := NewBackofferWithVars(zzNewCtx(-1), maxSleep, vars)
	budget := maxSleep * weight
	zzAssert(b.maxSleep == budget, "seq.budget-is-max-times-weight")
	s0 := zzSleptNs()
	maxCap := 0
	sumAll := 0
	for i := 0; i < k; i++ {
		cfg := kinds[zzChoice("kind", len(kinds))]
		if zzCap(cfg) > maxCap {
			maxCap = zzCap(cfg)
		}
		maxMs := -1
		if zzBool("hasMax") {
			maxMs = zzInt("maxMs")
			zzAssume(maxMs >= 0 && maxMs <= 1<<20)
		}
		before := b.totalSleep
		err := b.BackoffWithCfgAndMaxSleep(cfg, maxMs, zzErrIn)
		if err != nil {
			zzAssert(b.totalSleep == before, "seq.refused-accounts-nothing")
			zzAssert(budget > 0, "seq.refused-only-with-budget")
		}
		sumAll += b.totalSleep - before
		if budget > 0 {
			zzAssert(b.totalSleep-b.excludedSleep < budget+maxCap, "seq.budget-plus-one-step")
		}
		if zzChoice("reset", 3) == 1 {
			perKind := b.backoffSleepMS[cfg.name]
			b.Reset()
			zzAssert(b.totalSleep == 0 && b.excludedSleep == 0, "seq.reset-clears-budget-use")
			zzAssert(b.backoffSleepMS[cfg.name] == perKind, "seq.reset-keeps-per-kind-totals")
		}
	}
	if zzInterp() {
		zzAssert(zzSleptNs()-s0 == int64(sumAll)*int64(time.Millisecond), "seq.slept-equals-accounted")
	}
	sumKinds := 0
	for _, c := range kinds {
		sumKinds += b.backoffSleepMS[c.name]
	}
	zzAssert(sumKinds == sumAll, "seq.per-kind-sum-equals-total")
}

// ZZ_C20_fork_merge — B5: Clone/Fork copy the accounting; merging a fork
// back never loses or double counts.
func ZZ_C20_fork_merge() {
	zzNoSleepNative()
	kinds := zzSeqKinds()
	vars := &kv.Variables{BackoffLockFast: 10, BackOffWeight: 1}
	parent, _ := zzArbitraryBackoffer(zzNewCtx(-1), BoTiKVRPC, vars)
	zzAssume(parent.maxSleep == 0) // unlimited: every child back-off sleeps
	pTotal, pExcl := parent.totalSleep, parent.excludedSleep
	pRPC, pBusy := parent.backoffSleepMS[BoTiKVRPC.name], parent.backoffSleepMS[BoTiKVServerBusy.name]
	pTimes := parent.backoffTimes[BoTiKVRPC.name]

	cl := parent.Clone()
	zzAssert(cl.totalSleep == pTotal && cl.excludedSleep == pExcl && cl.maxSleep == parent.maxSleep, "clone.copies-counters")
	zzAssert(cl.backoffSleepMS[BoTiKVRPC.name] == pRPC && cl.backoffTimes[BoTiKVRPC.name] == pTimes, "clone.copies-maps")
	zzAssert(cl.errorsNum == parent.errorsNum && cl.parent == parent.parent, "clone.copies-errors-and-lineage")

	child, cancel := parent.Fork()
	defer cancel()
	zzAssert(child.totalSleep == pTotal && child.excludedSleep == pExcl && child.parent == parent, "fork.copies-counters")
	depth := zzChoice("depth", 2)
	leaf := child
	var cancel2 context.CancelFunc
	if depth == 1 {
		leaf, cancel2 = child.Fork()
		defer cancel2()
	}
	slept := 0
	sleptExcl := 0
	sleptRPC := 0
	n := zzParam("k", 2)
	for i := 0; i < n; i++ {
		cfg := kinds[zzChoice("kind", len(kinds))]
		before, beforeE := leaf.totalSleep, leaf.excludedSleep
		err := leaf.Backoff(cfg, zzErrIn)
		zzAssert(err == nil, "fork.child-backoff-ok")
		slept += leaf.totalSleep - before
		sleptExcl += leaf.excludedSleep - beforeE
		if cfg == BoTiKVRPC {
			sleptRPC += leaf.totalSleep - before
		}
	}
	// the clone is unaffected by what the fork did
	zzAssert(cl.totalSleep == pTotal && cl.backoffSleepMS[BoTiKVRPC.name] == pRPC, "clone.independent")
	zzAssert(parent.totalSleep == pTotal && parent.backoffSleepMS[BoTiKVRPC.name] == pRPC, "fork.parent-untouched-before-merge")

	parent.UpdateUsingForked(leaf)
	zzAssert(parent.totalSleep == pTotal+slept, "merge.total")
	zzAssert(parent.excludedSleep == pExcl+sleptExcl, "merge.excluded")
	zzAssert(parent.backoffSleepMS[BoTiKVRPC.name] == pRPC+sleptRPC, "merge.per-kind")
	zzAssert(parent.backoffSleepMS[BoTiKVServerBusy.name] == pBusy+sleptExcl, "merge.per-kind-excluded")
	// merging again changes nothing; merging an unrelated back-offer changes nothing
	parent.UpdateUsingForked(leaf)
	zzAssert(parent.totalSleep == pTotal+slept && parent.excludedSleep == pExcl+sleptExcl, "merge.idempotent")
	stranger := NewBackofferWithVars(context.Background(), 100, vars)
	stranger.totalSleep = 12345
	parent.UpdateUsingForked(stranger)
	parent.UpdateUsingForked(nil)
	zzAssert(parent.totalSleep == pTotal+slept, "merge.non-descendant-ignored")
}

// ZZ_C20_withvars — B6: the weighted budget never overflows int32 and is
// otherwise max × weight.
func ZZ_C20_withvars() {
	maxSleep := zzInt("maxSleep")
	// the weight comes from a boundary set: a symbolic 64-bit divisor in
	// MaxInt32/weight is beyond every solver on this image (unknown at 60 s)
	weights := []int{1, 2, 3, 7, 10, 1000, 65536, math.MaxInt32 / 2, math.MaxInt32}
	weight := weights[zzChoice("weight", len(weights))]
	zzAssume(maxSleep >= -1 && maxSleep <= math.MaxInt32)
	vars := &kv.Variables{BackoffLockFast: 10, BackOffWeight: weight}
	b := NewBackofferWithVars(context.Background(), maxSleep, vars)
	zzAssert(b.maxSleep <= math.MaxInt32, "withvars.no-overflow")
	if maxSleep > 0 && int64(maxSleep)*int64(weight) <= math.MaxInt32 {
		zzAssert(int64(b.maxSleep) == int64(maxSleep)*int64(weight), "withvars.weighted")
	} else {
		zzAssert(b.maxSleep == maxSleep, "withvars.unweighted-when-it-would-overflow")
	}
	b.totalSleep, b.excludedSleep = 77, 7
	m2 := zzInt("max2")
	zzAssume(m2 >= 0 && m2 <= 1<<20)
	b.ResetMaxSleep(m2)
	zzAssert(b.totalSleep == 0 && b.excludedSleep == 0, "resetmax.clears")
	zzAssert(b.maxSleep <= math.MaxInt32 && b.maxSleep >= m2, "resetmax.budget")
}
