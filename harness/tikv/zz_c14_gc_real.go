package tikv

import (
	"bytes"
	"context"
	"time"

	"github.com/pingcap/kvproto/pkg/errorpb"
	"github.com/pingcap/kvproto/pkg/kvrpcpb"
	"github.com/pingcap/kvproto/pkg/metapb"
	"github.com/tikv/client-go/v2/internal/locate"
	"github.com/tikv/client-go/v2/kv"
	"github.com/tikv/client-go/v2/oracle"
	"github.com/tikv/client-go/v2/tikvrpc"
	"github.com/tikv/client-go/v2/txnkv/txnlock"
)

// zzc14KV: harness Storage for the real BaseRegionLockResolver. Region cache:
// the real one over the harness PD. SendReq: answers ScanLock / CheckTxnStatus /
// ResolveLock from a lock table, per region like TiKV, after doing what
// RegionRequestSender does around a request (synthetic EpochNotMatch without a
// valid cached region; cache update on EpochNotMatch).
type zzc14KV struct {
	Storage // nil: any other method panics
	pd      *zzc14PD
	cache   *locate.RegionCache
	lr      *txnlock.LockResolver

	locks []*zzc14RLock // sorted by key, distinct keys and transactions

	reqs    int
	bumpReq int
	next    [][]byte
	withCur bool
	bumped  bool

	outside bool // a served request was not inside the region of its context
}

type zzc14RLock struct {
	key     []byte
	ts      uint64
	commit  uint64 // outcome of the transaction (0 = rolled back)
	gone    bool
	status  uint64 // status it was resolved with
	touched bool
}

func (s *zzc14KV) GetRegionCache() *locate.RegionCache    { return s.cache }
func (s *zzc14KV) GetLockResolver() *txnlock.LockResolver { return s.lr }
func (s *zzc14KV) GetOracle() oracle.Oracle               { return nil }

const zzc14RealMaxReqs = 24

func (s *zzc14KV) SendReq(bo *Backoffer, req *tikvrpc.Request, id locate.RegionVerID, timeout time.Duration) (*tikvrpc.Response, error) {
	rpcCtx, err := s.cache.GetTiKVRPCContext(bo, id, kv.ReplicaReadLeader, 0)
	if err != nil {
		return nil, err
	}
	if rpcCtx == nil {
		return tikvrpc.GenRegionErrorResp(req, &errorpb.Error{EpochNotMatch: &errorpb.EpochNotMatch{}})
	}
	s.reqs++
	if s.reqs > zzc14RealMaxReqs {
		panic("zzc14KV: request budget exceeded: the GC loop does not make progress")
	}
	if !s.bumped && s.bumpReq != 0 && s.reqs == s.bumpReq {
		s.bumped = true
		s.pd.setLayout(s.next, 10, 2)
	}
	var r *metapb.Region
	for _, x := range s.pd.regions {
		if x.Id == id.GetID() && x.RegionEpoch.Version == id.GetVer() && x.RegionEpoch.ConfVer == id.GetConfVer() {
			r = x
		}
	}
	if r == nil {
		var cur []*metapb.Region
		if s.withCur {
			cur = s.pd.regions
		}
		if _, err := s.cache.OnRegionEpochNotMatch(bo, rpcCtx, cur); err != nil {
			return nil, err
		}
		return tikvrpc.GenRegionErrorResp(req, &errorpb.Error{Message: "epoch not match", EpochNotMatch: &errorpb.EpochNotMatch{CurrentRegions: cur}})
	}
	inRegion := func(k []byte) bool {
		in := bytes.Compare(r.StartKey, k) <= 0
		if len(r.EndKey) != 0 {
			in = zzAnd(in, bytes.Compare(k, r.EndKey) < 0)
		}
		return in
	}
	switch req.Type {
	case tikvrpc.CmdScanLock:
		q := req.ScanLock()
		// the requested range must lie inside the region
		ok := inRegion(q.StartKey)
		if len(r.EndKey) != 0 {
			if len(q.EndKey) == 0 {
				ok = false
			} else {
				ok = zzAnd(ok, bytes.Compare(q.EndKey, r.EndKey) <= 0)
			}
		}
		s.outside = zzOr(s.outside, !ok)
		out := &kvrpcpb.ScanLockResponse{}
		for _, l := range s.locks {
			if uint32(len(out.Locks)) >= q.Limit {
				break
			}
			if l.gone {
				continue
			}
			sel := zzAnd(inRegion(l.key), zzAnd(bytes.Compare(l.key, q.StartKey) >= 0, l.ts <= q.MaxVersion))
			if len(q.EndKey) != 0 {
				sel = zzAnd(sel, bytes.Compare(l.key, q.EndKey) < 0)
			}
			if sel {
				out.Locks = append(out.Locks, &kvrpcpb.LockInfo{Key: l.key, PrimaryLock: l.key, LockVersion: l.ts, LockTtl: 3000, LockType: kvrpcpb.Op_Put})
			}
		}
		return &tikvrpc.Response{Resp: out}, nil
	case tikvrpc.CmdCheckTxnStatus:
		q := req.CheckTxnStatus()
		s.outside = zzOr(s.outside, !inRegion(q.PrimaryKey))
		out := &kvrpcpb.CheckTxnStatusResponse{Action: kvrpcpb.Action_TTLExpireRollback}
		for _, l := range s.locks {
			if l.ts == q.LockTs { // transactions are distinct: at most one
				out.CommitVersion = l.commit
				if l.commit != 0 {
					out.Action = kvrpcpb.Action_NoAction
				}
			}
		}
		return &tikvrpc.Response{Resp: out}, nil
	case tikvrpc.CmdResolveLock:
		q := req.ResolveLock()
		for _, l := range s.locks {
			if l.gone {
				continue
			}
			for _, in := range q.TxnInfos {
				if zzAnd(inRegion(l.key), in.Txn == l.ts) {
					l.gone, l.touched, l.status = true, true, in.Status
				}
			}
		}
		return &tikvrpc.Response{Resp: &kvrpcpb.ResolveLockResponse{}}, nil
	}
	panic("zzc14KV: unexpected command")
}

// ZZ_C14_gc_real (G1+G2 through the real resolver): ResolveLocksForRange with
// NewRegionLockResolver over the harness Storage, i.e. the real
// scanLocksInOneRegionWithRange, batchResolveLocksInOneRegion and
// LockResolver.BatchResolveLocks: afterwards every lock of [start,end) with
// start ts <= safe point is gone and was resolved with its own transaction's
// outcome, every other lock is untouched, every request stayed inside the
// region it was addressed to - for every layout and with one topology change
// met by any request.
func ZZ_C14_gc_real() {
	locate.SetRegionCacheTTLWithJitter(600, 0)
	s := &zzc14KV{}
	s.pd = zzc14NewPD(zzc14Splits(zzParam("rnreg", 2), "s0", "s1"))
	s.cache = locate.NewRegionCache(s.pd)
	defer s.cache.Close()
	s.lr = txnlock.NewLockResolver(s)
	defer s.lr.Close()
	n := zzParam("rlocks", 2)
	if n >= 1 {
		s.locks = append(s.locks, &zzc14RLock{key: zzc14Key("l0"), ts: zzU64("ts0"), commit: zzU64("c0")})
	}
	if n >= 2 {
		s.locks = append(s.locks, &zzc14RLock{key: zzc14KeyNE("l1"), ts: zzU64("ts1"), commit: zzU64("c1")})
	}
	if n >= 3 {
		s.locks = append(s.locks, &zzc14RLock{key: zzc14KeyNE("l2"), ts: zzU64("ts2"), commit: zzU64("c2")})
	}
	for i := range s.locks {
		for j := 0; j < i; j++ {
			zzAssume(s.locks[i].ts != s.locks[j].ts)
		}
		if i > 0 {
			zzAssume(bytes.Compare(s.locks[i-1].key, s.locks[i].key) < 0)
		}
	}
	sp := zzU64("sp")
	// 0 none; else request rminbump-1+(v+1)/2 meets the change, without/with current regions
	lo, hi := zzParam("rminbump", 2), zzParam("rmaxbump", 2)
	v := zzChoice("variant", 1+2*(hi-lo+1))
	if v > 0 {
		s.next = zzc14Splits(zzParam("rnreg2", 2), "t0", "t1")
		s.bumpReq = lo - 1 + (v+1)/2
		s.withCur = v%2 == 0
	}
	start := zzc14Key("start")
	end := zzc14Key("end")
	zzAssume(len(end) == 0 || bytes.Compare(start, end) < 0)
	// scan limit: rscanlimit, or (rlimitchoice=1) also rscanlimit-1, so that a
	// batch both below and at the limit occurs with the same lock population
	limit := uint32(zzParam("rscanlimit", 3) - zzChoice("limit.less", 1+zzParam("rlimitchoice", 0)))
	_, err := ResolveLocksForRange(context.Background(), NewRegionLockResolver("zz", s), sp, start, end, NewGcResolveLockMaxBackoffer, limit)
	zzAssert(err == nil, "g1r.no-error")
	zzAssert(!s.outside, "g1r.request-inside-region-of-context")
	for _, l := range s.locks {
		in := bytes.Compare(l.key, start) >= 0
		if len(end) != 0 {
			in = zzAnd(in, bytes.Compare(l.key, end) < 0)
		}
		due := zzAnd(in, l.ts <= sp)
		zzAssert(zzImplies(due, l.gone), "g1r.every-old-lock-in-range-gone")
		zzAssert(zzImplies(!due, !l.touched), "g1r.no-other-lock-touched")
		zzAssert(zzImplies(l.touched, l.status == l.commit), "g1r.resolved-with-own-outcome")
	}
}
