package tikv

import (
	"bytes"
	"context"
	"errors"
	"time"

	tikverr "github.com/tikv/client-go/v2/error"
	"github.com/tikv/client-go/v2/internal/locate"
	"github.com/tikv/client-go/v2/txnkv/txnlock"
)

// Key drawing (same convention as C11): parameter lens=1: every length 0..2
// (1..2 for the non-empty variant); lens=0: empty or 2 bytes / exactly 2 bytes.
func zzc14Key(name string) []byte {
	if zzParam("lens", 0) == 1 {
		return zzBytes(name, 2)
	}
	return zzBytesN(name, 2*zzChoice(name+".nonempty", 2))
}

func zzc14KeyNE(name string) []byte {
	if zzParam("lens", 0) == 1 {
		k := zzBytes(name, 2)
		zzAssume(len(k) > 0)
		return k
	}
	return zzBytesN(name, 2)
}

func zzc14Splits(nreg int, a, b string) [][]byte {
	var sp [][]byte
	if nreg >= 2 {
		sp = append(sp, zzc14KeyNE(a))
	}
	if nreg >= 3 {
		sp = append(sp, zzc14KeyNE(b))
		zzAssume(bytes.Compare(sp[0], sp[1]) < 0)
	}
	return sp
}

// ---------------------------------------------------------------------------
// G5: CheckVisibility / UpdateTxnSafePointCache

// ZZ_C14_check_visibility: after the store learned txn safe point sp at time
// now-age, a read at startTS < sp is never served: with a fresh cache it is
// refused with ErrTxnAbortedByGC carrying both timestamps, with a stale cache
// every read is refused (PD timeout); startTS >= sp with a fresh cache passes.
func ZZ_C14_check_visibility() {
	s := &KVStore{}
	sp := zzU64("sp")
	startTS := zzU64("start")
	// oracle.GetTimeFromTS divides the physical part by 1000; the bound keeps
	// that 64-bit division cheap for the solver (the comparison under test is
	// on the whole value).
	bits := uint(zzParam("tsbits", 32))
	zzAssume(sp>>bits == 0 && startTS>>bits == 0)
	age := zzI64("age.ns")
	zzAssume(age >= 0 && age < int64(1000*time.Second))
	s.UpdateTxnSafePointCache(sp, time.Now().Add(-time.Duration(age)))
	err := s.CheckVisibility(startTS)
	fresh := time.Duration(age) <= GcStateCacheInterval-gcCPUTimeInaccuracyBound
	if startTS < sp {
		zzAssert(err != nil, "g5.below-safe-point-refused")
	}
	if fresh {
		if startTS < sp {
			var e *tikverr.ErrTxnAbortedByGC
			zzAssert(errors.As(err, &e), "g5.aborted-by-gc")
			zzAssert(e.TxnStartTS == startTS, "g5.error-start-ts")
			zzAssert(e.TxnSafePoint == sp, "g5.error-safe-point")
		} else {
			zzAssert(err == nil, "g5.at-or-above-safe-point-served")
		}
	} else {
		zzAssert(err != nil, "g5.stale-cache-refused")
	}
	// a later, larger safe point takes effect at once
	sp2 := zzU64("sp2")
	zzAssume(sp2>>bits == 0)
	s.UpdateTxnSafePointCache(sp2, time.Now())
	err2 := s.CheckVisibility(startTS)
	zzAssert((err2 != nil) == (startTS < sp2), "g5.update-takes-effect")
}

// ---------------------------------------------------------------------------
// G1: ResolveLocksForRange against a harness RegionLockResolver.

type zzc14Lock struct {
	key    []byte
	ts     uint64
	handed int  // number of successful resolve calls that contained the lock
	gone   bool // resolved (no longer returned by scans)
}

type zzc14Resolver struct {
	splits [][]byte // current layout
	ver    uint64
	locks  []*zzc14Lock // sorted by key, distinct keys

	// one injected region split: the k-th resolve call (1-based) finds that the
	// locks are not in one region any more: nothing is resolved, the layout
	// changes, nil is returned (contract of ResolveLocksInOneRegion).
	splitAt    int
	nextSplits [][]byte

	scans, resolves int
	lastKey         []byte
	retry           bool // previous resolve returned nil
	cursorOK        bool // every scan started strictly after the previous one (or equal after a retry)
	inRangeOK       bool // every scan was asked inside [start,end) with the caller's end and limit
	resolveArgsOK   bool // every resolve got exactly what the preceding scan returned
	start, end      []byte
	sp              uint64
	limit           uint32
	lastScan        []*txnlock.Lock
	lastLoc         *locate.KeyLocation
}

func (r *zzc14Resolver) Identifier() string { return "zz" }
func (r *zzc14Resolver) GetStore() Storage  { return nil }

func (r *zzc14Resolver) locate(key []byte) *locate.KeyLocation {
	var start []byte
	for i := 0; i <= len(r.splits); i++ {
		var end []byte
		if i < len(r.splits) {
			end = r.splits[i]
		}
		if len(end) == 0 || bytes.Compare(key, end) < 0 {
			return &locate.KeyLocation{Region: locate.NewRegionVerID(uint64(10+i), 1, r.ver), StartKey: start, EndKey: end}
		}
		start = end
	}
	panic("unreachable")
}

const zzc14MaxScans = 16

func (r *zzc14Resolver) ScanLocksInOneRegion(bo *Backoffer, key []byte, endKey []byte, maxVersion uint64, scanLimit uint32) ([]*txnlock.Lock, *locate.KeyLocation, error) {
	r.scans++
	if r.scans > zzc14MaxScans {
		panic("zzc14Resolver: scan budget exceeded: the loop does not make progress")
	}
	if r.scans > 1 {
		c := bytes.Compare(key, r.lastKey)
		if r.retry {
			r.cursorOK = zzAnd(r.cursorOK, c >= 0)
		} else {
			r.cursorOK = zzAnd(r.cursorOK, c > 0)
		}
	} else {
		r.inRangeOK = zzAnd(r.inRangeOK, bytes.Equal(key, r.start))
	}
	r.lastKey = key
	r.inRangeOK = zzAnd(r.inRangeOK, bytes.Equal(endKey, r.end))
	r.inRangeOK = zzAnd(r.inRangeOK, bytes.Compare(key, r.start) >= 0)
	if len(r.end) != 0 {
		r.inRangeOK = zzAnd(r.inRangeOK, bytes.Compare(key, r.end) < 0)
	}
	r.inRangeOK = zzAnd(r.inRangeOK, zzAnd(maxVersion == r.sp, scanLimit == r.limit))
	loc := r.locate(key)
	var out []*txnlock.Lock
	for _, l := range r.locks {
		if len(out) >= int(scanLimit) {
			break
		}
		if l.gone {
			continue
		}
		sel := zzAnd(bytes.Compare(l.key, key) >= 0, l.ts <= maxVersion)
		if len(loc.EndKey) != 0 {
			sel = zzAnd(sel, bytes.Compare(l.key, loc.EndKey) < 0)
		}
		if len(endKey) != 0 {
			sel = zzAnd(sel, bytes.Compare(l.key, endKey) < 0)
		}
		if !sel {
			continue
		}
		out = append(out, &txnlock.Lock{Key: l.key, Primary: l.key, TxnID: l.ts})
	}
	r.lastScan, r.lastLoc = out, loc
	return out, loc, nil
}

func (r *zzc14Resolver) ResolveLocksInOneRegion(bo *Backoffer, locks []*txnlock.Lock, loc *locate.KeyLocation) (*locate.KeyLocation, error) {
	r.resolves++
	same := loc == r.lastLoc && len(locks) == len(r.lastScan)
	if same {
		for i := range locks {
			same = same && locks[i] == r.lastScan[i]
		}
	}
	if !same {
		r.resolveArgsOK = false
	}
	if r.splitAt != 0 && r.resolves == r.splitAt {
		r.splits = r.nextSplits
		r.ver++
		r.retry = true
		return nil, nil
	}
	r.retry = false
	for _, l := range locks {
		for _, g := range r.locks {
			if bytes.Equal(g.key, l.Key) { // concrete: same slice
				g.handed++
				g.gone = true
			}
		}
	}
	return loc, nil
}

// ZZ_C14_resolve_locks_for_range (G1): when ResolveLocksForRange returns nil,
// every lock of [start,end) with start ts <= safe point was handed to a
// successful resolve call, no other lock was, the cursor advanced strictly
// between scans (except for the re-scan after a region split), for every lock
// population (<= nlocks locks, any number per region relative to scan limit 2),
// every layout, and a split injected at any resolve call.
func ZZ_C14_resolve_locks_for_range() {
	nlocks := zzParam("nlocks", 3)
	r := &zzc14Resolver{ver: 1, cursorOK: true, inRangeOK: true, resolveArgsOK: true}
	r.splits = zzc14Splits(zzParam("nreg", 2), "s0", "s1")
	r.sp = zzU64("sp")
	r.limit = uint32(zzParam("scanlimit", 2))
	if nlocks >= 1 {
		r.locks = append(r.locks, &zzc14Lock{key: zzc14Key("l0"), ts: zzU64("ts0")})
	}
	if nlocks >= 2 {
		r.locks = append(r.locks, &zzc14Lock{key: zzc14KeyNE("l1"), ts: zzU64("ts1")})
	}
	if nlocks >= 3 {
		r.locks = append(r.locks, &zzc14Lock{key: zzc14KeyNE("l2"), ts: zzU64("ts2")})
	}
	if nlocks >= 4 {
		r.locks = append(r.locks, &zzc14Lock{key: zzc14KeyNE("l3"), ts: zzU64("ts3")})
	}
	for i := 1; i < len(r.locks); i++ {
		zzAssume(bytes.Compare(r.locks[i-1].key, r.locks[i].key) < 0)
	}
	r.splitAt = zzChoice("split.at", 1+zzParam("maxsplitat", 2)) // 0 = none, k = the k-th resolve call
	if r.splitAt != 0 {
		r.nextSplits = zzc14Splits(zzParam("nreg2", 2), "t0", "t1")
	}
	r.start = zzc14Key("start")
	r.end = zzc14Key("end")
	// callers (rangetask.Runner) hand non-empty ranges only
	zzAssume(len(r.end) == 0 || bytes.Compare(r.start, r.end) < 0)
	stat, err := ResolveLocksForRange(context.Background(), r, r.sp, r.start, r.end, NewGcResolveLockMaxBackoffer, r.limit)
	zzAssert(err == nil, "g1.no-error")
	for _, l := range r.locks {
		in := bytes.Compare(l.key, r.start) >= 0
		if len(r.end) != 0 {
			in = zzAnd(in, bytes.Compare(l.key, r.end) < 0)
		}
		due := zzAnd(in, l.ts <= r.sp)
		zzAssert(zzImplies(due, l.handed > 0), "g1.every-old-lock-in-range-resolved")
		zzAssert(zzImplies(!due, l.handed == 0), "g1.no-other-lock-touched")
	}
	zzAssert(r.cursorOK, "g1.cursor-strictly-advances")
	zzAssert(r.inRangeOK, "g1.scans-inside-range-with-caller-arguments")
	zzAssert(r.resolveArgsOK, "g1.resolve-gets-the-scanned-locks")
	zzAssert(stat.CompletedRegions >= 1 && stat.CompletedRegions <= r.scans, "g1.stat-bounded")
}
