package latch

import (
	"sync/atomic"
	"time"
)

// C17 — latch scheduler. See DESIGN.md §3 C17.
//
// The harnesses drive the real Latches / LatchesScheduler with N transactions
// whose key sets are subsets of a small concrete key pool (chosen at run time
// so that distinct keys share a slot), whose start/commit timestamps are
// symbolic and whose arrival / release / wake-up order is a zzChoice per step.
//
// Ghost state kept by the harness (never read from the latch structures):
//   holder[key]  — the transaction that was granted key (non-stale) and has not unlocked yet
//   maxc[key]    — the largest commit timestamp published by an unlocked holder of key
//
// Obligations (labels; <h> = steps, steps4, sched, free). The verdicts of all
// returns on a path are accumulated in the world and asserted at the end of
// the harness, on the harness goroutine (one solver query per path; a failing
// assertion never fires on a background goroutine).
//   L1 <h>.exclusive            a granted (non-stale) lock never overlaps a key of another granted lock
//   L2 <h>.no-lost-wakeup       when nothing more can happen every transaction has returned and unlocked
//      <h>.returned-not-locked  a returned Lock is never in state "locked" (scheduler.Lock would panic)
//      c17.done-iff-unlocked    wakeup signals the waiter (wg.Done) iff the lock left the locked state
//   L3 <h>.stale-exact          at every return: IsStale() <=> some requested key has maxc[key] > startTS
//   L4 (no label)               release/acquire/wakeup never panic — engine reports "no-panic"

// zzPool returns n distinct concrete keys such that at least two of them share
// a slot of l and, when l has more than one slot, at least two do not.
func zzPool(l *Latches, n int) [][]byte {
	var pool [][]byte
	var slots []int
	ok := func(s int) bool {
		coll, diff := false, len(l.slots) == 1
		all := append(append([]int{}, slots...), s)
		for i := range all {
			for j := i + 1; j < len(all); j++ {
				if all[i] == all[j] {
					coll = true
				} else {
					diff = true
				}
			}
		}
		return coll && diff
	}
	for c := 0; c < 256 && len(pool) < n; c++ {
		k := []byte{byte('a' + c)}
		s := l.slotID(k)
		if len(pool) == n-1 && !ok(s) {
			continue
		}
		pool = append(pool, k)
		slots = append(slots, s)
	}
	if len(pool) != n {
		panic("zzPool: no suitable key pool")
	}
	return pool
}

// zzSubsets lists the non-empty subsets (as index lists, in *descending* index
// order so that genLock's sort has work to do) of {0..n-1} with at most m elements.
func zzSubsets(n, m int) [][]int {
	var out [][]int
	for mask := 1; mask < 1<<n; mask++ {
		var s []int
		for i := n - 1; i >= 0; i-- {
			if mask&(1<<i) != 0 {
				s = append(s, i)
			}
		}
		if len(s) <= m {
			out = append(out, s)
		}
	}
	return out
}

const (
	zzIdle = iota
	zzWaiting
	zzGranted
	zzStale
	zzReleased
)

type zzTxn struct {
	id      int
	keys    []string
	start   uint64
	lock    *Lock
	state   int
	woken   atomic.Bool   // set by the waiter goroutine after wg.Wait returned
	wokenCh chan struct{} // closed at the same moment
}

type zzWorld struct {
	latches    *Latches
	pool       [][]byte
	subsets    [][]int // key sets a transaction may take (indices into pool)
	single     [][]int // the single-key subsets (transactions >= 1 when oneBig is set)
	oneBig     bool
	bothOrders bool // two-key sets are handed to genLock in either order (symbolic)
	txns       []*zzTxn
	holder     map[string]int
	maxc       map[string]uint64
	// staleOK accumulates the L3 verdicts of all returns on this path; it is
	// asserted once at the end (one solver query per path instead of one per
	// return per re-executed prefix). With param eager=1 every return asserts.
	staleOK bool
	// exclOK / unlockedOK: L1 and "returned lock is not locked", same treatment
	exclOK, unlockedOK bool
	// background: zzOnReturn runs on transaction goroutines (ZZ_C17_free); the
	// concrete L1 checks are then only accumulated, otherwise also asserted at once
	background bool
	// narrowTS: timestamps are zzTSBase | 16 symbolic logical bits (all within
	// one physical millisecond) instead of arbitrary 64-bit values. Used by the
	// harnesses that run LatchesScheduler.run(), whose recycle trigger converts
	// commit timestamps to time.Time (udiv/urem of a 64-bit symbol otherwise).
	narrowTS bool
}

// zzWideTS spreads 8 symbolic bits over a 64-bit timestamp: the top nibble
// (bits 60..63, includes the sign bit) and the bottom nibble. 256 values, among
// them 0 (= no commit), values above 2^63 and values differing only in the low
// or only in the high word; every order type of up to 16 timestamps occurs.
// Fully free 64-bit timestamps are not used: the latch code only compares
// timestamps, and z3 needs minutes (and finally times out) to refute
// transitivity chains of five and more 64-bit comparisons.
func zzWideTS(b uint8) uint64 {
	return uint64(b>>4)<<60 | uint64(b&15)
}

// zzTSBase is ComposeTS(1_700_000_000_000 ms, 0).
const zzTSBase = uint64(1_700_000_000_000) << 18

func zzNewWorld(latches *Latches, ntxn int) *zzWorld {
	return zzNewWorldPool(latches, ntxn, zzParam("pool", 4))
}

func zzNewWorldPool(latches *Latches, ntxn, pool int) *zzWorld {
	return zzNewWorldKeys(latches, ntxn, zzPool(latches, pool))
}

// zzPoolCollide: the two colliding keys plus one key of another slot.
func zzPoolCollide(l *Latches) [][]byte {
	pool := [][]byte{[]byte(zzCollidingKeys[0]), []byte(zzCollidingKeys[1])}
	s := l.slotID(pool[0])
	for c := 0; c < 256; c++ {
		k := []byte{byte('a' + c)}
		if len(l.slots) == 1 || l.slotID(k) != s {
			return append(pool, k)
		}
	}
	panic("zzPoolCollide: no key of another slot")
}

func zzNewWorldKeys(latches *Latches, ntxn int, keys [][]byte) *zzWorld {
	w := &zzWorld{latches: latches, holder: map[string]int{}, maxc: map[string]uint64{}, staleOK: true, exclOK: true, unlockedOK: true}
	w.pool = keys
	w.subsets = zzSubsets(len(w.pool), zzParam("maxkeys", 2))
	w.single = zzSubsets(len(w.pool), 1)
	for _, k := range w.pool {
		w.maxc[string(k)] = 0
	}
	for i := 0; i < ntxn; i++ {
		w.txns = append(w.txns, &zzTxn{id: i, wokenCh: make(chan struct{})})
	}
	return w
}

// zzDrawTxn picks the key set and start timestamp of t.
func (w *zzWorld) zzDrawTxn(t *zzTxn) [][]byte {
	subsets := w.subsets
	if w.oneBig && t.id > 0 {
		subsets = w.single
	}
	sub := subsets[zzChoice("keyset", len(subsets))]
	if w.narrowTS {
		t.start = zzTSBase | uint64(zzU16("startTS.logical"))
	} else {
		t.start = zzWideTS(zzU8("startTS.bits"))
	}
	var keys [][]byte
	for _, i := range sub {
		keys = append(keys, append([]byte{}, w.pool[i]...))
		t.keys = append(t.keys, string(w.pool[i]))
	}
	if w.bothOrders && len(keys) == 2 && zzChoice("keyorder", 2) == 1 {
		keys[0], keys[1] = keys[1], keys[0]
	}
	return keys
}

// zzOnReturn records the L1/L3 verdicts at the moment transaction t's Lock
// call returns.
func (w *zzWorld) zzOnReturn(t *zzTxn) {
	w.unlockedOK = w.unlockedOK && !t.lock.isLocked()
	if !w.background {
		zzAssert(!t.lock.isLocked(), "c17.returned-not-locked")
	}
	over := false
	for _, k := range t.keys {
		over = zzOr(over, w.maxc[k] > t.start)
	}
	if zzParam("eager", 0) == 1 {
		zzAssert(t.lock.IsStale() == over, "c17.stale-exact-eager")
	}
	w.staleOK = zzAnd(w.staleOK, t.lock.IsStale() == over)
	if t.lock.IsStale() {
		t.state = zzStale
		return
	}
	t.state = zzGranted
	for _, k := range t.keys {
		_, held := w.holder[k]
		w.exclOK = w.exclOK && !held
		if !w.background {
			zzAssert(!held, "c17.exclusive")
		}
		w.holder[k] = t.id
	}
}

// zzBeforeUnlock publishes the ghost effect of unlocking t. A granted
// transaction either failed to commit (commitTS stays 0) or committed at an
// arbitrary timestamp; a stale one never sets a commit timestamp (txn.go).
func (w *zzWorld) zzBeforeUnlock(t *zzTxn) {
	if t.state == zzGranted {
		commit := w.zzDrawCommit(t)
		t.lock.SetCommitTS(commit)
		for _, k := range t.keys {
			delete(w.holder, k)
			w.maxc[k] = zzIte64(commit > w.maxc[k], commit, w.maxc[k])
		}
	}
	t.state = zzReleased
}

// zzDrawCommit: commit timestamp of granted transaction t. Wide mode: any
// zzWideTS value (0 = commit failed, also values below startTS). Narrow mode: a
// successful commit, commitTS > startTS (keeps run()'s `commitTS > startTS`
// from forking; the other cases are covered by ZZ_C17_steps).
func (w *zzWorld) zzDrawCommit(t *zzTxn) uint64 {
	if w.narrowTS {
		c := zzTSBase | uint64(zzU16("commitTS.logical"))
		zzAssume(c > t.start)
		return c
	}
	return zzWideTS(zzU8("commitTS.bits"))
}

// zzSettle lets waiter goroutines observe wg.Done. Under the engine zzRunAll is
// exact; natively we wait for the expected wake-ups (bounded) instead.
func (w *zzWorld) zzSettle() {
	zzRunAll()
	if zzInterp() {
		return
	}
	for _, t := range w.txns {
		if t.state == zzWaiting && !t.lock.isLocked() {
			select {
			case <-t.wokenCh:
			case <-time.After(2 * time.Second):
			}
		}
	}
	time.Sleep(200 * time.Microsecond)
}

// ZZ_C17_steps — L1..L4 at method granularity: arrival = genLock+acquire (as
// in LatchesScheduler.Lock), unlock = Latches.release followed, as a separate
// step, by LatchesScheduler.wakeup of the returned list (as in run()); other
// transactions may arrive between the two.
func ZZ_C17_steps() {
	v := zzSteps(zzParam("txns", 3), false).zzFinish()
	zzAssert(v.exclusive, "steps.exclusive")
	zzAssert(v.notLocked, "steps.returned-not-locked")
	zzAssert(v.allReturned, "steps.no-lost-wakeup")
	zzAssert(v.ghostEmpty, "steps.ghost-empty")
	zzAssert(v.staleExact, "steps.stale-exact")
}

// ZZ_C17_steps4 — the same with one more transaction (waiting lists of up to
// three entries, removal from the middle); to keep the path count feasible only
// the first transaction takes up to maxkeys keys, the others take one key,
// all transactions arrive before the first unlock; 2 slots, pool of pool4 (3) keys.
func ZZ_C17_steps4() {
	v := zzSteps(zzParam("txns4", 4), true).zzFinish()
	zzAssert(v.exclusive, "steps4.exclusive")
	zzAssert(v.notLocked, "steps4.returned-not-locked")
	zzAssert(v.allReturned, "steps4.no-lost-wakeup")
	zzAssert(v.ghostEmpty, "steps4.ghost-empty")
	zzAssert(v.staleExact, "steps4.stale-exact")
}

func zzSteps(ntxn int, oneBig bool) *zzWorld {
	return zzStepsOpt(ntxn, oneBig, false)
}

// zzCollidingKeys are two distinct keys with the same 32-bit murmur3 hash
// (found by a native birthday search), hence the same slot in every Latches.
var zzCollidingKeys = [2]string{"k033db", "k1e90e"}

// ZZ_C17_steps_collide — ZZ_C17_steps over a pool that contains two keys with
// the same full hash, with the keys of a two-key transaction handed to genLock
// in either order (symbolic choice): the order in which a lock takes its keys
// must not depend on the order the caller passed them in, else two
// transactions over the same two keys wait for each other for ever.
func ZZ_C17_steps_collide() {
	v := zzStepsOpt(zzParam("txns", 3), false, true).zzFinish()
	zzAssert(v.exclusive, "collide.exclusive")
	zzAssert(v.notLocked, "collide.returned-not-locked")
	zzAssert(v.allReturned, "collide.no-lost-wakeup")
	zzAssert(v.ghostEmpty, "collide.ghost-empty")
	zzAssert(v.staleExact, "collide.stale-exact")
}

func zzStepsOpt(ntxn int, oneBig, collide bool) *zzWorld {
	nslots, pool := uint(2), zzParam("pool4", 3)
	if !oneBig && !collide {
		nslots = []uint{2, 1}[zzChoice("slots", zzParam("slotcfgs", 2))]
		pool = zzParam("pool", 4)
	}
	latches := NewLatches(nslots)
	sched := &LatchesScheduler{latches: latches}
	var w *zzWorld
	if collide {
		w = zzNewWorldKeys(latches, ntxn, zzPoolCollide(latches))
		w.bothOrders = true
	} else {
		w = zzNewWorldPool(latches, ntxn, pool)
	}
	w.oneBig = oneBig

	next := 0
	var pending []*Lock // wake-up list produced by release, not yet passed to wakeup
	for step := 0; step < 3*ntxn+1; step++ {
		// enabled actions: 0 = arrive, 1 = wakeup(pending), 2+j = unlock j
		var acts []int
		if next < ntxn {
			acts = append(acts, 0)
		}
		if oneBig && next < ntxn {
			// ZZ_C17_steps4: all transactions arrive before the first unlock
		} else if len(pending) > 0 {
			acts = append(acts, 1)
		} else {
			waiting := false
			for _, t := range w.txns {
				waiting = waiting || t.state == zzWaiting
			}
			for _, t := range w.txns {
				if t.state == zzGranted || t.state == zzStale {
					acts = append(acts, 2+t.id)
					if next == ntxn && !waiting {
						// final drain: nobody is left to observe the order of the
						// remaining unlocks; take them in index order
						break
					}
				}
			}
		}
		if len(acts) == 0 {
			break
		}
		act := acts[0]
		if len(acts) > 1 {
			act = acts[zzChoice("act", len(acts))]
		}
		switch {
		case act == 0:
			t := w.txns[next]
			next++
			keys := w.zzDrawTxn(t)
			t.lock = latches.genLock(t.start, keys)
			t.lock.wg.Add(1)
			if latches.acquire(t.lock) == acquireLocked {
				t.state = zzWaiting
				go func() {
					t.lock.wg.Wait()
					t.woken.Store(true)
					close(t.wokenCh)
				}()
			} else {
				w.zzOnReturn(t)
			}
		case act == 1:
			sched.wakeup(pending)
			pending = nil
			w.zzSettle()
			for _, t := range w.txns {
				if t.state != zzWaiting {
					continue
				}
				zzAssert(t.woken.Load() == !t.lock.isLocked(), "c17.done-iff-unlocked")
				if t.woken.Load() {
					w.zzOnReturn(t)
				}
			}
		default:
			t := w.txns[act-2]
			w.zzBeforeUnlock(t)
			pending = append([]*Lock{}, latches.release(t.lock, nil)...)
		}
	}
	return w
}

// zzVerdicts are the end-of-run verdicts of a world.
type zzVerdicts struct {
	allReturned bool // L2: every transaction has returned and unlocked
	ghostEmpty  bool // the ghost holder map is empty
	staleExact  bool // L3 at every return
	exclusive   bool // L1 at every grant
	notLocked   bool // no returned Lock was in state "locked"
}

// zzFinish: nothing more can happen. The ZZ_ functions assert the verdicts
// under their own labels (vacuity guard per harness).
func (w *zzWorld) zzFinish() zzVerdicts {
	all := true
	for _, t := range w.txns {
		all = all && t.state == zzReleased
	}
	return zzVerdicts{all, len(w.holder) == 0, w.staleOK, w.exclOK, w.unlockedOK}
}
