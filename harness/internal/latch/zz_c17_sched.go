package latch

import (
	"runtime"
	"strings"
	"time"
)

// C17 through the real LatchesScheduler: NewScheduler's run() goroutine, Lock,
// UnLock and Close, with one goroutine per transaction. Uses the ghost state and
// the checks of zz_c17_steps.go.

// zzSettleSched lets the transaction goroutines and the scheduler goroutine run
// until they block. Exact under the engine (cooperative goroutines); natively
// (replay of a vector) it waits until the process is quiescent: the unlock
// channel is drained, run() is parked on it, no recycle goroutine is alive and
// every transaction goroutine still inside Lock is parked in WaitGroup.Wait.
func zzSettleSched(s *LatchesScheduler) {
	zzRunAll()
	if zzInterp() {
		return
	}
	for i := 0; i < 40000; i++ {
		if len(s.unlockCh) == 0 && zzQuiescent() {
			return
		}
		time.Sleep(50 * time.Microsecond)
	}
}

func zzQuiescent() bool {
	buf := make([]byte, 1<<20)
	buf = buf[:runtime.Stack(buf, true)]
	for _, g := range strings.Split(string(buf), "\n\n") {
		head, _, _ := strings.Cut(g, "\n")
		switch {
		case strings.Contains(g, "(*LatchesScheduler).run"):
			if !strings.Contains(head, "[chan receive") {
				return false
			}
		case strings.Contains(g, "(*Latches).recycle"):
			return false
		case strings.Contains(g, "(*LatchesScheduler).Lock"):
			parked := strings.Contains(head, "[sema") || strings.Contains(head, "[sync.WaitGroup.Wait")
			if !strings.Contains(g, "sync.(*WaitGroup).Wait") || !parked {
				return false
			}
		case strings.Contains(g, "latch.ZZ_C17_sched.func"), strings.Contains(g, "latch.ZZ_C17_free.func"):
			// a transaction goroutine outside Lock: it is about to finish or to call UnLock
			return false
		}
	}
	return true
}

// ZZ_C17_sched — L1..L4 end to end: every step either starts a goroutine that
// calls scheduler.Lock(startTS, keys) or calls scheduler.UnLock for a
// transaction whose Lock has returned; after each step all goroutines run until
// they block. At the end every Lock call must have returned (L2).
func ZZ_C17_sched() {
	ntxn := zzParam("stxns", 2)
	nslots := []uint{2, 1}[zzChoice("slots", zzParam("slotcfgs", 2))]
	s := NewScheduler(nslots)
	defer s.Close()
	w := zzNewWorld(s.latches, ntxn)
	w.narrowTS = true

	next := 0
	for step := 0; step < 2*ntxn+1; step++ {
		var acts []int // 0 = arrive, 1+j = unlock j
		if next < ntxn {
			acts = append(acts, 0)
		}
		waiting := false
		for _, t := range w.txns {
			waiting = waiting || t.state == zzWaiting
		}
		for _, t := range w.txns {
			if t.state == zzGranted || t.state == zzStale {
				acts = append(acts, 1+t.id)
				if next == ntxn && !waiting {
					break // final drain in index order (see ZZ_C17_steps)
				}
			}
		}
		if len(acts) == 0 {
			break
		}
		act := acts[0]
		if len(acts) > 1 {
			act = acts[zzChoice("act", len(acts))]
		}
		if act == 0 {
			t := w.txns[next]
			next++
			keys := w.zzDrawTxn(t)
			t.state = zzWaiting
			go func() {
				l := s.Lock(t.start, keys)
				t.lock = l
				t.woken.Store(true)
				close(t.wokenCh)
			}()
		} else {
			t := w.txns[act-1]
			w.zzBeforeUnlock(t)
			s.UnLock(t.lock)
		}
		zzSettleSched(s)
		for _, t := range w.txns {
			if t.state == zzWaiting && t.woken.Load() {
				w.zzOnReturn(t)
			}
		}
	}
	v := w.zzFinish()
	zzAssert(v.exclusive, "sched.exclusive")
	zzAssert(v.notLocked, "sched.returned-not-locked")
	zzAssert(v.allReturned, "sched.no-lost-wakeup")
	zzAssert(v.ghostEmpty, "sched.ghost-empty")
	zzAssert(v.staleExact, "sched.stale-exact")
}

// zzDeadlocked is reached only when every goroutine is blocked although not
// all transactions have finished (label in a helper: dead on correct code).
func zzDeadlocked() {
	zzAssert(false, "c17.free-all-return")
}

// ZZ_C17_free — thorough tier: the transactions run on their own
// (Lock; check; SetCommitTS; UnLock) and the engine forks over the schedule
// (zzSchedule(k): at most k non-default scheduling choices per path). The ghost
// checks run inside the transaction goroutines; between two blocking
// operations a goroutine is not pre-empted, so a check and the ghost update
// next to it are atomic. A virtual-time watchdog turns a deadlock into a
// violation of c17.free-all-return.
func ZZ_C17_free() {
	ntxn := zzParam("ftxns", 2)
	s := NewScheduler(2)
	defer s.Close()
	w := zzNewWorldPool(s.latches, ntxn, zzParam("fpool", 3))
	w.narrowTS = true
	w.background = true
	keys := make([][][]byte, ntxn)
	for i, t := range w.txns {
		keys[i] = w.zzDrawTxn(t)
	}
	commits := make([]uint64, ntxn)
	for i := range commits {
		commits[i] = w.zzDrawCommit(w.txns[i])
	}
	zzSchedule(zzParam("preempt", 2))
	finished := make(chan int, ntxn)
	for i := range w.txns {
		t := w.txns[i]
		go func() {
			t.state = zzWaiting
			t.lock = s.Lock(t.start, keys[t.id])
			w.zzOnReturn(t)
			if t.state == zzGranted {
				t.lock.SetCommitTS(commits[t.id])
				for _, k := range t.keys {
					delete(w.holder, k)
					w.maxc[k] = zzIte64(commits[t.id] > w.maxc[k], commits[t.id], w.maxc[k])
				}
			}
			t.state = zzReleased
			s.UnLock(t.lock)
			finished <- t.id
		}()
	}
	patience := time.Hour // virtual: fires only when every goroutine is blocked
	if !zzInterp() {
		patience = 5 * time.Second
	}
	watchdog := time.After(patience)
	n := 0
	for n < ntxn {
		select {
		case <-finished:
			n++
		case <-watchdog:
			zzDeadlocked()
			return
		}
	}
	v := w.zzFinish()
	zzAssert(v.exclusive, "free.exclusive")
	zzAssert(v.notLocked, "free.returned-not-locked")
	zzAssert(v.allReturned, "free.all-finished")
	zzAssert(v.ghostEmpty, "free.ghost-empty")
	zzAssert(v.staleExact, "free.stale-exact")
}
