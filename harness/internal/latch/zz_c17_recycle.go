package latch

// ZZ_C17_recycle: exclusivity and panic-freedom when a slot holds enough nodes
// for the per-slot recycling in acquireSlot to run (>= latchListCount keys in
// one slot, timestamps whose physical parts lie more than the expiry duration
// apart). Two transactions then request the same key; both must never be
// granted it at the same time, and releasing never panics. (Staleness after a
// recycle is deliberately approximate in the implementation and is not asserted
// here; it is asserted exactly in the harnesses without recycling.)
func ZZ_C17_recycle() {
	l := NewLatches(1) // a single slot: every key collides
	keys := [][]byte{[]byte("a"), []byte("b"), []byte("c"), []byte("d"), []byte("e"), []byte("f")}
	nPre := latchListCount
	// history: nPre keys were locked once, committed and released
	// Timestamps come from a table: the recycle threshold compares calendar times
	// (ts -> ms -> time.Time -> Sub), a chain of divisions that z3 decides only in
	// minutes per query when the timestamp is symbolic.
	ms := func(m int64) uint64 { return zzTSBase + uint64(m)<<18 }
	starts := []uint64{ms(1), ms(100), ms(3 * 60 * 1000), ms(6 * 60 * 1000)}
	for i := 0; i < nPre; i++ {
		s := ms(int64(i))
		c := ms(int64(10 + i))
		lk := l.genLock(s, [][]byte{keys[i]})
		zzAssume(l.acquire(lk) == acquireSuccess)
		lk.SetCommitTS(c)
		wake := l.release(lk, nil)
		zzAssert(len(wake) == 0, "recycle.history-wakes-nobody")
	}
	k := keys[zzChoice("key", len(keys))] // one of the released keys or a fresh one
	sA := starts[zzChoice("a.start", len(starts))]
	sB := starts[zzChoice("b.start", len(starts))]
	A := l.genLock(sA, [][]byte{k})
	rA := l.acquire(A)
	B := l.genLock(sB, [][]byte{k})
	rB := l.acquire(B)
	zzAssert(!(rA == acquireSuccess && rB == acquireSuccess), "recycle.exclusive")
	if rA == acquireSuccess {
		cA := sA + 1 + uint64(zzU8("a.commit.delta"))
		A.SetCommitTS(cA)
		wake := l.release(A, nil)
		if rB == acquireLocked {
			zzAssert(len(wake) == 1 && wake[0] == B, "recycle.waiter-woken")
			// the woken waiter takes its turn
			rB2 := l.acquire(B)
			zzAssert(rB2 != acquireLocked, "recycle.woken-waiter-proceeds")
			if rB2 == acquireSuccess {
				B.SetCommitTS(sB + 1)
			}
			l.release(B, nil)
		} else {
			zzAssert(len(wake) == 0, "recycle.nobody-else-woken")
		}
	} else if rB == acquireSuccess {
		B.SetCommitTS(sB + 1)
		l.release(B, nil)
	}
}
