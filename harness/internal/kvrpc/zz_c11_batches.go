package kvrpc

import (
	"bytes"

	"github.com/tikv/client-go/v2/internal/locate"
)

// ZZ_C11_key_batches: AppendKeyBatches partitions the keys of one region group
// into consecutive non-empty batches that, concatenated, are exactly the keys in
// the given order (nothing lost, duplicated or reordered), all addressed to the
// group's region, after the batches that were already there.
func ZZ_C11_key_batches() {
	n := zzChoice("n", 1+zzParam("kmax", 4))
	keys := make([][]byte, 0, n)
	if n >= 1 {
		keys = append(keys, zzBytesN("k0", 1))
	}
	if n >= 2 {
		keys = append(keys, zzBytesN("k1", 1))
	}
	if n >= 3 {
		keys = append(keys, zzBytesN("k2", 1))
	}
	if n >= 4 {
		keys = append(keys, zzBytesN("k3", 1))
	}
	if n >= 5 {
		keys = append(keys, zzBytesN("k4", 1))
	}
	limit := zzChoice("limit", 4)
	rid := locate.NewRegionVerID(7, 1, 1)
	other := locate.NewRegionVerID(8, 1, 1)
	pre := []Batch{{RegionID: other, Keys: [][]byte{{0xff}}}}
	out := AppendKeyBatches(pre, rid, keys, limit)
	zzAssert(len(out) >= 1 && out[0].RegionID == other && len(out[0].Keys) == 1, "keybatches.existing-batches-kept")
	pos := 0
	ok := true
	for _, b := range out[1:] {
		zzAssert(b.RegionID == rid, "keybatches.region")
		zzAssert(len(b.Keys) > 0, "keybatches.non-empty")
		for _, k := range b.Keys {
			if pos < len(keys) {
				ok = zzAnd(ok, bytes.Equal(k, keys[pos]))
			}
			pos++
		}
	}
	zzAssert(pos == len(keys), "keybatches.every-key-exactly-once")
	zzAssert(ok, "keybatches.order-preserved")
}

// ZZ_C11_put_batches: AppendBatches partitions the keys likewise and pairs every
// key with the value and TTL the maps hold for it (a duplicated key gets the
// same pair in every occurrence); a batch is only closed once its size reached
// the limit.
func ZZ_C11_put_batches() {
	n := zzChoice("n", 1+zzParam("pmax", 3))
	var keys, vals [][]byte
	var ttls []uint64
	if n >= 1 {
		keys, vals, ttls = append(keys, zzBytesN("k0", 1)), append(vals, zzBytes("v0", 2)), append(ttls, zzU64("t0"))
	}
	if n >= 2 {
		keys, vals, ttls = append(keys, zzBytesN("k1", 1)), append(vals, zzBytes("v1", 2)), append(ttls, zzU64("t1"))
	}
	if n >= 3 {
		keys, vals, ttls = append(keys, zzBytesN("k2", 1)), append(vals, zzBytesN("v2", 1)), append(ttls, zzU64("t2"))
	}
	// the maps as rawkv.sendBatchPut builds them: last occurrence wins
	k2v := map[string][]byte{}
	k2t := map[string]uint64{}
	for i, k := range keys {
		k2v[string(k)] = vals[i]
		k2t[string(k)] = ttls[i]
	}
	limit := 1 + zzChoice("limit", 4) // a positive size limit (callers pass rawBatchPutSize)
	rid := locate.NewRegionVerID(7, 1, 1)
	out := AppendBatches(nil, rid, keys, k2v, k2t, limit)
	pos := 0
	ok := true
	for bi, b := range out {
		zzAssert(b.RegionID == rid, "putbatches.region")
		zzAssert(len(b.Keys) > 0, "putbatches.non-empty")
		zzAssert(len(b.Values) == len(b.Keys) && len(b.TTLs) == len(b.Keys), "putbatches.aligned-lengths")
		size := 0
		for j, k := range b.Keys {
			if pos < len(keys) {
				ok = zzAnd(ok, bytes.Equal(k, keys[pos]))
				// expected pair: that of the last occurrence of the key
				var wv []byte
				var wt uint64
				for i := range keys {
					if bytes.Equal(keys[i], k) {
						wv, wt = vals[i], ttls[i]
					}
				}
				ok = zzAnd(ok, bytes.Equal(b.Values[j], wv))
				ok = zzAnd(ok, b.TTLs[j] == wt)
			}
			size += len(k) + len(b.Values[j])
			pos++
		}
		if bi < len(out)-1 {
			zzAssert(size >= limit, "putbatches.closed-only-at-limit")
		}
	}
	zzAssert(pos == len(keys), "putbatches.every-key-exactly-once")
	zzAssert(ok, "putbatches.pairs-and-order")
}
