package mocktikv

import "bytes"

// C19 — the mock store's versioned key: mvccEncode(key, ver) =
// EncodeBytes(key) ‖ EncodeUintDesc(ver).

// ZZ_C19_mvcc_roundtrip: mvccDecode(mvccEncode(k, ver)) == (k, ver) for every
// key of <= maxlen bytes and every 64-bit version; a bare EncodeBytes(k) (a
// "meta key") decodes to (k, 0); an encoded key followed by trailing bytes is
// rejected.
func ZZ_C19_mvcc_roundtrip() {
	maxlen := zzParam("maxlen", 9)
	k := zzBytes("k", maxlen)
	ver := zzU64("ver")
	enc := mvccEncode(k, ver)
	zzAssert(len(enc) == (len(k)/8+1)*9+8, "mvcc.len")
	gk, gv, err := mvccDecode(enc)
	zzAssert(err == nil, "mvcc.err")
	zzAssert(bytes.Equal(gk, k), "mvcc.key")
	zzAssert(gv == ver, "mvcc.ver")
	// the version-less prefix is a "meta key"
	mk, mv, merr := mvccDecode(enc[:len(enc)-8])
	zzAssert(merr == nil, "mvcc.meta.err")
	zzAssert(bytes.Equal(mk, k), "mvcc.meta.key")
	zzAssert(mv == 0, "mvcc.meta.ver")
	// trailing garbage is refused
	extra := zzU8("extra")
	_, _, terr := mvccDecode(append(append([]byte(nil), enc...), extra))
	zzAssert(terr != nil, "mvcc.trailing-rejected")
	// NewMvccKey / Raw agree with the key part
	if len(k) > 0 {
		zzAssert(bytes.Equal(NewMvccKey(k), enc[:len(enc)-8]), "mvcc.mvcckey-prefix")
		zzAssert(bytes.Equal(NewMvccKey(k).Raw(), k), "mvcc.mvcckey-raw")
	}
}

// ZZ_C19_mvcc_order: encoded keys sort by key ascending, then by version
// descending; the lock slot (version MaxUint64) sorts first within a key.
func ZZ_C19_mvcc_order() {
	maxlen := zzParam("maxlen", 9)
	k1 := zzBytes("k1", maxlen)
	k2 := zzBytes("k2", maxlen)
	v1, v2 := zzU64("v1"), zzU64("v2")
	c := bytes.Compare(mvccEncode(k1, v1), mvccEncode(k2, v2))
	kc := bytes.Compare(k1, k2)
	less := zzOr(kc < 0, zzAnd(kc == 0, v1 > v2))
	equal := zzAnd(kc == 0, v1 == v2)
	zzAssert((c < 0) == less, "mvcc.order.lt")
	zzAssert((c == 0) == equal, "mvcc.order.eq")
	zzAssert(bytes.Compare(mvccEncode(k1, lockVer), mvccEncode(k1, v1)) <= 0, "mvcc.order.lock-first")
}
