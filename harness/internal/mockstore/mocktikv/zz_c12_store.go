package mocktikv

import (
	"encoding/binary"
	"io"

	"github.com/pingcap/goleveldb/leveldb"
	"github.com/pingcap/goleveldb/leveldb/iterator"
	"github.com/pingcap/goleveldb/leveldb/opt"
	"github.com/pingcap/goleveldb/leveldb/util"
	"github.com/pingcap/kvproto/pkg/kvrpcpb"
	"github.com/pkg/errors"
	"github.com/tikv/client-go/v2/internal/mockstore/deadlock"
)

// C12 — the goleveldb seam.
//
// goleveldb is not executed by the engine. MVCCLevelDB uses it through
//   (*leveldb.DB).NewIterator / Write / Get / Put / Delete
//   (*leveldb.Batch).Put / Delete / Len / Reset
// and through the iterator.Iterator interface. Those functions are replaced by
// function seams over zzLevel: one sorted slice of (key, value) byte-string
// pairs per *leveldb.DB, copy-on-write so that an iterator created earlier
// keeps reading its snapshot (as a goleveldb iterator does), and one recorded
// operation list per *leveldb.Batch pointer (applied atomically, in order, by
// Write). Contract modelled: bytewise key order, Range{Start inclusive, Limit
// exclusive, nil = open}, goleveldb's dbIter state machine (before-first /
// positioned / after-last / released), Put and Delete copy their arguments.
// Never modelled: I/O errors (Write/Get never fail), compaction, snapshots
// other than the iterator's.

type zzEnt struct{ k, v []byte }

type zzOp struct {
	del  bool
	k, v []byte
}

type zzLevel struct {
	native  bool // running natively over the real goleveldb (replay / cross-validation)
	ents    map[*leveldb.DB][]zzEnt
	batches map[*leveldb.Batch][]zzOp
	writes  int // ghost: number of (*DB).Write calls
	iters   int // ghost: iterators created and not yet released
}

// all returns every (key, value) pair of db in key order. Under the engine that
// is the seam's list; natively it is read from the real goleveldb.
func (l *zzLevel) all(db *leveldb.DB) []zzEnt {
	if !l.native {
		return l.ents[db]
	}
	var out []zzEnt
	it := db.NewIterator(nil, nil)
	for it.Next() {
		out = append(out, zzEnt{zzClone(it.Key()), zzClone(it.Value())})
	}
	it.Release()
	return out
}

func zzClone(b []byte) []byte {
	out := make([]byte, len(b))
	copy(out, b)
	return out
}

// zzBE64 reads 8 bytes as a big-endian integer.
func zzBE64(b []byte) uint64 {
	return uint64(b[0])<<56 | uint64(b[1])<<48 | uint64(b[2])<<40 | uint64(b[3])<<32 |
		uint64(b[4])<<24 | uint64(b[5])<<16 | uint64(b[6])<<8 | uint64(b[7])
}

// zzCmp compares two byte strings lexicographically (bytes.Compare order) and
// returns (a < b, a == b) as two non-forking booleans. Equal-length strings are
// compared in 8-byte big-endian words aligned to the end (byte order and
// big-endian integer order coincide), which keeps the solver terms small when
// the last 8 bytes are an encoded timestamp.
func zzCmp(a, b []byte) (less, eq bool) {
	n := len(a)
	if len(b) < n {
		n = len(b)
	}
	eq = true
	i := 0
	if len(a) == len(b) {
		for ; i < n%8; i++ {
			less = zzOr(less, zzAnd(eq, a[i] < b[i]))
			eq = zzAnd(eq, a[i] == b[i])
		}
		for ; i+8 <= n; i += 8 {
			x, y := zzBE64(a[i:i+8]), zzBE64(b[i:i+8])
			less = zzOr(less, zzAnd(eq, x < y))
			eq = zzAnd(eq, x == y)
		}
	}
	for ; i < n; i++ {
		less = zzOr(less, zzAnd(eq, a[i] < b[i]))
		eq = zzAnd(eq, a[i] == b[i])
	}
	if len(a) != len(b) {
		less = zzOr(less, zzAnd(eq, len(a) < len(b)))
		eq = false
	}
	return less, eq
}

// zzLowerBound returns the index of the first entry with key >= k and whether
// that entry's key equals k.
func zzLowerBound(ents []zzEnt, k []byte) (int, bool) {
	for i := range ents {
		less, eq := zzCmp(ents[i].k, k)
		if !less {
			if eq {
				return i, true
			}
			return i, false
		}
	}
	return len(ents), false
}

func (l *zzLevel) apply(db *leveldb.DB, ops []zzOp) {
	cur := l.ents[db]
	for _, op := range ops {
		i, eq := zzLowerBound(cur, op.k)
		next := make([]zzEnt, 0, len(cur)+1)
		next = append(next, cur[:i]...)
		if !op.del {
			next = append(next, zzEnt{op.k, op.v})
		}
		if eq {
			next = append(next, cur[i+1:]...)
		} else {
			next = append(next, cur[i:]...)
		}
		cur = next
	}
	l.ents[db] = cur
}

// zzIter implements goleveldb's iterator.Iterator over a snapshot.
type zzIter struct {
	l        *zzLevel
	ents     []zzEnt
	pos      int // -1 before first, len(ents) after last
	released bool
	err      error
	releaser util.Releaser
}

func (it *zzIter) bad() bool {
	if it.err != nil {
		return true
	}
	if it.released {
		it.err = iterator.ErrIterReleased
		return true
	}
	return false
}

func (it *zzIter) First() bool {
	if it.bad() {
		return false
	}
	if len(it.ents) == 0 {
		it.pos = 0 // after last
		return false
	}
	it.pos = 0
	return true
}

func (it *zzIter) Last() bool {
	if it.bad() {
		return false
	}
	it.pos = len(it.ents) - 1 // -1 = before first when empty
	return it.pos >= 0
}

func (it *zzIter) Seek(key []byte) bool {
	if it.bad() {
		return false
	}
	it.pos, _ = zzLowerBound(it.ents, key)
	return it.pos < len(it.ents)
}

func (it *zzIter) Next() bool {
	if it.err != nil || (!it.released && it.pos >= len(it.ents)) {
		return false
	}
	if it.bad() {
		return false
	}
	it.pos++
	return it.pos < len(it.ents)
}

func (it *zzIter) Prev() bool {
	if it.err != nil || (!it.released && it.pos < 0) {
		return false
	}
	if it.bad() {
		return false
	}
	it.pos--
	return it.pos >= 0
}

func (it *zzIter) Valid() bool {
	return it.err == nil && !it.released && it.pos >= 0 && it.pos < len(it.ents)
}

func (it *zzIter) Key() []byte {
	if !it.Valid() {
		return nil
	}
	return it.ents[it.pos].k
}

func (it *zzIter) Value() []byte {
	if !it.Valid() {
		return nil
	}
	return it.ents[it.pos].v
}

func (it *zzIter) Error() error { return it.err }

func (it *zzIter) Release() {
	if !it.released {
		it.released = true
		it.l.iters--
		if it.releaser != nil {
			it.releaser.Release()
			it.releaser = nil
		}
	}
}

func (it *zzIter) SetReleaser(r util.Releaser) {
	if it.released {
		panic(util.ErrReleased)
	}
	if it.releaser != nil && r != nil {
		panic(util.ErrHasReleaser)
	}
	it.releaser = r
}

var _ iterator.Iterator = (*zzIter)(nil)

// zzNewStore builds an MVCCLevelDB over the seam (what NewMVCCLevelDB("")
// builds, minus leveldb.Open) and installs the function seams.
func zzNewStore() (*MVCCLevelDB, *zzLevel) {
	if !zzInterp() {
		// native run: the real store over the real goleveldb (in-memory storage)
		real, err := NewMVCCLevelDB("")
		if err != nil {
			panic(err)
		}
		return real, &zzLevel{native: true}
	}
	l := &zzLevel{ents: map[*leveldb.DB][]zzEnt{}, batches: map[*leveldb.Batch][]zzOp{}}
	db := &leveldb.DB{}
	store := &MVCCLevelDB{
		dbs:              map[string]*leveldb.DB{defaultCf: db},
		deadlockDetector: deadlock.NewDetector(),
	}
	zzStub("(*github.com/pingcap/goleveldb/leveldb.DB).NewIterator",
		func(d *leveldb.DB, r *util.Range, ro *opt.ReadOptions) iterator.Iterator {
			ents := l.ents[d]
			lo, hi := 0, len(ents)
			if r != nil && r.Start != nil {
				lo, _ = zzLowerBound(ents, r.Start)
			}
			if r != nil && r.Limit != nil {
				hi, _ = zzLowerBound(ents, r.Limit)
			}
			if hi < lo {
				hi = lo
			}
			l.iters++
			return &zzIter{l: l, ents: ents[lo:hi], pos: -1}
		})
	zzStub("(*github.com/pingcap/goleveldb/leveldb.DB).Write",
		func(d *leveldb.DB, b *leveldb.Batch, wo *opt.WriteOptions) error {
			l.writes++
			if b == nil {
				return nil
			}
			l.apply(d, l.batches[b])
			return nil
		})
	zzStub("(*github.com/pingcap/goleveldb/leveldb.DB).Get",
		func(d *leveldb.DB, key []byte, ro *opt.ReadOptions) ([]byte, error) {
			ents := l.ents[d]
			i, eq := zzLowerBound(ents, key)
			if !eq {
				return nil, leveldb.ErrNotFound
			}
			return zzClone(ents[i].v), nil
		})
	zzStub("(*github.com/pingcap/goleveldb/leveldb.DB).Put",
		func(d *leveldb.DB, key, value []byte, wo *opt.WriteOptions) error {
			l.apply(d, []zzOp{{k: zzClone(key), v: zzClone(value)}})
			return nil
		})
	zzStub("(*github.com/pingcap/goleveldb/leveldb.DB).Delete",
		func(d *leveldb.DB, key []byte, wo *opt.WriteOptions) error {
			l.apply(d, []zzOp{{del: true, k: zzClone(key)}})
			return nil
		})
	zzStub("(*github.com/pingcap/goleveldb/leveldb.DB).Close", func(d *leveldb.DB) error { return nil })
	zzStub("(*github.com/pingcap/goleveldb/leveldb.Batch).Put",
		func(b *leveldb.Batch, key, value []byte) {
			l.batches[b] = append(l.batches[b], zzOp{k: zzClone(key), v: zzClone(value)})
		})
	zzStub("(*github.com/pingcap/goleveldb/leveldb.Batch).Delete",
		func(b *leveldb.Batch, key []byte) {
			l.batches[b] = append(l.batches[b], zzOp{del: true, k: zzClone(key)})
		})
	zzStub("(*github.com/pingcap/goleveldb/leveldb.Batch).Len",
		func(b *leveldb.Batch) int { return len(l.batches[b]) })
	zzStub("(*github.com/pingcap/goleveldb/leveldb.Batch).Reset",
		func(b *leveldb.Batch) { delete(l.batches, b) })
	// encoding/binary handles the named type kvrpcpb.Op (and *kvrpcpb.Op) by
	// reflection, which the engine does not execute. For an int32-kind named
	// type reflection writes/reads the 4 little-endian bytes of the int32; the
	// two seams below do that for exactly this type and defer to the real
	// encoding/binary for every other operand.
	zzStub("(*github.com/tikv/client-go/v2/internal/mockstore/mocktikv.marshalHelper).WriteNumber",
		func(mh *marshalHelper, buf io.Writer, n interface{}) {
			if mh.err != nil {
				return
			}
			if op, ok := n.(kvrpcpb.Op); ok {
				n = int32(op)
			}
			if err := binary.Write(buf, binary.LittleEndian, n); err != nil {
				mh.err = errors.WithStack(err)
			}
		})
	zzStub("(*github.com/tikv/client-go/v2/internal/mockstore/mocktikv.marshalHelper).ReadNumber",
		func(mh *marshalHelper, r io.Reader, n interface{}) {
			if mh.err != nil {
				return
			}
			var err error
			if op, ok := n.(*kvrpcpb.Op); ok {
				var x int32
				err = binary.Read(r, binary.LittleEndian, &x)
				*op = kvrpcpb.Op(x)
			} else {
				err = binary.Read(r, binary.LittleEndian, n)
			}
			if err != nil {
				mh.err = errors.WithStack(err)
			}
		})
	// farm.Fingerprint64 is assembly on amd64 (no SSA body). Its only use is the
	// key hash handed to the deadlock detector and echoed in ErrDeadlock; any
	// deterministic function of the key honours that contract.
	zzStub("github.com/dgryski/go-farm.Fingerprint64", func(b []byte) uint64 {
		h := uint64(14695981039346656037)
		for _, c := range b {
			h = (h ^ uint64(c)) * 1099511628211
		}
		return h
	})
	return store, l
}
