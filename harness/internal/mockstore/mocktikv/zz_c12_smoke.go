package mocktikv

import (
	"bytes"

	"github.com/pingcap/kvproto/pkg/kvrpcpb"
)

// ZZ_C12_smoke: prewrite + commit + read on one key, symbolic timestamps.
func ZZ_C12_smoke() {
	store, l := zzNewStore()
	s, c, r := zzU64("s"), zzU64("c"), zzU64("r")
	zzAssume(s > 0 && s < c && c < lockVer && r != s && r != c && r < lockVer)
	val := zzBytesN("v", 2)
	errs := store.Prewrite(&kvrpcpb.PrewriteRequest{
		Mutations:    []*kvrpcpb.Mutation{{Op: kvrpcpb.Op_Put, Key: []byte("a"), Value: val}},
		PrimaryLock:  []byte("a"),
		StartVersion: s,
		LockTtl:      10,
	})
	zzAssert(len(errs) == 1 && errs[0] == nil, "smoke.prewrite")
	zzAssert(len(l.all(store.getDB(""))) == 1, "smoke.one-lock")
	got, err := store.Get([]byte("a"), r, kvrpcpb.IsolationLevel_SI, nil)
	if r > s {
		_, locked := err.(*ErrLocked)
		zzAssert(locked, "smoke.locked")
	} else {
		zzAssert(err == nil && got == nil, "smoke.before-lock")
	}
	zzAssert(store.Commit([][]byte{[]byte("a")}, s, c) == nil, "smoke.commit")
	got, err = store.Get([]byte("a"), r, kvrpcpb.IsolationLevel_SI, nil)
	zzAssert(err == nil, "smoke.get-err")
	if r > c {
		zzAssert(bytes.Equal(got, val), "smoke.visible")
	} else {
		zzAssert(got == nil, "smoke.invisible")
	}
	zzAssert(l.iters == 0, "smoke.iters-released")
}
