package mocktikv

import (
	"bytes"
	"math"

	"github.com/pingcap/kvproto/pkg/kvrpcpb"
)

// C12 — algebraic laws of the mock MVCC store. Every law is checked in every
// state reached by a base history plus a prefix of arbitrary commands (see
// zz_c12_world.go: keyAndPrefix / twoKeyState).

// ---- idempotence -----------------------------------------------------------

// ZZ_C12_idem_prewrite: a prewrite that succeeded, repeated unchanged, succeeds
// again and changes nothing (prewrite over the transaction's own lock).
func ZZ_C12_idem_prewrite() {
	w := zzNewWorld()
	k := w.keyAndPrefixDeep(false)
	t := w.pickTxn("txn")
	zzAssume(!w.isDone(k, t))
	a := w.drawPrewrite("pw")
	if w.prewrite(k, t, a) != nil {
		return
	}
	r := w.raw(zzKeys[k])
	zzAssert(r.lockedBy(t.start), "idem.prewrite.lock-present")
	zzAssert(r.lock.op != kvrpcpb.Op_PessimisticLock, "idem.prewrite.lock-is-prewrite-lock")
	s1 := w.snapshot()
	zzAssert(w.prewrite(k, t, a) == nil, "idem.prewrite.again-ok")
	zzAssert(zzSame(s1, w.snapshot()), "idem.prewrite.again-no-change")
}

// ZZ_C12_idem_commit: committing a committed key again succeeds and changes
// nothing.
func ZZ_C12_idem_commit() {
	w := zzNewWorld()
	k := w.keyAndPrefixDeep(false)
	t := w.pickTxn("txn")
	keys := [][]byte{zzKeys[k]}
	if w.store.Commit(keys, t.start, t.commit) != nil {
		return
	}
	s1 := w.snapshot()
	zzAssert(!w.raw(zzKeys[k]).lockedBy(t.start), "idem.commit.lock-gone")
	zzAssert(w.store.Commit(keys, t.start, t.commit) == nil, "idem.commit.again-ok")
	zzAssert(zzSame(s1, w.snapshot()), "idem.commit.again-no-change")
}

// ZZ_C12_idem_rollback: rolling back a rolled-back key again (by Rollback,
// Cleanup, CheckTxnStatus or ResolveLock) succeeds, reports "rolled back" and
// changes nothing on that key.
func ZZ_C12_idem_rollback() {
	w := zzNewWorld()
	k := w.keyAndPrefix()
	t := w.pickTxn("txn")
	keys := [][]byte{zzKeys[k]}
	if w.store.Rollback(keys, t.start) != nil {
		return
	}
	s1 := w.snapshotKey(k)
	zzAssert(!w.raw(zzKeys[k]).lockedBy(t.start), "idem.rollback.lock-gone")
	switch zzChoice("again", 4) {
	case 0:
		zzAssert(w.store.Rollback(keys, t.start) == nil, "idem.rollback.again-ok")
	case 1:
		zzAssert(w.store.Cleanup(zzKeys[k], t.start, zzU64("cur")) == nil, "idem.rollback.cleanup-ok")
	case 2:
		ttl, cts, act, err := w.store.CheckTxnStatus(zzKeys[k], t.start, w.foreignTS("caller"), zzU64("cur"), zzBool("rbne"), zzBool("rpl"))
		zzAssert(err == nil, "idem.rollback.status-ok")
		zzAssert(zzAnd(ttl == 0, cts == 0), "idem.rollback.status-says-rolled-back")
		zzAssert(act == kvrpcpb.Action_NoAction, "idem.rollback.status-no-action")
	case 3:
		zzAssert(w.store.ResolveLock(nil, nil, t.start, 0) == nil, "idem.rollback.resolve-ok")
	}
	zzAssert(zzSame(s1, w.snapshotKey(k)), "idem.rollback.again-no-change")
}

// ZZ_C12_idem_status: a status check repeated with the same arguments changes
// nothing the second time, and from then on gives the same answer.
func ZZ_C12_idem_status() {
	w := zzNewWorld()
	k := w.keyAndPrefix()
	t := w.pickTxn("txn")
	caller, cur, rbne, rpl := w.foreignTS("caller"), zzU64("cur"), zzBool("rbne"), zzBool("rpl")
	ttl1, cts1, _, err1 := w.store.CheckTxnStatus(zzKeys[k], t.start, caller, cur, rbne, rpl)
	s1 := w.snapshot()
	ttl2, cts2, act2, err2 := w.store.CheckTxnStatus(zzKeys[k], t.start, caller, cur, rbne, rpl)
	zzAssert(zzSame(s1, w.snapshot()), "idem.status.second-no-change")
	if err1 == nil && err2 == nil {
		zzAssert(zzAnd(ttl1 == ttl2, cts1 == cts2), "idem.status.second-same-ttl-and-commit-ts")
	}
	ttl3, cts3, act3, err3 := w.store.CheckTxnStatus(zzKeys[k], t.start, caller, cur, rbne, rpl)
	zzAssert((err2 == nil) == (err3 == nil), "idem.status.third-same-error")
	zzAssert(zzAnd(ttl2 == ttl3, zzAnd(cts2 == cts3, act2 == act3)), "idem.status.third-same-answer")
	zzAssert(zzSame(s1, w.snapshot()), "idem.status.third-no-change")
}

// ZZ_C12_idem_resolve: resolving a transaction twice (commit or rollback):
// the second call succeeds and changes nothing.
func ZZ_C12_idem_resolve() {
	w := zzNewWorld()
	w.keyAndPrefix()
	t := w.pickTxn("txn")
	cts := zzIte64(zzBool("commit"), t.commit, 0)
	if w.store.ResolveLock(nil, nil, t.start, cts) != nil {
		return
	}
	s1 := w.snapshot()
	zzAssert(w.store.ResolveLock(nil, nil, t.start, cts) == nil, "idem.resolve.again-ok")
	zzAssert(zzSame(s1, w.snapshot()), "idem.resolve.again-no-change")
}

// ZZ_C12_empty_noops: commit, resolve, pessimistic rollback and heartbeat leave
// an empty store empty (justifies leaving them out of prefixes while the store
// is empty, see zzW.step).
func ZZ_C12_empty_noops() {
	w := zzNewWorld()
	kind := []int{zzCmdCommit, zzCmdResolve, zzCmdPRollback, zzCmdHeartbeat}[zzChoice("kind", 4)]
	w.exec("c", kind, zzChoice("key", 2), w.pickTxn("txn"))
	zzAssert(len(w.snapshot()) == 0, "empty.stays-empty")
}

// ---- invariants ------------------------------------------------------------

// ZZ_C12_invariants: in every reachable state, on one key: no transaction has
// both a commit record and a rollback record; a write record's key version is
// its commit ts; a rollback record sits at its start ts, a commit record above
// its start ts; a lock's transaction has no write record on the key.
func ZZ_C12_invariants() {
	w := zzNewWorld()
	k := w.keyAndPrefixDeep(false)
	r := w.raw(zzKeys[k])
	for i := range r.vals {
		v := r.vals[i]
		zzAssert(r.vers[i] == v.commitTS, "inv.version-is-commit-ts")
		if v.valueType == typeRollback {
			zzAssert(v.commitTS == v.startTS, "inv.rollback-at-start-ts")
		} else {
			zzAssert(v.commitTS > v.startTS, "inv.commit-above-start-ts")
		}
		for j := i + 1; j < len(r.vals); j++ {
			u := r.vals[j]
			both := zzAnd(u.startTS == v.startTS, (u.valueType == typeRollback) != (v.valueType == typeRollback))
			zzAssert(!both, "inv.never-commit-and-rollback")
			zzAssert(r.vers[i] > r.vers[j], "inv.versions-descending")
		}
		if r.lock != nil {
			zzAssert(r.lock.startTS != v.startTS, "inv.lock-xor-record")
		}
	}
}

// ZZ_C12_commit_xor_rollback: by their answers, too, a transaction is never
// both committed and rolled back on a key: after a successful commit a
// rollback / cleanup is refused with "already committed" and a status check
// reports the commit ts; after a successful rollback a commit is refused.
// Neither attempt changes anything.
func ZZ_C12_commit_xor_rollback() {
	w := zzNewWorld()
	k := w.keyAndPrefix()
	t := w.pickTxn("txn")
	key := zzKeys[k]
	keys := [][]byte{key}
	if zzChoice("first", 2) == 0 {
		if w.store.Commit(keys, t.start, t.commit) != nil {
			return
		}
		s1 := w.snapshotKey(k)
		switch zzChoice("then", 3) {
		case 0:
			_, ok := w.store.Rollback(keys, t.start).(ErrAlreadyCommitted)
			zzAssert(ok, "xor.rollback-after-commit-refused")
		case 1:
			_, ok := w.store.Cleanup(key, t.start, zzU64("cur")).(ErrAlreadyCommitted)
			zzAssert(ok, "xor.cleanup-after-commit-refused")
		case 2:
			ttl, cts, _, err := w.store.CheckTxnStatus(key, t.start, w.foreignTS("caller"), zzU64("cur"), zzBool("rbne"), zzBool("rpl"))
			zzAssert(err == nil, "xor.status-after-commit-ok")
			zzAssert(zzAnd(ttl == 0, cts == t.commit), "xor.status-after-commit-says-committed")
		}
		zzAssert(zzSame(s1, w.snapshotKey(k)), "xor.after-commit-no-change")
		return
	}
	if w.store.Rollback(keys, t.start) != nil {
		return
	}
	s1 := w.snapshotKey(k)
	zzAssert(w.store.Commit(keys, t.start, t.commit) != nil, "xor.commit-after-rollback-refused")
	zzAssert(zzSame(s1, w.snapshotKey(k)), "xor.after-rollback-no-change")
}

// ---- rejection of late lock requests ---------------------------------------

// ZZ_C12_after_final: once a transaction is committed or rolled back on a key
// (by Commit, Rollback, Cleanup, CheckTxnStatus, ResolveLock), a prewrite or a
// pessimistic lock request of that transaction on that key is rejected and
// changes nothing.
func ZZ_C12_after_final() {
	w := zzNewWorld()
	k := w.keyAndPrefixWide()
	t := w.pickTxn("txn")
	key := zzKeys[k]
	by := zzChoice("by", 6)
	final := false
	switch by {
	case 0:
		final = w.store.Commit([][]byte{key}, t.start, t.commit) == nil
	case 1:
		final = w.store.Rollback([][]byte{key}, t.start) == nil
	case 2:
		final = w.store.Cleanup(key, t.start, zzU64("cur")) == nil
		zzNote("finding", "cleanup-no-marker")
	case 3:
		_, _, act, err := w.store.CheckTxnStatus(key, t.start, w.foreignTS("caller"), zzU64("cur"), zzBool("rbne"), zzBool("rpl"))
		// final unless the lock is still there or only a pessimistic lock was removed
		final = err == nil && act != kvrpcpb.Action_TTLExpirePessimisticRollback && act != kvrpcpb.Action_LockNotExistDoNothing &&
			!w.raw(key).lockedBy(t.start)
	case 4:
		had := w.raw(key).lockedBy(t.start)
		final = w.store.ResolveLock(nil, nil, t.start, 0) == nil && had
	case 5:
		had := w.raw(key).lockedBy(t.start)
		final = w.store.ResolveLock(nil, nil, t.start, t.commit) == nil && had
	}
	if !final {
		return
	}
	s1 := w.snapshot()
	rejected := false
	if zzChoice("req", zzParam("lockreqs", 2)) == 0 {
		a := w.drawPrewrite("pw")
		zzAssume(a.op == kvrpcpb.Op_Put) // the kind of mutation plays no part in the rejection
		rejected = w.prewrite(k, t, a) != nil
	} else {
		rejected = len(w.plock(k, t, w.drawTTL("ttl"))) != 0
	}
	switch by {
	case 0:
		zzAssert(rejected, "final.commit.lock-request-rejected")
	case 1:
		zzAssert(rejected, "final.rollback.lock-request-rejected")
	case 2:
		zzAssert(rejected, "final.cleanup.lock-request-rejected")
	case 3:
		zzAssert(rejected, "final.status.lock-request-rejected")
	case 4:
		zzAssert(rejected, "final.resolve-rollback.lock-request-rejected")
	case 5:
		zzAssert(rejected, "final.resolve-commit.lock-request-rejected")
	}
	zzAssert(zzSame(s1, w.snapshot()), "final.rejected-request-no-change")
}

// ---- lock attributes -------------------------------------------------------

func zzLockSameExcept(a, b *mvccLock, ttl, minC bool) bool {
	ok := zzAnd(a.startTS == b.startTS, zzAnd(a.op == b.op, zzAnd(a.forUpdateTS == b.forUpdateTS, a.txnSize == b.txnSize)))
	ok = zzAnd(ok, zzAnd(bytes.Equal(a.primary, b.primary), bytes.Equal(a.value, b.value)))
	if !ttl {
		ok = zzAnd(ok, a.ttl == b.ttl)
	}
	if !minC {
		ok = zzAnd(ok, a.minCommitTS == b.minCommitTS)
	}
	return ok
}

// ZZ_C12_pessimistic_rollback: a pessimistic rollback (by key list or by range)
// removes the transaction's pessimistic lock if its for-update ts is not above
// the request's, leaves no rollback marker, and otherwise changes nothing.
func ZZ_C12_pessimistic_rollback() {
	w := zzNewWorld()
	k := w.keyAndPrefix()
	t := w.pickTxn("txn")
	key := zzKeys[k]
	r0 := w.raw(key)
	s0 := w.snapshot()
	fu := zzU64("fu")
	var keys [][]byte
	if zzChoice("form", 2) == 0 {
		keys = [][]byte{key}
	}
	zzAssert(!zzErrs(w.store.PessimisticRollback(nil, nil, keys, t.start, fu)), "prollback.no-error")
	if r0.lockedBy(t.start) && r0.lock.op == kvrpcpb.Op_PessimisticLock && r0.lock.forUpdateTS <= fu {
		r1 := w.raw(key)
		zzAssert(r1.lock == nil, "prollback.lock-removed")
		zzAssert(len(w.snapshot()) == len(s0)-1, "prollback.no-marker-left")
		return
	}
	zzAssert(zzSame(s0, w.snapshot()), "prollback.otherwise-no-change")
}

// ZZ_C12_heartbeat: a heartbeat answers max(old ttl, advised ttl), stores it,
// touches nothing else, and fails (changing nothing) exactly when the primary
// lock of the transaction is not there.
func ZZ_C12_heartbeat() {
	w := zzNewWorld()
	k := w.keyAndPrefixDeep(false)
	t := w.pickTxn("txn")
	key := zzKeys[k]
	r0 := w.raw(key)
	s0 := w.snapshot()
	advise := zzU64("advise")
	ttl, err := w.store.TxnHeartBeat(key, t.start, advise)
	own := r0.lockedBy(t.start) && bytes.Equal(r0.lock.primary, key)
	if err != nil {
		zzAssert(!own, "heartbeat.fails-only-without-primary-lock")
		zzAssert(zzSame(s0, w.snapshot()), "heartbeat.failure-no-change")
		return
	}
	zzAssert(own, "heartbeat.ok-only-on-own-primary-lock")
	r1 := w.raw(key)
	zzAssert(r1.lockedBy(t.start), "heartbeat.lock-kept")
	zzAssert(ttl >= r0.lock.ttl, "heartbeat.never-lowers-ttl")
	zzAssert(ttl == zzIte64(advise > r0.lock.ttl, advise, r0.lock.ttl), "heartbeat.answer-is-max")
	zzAssert(r1.lock.ttl == ttl, "heartbeat.stored-ttl-is-answer")
	zzAssert(zzLockSameExcept(r0.lock, r1.lock, true, false), "heartbeat.rest-of-lock-unchanged")
	zzAssert(len(s0) == len(w.snapshot()), "heartbeat.no-record-added")
}

// ZZ_C12_min_commit_push: a status check never lowers a lock's min-commit-ts;
// when it reports MinCommitTSPushed for a caller ts below MaxUint64 — and
// whenever the surviving lock carried a non-zero min-commit-ts — the stored
// min-commit-ts is above the caller's start ts afterwards; nothing else of the
// lock changes.
func ZZ_C12_min_commit_push() {
	w := zzNewWorld()
	k := w.keyAndPrefix()
	t := w.pickTxn("txn")
	key := zzKeys[k]
	r0 := w.raw(key)
	caller := w.foreignTS("caller")
	_, _, act, err := w.store.CheckTxnStatus(key, t.start, caller, zzU64("cur"), zzBool("rbne"), zzBool("rpl"))
	r1 := w.raw(key)
	if !(r0.lockedBy(t.start) && r1.lockedBy(t.start)) {
		return
	}
	zzAssert(err == nil, "push.live-lock-no-error")
	zzAssert(r1.lock.minCommitTS >= r0.lock.minCommitTS, "push.never-lowers-min-commit-ts")
	if act == kvrpcpb.Action_MinCommitTSPushed {
		zzAssert(r1.lock.minCommitTS > caller, "push.reported-pushed-is-above-caller")
	}
	if r0.lock.minCommitTS > 0 {
		zzAssert(act == kvrpcpb.Action_MinCommitTSPushed, "push.large-txn-lock-reports-pushed")
		zzAssert(r1.lock.minCommitTS > caller, "push.min-commit-ts-above-caller")
	}
	zzAssert(zzLockSameExcept(r0.lock, r1.lock, false, true), "push.rest-of-lock-unchanged")
}

// ZZ_C12_prewrite_keeps_pushes: a prewrite over the transaction's own lock (the pessimistic lock it
// converts, or an earlier prewrite lock) never lowers the lock's min-commit-ts or its ttl: what a
// reader's check-txn-status or the ttl manager's heart-beat has pushed stays pushed.
func ZZ_C12_prewrite_keeps_pushes() {
	w := zzNewWorld()
	k := w.keyAndPrefix()
	t := w.pickTxn("txn")
	key := zzKeys[k]
	r0 := w.raw(key)
	if !r0.lockedBy(t.start) {
		return
	}
	a := w.drawPrewrite("pw")
	if w.prewrite(k, t, a) != nil {
		return
	}
	r1 := w.raw(key)
	zzAssert(r1.lockedBy(t.start), "prewrite-own.lock-present")
	if k == 0 {
		// mocktikv keeps a min-commit-ts on the primary lock only (readers push it there through
		// check-txn-status); a prewrite lock of a secondary key carries none by design
		zzAssert(r1.lock.minCommitTS >= r0.lock.minCommitTS, "prewrite-own.never-lowers-min-commit-ts")
	}
	zzAssert(r1.lock.ttl >= r0.lock.ttl, "prewrite-own.never-lowers-ttl")
}

// ZZ_C12_commit_min_commit_ts: a commit of the transaction's own lock is
// rejected (changing nothing) exactly when the commit ts is below the lock's
// min-commit-ts; otherwise it succeeds, removes the lock and leaves one record
// at the commit ts.
func ZZ_C12_commit_min_commit_ts() {
	w := zzNewWorld()
	k := w.keyAndPrefixDeep(false)
	t := w.pickTxn("txn")
	key := zzKeys[k]
	r0 := w.raw(key)
	if !r0.lockedBy(t.start) {
		return
	}
	cts := w.foreignTS("cts")
	zzAssume(cts > t.start)
	s0 := w.snapshot()
	err := w.store.Commit([][]byte{key}, t.start, cts)
	if cts < r0.lock.minCommitTS {
		_, expired := err.(*ErrCommitTSExpired)
		zzAssert(expired, "commit.below-min-commit-ts-rejected")
		zzAssert(zzSame(s0, w.snapshot()), "commit.rejected-no-change")
		return
	}
	zzAssert(err == nil, "commit.at-or-above-min-commit-ts-ok")
	r1 := w.raw(key)
	zzAssert(r1.lock == nil, "commit.lock-removed")
	n := 0
	for i := range r1.vals {
		if r1.vals[i].startTS == t.start {
			n++
			zzAssert(zzAnd(r1.vals[i].commitTS == cts, r1.vals[i].valueType != typeRollback), "commit.record-at-commit-ts")
		}
	}
	zzAssert(n == 1, "commit.one-record")
	zzAssert(len(r1.vals) == len(r0.vals)+1, "commit.other-records-kept")
}

// ---- reads -----------------------------------------------------------------

// zzExp is what a read of one key at ts must return according to the records in
// the store, as symbolic terms (computed without forking): blocked by the lock
// (start ts <= ts, a put or delete lock, not in the resolved set, snapshot
// isolation only), else the newest put/delete with commit ts <= ts.
type zzExp struct {
	blocked   bool
	lockStart uint64
	lockTTL   uint64
	has       bool // a put is visible
	val       uint64
	cts       uint64
}

func zzExpect(r zzRaw, ts uint64, si bool, resolved uint64) zzExp {
	var e zzExp
	if l := r.lock; l != nil {
		e.blocked = zzAnd(si, zzAnd(l.startTS <= ts, zzAnd(l.op != kvrpcpb.Op_Lock, zzAnd(l.op != kvrpcpb.Op_PessimisticLock, l.startTS != resolved))))
		e.lockStart, e.lockTTL = l.startTS, l.ttl
	}
	found, isPut := false, false
	for i := range r.vals {
		v := r.vals[i]
		data := zzOr(v.valueType == typePut, v.valueType == typeDelete)
		cand := zzAnd(data, zzAnd(v.commitTS <= ts, zzOr(!found, v.commitTS > e.cts)))
		var b uint64
		if len(v.value) > 0 {
			b = uint64(v.value[0])
		}
		e.cts = zzIte64(cand, v.commitTS, e.cts)
		e.val = zzIte64(cand, b, e.val)
		isPut = zzOr(zzAnd(cand, v.valueType == typePut), zzAnd(!cand, isPut))
		found = zzOr(found, cand)
	}
	e.has = zzAnd(!e.blocked, zzAnd(found, isPut))
	return e
}

// zzPairIs: the pair p (concrete shape) is the expected answer for key.
func zzPairIs(p Pair, key []byte, e zzExp) bool {
	if !bytes.Equal(p.Key, key) {
		return false
	}
	if p.Err != nil {
		le, ok := p.Err.(*ErrLocked)
		if !ok {
			return false
		}
		return zzAnd(e.blocked, zzAnd(le.StartTS == e.lockStart, zzAnd(le.TTL == e.lockTTL, bytes.Equal(le.Key, mvccEncode(key, lockVer)))))
	}
	if len(p.Value) != 1 {
		return false
	}
	return zzAnd(e.has, uint64(p.Value[0]) == e.val)
}

// zzListIs: got is the list of the expected answers of keys order[j:] that have
// something to report (a lock error or a visible value), cut at limit entries.
func zzListIs(got []Pair, i int, order []int, j int, exp []zzExp, limit int) bool {
	if i == limit || j == len(order) {
		return i == len(got)
	}
	k := order[j]
	present := zzOr(exp[k].blocked, exp[k].has)
	here := false
	if i < len(got) {
		here = zzAnd(zzPairIs(got[i], zzKeys[k], exp[k]), zzListIs(got, i+1, order, j+1, exp, limit))
	}
	return zzOr(zzAnd(present, here), zzAnd(!present, zzListIs(got, i, order, j+1, exp, limit)))
}

func zzSI(n string) (kvrpcpb.IsolationLevel, bool) {
	iso := kvrpcpb.IsolationLevel(zzI32(n))
	zzAssume(zzOr(iso == kvrpcpb.IsolationLevel_SI, iso == kvrpcpb.IsolationLevel_RC))
	return iso, iso == kvrpcpb.IsolationLevel_SI
}

// ZZ_C12_get: Get(ts) returns the newest put/delete with commit ts <= ts, or
// the blocking lock.
func ZZ_C12_get() {
	w := zzNewWorld()
	k := w.keyAndPrefixDeep(true)
	key := zzKeys[k]
	ts := zzU64("ts")
	zzAssume(ts < math.MaxUint64)
	iso, si := zzSI("iso")
	resolved := zzU64("resolved")
	s0 := w.snapshot()
	p := w.store.GetKVPair(key, ts, iso, []uint64{resolved})
	zzAssert(zzSame(s0, w.snapshot()), "get.read-only")
	e := zzExpect(w.raw(key), ts, si, resolved)
	if p.Err != nil {
		zzAssert(zzPairIs(Pair{Key: key, Err: p.Err}, key, e), "get.blocked-by-that-lock")
		le := p.Err.(*ErrLocked)
		zzAssert(zzAnd(le.LockType == w.raw(key).lock.op, bytes.Equal(le.Primary, w.raw(key).lock.primary)), "get.lock-error-describes-lock")
	} else if len(p.Value) == 0 {
		zzAssert(zzAnd(!e.blocked, !e.has), "get.nothing-visible")
	} else {
		zzAssert(zzPairIs(p, key, e), "get.newest-visible-value")
		zzAssert(p.CommitTS == e.cts, "get.commit-ts")
	}
	v2, e2 := w.store.Get(key, ts, iso, []uint64{resolved})
	zzAssert((e2 == nil) == (p.Err == nil) && bytes.Equal(v2, p.Value), "get.get-equals-getkvpair")
}

type zzRange struct{ start, end []byte }

var zzRanges = []zzRange{
	{nil, nil},
	{[]byte("a"), []byte("b")},
	{[]byte("b"), nil},
	{nil, []byte("b")},
}

func zzInRange(key []byte, r zzRange) bool {
	return bytes.Compare(key, r.start) >= 0 && (len(r.end) == 0 || bytes.Compare(key, r.end) < 0)
}

func zzOrder(rg zzRange, reverse bool) []int {
	var out []int
	for k := range zzKeys {
		if zzInRange(zzKeys[k], rg) {
			if reverse {
				out = append([]int{k}, out...)
			} else {
				out = append(out, k)
			}
		}
	}
	return out
}

// ZZ_C12_scan: Scan(range, limit, ts) is the per-key reads of the range in key
// order (a key with nothing visible is left out, a blocked key reports its
// lock), cut at limit; ReverseScan is the same in reverse key order. Every
// range and limit is tried in the same state.
func ZZ_C12_scan() {
	w := zzNewWorld()
	w.twoKeyState()
	ts := zzU64("ts")
	zzAssume(ts < math.MaxUint64)
	iso, si := zzSI("iso")
	resolved := zzU64("resolved")
	exp := []zzExp{zzExpect(w.raw(zzKeys[0]), ts, si, resolved), zzExpect(w.raw(zzKeys[1]), ts, si, resolved)}
	s0 := w.snapshot()
	for _, rg := range zzRanges {
		for limit := 1; limit <= 2; limit++ {
			fwd := w.store.Scan(rg.start, rg.end, limit, ts, iso, []uint64{resolved})
			zzAssert(zzListIs(fwd, 0, zzOrder(rg, false), 0, exp, limit), "scan.equals-per-key-reads")
			rev := w.store.ReverseScan(rg.start, rg.end, limit, ts, iso, []uint64{resolved})
			zzAssert(zzListIs(rev, 0, zzOrder(rg, true), 0, exp, limit), "scan.reverse-is-mirror")
		}
		zzAssert(len(w.store.Scan(rg.start, rg.end, 0, ts, iso, []uint64{resolved})) == 0, "scan.limit-zero-empty")
	}
	zzAssert(zzSame(s0, w.snapshot()), "scan.read-only")
	zzAssert(w.l.iters == 0, "scan.iterators-released")
}

// ZZ_C12_batchget: BatchGet(keys) is the reads of its keys, in request order,
// without the keys that have nothing visible.
func ZZ_C12_batchget() {
	w := zzNewWorld()
	w.twoKeyState()
	ts := zzU64("ts")
	zzAssume(ts < math.MaxUint64)
	iso, si := zzSI("iso")
	resolved := zzU64("resolved")
	exp := []zzExp{zzExpect(w.raw(zzKeys[0]), ts, si, resolved), zzExpect(w.raw(zzKeys[1]), ts, si, resolved)}
	for _, order := range [][]int{{0, 1}, {1, 0}, {1}, {0, 0}} {
		var ks [][]byte
		for _, k := range order {
			ks = append(ks, zzKeys[k])
		}
		got := w.store.BatchGet(ks, ts, iso, []uint64{resolved})
		zzAssert(zzListIs(got, 0, order, 0, exp, len(order)+1), "batchget.equals-reads")
	}
}

// ZZ_C12_scanlock: ScanLock(range, maxTS) lists exactly the locks of the range
// with start ts <= maxTS, in key order, with their primary and start ts.
func ZZ_C12_scanlock() {
	w := zzNewWorld()
	w.twoKeyState()
	maxTS := zzU64("maxts")
	raws := []zzRaw{w.raw(zzKeys[0]), w.raw(zzKeys[1])}
	for _, rg := range zzRanges {
		locks, err := w.store.ScanLock(rg.start, rg.end, maxTS)
		zzAssert(err == nil, "scanlock.no-error")
		n := 0
		for k := range zzKeys {
			r := raws[k]
			if !zzInRange(zzKeys[k], rg) || r.lock == nil || r.lock.startTS > maxTS {
				continue
			}
			zzAssert(n < len(locks), "scanlock.lock-listed")
			li := locks[n]
			zzAssert(bytes.Equal(li.Key, zzKeys[k]) && bytes.Equal(li.PrimaryLock, r.lock.primary), "scanlock.key-and-primary")
			zzAssert(li.LockVersion == r.lock.startTS, "scanlock.start-ts")
			n++
		}
		zzAssert(n == len(locks), "scanlock.nothing-else-listed")
	}
}

// ZZ_C12_resolve: ResolveLock / BatchResolveLock of a transaction, with a commit
// ts or with 0 (= roll back), turn exactly the locks of that transaction into a
// commit record of the lock's kind at the commit ts resp. into a rollback
// marker, and leave every other lock and record alone.
func ZZ_C12_resolve() {
	w := zzNewWorld()
	w.twoKeyState()
	t := w.pickTxn("txn")
	cts := zzIte64(zzBool("commit"), t.commit, 0)
	before := []zzRaw{w.raw(zzKeys[0]), w.raw(zzKeys[1])}
	if zzChoice("api", 2) == 0 {
		zzAssert(w.store.ResolveLock(nil, nil, t.start, cts) == nil, "resolve.ok")
	} else {
		zzAssert(w.store.BatchResolveLock(nil, nil, map[uint64]uint64{t.start: cts}) == nil, "resolve.batch-ok")
	}
	for k := range zzKeys {
		r0, r1 := before[k], w.raw(zzKeys[k])
		if !r0.lockedBy(t.start) {
			zzAssert((r0.lock == nil) == (r1.lock == nil), "resolve.foreign-lock-kept")
			if r0.lock != nil {
				zzAssert(zzLockSameExcept(r0.lock, r1.lock, false, false), "resolve.foreign-lock-unchanged")
			}
			zzAssert(len(r0.vals) == len(r1.vals), "resolve.unlocked-key-untouched")
			continue
		}
		zzAssert(r1.lock == nil, "resolve.lock-removed")
		zzAssert(len(r1.vals) == len(r0.vals)+1, "resolve.one-record-added")
		n := 0
		for i := range r1.vals {
			v := r1.vals[i]
			if v.startTS != t.start {
				continue
			}
			n++
			if cts == 0 {
				zzAssert(zzAnd(v.valueType == typeRollback, v.commitTS == t.start), "resolve.rollback-marker")
				continue
			}
			zzAssert(v.commitTS == cts, "resolve.commit-ts")
			switch r0.lock.op {
			case kvrpcpb.Op_Put:
				zzAssert(v.valueType == typePut && bytes.Equal(v.value, r0.lock.value), "resolve.put-committed")
			case kvrpcpb.Op_Del:
				zzAssert(v.valueType == typeDelete, "resolve.delete-committed")
			default:
				zzAssert(v.valueType == typeLock, "resolve.lock-record-committed")
			}
		}
		zzAssert(n == 1, "resolve.exactly-one-record-of-the-transaction")
	}
}

// ---- GC --------------------------------------------------------------------

// ZZ_C12_gc: GC(safe point) refuses (changing nothing) when a lock with start
// ts <= safe point exists, and otherwise preserves every read at or above the
// safe point.
func ZZ_C12_gc() {
	w := zzNewWorld()
	k := w.keyAndPrefixOps(true)
	key := zzKeys[k]
	safe, ts := zzU64("safe"), zzU64("ts")
	zzAssume(zzAnd(ts >= safe, ts < math.MaxUint64))
	r0 := w.raw(key)
	s0 := w.snapshot()
	before := w.store.GetKVPair(key, ts, kvrpcpb.IsolationLevel_RC, nil)
	err := w.store.GC(nil, nil, safe)
	if r0.lock != nil && r0.lock.startTS <= safe {
		zzAssert(err != nil, "gc.refuses-over-lock-below-safe-point")
		zzAssert(zzSame(s0, w.snapshot()), "gc.refusal-no-change")
		return
	}
	zzAssert(err == nil, "gc.ok")
	after := w.store.GetKVPair(key, ts, kvrpcpb.IsolationLevel_RC, nil)
	zzAssert(before.Err == nil && after.Err == nil, "gc.reads-ok")
	zzAssert(len(before.Value) == len(after.Value) && bytes.Equal(before.Value, after.Value), "gc.read-at-or-above-safe-point-preserved")
	r1 := w.raw(key)
	zzAssert((r0.lock == nil) == (r1.lock == nil), "gc.lock-untouched")
	survivors := 0
	for i := range r1.vals {
		if r1.vals[i].commitTS <= safe {
			survivors++
			zzAssert(r1.vals[i].valueType == typePut, "gc.only-a-put-survives-below-safe-point")
		}
	}
	zzAssert(survivors <= 1, "gc.at-most-one-version-survives-below-safe-point")
	zzAssert(len(r1.vals) <= len(r0.vals), "gc.adds-nothing")
}

// ---- cases where the reference is TiKV's definition --------------------------

// ZZ_C12_tikv_cases:
// (a) a prewrite over the transaction's own pessimistic lock is not re-checked
//     for write conflicts: it succeeds;
// (b) a pessimistic lock request over the transaction's own prewrite lock is
//     refused and changes nothing;
// (c) committing a leftover pessimistic lock (Commit or ResolveLock) changes no
//     data: every read returns what it returned before.
func ZZ_C12_tikv_cases() {
	w := zzNewWorld()
	k := zzChoice("key", zzParam("lawkeys", 2))
	w.base(k, zzChoice("base", zzNBase), "base", false)
	w.prefixN(zzParam("depth_t", 0), k)
	key := zzKeys[k]
	t := w.pickTxn("txn")
	zzAssume(!w.isDone(k, t))
	switch zzChoice("case", 3) {
	case 0:
		zzAssume(len(w.plock(k, t, w.drawTTL("ttl"))) == 0)
		zzAssume(w.raw(key).lockedBy(t.start) && w.raw(key).lock.op == kvrpcpb.Op_PessimisticLock)
		a := w.drawPrewrite("pw")
		zzAssume(a.action == kvrpcpb.PrewriteRequest_DO_PESSIMISTIC_CHECK)
		zzNote("finding", "prewrite-own-plock-conflict")
		zzAssert(w.prewrite(k, t, a) == nil, "tikv.prewrite-over-own-pessimistic-lock.ok")
	case 1:
		a := w.drawPrewrite("pw")
		zzAssume(w.prewrite(k, t, a) == nil)
		zzAssume(w.raw(key).lock.op != kvrpcpb.Op_PessimisticLock)
		s0 := w.snapshot()
		zzNote("finding", "plock-over-own-prewrite-accepted")
		zzAssert(len(w.plock(k, t, w.drawTTL("ttl"))) != 0, "tikv.pessimistic-lock-over-own-prewrite-lock.refused")
		zzAssert(zzSame(s0, w.snapshot()), "tikv.pessimistic-lock-over-own-prewrite-lock.no-change")
	case 2:
		zzAssume(len(w.plock(k, t, w.drawTTL("ttl"))) == 0)
		zzAssume(w.raw(key).lockedBy(t.start) && w.raw(key).lock.op == kvrpcpb.Op_PessimisticLock)
		ts := zzU64("ts")
		before := w.store.GetKVPair(key, ts, kvrpcpb.IsolationLevel_RC, nil)
		if zzChoice("how", 2) == 0 {
			zzAssume(w.store.Commit([][]byte{key}, t.start, t.commit) == nil)
		} else {
			zzAssume(w.store.ResolveLock(nil, nil, t.start, t.commit) == nil)
		}
		after := w.store.GetKVPair(key, ts, kvrpcpb.IsolationLevel_RC, nil)
		zzNote("finding", "commit-pessimistic-lock-deletes")
		zzAssert(before.Err == nil && after.Err == nil, "tikv.commit-pessimistic-lock.reads-ok")
		zzAssert(len(before.Value) == len(after.Value) && bytes.Equal(before.Value, after.Value), "tikv.commit-pessimistic-lock.data-unchanged")
		zzAssert(w.raw(key).lock == nil, "tikv.commit-pessimistic-lock.lock-removed")
	}
}
