package mocktikv

import (
	"bytes"
	"math"

	"github.com/pingcap/goleveldb/leveldb"
	"github.com/pingcap/kvproto/pkg/kvrpcpb"
	"github.com/tikv/client-go/v2/util/codec"
)

// C12 — the command driver shared by the law harnesses.
//
// World: keys "a" (primary of every transaction) and "b"; zzNT transactions,
// each with a start, a for-update and a commit timestamp; all of them symbolic,
// pairwise distinct, in (0, MaxUint64), start < for-update < commit per
// transaction (what a timestamp oracle issues). The transaction a command works
// for is itself symbolic (its start ts is constrained to be one of the
// transactions' start timestamps), so one path covers "same transaction" and
// "other transaction" until the store compares the two.

var zzKeys = [][]byte{[]byte("a"), []byte("b")}

const zzMaxTxn = 3

type zzW struct {
	store *MVCCLevelDB
	l     *zzLevel
	db    *leveldb.DB
	nt    int
	s     [zzMaxTxn]uint64
	f     [zzMaxTxn]uint64
	c     [zzMaxTxn]uint64
	// ghost: transaction i was committed or rolled back on key k by an earlier
	// command (symbolic booleans). The statement assumes that no lock request of
	// a transaction reaches a key after that.
	done [2][zzMaxTxn]bool
	// ghost: some pessimistic lock request was refused (the deadlock detector,
	// which is state outside the store, may hold a wait-for edge)
	waited bool
}

// zzTx is a symbolic pick of one transaction.
type zzTx struct {
	start, forUpdate, commit uint64
	is                       [zzMaxTxn]bool
}

func zzNewWorld() *zzW {
	store, l := zzNewStore()
	w := &zzW{store: store, l: l, db: store.getDB(""), nt: zzParam("txns", 2)}
	if w.nt > zzMaxTxn {
		w.nt = zzMaxTxn
	}
	var all []uint64
	names := [zzMaxTxn][3]string{{"s0", "f0", "c0"}, {"s1", "f1", "c1"}, {"s2", "f2", "c2"}}
	for i := 0; i < w.nt; i++ {
		w.s[i], w.f[i], w.c[i] = zzU64(names[i][0]), zzU64(names[i][1]), zzU64(names[i][2])
		zzAssume(zzAnd(w.s[i] > 0, zzAnd(w.s[i] < w.f[i], zzAnd(w.f[i] < w.c[i], w.c[i] < math.MaxUint64))))
		all = append(all, w.s[i], w.f[i], w.c[i])
	}
	w.distinct(all)
	return w
}

func (w *zzW) distinct(ts []uint64) {
	ok := true
	for i := range ts {
		for j := i + 1; j < len(ts); j++ {
			ok = zzAnd(ok, ts[i] != ts[j])
		}
	}
	zzAssume(ok)
}

// foreignTS draws a timestamp different from every transaction timestamp (the
// start ts of some reader / checker).
func (w *zzW) foreignTS(name string) uint64 {
	t := zzU64(name)
	ok := zzAnd(t > 0, t < math.MaxUint64)
	for i := 0; i < w.nt; i++ {
		ok = zzAnd(ok, zzAnd(t != w.s[i], zzAnd(t != w.f[i], t != w.c[i])))
	}
	zzAssume(ok)
	return t
}

func (w *zzW) pickTxn(name string) zzTx {
	var t zzTx
	t.start = zzU64(name)
	any := false
	for i := w.nt - 1; i >= 0; i-- {
		t.is[i] = t.start == w.s[i]
		any = zzOr(any, t.is[i])
		t.forUpdate = zzIte64(t.is[i], w.f[i], t.forUpdate)
		t.commit = zzIte64(t.is[i], w.c[i], t.commit)
	}
	zzAssume(any)
	return t
}

// isDone: the picked transaction is already final on key k (ghost).
func (w *zzW) isDone(k int, t zzTx) bool {
	d := false
	for i := 0; i < w.nt; i++ {
		d = zzOr(d, zzAnd(t.is[i], w.done[k][i]))
	}
	return d
}

func (w *zzW) setDone(k int, t zzTx) {
	for i := 0; i < w.nt; i++ {
		w.done[k][i] = zzOr(w.done[k][i], t.is[i])
	}
}

// ---- raw view of the store (independent reading of the ordered map) ----

type zzRaw struct {
	lock *mvccLock
	vals []mvccValue // in store order
	vers []uint64    // version part of each value's key
}

func (w *zzW) raw(key []byte) zzRaw {
	var r zzRaw
	for _, e := range w.l.all(w.db) {
		k, ver, err := mvccDecode(e.k)
		zzAssert(err == nil, "raw.key-decodes")
		if !bytes.Equal(k, key) {
			continue
		}
		if ver == lockVer {
			var lk mvccLock
			zzAssert(lk.UnmarshalBinary(e.v) == nil, "raw.lock-decodes")
			zzAssert(r.lock == nil, "raw.one-lock-per-key")
			r.lock = &lk
		} else {
			var v mvccValue
			zzAssert(v.UnmarshalBinary(e.v) == nil, "raw.value-decodes")
			r.vals = append(r.vals, v)
			r.vers = append(r.vers, ver)
		}
	}
	return r
}

// lockOf: key k carries a lock of the picked transaction.
func (r zzRaw) lockedBy(start uint64) bool {
	return r.lock != nil && r.lock.startTS == start
}

func (w *zzW) snapshot() []zzEnt { return w.l.all(w.db) }

// snapshotKey: the entries (lock and write records) of key k only.
func (w *zzW) snapshotKey(k int) []zzEnt {
	pre := codec.EncodeBytes(nil, zzKeys[k])
	var out []zzEnt
	for _, e := range w.l.all(w.db) {
		if bytes.HasPrefix(e.k, pre) {
			out = append(out, e)
		}
	}
	return out
}

// zzSame: two snapshots hold the same entries (a single term, no forks).
func zzSame(a, b []zzEnt) bool {
	if len(a) != len(b) {
		return false
	}
	ok := true
	for i := range a {
		if len(a[i].k) != len(b[i].k) || len(a[i].v) != len(b[i].v) {
			return false
		}
		ok = zzAnd(ok, zzAnd(bytes.Equal(a[i].k, b[i].k), bytes.Equal(a[i].v, b[i].v)))
	}
	return ok
}

// ---- commands ----

func zzErrs(errs []error) bool {
	for _, e := range errs {
		if e != nil {
			return true
		}
	}
	return false
}

type zzPrewriteArgs struct {
	op     kvrpcpb.Op
	val    []byte
	ttl    uint64
	minC   uint64
	action kvrpcpb.PrewriteRequest_PessimisticAction
}

func (w *zzW) drawPrewrite(n string) zzPrewriteArgs {
	var a zzPrewriteArgs
	a.op = kvrpcpb.Op(zzI32(n + ".op"))
	a.val = zzBytesN(n+".val", 1)
	a.ttl = zzU64(n + ".ttl")
	a.minC = zzU64(n + ".minc")
	a.action = kvrpcpb.PrewriteRequest_PessimisticAction(zzI32(n + ".pess"))
	zzAssume(zzAnd(a.ttl < 1<<32,
		zzAnd(zzOr(a.op == kvrpcpb.Op_Put, zzOr(a.op == kvrpcpb.Op_Del, a.op == kvrpcpb.Op_Lock)),
			zzOr(a.action == kvrpcpb.PrewriteRequest_SKIP_PESSIMISTIC_CHECK, a.action == kvrpcpb.PrewriteRequest_DO_PESSIMISTIC_CHECK))))
	return a
}

func (w *zzW) prewrite(k int, t zzTx, a zzPrewriteArgs) error {
	var val []byte
	if a.op == kvrpcpb.Op_Put {
		val = a.val
	}
	fu := zzIte64(a.action == kvrpcpb.PrewriteRequest_DO_PESSIMISTIC_CHECK, t.forUpdate, 0)
	errs := w.store.Prewrite(&kvrpcpb.PrewriteRequest{
		Mutations:          []*kvrpcpb.Mutation{{Op: a.op, Key: zzKeys[k], Value: val}},
		PrimaryLock:        zzKeys[0],
		StartVersion:       t.start,
		LockTtl:            a.ttl,
		MinCommitTs:        a.minC,
		ForUpdateTs:        fu,
		PessimisticActions: []kvrpcpb.PrewriteRequest_PessimisticAction{a.action},
		Context:            &kvrpcpb.Context{},
	})
	zzAssert(len(errs) == 1, "cmd.prewrite.one-answer-per-mutation")
	return errs[0]
}

func (w *zzW) plock(k int, t zzTx, ttl uint64) []*kvrpcpb.KeyError {
	// a large-transaction client asks for a min-commit-ts on its pessimistic locks (for-update ts + 1),
	// an older one sends none: both forms (readers can only push a non-zero one)
	minc := zzIte64(zzBool("plock.minc"), t.forUpdate+1, 0)
	resp := w.store.PessimisticLock(&kvrpcpb.PessimisticLockRequest{
		MinCommitTs:  minc,
		Mutations:    []*kvrpcpb.Mutation{{Op: kvrpcpb.Op_PessimisticLock, Key: zzKeys[k]}},
		PrimaryLock:  zzKeys[0],
		StartVersion: t.start,
		ForUpdateTs:  t.forUpdate,
		LockTtl:      ttl,
		WaitTimeout:  LockNoWait,
	})
	return resp.Errors
}

const (
	zzCmdPrewrite = iota
	zzCmdPLock
	zzCmdCommit
	zzCmdRollback
	zzCmdCleanup
	zzCmdStatus
	zzCmdResolve
	zzCmdPRollback
	zzCmdHeartbeat
	zzNCmd
)

// zzFromEmpty: the commands that can change an empty store. The other four
// (commit, resolve, pessimistic rollback, heartbeat) leave an empty store empty
// (ZZ_C12_empty_noops), so a prefix with such a command at a point where the
// store is empty reaches no state that the prefix without it does not reach;
// step leaves them out there.
var zzFromEmpty = []int{zzCmdPrewrite, zzCmdPLock, zzCmdRollback, zzCmdCleanup, zzCmdStatus}

// step executes one arbitrary command (part of the symbolic prefix). Lock
// requests (prewrite, pessimistic lock) of a transaction that an earlier command
// of the prefix made final on the key are outside the statement and not sent.
func (w *zzW) step(n string, keys []int) {
	var kind int
	if len(w.snapshot()) == 0 && !w.waited {
		kind = zzFromEmpty[zzChoice(n+".kind", len(zzFromEmpty))]
	} else {
		kind = zzChoice(n+".kind", zzNCmd)
	}
	k := keys[0]
	if kind != zzCmdResolve && len(keys) > 1 {
		k = keys[zzChoice(n+".key", len(keys))]
	}
	t := w.pickTxn(n + ".txn")
	w.exec(n, kind, k, t)
}

func (w *zzW) exec(n string, kind, k int, t zzTx) {
	switch kind {
	case zzCmdPrewrite:
		zzAssume(!w.isDone(k, t))
		w.prewrite(k, t, w.drawPrewrite(n))
	case zzCmdPLock:
		zzAssume(!w.isDone(k, t))
		if len(w.plock(k, t, w.drawTTL(n+".ttl"))) != 0 {
			w.waited = true // the deadlock detector may now hold a wait-for edge
		}
	case zzCmdCommit:
		if w.store.Commit([][]byte{zzKeys[k]}, t.start, t.commit) == nil {
			w.setDone(k, t)
		}
	case zzCmdRollback:
		if w.store.Rollback([][]byte{zzKeys[k]}, t.start) == nil {
			w.setDone(k, t)
		}
	case zzCmdCleanup:
		if w.store.Cleanup(zzKeys[k], t.start, zzU64(n+".cur")) == nil {
			w.setDone(k, t)
		}
	case zzCmdStatus:
		_, _, _, err := w.store.CheckTxnStatus(zzKeys[k], t.start, w.foreignTS(n+".caller"), zzU64(n+".cur"), zzBool(n+".rbne"), zzBool(n+".rpl"))
		if err == nil {
			// possibly committed or rolled back now (treating a still-live lock
			// as final only drops lock requests from the prefix)
			w.setDone(k, t)
		}
	case zzCmdResolve:
		cts := zzIte64(zzBool(n+".commit"), t.commit, 0)
		if w.store.ResolveLock(nil, nil, t.start, cts) == nil {
			w.setDone(0, t)
			w.setDone(1, t)
		}
	case zzCmdPRollback:
		w.store.PessimisticRollback(nil, nil, [][]byte{zzKeys[k]}, t.start, t.forUpdate)
	case zzCmdHeartbeat:
		w.store.TxnHeartBeat(zzKeys[k], t.start, zzU64(n+".ttl"))
	}
}

func (w *zzW) drawTTL(n string) uint64 {
	ttl := zzU64(n)
	zzAssume(ttl < 1<<32)
	return ttl
}

// txn returns transaction i as a (concrete) pick.
func (w *zzW) txn(i int) zzTx {
	t := zzTx{start: w.s[i], forUpdate: w.f[i], commit: w.c[i]}
	t.is[i] = true
	return t
}

// Base states: a short successful history on key k, built with the real
// commands (every command of the builder is assumed to succeed, which restricts
// the timestamp orderings to those in which that history can happen).
const (
	zzBaseEmpty    = iota // nothing
	zzBaseV               // T0 committed (put / delete / lock record, symbolic)
	zzBaseVV              // T0 committed, then T1 committed
	zzBaseVLock           // T0 committed, T1 holds a prewrite lock
	zzBaseVPLock          // T0 committed, T1 holds a pessimistic lock
	zzBaseVRollback       // T0 committed, T1 left a rollback marker
	zzNBase
)

func (w *zzW) mustPrewrite(k, i int, n string, anyOp bool) {
	a := w.drawPrewrite(n)
	zzAssume(zzAnd(a.action == kvrpcpb.PrewriteRequest_SKIP_PESSIMISTIC_CHECK, zzOr(anyOp, a.op == kvrpcpb.Op_Put)))
	zzAssume(w.prewrite(k, w.txn(i), a) == nil)
}

func (w *zzW) mustCommit(k, i int) {
	zzAssume(w.store.Commit([][]byte{zzKeys[k]}, w.s[i], w.c[i]) == nil)
	w.setDone(k, w.txn(i))
}

// With anyOp the committed records are puts, deletes or lock records
// (symbolic); without it they are puts (laws about writes, where the kind of an
// old version does not matter). The prewrite lock of zzBaseVLock is always of
// any kind.
func (w *zzW) base(k, menu int, n string, anyOp bool) {
	if menu == zzBaseEmpty {
		return
	}
	w.mustPrewrite(k, 0, n+".v0", anyOp)
	w.mustCommit(k, 0)
	switch menu {
	case zzBaseVV:
		w.mustPrewrite(k, 1, n+".v1", anyOp)
		w.mustCommit(k, 1)
	case zzBaseVLock:
		w.mustPrewrite(k, 1, n+".l1", true)
	case zzBaseVPLock:
		zzAssume(len(w.plock(k, w.txn(1), w.drawTTL(n+".pl1.ttl"))) == 0)
	case zzBaseVRollback:
		zzAssume(w.store.Rollback([][]byte{zzKeys[k]}, w.s[1]) == nil)
		w.setDone(k, w.txn(1))
	}
}

// prefixN runs 0..depth arbitrary commands addressed to the given keys
// (ResolveLock always covers the whole key space).
func (w *zzW) prefixN(depth int, keys ...int) {
	n := zzChoice("prefix.len", depth+1)
	names := []string{"p0", "p1", "p2", "p3"}
	for i := 0; i < n; i++ {
		w.step(names[i], keys)
	}
}

// keyAndPrefix picks the key a single-key law is about, builds a base state on
// it and runs a prefix of arbitrary commands on that key: <= "depth" commands
// from the empty store, <= "depth_b" commands on top of a non-empty base state.
func (w *zzW) keyAndPrefix() int { return w.keyAndPrefixD(false, false) }

func (w *zzW) keyAndPrefixOps(anyOp bool) int { return w.keyAndPrefixD(anyOp, false) }

// keyAndPrefixDeep: the same with the deeper prefix bounds "depth_d" /
// "depth_bd" on the first "lawkeys_d" keys (defaults: depth / depth_b /
// lawkeys), used by the laws that are cheap enough to afford a deeper prefix in
// the thorough tier.
func (w *zzW) keyAndPrefixDeep(anyOp bool) int { return w.keyAndPrefixD(anyOp, true) }

// keyAndPrefixWide: for the law with the widest tail (after_final): prefix from
// the empty store bounded by "depth_f" (default: depth).
func (w *zzW) keyAndPrefixWide() int {
	k := zzChoice("key", zzParam("lawkeys", 2))
	menu := zzChoice("base", zzNBase)
	w.base(k, menu, "base", false)
	if menu == zzBaseEmpty {
		w.prefixN(zzParam("depth_f", zzParam("depth", 2)), k)
	} else {
		w.prefixN(zzParam("depth_b", 1), k)
	}
	return k
}

func (w *zzW) keyAndPrefixD(anyOp, deep bool) int {
	nk, d, db := zzParam("lawkeys", 2), zzParam("depth", 2), zzParam("depth_b", 1)
	k := zzChoice("key", nk)
	if deep && k < zzParam("lawkeys_d", nk) {
		d, db = zzParam("depth_d", d), zzParam("depth_bd", db)
	}
	menu := zzChoice("base", zzNBase)
	w.base(k, menu, "base", anyOp)
	if menu == zzBaseEmpty {
		w.prefixN(d, k)
	} else {
		w.prefixN(db, k)
	}
	return k
}

// twoKeyState builds a base state on both keys (key "b" from a smaller menu)
// and runs <= "depth_m" arbitrary commands over both keys.
func (w *zzW) twoKeyState() {
	w.base(0, zzChoice("base.a", zzNBase), "base.a", true)
	w.base(1, []int{zzBaseEmpty, zzBaseV, zzBaseVLock}[zzChoice("base.b", 3)], "base.b", zzParam("b_anyop", 0) > 0)
	w.prefixN(zzParam("depth_m", 0), 0, 1)
}
