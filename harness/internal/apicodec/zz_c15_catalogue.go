package apicodec

import (
	"bytes"
	"encoding/binary"

	"github.com/tikv/client-go/v2/util/codec"
)

// C15 — support for the generated catalogue harnesses
// (gen/c15_catalogue.py -> zz_gen_c15_catalogue.go).
//
// A zzC15Bag hands out symbolic user keys to the generated per-message `fill`
// functions and, in a second pass over the same sequence, the value each
// key-bearing field must have to the generated `check` functions.  The wire
// forms below are the model (written from the property statement):
//
//   request key      prefix ‖ k            (an *optional* key stays empty when empty)
//   request range    [prefix‖s, prefix‖e)  with empty e = keyspace end;
//                    reverse scans: start is the upper bound, empty = keyspace end
//   response key     prefix ‖ k   (absent keys are covered by the kernel harnesses; here every
//                    member is present so that the set of failing members does not depend on
//                    the key values)
//   response range   like a forward request range
//   region range     memcomparable(response range)

type zzC15Bag struct {
	p, end  []byte   // model prefix and keyspace end
	pool    [][]byte // symbolic user keys
	i       int
	rev     bool // value of a `reverse` member
	wire    bool // fill: produce / check: expect the wire form (else the user form)
	resp    bool // direction: response
	filled  int
	visited int
	failed  string
	nfailed int
	quiet   bool // first pass: only conjoin the comparisons into allOK (one solver query per pass)
	allOK   bool
	dead    bool // element counts diverged: the key sequence is out of step, stop comparing
}

const zzC15PoolSize = 8

// zzC15NewBag draws the length profile and the key pool.  Profile p gives key
// j the length (p+j)%3; profile 3 makes every key empty.
func zzC15NewBag(mode Mode, id uint32, resp bool) *zzC15Bag {
	b := &zzC15Bag{resp: resp}
	b.p = zzC15Prefix(mode, id)
	b.end = make([]byte, 4)
	binary.BigEndian.PutUint32(b.end, binary.BigEndian.Uint32(b.p)+1)
	prof := zzChoice("profile", 4)
	names := []string{"u0", "u1", "u2", "u3", "u4", "u5", "u6", "u7"}
	for j := 0; j < zzC15PoolSize; j++ {
		n := (prof + j) % 3
		if prof == 3 {
			n = 0
		}
		b.pool = append(b.pool, zzBytesN(names[j], n))
	}
	return b
}

// restart begins a checking pass.  A quiet pass conjoins all comparisons into
// allOK; only if that can be false the harness runs a second, naming pass that
// branches per member and records the failing member paths.
func (b *zzC15Bag) restart(wire, quiet bool) {
	b.i, b.wire, b.visited, b.dead = 0, wire, 0, false
	b.quiet, b.allOK = quiet, true
}

func (b *zzC15Bag) same(got, want []byte, path string) {
	if b.quiet {
		b.allOK = zzAnd(b.allOK, bytes.Equal(got, want))
		return
	}
	if !bytes.Equal(got, want) {
		b.fail(path)
	}
}

func (b *zzC15Bag) next() []byte {
	k := b.pool[b.i%len(b.pool)]
	b.i++
	return k
}

func (b *zzC15Bag) skip(n int) { b.i += n }

func (b *zzC15Bag) abort() { b.dead = true }

func (b *zzC15Bag) fail(what string) {
	if b.dead {
		return
	}
	if b.quiet {
		b.allOK = false
		return
	}
	b.nfailed++
	// the note lists every failing member path once (paths carry no element index)
	w := " " + what + " "
	hay := " " + b.failed + " "
	for i := 0; i+len(w) <= len(hay); i++ {
		if hay[i:i+len(w)] == w {
			return
		}
	}
	if b.failed != "" {
		b.failed += " "
	}
	b.failed += what
}

func (b *zzC15Bag) wireKey(k []byte, optional bool) []byte {
	if len(k) == 0 && !b.resp && optional {
		return nil
	}
	return zzC15Cat(b.p, k)
}

func (b *zzC15Bag) wireRange(s, e []byte, region, rev bool) ([]byte, []byte) {
	var ws, we []byte
	if rev {
		// s: exclusive upper bound (empty = unbounded), e: inclusive lower bound
		we = zzC15Cat(b.p, e)
		if len(s) == 0 {
			ws = zzC15Clone(b.end)
		} else {
			ws = zzC15Cat(b.p, s)
		}
	} else {
		ws = zzC15Cat(b.p, s)
		if len(e) == 0 {
			we = zzC15Clone(b.end)
		} else {
			we = zzC15Cat(b.p, e)
		}
	}
	if region {
		return codec.EncodeBytes(nil, ws), codec.EncodeBytes(nil, we)
	}
	return ws, we
}

func (b *zzC15Bag) putKey(optional bool) []byte {
	b.filled++
	k := b.next()
	if b.wire {
		return b.wireKey(k, optional)
	}
	return zzC15Clone(k)
}

func (b *zzC15Bag) putRange(region, rev bool) ([]byte, []byte) {
	b.filled++
	s, e := b.next(), b.next()
	if b.wire {
		return b.wireRange(s, e, region, rev)
	}
	return zzC15Clone(s), zzC15Clone(e)
}

func (b *zzC15Bag) expectKey(got []byte, optional bool, path string) {
	b.visited++
	k := b.next()
	want := k
	if b.wire {
		want = b.wireKey(k, optional)
	}
	b.same(got, want, path)
}

func (b *zzC15Bag) expectRange(gs, ge []byte, region, rev bool, path string) {
	b.visited++
	s, e := b.next(), b.next()
	ws, we := s, e
	if b.wire {
		ws, we = b.wireRange(s, e, region, rev)
	}
	b.same(gs, ws, path+":start")
	b.same(ge, we, path+":end")
}

func (b *zzC15Bag) expectOpaque(got []byte, path string) {
	b.same(got, []byte{0xEE}, path+":opaque-member-changed")
}
