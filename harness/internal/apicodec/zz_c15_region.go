package apicodec

import (
	"bytes"

	"github.com/pingcap/kvproto/pkg/errorpb"
	"github.com/pingcap/kvproto/pkg/metapb"
	"github.com/pkg/errors"
	"github.com/tikv/client-go/v2/util/codec"
)

// C15 — region keys / ranges (memcomparable towards PD), bucket keys, region
// errors.  The memcomparable codec itself is the real one (property C19).

// zzC15MC is the PD wire form of a store key: memcomparable, except that the
// empty key (= unbounded) stays empty.
func zzC15MC(raw []byte) []byte {
	if len(raw) == 0 {
		return nil
	}
	return codec.EncodeBytes(nil, raw)
}

// zzC15Lens draws a byte string whose length comes from a table.
func zzC15BytesFrom(name string, lens []int) []byte {
	return zzBytesN(name, lens[zzChoice(name+".lenidx", len(lens))])
}

// ZZ_C15_region_key: EncodeRegionKey = memcomparable(prefix ‖ k); it round
// trips and preserves order (user keys up to 9 bytes: two memcomparable
// groups).
func ZZ_C15_region_key() {
	c, mode, id := zzC15Codec("mode", "id")
	if c == nil {
		return
	}
	p := zzC15Prefix(mode, id)
	max := zzParam("rklen", 9)
	a := zzBytes("a", max)
	ea := c.EncodeRegionKey(a)
	zzAssert(bytes.Equal(ea, codec.EncodeBytes(nil, zzC15Cat(p, a))), "rkey.form")
	da, err := c.DecodeRegionKey(ea)
	zzAssert(err == nil, "rkey.err")
	zzAssert(bytes.Equal(da, a), "rkey.roundtrip")
	b := zzBytesN("b", zzParam("rkblen", 5))
	eb := c.EncodeRegionKey(b)
	ca, cb := bytes.Compare(ea, eb), bytes.Compare(a, b)
	zzAssert((ca < 0) == (cb < 0), "rkey.order-lt")
	zzAssert((ca == 0) == (cb == 0), "rkey.order-eq")
}

// ZZ_C15_region_key_malformed: an arbitrary PD-side byte string never panics
// the region key decoder; it is either rejected or decodes to a key of this
// keyspace.
func ZZ_C15_region_key_malformed() {
	c, mode, id := zzC15Codec("mode", "id")
	if c == nil {
		return
	}
	p := zzC15Prefix(mode, id)
	buf := zzBytes("buf", zzParam("mallen", 9))
	got, err := c.DecodeRegionKey(buf)
	if err != nil {
		return
	}
	// accepted: the buffer starts with the memcomparable form of prefix ‖ got
	// (DecodeBytes tolerates trailing bytes), or it decoded to the empty key
	if len(got) == 0 {
		return
	}
	want := codec.EncodeBytes(nil, zzC15Cat(p, got))
	zzAssert(len(buf) >= len(want) && bytes.Equal(buf[:len(want)], want), "rkey.malformed-accepted-strict")
}

// ZZ_C15_region_range_roundtrip: EncodeRegionRange = memcomparable of
// EncodeRange, DecodeRegionRange inverts it (unbounded end included).
func ZZ_C15_region_range_roundtrip() {
	c, _, _ := zzC15Codec("mode", "id")
	if c == nil {
		return
	}
	lens := []int{0, 1, 2, 5, 9}
	s := zzC15BytesFrom("s", lens)
	e := zzC15BytesFrom("e", lens)
	es, ee := c.EncodeRange(s, e)
	rs, re := c.EncodeRegionRange(s, e)
	zzAssert(bytes.Equal(rs, codec.EncodeBytes(nil, es)), "rrange.start-form")
	zzAssert(bytes.Equal(re, codec.EncodeBytes(nil, ee)), "rrange.end-form")
	ds, de, err := c.DecodeRegionRange(rs, re)
	zzAssert(err == nil, "rrange.err")
	zzAssert(bytes.Equal(ds, s), "rrange.start")
	zzAssert(bytes.Equal(de, e), "rrange.end")
}

// ZZ_C15_region_range_decode: for an arbitrary region [S,E) as PD reports it
// (memcomparable bounds, empty = unbounded) DecodeRegionRange is DecodeRange
// of the store-level bounds (whose clipping semantics ZZ_C15_decode_range
// decides), and malformed bounds are decode errors.
func ZZ_C15_region_range_decode() {
	c, _, _ := zzC15CodecQ("mode", "id")
	if c == nil {
		return
	}
	lens := []int{0, 1, 4, 5, 6, 13}
	S := zzC15BytesFrom("S", lens)
	E := zzC15BytesFrom("E", lens)
	zzAssume(len(E) == 0 || bytes.Compare(S, E) < 0)
	zzAssume(zzC15WellFormed(S, c.endKey))
	zzAssume(zzC15WellFormed(E, c.endKey))
	ws, we, werr := c.DecodeRange(S, E)
	gs, ge, gerr := c.DecodeRegionRange(zzC15MC(S), zzC15MC(E))
	zzAssert((werr == nil) == (gerr == nil), "rdecode.same-verdict")
	if gerr != nil {
		zzAssert(errors.Is(gerr, errKeyOutOfBound), "rdecode.err-kind")
		return
	}
	zzAssert(bytes.Equal(gs, ws), "rdecode.start")
	zzAssert(bytes.Equal(ge, we), "rdecode.end")
}

// ZZ_C15_region_range_malformed: a bound that is not memcomparable is a
// decode error (IsDecodeError), never a panic, never a silent pass.
func ZZ_C15_region_range_malformed() {
	c, _, _ := zzC15Codec("mode", "id")
	if c == nil {
		return
	}
	// 9 bytes with an impossible marker: pad count 0xFF-marker > 8
	bad := zzBytesN("bad", 9)
	zzAssume(bad[8] < 0xF7)
	which := zzChoice("which", 2)
	good := codec.EncodeBytes(nil, c.EncodeKey(zzBytes("k", 1)))
	var err error
	if which == 0 {
		_, _, err = c.DecodeRegionRange(bad, nil)
	} else {
		_, _, err = c.DecodeRegionRange(good, bad)
	}
	zzAssert(err != nil, "rmal.rejected")
	zzAssert(IsDecodeError(err), "rmal.kind")
}

// ZZ_C15_bucket_keys: bucket boundaries (memcomparable store keys, first =
// region start, last = region end) are clipped like the region range at both
// ends; interior boundaries strictly inside the keyspace are kept in order
// with the prefix stripped, all others dropped.
func ZZ_C15_bucket_keys() {
	c, mode, id := zzC15CodecQ("mode", "id")
	if c == nil {
		return
	}
	p := zzC15Prefix(mode, id)
	n := 2 + zzChoice("n", zzParam("buckets", 3)-1)
	lens := []int{0, 3, 4, 5, 6}
	raw := make([][]byte, n)
	raw[0] = zzC15BytesFrom("K0", lens)
	if n > 2 {
		raw[1] = zzC15BytesFrom("K1", lens[1:])
	}
	if n > 3 {
		raw[2] = zzC15BytesFrom("K2", []int{4, 6})
	}
	raw[n-1] = zzC15BytesFrom("Kend", lens)
	for i := 0; i < n; i++ {
		zzAssume(zzC15WellFormed(raw[i], c.endKey))
		if i+1 < n && (i+1 < n-1 || len(raw[n-1]) > 0) {
			zzAssume(bytes.Compare(raw[i], raw[i+1]) < 0)
		}
	}
	ws, we, werr := c.DecodeRange(raw[0], raw[n-1])
	zzAssume(werr == nil) // the region meets the keyspace
	in := make([][]byte, n)
	for i := range raw {
		in[i] = zzC15MC(raw[i])
	}
	ks, err := c.DecodeBucketKeys(in)
	zzAssert(err == nil, "bucket.err")
	zzAssert(len(ks) >= 2, "bucket.at-least-two")
	if err != nil || len(ks) < 2 {
		return
	}
	zzAssert(bytes.Equal(ks[0], ws), "bucket.first-is-clipped-start")
	zzAssert(bytes.Equal(ks[len(ks)-1], we), "bucket.last-is-clipped-end")
	// model of the interior
	var want [][]byte
	for i := 1; i < n-1; i++ {
		if bytes.HasPrefix(raw[i], p) && len(raw[i]) > len(p) {
			want = append(want, raw[i][len(p):])
		}
	}
	zzAssert(len(ks) == len(want)+2, "bucket.interior-count")
	if len(ks) != len(want)+2 {
		return
	}
	for i := range want {
		zzAssert(bytes.Equal(ks[i+1], want[i]), "bucket.interior")
	}
	// the result is strictly ascending (last empty = unbounded)
	for i := 0; i+1 < len(ks); i++ {
		if i+1 == len(ks)-1 && len(ks[i+1]) == 0 {
			continue
		}
		zzAssert(bytes.Compare(ks[i], ks[i+1]) < 0, "bucket.ascending")
	}
}

// ZZ_C15_region_error_key_not_in_region: the key is stripped and the region
// bounds clipped; a region that misses the keyspace is errKeyOutOfBound.
func ZZ_C15_region_error_key_not_in_region() {
	c, _, _ := zzC15CodecQ("mode", "id")
	if c == nil {
		return
	}
	out0, err0 := c.decodeRegionError(nil)
	zzAssert(out0 == nil && err0 == nil, "rerr.nil")
	lens := []int{0, 3, 4, 5, 6}
	k := zzBytes("k", 2)
	S := zzC15BytesFrom("S", lens)
	E := zzC15BytesFrom("E", lens)
	zzAssume(len(E) == 0 || bytes.Compare(S, E) < 0)
	zzAssume(zzC15WellFormed(S, c.endKey))
	zzAssume(zzC15WellFormed(E, c.endKey))
	ws, we, werr := c.DecodeRange(S, E)
	nl := &errorpb.NotLeader{RegionId: 7}
	in := &errorpb.Error{
		Message:        "m",
		NotLeader:      nl,
		KeyNotInRegion: &errorpb.KeyNotInRegion{Key: c.EncodeKey(k), RegionId: 9, StartKey: zzC15MC(S), EndKey: zzC15MC(E)},
	}
	out, err := c.decodeRegionError(in)
	if werr != nil {
		zzAssert(err != nil, "rerr.knir.disjoint-rejected")
		zzAssert(errors.Is(err, errKeyOutOfBound), "rerr.knir.disjoint-kind")
		return
	}
	zzAssert(err == nil && out != nil, "rerr.knir.err")
	if err != nil || out == nil {
		return
	}
	zzAssert(out.KeyNotInRegion != nil, "rerr.knir.kept")
	zzAssert(bytes.Equal(out.KeyNotInRegion.Key, k), "rerr.knir.key")
	zzAssert(bytes.Equal(out.KeyNotInRegion.StartKey, ws), "rerr.knir.start")
	zzAssert(bytes.Equal(out.KeyNotInRegion.EndKey, we), "rerr.knir.end")
	zzAssert(out.KeyNotInRegion.RegionId == 9, "rerr.knir.region-id")
	zzAssert(out.Message == "m" && out.NotLeader == nl, "rerr.knir.other-members-kept")
}

// ZZ_C15_region_error_epoch_not_match: of the reported sibling regions those
// meeting the keyspace are kept in order and clipped, the others dropped.
func ZZ_C15_region_error_epoch_not_match() {
	c, _, _ := zzC15CodecQ("mode", "id")
	if c == nil {
		return
	}
	n := 1 + zzChoice("n", zzParam("regions", 2))
	lens := []int{0, 4, 5}
	lens2 := lens
	if zzParam("tier", 0) == 0 {
		lens2 = []int{0, 5}
	}
	type rg struct {
		s, e []byte
		ok   bool
	}
	var model []rg
	var regions []*metapb.Region
	names := [][2]string{{"S0", "E0"}, {"S1", "E1"}, {"S2", "E2"}}
	for i := 0; i < n; i++ {
		ls := lens
		if i > 0 {
			ls = lens2
		}
		if i > 1 {
			ls = []int{0, 5}
		}
		S := zzC15BytesFrom(names[i][0], ls)
		E := zzC15BytesFrom(names[i][1], ls)
		zzAssume(len(E) == 0 || bytes.Compare(S, E) < 0)
		ws, we, werr := c.DecodeRange(S, E)
		model = append(model, rg{ws, we, werr == nil})
		regions = append(regions, &metapb.Region{Id: uint64(100 + i), StartKey: zzC15MC(S), EndKey: zzC15MC(E)})
	}
	in := &errorpb.Error{EpochNotMatch: &errorpb.EpochNotMatch{CurrentRegions: regions}}
	out, err := c.decodeRegionError(in)
	zzAssert(err == nil && out != nil && out.EpochNotMatch != nil, "rerr.enm.err")
	if err != nil || out == nil || out.EpochNotMatch == nil {
		return
	}
	got := out.EpochNotMatch.CurrentRegions
	j := 0
	for i := 0; i < n; i++ {
		if !model[i].ok {
			continue
		}
		zzAssert(j < len(got), "rerr.enm.region-lost")
		if j >= len(got) {
			return
		}
		zzAssert(got[j].Id == uint64(100+i), "rerr.enm.order")
		zzAssert(bytes.Equal(got[j].StartKey, model[i].s), "rerr.enm.start")
		zzAssert(bytes.Equal(got[j].EndKey, model[i].e), "rerr.enm.end")
		j++
	}
	zzAssert(j == len(got), "rerr.enm.no-foreign-region-kept")
}

// ZZ_C15_region_error_bucket_version_keys: the bucket boundaries carried by a
// BucketVersionNotMatch region error (RegionCache.OnBucketVersionNotMatch
// installs them as the region's bucket keys) are user keys after decoding,
// like the bucket keys that come from PD.
func ZZ_C15_region_error_bucket_version_keys() {
	c, _, _ := zzC15Codec("mode", "id")
	if c == nil {
		return
	}
	a, m, b := zzBytesN("a", 1), zzBytesN("m", 2), zzBytesN("b", 1)
	zzAssume(bytes.Compare(a, m) < 0 && bytes.Compare(m, b) < 0)
	keys := [][]byte{zzC15MC(c.EncodeKey(a)), zzC15MC(c.EncodeKey(m)), zzC15MC(c.EncodeKey(b))}
	in := &errorpb.Error{BucketVersionNotMatch: &errorpb.BucketVersionNotMatch{Version: 2, Keys: keys}}
	out, err := c.decodeRegionError(in)
	zzAssert(err == nil && out != nil && out.BucketVersionNotMatch != nil, "rerr.bvnm.err")
	if err != nil || out == nil || out.BucketVersionNotMatch == nil {
		return
	}
	got := out.BucketVersionNotMatch.Keys
	zzAssert(out.BucketVersionNotMatch.Version == 2, "rerr.bvnm.version-kept")
	ok := len(got) == 3
	if ok {
		ok = zzAnd(bytes.Equal(got[0], a), zzAnd(bytes.Equal(got[1], m), bytes.Equal(got[2], b)))
	}
	zzAssert(ok, "rerr.bvnm.keys-decoded")
}
