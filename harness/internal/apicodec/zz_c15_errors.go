package apicodec

import (
	"bytes"

	"github.com/pingcap/kvproto/pkg/deadlock"
	"github.com/pingcap/kvproto/pkg/kvrpcpb"
)

// C15 — key errors, lock descriptions, mvcc debug info, kv pairs: every key a
// store reports is stripped of the keyspace prefix; a key of a foreign
// keyspace in any of these positions is an error, never passed through.

// zzC15Keys draws n distinct-named one/two byte symbolic user keys (fixed
// lengths: key i has length 1 + i%2) so that every field gets its own key.
func zzC15Keys(tag string, n int) [][]byte {
	out := make([][]byte, n)
	for i := range out {
		out[i] = zzBytesN(tag+string(rune('A'+i/26))+string(rune('a'+i%26)), 1+i%2)
	}
	return out
}

func zzC15Lock(c *codecV2, ks [][]byte) *kvrpcpb.LockInfo {
	return &kvrpcpb.LockInfo{
		PrimaryLock: c.EncodeKey(ks[0]),
		Key:         c.EncodeKey(ks[1]),
		LockVersion: 5,
		Secondaries: [][]byte{c.EncodeKey(ks[2]), c.EncodeKey(ks[3])},
		SharedLockInfos: []*kvrpcpb.LockInfo{{
			PrimaryLock: c.EncodeKey(ks[4]),
			Key:         c.EncodeKey(ks[5]),
			Secondaries: [][]byte{c.EncodeKey(ks[6])},
		}},
	}
}

// zzC15LockOK: every key of the lock description equals the user key.
func zzC15LockOK(l *kvrpcpb.LockInfo, ks [][]byte) bool {
	if l == nil || len(l.Secondaries) != 2 || len(l.SharedLockInfos) != 1 || l.SharedLockInfos[0] == nil || len(l.SharedLockInfos[0].Secondaries) != 1 {
		return false
	}
	sh := l.SharedLockInfos[0]
	ok := bytes.Equal(l.PrimaryLock, ks[0])
	ok = zzAnd(ok, bytes.Equal(l.Key, ks[1]))
	ok = zzAnd(ok, bytes.Equal(l.Secondaries[0], ks[2]))
	ok = zzAnd(ok, bytes.Equal(l.Secondaries[1], ks[3]))
	ok = zzAnd(ok, bytes.Equal(sh.PrimaryLock, ks[4]))
	ok = zzAnd(ok, bytes.Equal(sh.Key, ks[5]))
	ok = zzAnd(ok, bytes.Equal(sh.Secondaries[0], ks[6]))
	return zzAnd(ok, l.LockVersion == 5)
}

const zzC15LockKeys = 7

func zzC15Mvcc(c *codecV2, ks [][]byte) *kvrpcpb.MvccInfo {
	return &kvrpcpb.MvccInfo{
		Lock:   &kvrpcpb.MvccLock{Primary: c.EncodeKey(ks[0]), Secondaries: [][]byte{c.EncodeKey(ks[1]), nil, c.EncodeKey(ks[2])}, ShortValue: []byte{1}},
		Writes: []*kvrpcpb.MvccWrite{{StartTs: 1, CommitTs: 2, ShortValue: []byte{2}}},
		Values: []*kvrpcpb.MvccValue{{StartTs: 1, Value: []byte{3}}},
	}
}

func zzC15MvccOK(m *kvrpcpb.MvccInfo, ks [][]byte) bool {
	if m == nil || m.Lock == nil || len(m.Lock.Secondaries) != 3 || len(m.Writes) != 1 || len(m.Values) != 1 {
		return false
	}
	ok := bytes.Equal(m.Lock.Primary, ks[0])
	ok = zzAnd(ok, bytes.Equal(m.Lock.Secondaries[0], ks[1]))
	ok = zzAnd(ok, len(m.Lock.Secondaries[1]) == 0)
	ok = zzAnd(ok, bytes.Equal(m.Lock.Secondaries[2], ks[2]))
	return zzAnd(ok, bytes.Equal(m.Lock.ShortValue, []byte{1}))
}

const zzC15MvccKeys = 3

// ZZ_C15_lock_info: decodeLockInfo strips key, primary, secondaries and the
// shared-lock descriptions (recursively).
func ZZ_C15_lock_info() {
	c, _, _ := zzC15Codec("mode", "id")
	if c == nil {
		return
	}
	out0, err0 := c.decodeLockInfo(nil)
	zzAssert(out0 == nil && err0 == nil, "lock.nil")
	ks := zzC15Keys("k", zzC15LockKeys)
	out, err := c.decodeLockInfo(zzC15Lock(c, ks))
	zzAssert(err == nil, "lock.err")
	zzAssert(zzC15LockOK(out, ks), "lock.stripped")
	// a list of locks
	ks2 := [][]byte{zzBytesN("j0", 1), zzBytesN("j1", 2)}
	locks, err := c.decodeLockInfos([]*kvrpcpb.LockInfo{{Key: c.EncodeKey(ks2[0])}, {Key: c.EncodeKey(ks2[1]), PrimaryLock: c.EncodeKey(ks2[0])}})
	zzAssert(err == nil && len(locks) == 2, "locks.err")
	if err == nil && len(locks) == 2 {
		zzAssert(bytes.Equal(locks[0].Key, ks2[0]) && len(locks[0].PrimaryLock) == 0, "locks.first")
		zzAssert(bytes.Equal(locks[1].Key, ks2[1]) && bytes.Equal(locks[1].PrimaryLock, ks2[0]), "locks.second")
	}
}

// ZZ_C15_lock_info_foreign: a key of another keyspace in any position of a
// lock description is rejected.
func ZZ_C15_lock_info_foreign() {
	c, _, _ := zzC15Codec("mode", "id")
	c2, _, _ := zzC15Codec("mode2", "id2")
	if c == nil || c2 == nil {
		return
	}
	zzAssume(!bytes.Equal(c.prefix, c2.prefix))
	ks := zzC15Keys("k", zzC15LockKeys)
	l := zzC15Lock(c, ks)
	bad := c2.EncodeKey(zzBytesN("f", 1))
	switch zzChoice("pos", zzC15LockKeys) {
	case 0:
		l.PrimaryLock = bad
	case 1:
		l.Key = bad
	case 2:
		l.Secondaries[0] = bad
	case 3:
		l.Secondaries[1] = bad
	case 4:
		l.SharedLockInfos[0].PrimaryLock = bad
	case 5:
		l.SharedLockInfos[0].Key = bad
	case 6:
		l.SharedLockInfos[0].Secondaries[0] = bad
	}
	_, err := c.decodeLockInfo(l)
	zzAssert(err != nil, "lock.foreign-rejected")
}

// ZZ_C15_mvcc_info: decodeMvccInfo strips the lock's primary and secondaries
// (empty entries stay empty), leaves writes/values alone.
func ZZ_C15_mvcc_info() {
	c, _, _ := zzC15Codec("mode", "id")
	if c == nil {
		return
	}
	out0, err0 := c.decodeMvccInfo(nil)
	zzAssert(out0 == nil && err0 == nil, "mvcc.nil")
	nolock := &kvrpcpb.MvccInfo{Values: []*kvrpcpb.MvccValue{{StartTs: 1}}}
	out1, err1 := c.decodeMvccInfo(nolock)
	zzAssert(out1 == nolock && err1 == nil, "mvcc.no-lock")
	ks := zzC15Keys("k", zzC15MvccKeys)
	out, err := c.decodeMvccInfo(zzC15Mvcc(c, ks))
	zzAssert(err == nil, "mvcc.err")
	zzAssert(zzC15MvccOK(out, ks), "mvcc.stripped")
	// foreign primary or secondary is rejected
	c2, _, _ := zzC15Codec("mode2", "id2")
	if c2 == nil {
		return
	}
	zzAssume(!bytes.Equal(c.prefix, c2.prefix))
	m := zzC15Mvcc(c, ks)
	bad := c2.EncodeKey(zzBytesN("f", 1))
	if zzChoice("pos", 2) == 0 {
		m.Lock.Primary = bad
	} else {
		m.Lock.Secondaries[2] = bad
	}
	_, err = c.decodeMvccInfo(m)
	zzAssert(err != nil, "mvcc.foreign-rejected")
}

// zzC15KeyErrorKeys is the number of user keys zzC15KeyError consumes.
const zzC15KeyErrorKeys = zzC15LockKeys + 2 + 1 + 4 + 1 + 1 + 1 + zzC15LockKeys + 1 + 1 + zzC15MvccKeys

// zzC15KeyError builds a key error with every sub-message present.
func zzC15KeyError(c *codecV2, ks [][]byte) *kvrpcpb.KeyError {
	i := 0
	next := func(n int) [][]byte { r := ks[i : i+n]; i += n; return r }
	e := &kvrpcpb.KeyError{Retryable: "r", Abort: "a"}
	e.Locked = zzC15Lock(c, next(zzC15LockKeys))
	w := next(2)
	e.Conflict = &kvrpcpb.WriteConflict{StartTs: 3, Key: c.EncodeKey(w[0]), Primary: c.EncodeKey(w[1])}
	e.AlreadyExist = &kvrpcpb.AlreadyExist{Key: c.EncodeKey(next(1)[0])}
	d := next(4)
	e.Deadlock = &kvrpcpb.Deadlock{LockTs: 4, LockKey: c.EncodeKey(d[0]), DeadlockKey: c.EncodeKey(d[1]),
		WaitChain: []*deadlock.WaitForEntry{{Txn: 1, Key: c.EncodeKey(d[2]), ResourceGroupTag: []byte{9}}, {Txn: 2, Key: c.EncodeKey(d[3])}}}
	e.CommitTsExpired = &kvrpcpb.CommitTsExpired{Key: c.EncodeKey(next(1)[0])}
	e.TxnNotFound = &kvrpcpb.TxnNotFound{PrimaryKey: c.EncodeKey(next(1)[0])}
	e.CommitTsTooLarge = &kvrpcpb.CommitTsTooLarge{CommitTs: 8}
	e.AssertionFailed = &kvrpcpb.AssertionFailed{Key: c.EncodeKey(next(1)[0])}
	e.PrimaryMismatch = &kvrpcpb.PrimaryMismatch{LockInfo: zzC15Lock(c, next(zzC15LockKeys))}
	e.TxnLockNotFound = &kvrpcpb.TxnLockNotFound{Key: c.EncodeKey(next(1)[0])}
	dk := next(1)
	e.DebugInfo = &kvrpcpb.DebugInfo{MvccInfo: []*kvrpcpb.MvccDebugInfo{{Key: c.EncodeKey(dk[0]), Mvcc: zzC15Mvcc(c, next(zzC15MvccKeys))}}}
	return e
}

// zzC15KeyErrorOK: every key of the key error equals the user key.
func zzC15KeyErrorOK(e *kvrpcpb.KeyError, ks [][]byte) bool {
	if e == nil || e.Conflict == nil || e.AlreadyExist == nil || e.Deadlock == nil || len(e.Deadlock.WaitChain) != 2 ||
		e.CommitTsExpired == nil || e.TxnNotFound == nil || e.AssertionFailed == nil || e.PrimaryMismatch == nil ||
		e.TxnLockNotFound == nil || e.DebugInfo == nil || len(e.DebugInfo.MvccInfo) != 1 || e.CommitTsTooLarge == nil {
		return false
	}
	i := 0
	next := func(n int) [][]byte { r := ks[i : i+n]; i += n; return r }
	ok := zzC15LockOK(e.Locked, next(zzC15LockKeys))
	w := next(2)
	ok = zzAnd(ok, zzAnd(bytes.Equal(e.Conflict.Key, w[0]), bytes.Equal(e.Conflict.Primary, w[1])))
	ok = zzAnd(ok, bytes.Equal(e.AlreadyExist.Key, next(1)[0]))
	d := next(4)
	ok = zzAnd(ok, zzAnd(bytes.Equal(e.Deadlock.LockKey, d[0]), bytes.Equal(e.Deadlock.DeadlockKey, d[1])))
	ok = zzAnd(ok, zzAnd(bytes.Equal(e.Deadlock.WaitChain[0].Key, d[2]), bytes.Equal(e.Deadlock.WaitChain[1].Key, d[3])))
	ok = zzAnd(ok, bytes.Equal(e.Deadlock.WaitChain[0].ResourceGroupTag, []byte{9}))
	ok = zzAnd(ok, bytes.Equal(e.CommitTsExpired.Key, next(1)[0]))
	ok = zzAnd(ok, bytes.Equal(e.TxnNotFound.PrimaryKey, next(1)[0]))
	ok = zzAnd(ok, bytes.Equal(e.AssertionFailed.Key, next(1)[0]))
	ok = zzAnd(ok, zzC15LockOK(e.PrimaryMismatch.LockInfo, next(zzC15LockKeys)))
	ok = zzAnd(ok, bytes.Equal(e.TxnLockNotFound.Key, next(1)[0]))
	ok = zzAnd(ok, bytes.Equal(e.DebugInfo.MvccInfo[0].Key, next(1)[0]))
	ok = zzAnd(ok, zzC15MvccOK(e.DebugInfo.MvccInfo[0].Mvcc, next(zzC15MvccKeys)))
	return zzAnd(ok, zzAnd(e.Retryable == "r", e.CommitTsTooLarge.CommitTs == 8))
}

// ZZ_C15_key_error: decodeKeyError strips the keys of every sub-message.
func ZZ_C15_key_error() {
	c, _, _ := zzC15Codec("mode", "id")
	if c == nil {
		return
	}
	out0, err0 := c.decodeKeyError(nil)
	zzAssert(out0 == nil && err0 == nil, "kerr.nil")
	plain := &kvrpcpb.KeyError{Retryable: "x"}
	out1, err1 := c.decodeKeyError(plain)
	zzAssert(out1 == plain && err1 == nil && out1.Retryable == "x", "kerr.plain")
	ks := zzC15Keys("k", zzC15KeyErrorKeys)
	out, err := c.decodeKeyError(zzC15KeyError(c, ks))
	zzAssert(err == nil, "kerr.err")
	zzAssert(zzC15KeyErrorOK(out, ks), "kerr.stripped")
	// a list
	ks2 := zzC15Keys("j", zzC15KeyErrorKeys)
	outs, err := c.decodeKeyErrors([]*kvrpcpb.KeyError{zzC15KeyError(c, ks), nil, zzC15KeyError(c, ks2)})
	zzAssert(err == nil && len(outs) == 3, "kerrs.err")
	if err == nil && len(outs) == 3 {
		zzAssert(zzC15KeyErrorOK(outs[0], ks), "kerrs.first")
		zzAssert(outs[1] == nil, "kerrs.nil-kept")
		zzAssert(zzC15KeyErrorOK(outs[2], ks2), "kerrs.last")
	}
}

// ZZ_C15_key_error_foreign: a foreign key in any single-key sub-message is
// rejected (the lock and mvcc positions are covered by their own harnesses
// and, through Locked / PrimaryMismatch / DebugInfo, here).
func ZZ_C15_key_error_foreign() {
	c, _, _ := zzC15Codec("mode", "id")
	c2, _, _ := zzC15Codec("mode2", "id2")
	if c == nil || c2 == nil {
		return
	}
	zzAssume(!bytes.Equal(c.prefix, c2.prefix))
	ks := zzC15Keys("k", zzC15KeyErrorKeys)
	e := zzC15KeyError(c, ks)
	bad := c2.EncodeKey(zzBytesN("f", 1))
	switch zzChoice("pos", 15) {
	case 0:
		e.Locked.Key = bad
	case 1:
		e.Conflict.Key = bad
	case 2:
		e.Conflict.Primary = bad
	case 3:
		e.AlreadyExist.Key = bad
	case 4:
		e.Deadlock.LockKey = bad
	case 5:
		e.Deadlock.DeadlockKey = bad
	case 6:
		e.Deadlock.WaitChain[1].Key = bad
	case 7:
		e.CommitTsExpired.Key = bad
	case 8:
		e.TxnNotFound.PrimaryKey = bad
	case 9:
		e.AssertionFailed.Key = bad
	case 10:
		e.PrimaryMismatch.LockInfo.PrimaryLock = bad
	case 11:
		e.TxnLockNotFound.Key = bad
	case 12:
		e.DebugInfo.MvccInfo[0].Key = bad
	case 13:
		e.DebugInfo.MvccInfo[0].Mvcc.Lock.Primary = bad
	case 14:
		e.Locked.SharedLockInfos[0].Secondaries[0] = bad
	}
	_, err := c.decodeKeyError(e)
	zzAssert(err != nil, "kerr.foreign-rejected")
}

// ZZ_C15_pairs: decodePairs strips keys, decodes embedded key errors, keeps
// values and empty keys, and does not modify the wire pairs' key.
func ZZ_C15_pairs() {
	c, _, _ := zzC15Codec("mode", "id")
	if c == nil {
		return
	}
	k0, k1, k2 := zzBytes("a", 2), zzBytesN("b", 1), zzBytesN("e", 2)
	v := zzBytesN("v", 1)
	in := []*kvrpcpb.KvPair{
		{Key: c.EncodeKey(k0), Value: v, CommitTs: 7},
		{Key: nil, Error: &kvrpcpb.KeyError{AlreadyExist: &kvrpcpb.AlreadyExist{Key: c.EncodeKey(k2)}}},
		{Key: c.EncodeKey(k1)},
	}
	wire0 := zzC15Clone(in[0].Key)
	out, err := c.decodePairs(in)
	zzAssert(err == nil && len(out) == 3, "pairs.err")
	if err != nil || len(out) != 3 {
		return
	}
	zzAssert(bytes.Equal(out[0].Key, k0), "pairs.key0")
	zzAssert(bytes.Equal(out[0].Value, v) && out[0].CommitTs == 7, "pairs.value-kept")
	zzAssert(len(out[1].Key) == 0, "pairs.empty-key-kept")
	zzAssert(out[1].Error != nil && out[1].Error.AlreadyExist != nil && bytes.Equal(out[1].Error.AlreadyExist.Key, k2), "pairs.error-decoded")
	zzAssert(bytes.Equal(out[2].Key, k1), "pairs.key2")
	zzAssert(bytes.Equal(in[0].Key, wire0), "pairs.wire-unmodified")
	// foreign key rejected
	c2, _, _ := zzC15Codec("mode2", "id2")
	if c2 == nil {
		return
	}
	zzAssume(!bytes.Equal(c.prefix, c2.prefix))
	_, err = c.decodePairs([]*kvrpcpb.KvPair{{Key: c.EncodeKey(k1)}, {Key: c2.EncodeKey(k1)}})
	zzAssert(err != nil, "pairs.foreign-rejected")
	empty, err := c.decodePairs(nil)
	zzAssert(err == nil && len(empty) == 0, "pairs.none")
}
