package apicodec

import (
	"bytes"

	"github.com/pingcap/kvproto/pkg/keyspacepb"
	"github.com/pkg/errors"
)

// C15 — API v2 keyspace codec, key / range kernels.
//
// Conventions of the models below (written from the property statement, not
// from the code): a keyspace (mode, id) owns exactly the byte strings that
// start with its 4-byte prefix  mode ‖ id(24 bit, big endian); an empty range
// end means "unbounded"; an encoded (wire) range end that is empty means the
// end of the whole store.

// zzC15Codec builds a codec for a symbolic (mode, keyspace id) pair.
func zzC15Codec(modeName, idName string) (*codecV2, Mode, uint32) {
	mode := Mode(zzChoice(modeName, 2))
	id := zzU32(idName)
	zzAssume(id <= 0xFFFFFF)
	c, err := NewCodecV2(mode, zzC15Meta(id))
	if err != nil {
		zzAssert(false, "codec.construct")
		return nil, mode, id
	}
	return c.(*codecV2), mode, id
}

// zzC15CodecQ is zzC15Codec for the expensive region-level harnesses: they
// depend on the mode only through prefix[0], so the quick tier fixes the mode
// (txn) and only the thorough tier forks over both.
func zzC15CodecQ(modeName, idName string) (*codecV2, Mode, uint32) {
	if zzParam("tier", 0) != 0 {
		return zzC15Codec(modeName, idName)
	}
	id := zzU32(idName)
	zzAssume(id <= 0xFFFFFF)
	c, err := NewCodecV2(ModeTxn, zzC15Meta(id))
	if err != nil {
		zzAssert(false, "codec.construct")
		return nil, ModeTxn, id
	}
	return c.(*codecV2), ModeTxn, id
}

func zzC15Meta(id uint32) *keyspacepb.KeyspaceMeta {
	return &keyspacepb.KeyspaceMeta{Keyspace: &keyspacepb.KeyspaceMeta_Id{Id: id}}
}

// zzC15Prefix is the model of the keyspace prefix.
func zzC15Prefix(mode Mode, id uint32) []byte {
	m := byte('r')
	if mode == ModeTxn {
		m = 'x'
	}
	return []byte{m, byte(id >> 16), byte(id >> 8), byte(id)}
}

func zzC15Cat(a, b []byte) []byte {
	out := make([]byte, 0, len(a)+len(b))
	out = append(out, a...)
	return append(out, b...)
}

// zzC15InRange: k ∈ [s, e) with empty e = +inf.
func zzC15InRange(k, s, e []byte) bool {
	return zzAnd(bytes.Compare(k, s) >= 0, zzOr(len(e) == 0, bytes.Compare(k, e) < 0))
}

// zzC15WellFormed: the precondition on arbitrary store-side strings (region
// bounds, foreign keys) relative to a keyspace with end bound `end`
// (= prefix+1): the string is not a proper, 1..3 byte, prefix of `end`.  Such
// strings sort inside [prefix, end) without carrying the prefix.  They are
// never well-formed API-v2 keys (those have >= 4 bytes); they could be API-v1
// keys only for id 0xFFFFFF, where end = (mode+1) 00 00 00.
func zzC15WellFormed(s, end []byte) bool {
	if len(s) == 0 || len(s) >= keyspacePrefixLen {
		return true
	}
	return !bytes.Equal(s, end[:len(s)])
}

func zzC15Clone(b []byte) []byte { return append([]byte(nil), b...) }

// ZZ_C15_new_bounds: NewCodecV2 accepts exactly the 24-bit ids, the prefix is
// mode ‖ id, and [prefix, endKey) contains exactly the strings that start with
// the prefix (so endKey is the tight exclusive bound, also for id 0xFFFFFF
// where the +1 carries out of the id bytes).
func ZZ_C15_new_bounds() {
	mode := Mode(zzChoice("mode", 2))
	id := zzU32("id")
	c, err := NewCodecV2(mode, zzC15Meta(id))
	if id > 0xFFFFFF {
		zzAssert(err != nil, "new.reject-wide-id")
		return
	}
	zzAssert(err == nil, "new.accept")
	if err != nil {
		return
	}
	cv := c.(*codecV2)
	want := zzC15Prefix(mode, id)
	zzAssert(len(cv.prefix) == 4, "new.len")
	zzAssert(len(cv.endKey) == 4, "new.end-len")
	zzAssert(bytes.Equal(cv.prefix, want), "new.prefix")
	zzAssert(bytes.Equal(c.GetKeyspace(), want), "new.get-keyspace")
	zzAssert(uint32(c.GetKeyspaceID()) == id, "new.get-id")
	zzAssert(bytes.Compare(cv.prefix, cv.endKey) < 0, "new.end-above-prefix")
	// tightness: an arbitrary store key lies in [prefix, endKey) iff it carries the prefix
	s := zzBytes("s", 6)
	zzAssume(zzC15WellFormed(s, cv.endKey))
	in := zzAnd(bytes.Compare(s, cv.prefix) >= 0, bytes.Compare(s, cv.endKey) < 0)
	zzAssert(in == bytes.HasPrefix(s, want), "new.bounds-tight")
	// the other mode's prefix byte is never reached by the carry
	zzAssert(zzOr(cv.endKey[0] == want[0], zzAnd(cv.endKey[0] == want[0]+1, id == 0xFFFFFF)), "new.carry")
	// unknown modes and a missing meta are refused
	_, err2 := NewCodecV2(Mode(2), zzC15Meta(id))
	zzAssert(err2 != nil, "new.reject-mode")
	_, err3 := NewCodecV2(mode, nil)
	zzAssert(err3 != nil, "new.reject-nil")
}

// ZZ_C15_key_roundtrip: EncodeKey = prefix ‖ k, DecodeKey inverts it, neither
// touches its input nor the codec, and two encodings never share storage.
func ZZ_C15_key_roundtrip() {
	c, mode, id := zzC15Codec("mode", "id")
	if c == nil {
		return
	}
	p := zzC15Prefix(mode, id)
	k := zzBytes("k", 2)
	k0 := zzC15Clone(k)
	enc := c.EncodeKey(k)
	zzAssert(bytes.Equal(enc, zzC15Cat(p, k0)), "key.enc-form")
	zzAssert(bytes.Equal(k, k0), "key.enc-input-unmodified")
	k2 := zzBytes("k2", 2)
	enc2 := c.EncodeKey(k2)
	zzAssert(bytes.Equal(enc, zzC15Cat(p, k0)), "key.enc-no-alias")
	zzAssert(bytes.Equal(enc2, zzC15Cat(p, k2)), "key.enc2-form")
	zzAssert(bytes.Equal(c.prefix, p), "key.prefix-intact")
	dec, err := c.DecodeKey(enc)
	zzAssert(err == nil, "key.dec-err")
	zzAssert(bytes.Equal(dec, k0), "key.roundtrip")
	zzAssert(bytes.Equal(enc, zzC15Cat(p, k0)), "key.dec-input-unmodified")
	// package level helpers agree
	pid, perr := ParseKeyspaceID(enc)
	zzAssert(perr == nil && uint32(pid) == id, "key.parse-id")
}

// ZZ_C15_key_decode_foreign: DecodeKey of an arbitrary store key succeeds iff
// the key carries this keyspace's prefix (empty input is "no key").
func ZZ_C15_key_decode_foreign() {
	c, mode, id := zzC15Codec("mode", "id")
	if c == nil {
		return
	}
	p := zzC15Prefix(mode, id)
	e := zzBytes("e", 6)
	dec, err := c.DecodeKey(e)
	if len(e) == 0 {
		zzAssert(err == nil && len(dec) == 0, "foreign.empty")
		return
	}
	if bytes.HasPrefix(e, p) {
		zzAssert(err == nil, "foreign.own-accepted")
		zzAssert(bytes.Equal(dec, e[4:]), "foreign.own-stripped")
	} else {
		zzAssert(err != nil, "foreign.rejected")
		zzAssert(errors.Is(err, errKeyOutOfBound), "foreign.rejected-kind")
	}
}

// ZZ_C15_key_order: encoding preserves the order of user keys and keeps every
// key inside [prefix, endKey).
func ZZ_C15_key_order() {
	c, _, _ := zzC15Codec("mode", "id")
	if c == nil {
		return
	}
	a, b := zzBytes("a", 2), zzBytes("b", 2)
	ea, eb := c.EncodeKey(a), c.EncodeKey(b)
	ca, cb := bytes.Compare(ea, eb), bytes.Compare(a, b)
	zzAssert((ca < 0) == (cb < 0), "order.lt")
	zzAssert((ca == 0) == (cb == 0), "order.eq")
	zzAssert(bytes.Compare(c.prefix, ea) <= 0, "isolation.lower")
	zzAssert(bytes.Compare(ea, c.endKey) < 0, "isolation.upper")
}

// ZZ_C15_disjoint: two different (mode, id) pairs own disjoint intervals, no
// key of one is accepted by the other.
func ZZ_C15_disjoint() {
	c1, m1, id1 := zzC15Codec("mode1", "id1")
	c2, m2, id2 := zzC15Codec("mode2", "id2")
	if c1 == nil || c2 == nil {
		return
	}
	zzAssume(m1 != m2 || id1 != id2)
	zzAssert(zzOr(bytes.Compare(c1.endKey, c2.prefix) <= 0, bytes.Compare(c2.endKey, c1.prefix) <= 0), "disjoint.intervals")
	k1, k2 := zzBytes("k1", 2), zzBytes("k2", 2)
	e1, e2 := c1.EncodeKey(k1), c2.EncodeKey(k2)
	zzAssert(!bytes.Equal(e1, e2), "disjoint.keys")
	_, err := c2.DecodeKey(e1)
	zzAssert(err != nil, "disjoint.cross-decode-rejected")
	// a range of keyspace 1 (also the unbounded one) never reaches keyspace 2
	s, e := c1.EncodeRange(k1, nil)
	zzAssert(!zzC15InRange(e2, s, e), "disjoint.unbounded-range")
}

// ZZ_C15_encode_range: forward, reverse and unbounded ranges select exactly
// the user keys of the logical range.
func ZZ_C15_encode_range() {
	c, mode, id := zzC15Codec("mode", "id")
	if c == nil {
		return
	}
	p := zzC15Prefix(mode, id)
	s, e := zzBytes("s", 2), zzBytes("e", 2)
	k := zzBytes("k", 2)
	ek := zzC15Cat(p, k)
	if zzChoice("reverse", 2) == 0 {
		es, ee := c.encodeRange(s, e, false)
		zzAssert(bytes.Equal(es, zzC15Cat(p, s)), "range.fwd.start-form")
		if len(e) > 0 {
			zzAssert(bytes.Equal(ee, zzC15Cat(p, e)), "range.fwd.end-form")
		} else {
			zzAssert(len(ee) > 0, "range.fwd.open-end-bounded")
		}
		zzAssert(zzC15InRange(k, s, e) == zzC15InRange(ek, es, ee), "range.fwd.members")
		// nothing outside the keyspace is selected
		x := zzBytes("x", 6)
		zzAssume(zzC15WellFormed(x, c.endKey))
		zzAssert(zzImplies(zzC15InRange(x, es, ee), bytes.HasPrefix(x, p)), "range.fwd.isolated")
		ps, pe := c.EncodeRange(s, e)
		zzAssert(bytes.Equal(ps, es) && bytes.Equal(pe, ee), "range.fwd.public-same")
	} else {
		// reverse scan: s is the exclusive upper bound (empty = unbounded), e the inclusive lower bound
		es, ee := c.encodeRange(s, e, true)
		zzAssert(bytes.Equal(ee, zzC15Cat(p, e)), "range.rev.lower-form")
		if len(s) > 0 {
			zzAssert(bytes.Equal(es, zzC15Cat(p, s)), "range.rev.upper-form")
		} else {
			zzAssert(len(es) > 0, "range.rev.open-upper-bounded")
		}
		zzAssert(zzC15InRange(k, e, s) == zzC15InRange(ek, ee, es), "range.rev.members")
		x := zzBytes("x", 6)
		zzAssume(zzC15WellFormed(x, c.endKey))
		zzAssert(zzImplies(zzC15InRange(x, ee, es), bytes.HasPrefix(x, p)), "range.rev.isolated")
	}
	zzAssert(bytes.Equal(c.prefix, p), "range.prefix-intact")
}

// ZZ_C15_decode_range: an arbitrary store range [S,E) (E empty = end of
// store) that meets the keyspace is clipped to the user keys it contains; a
// range that misses the keyspace is errKeyOutOfBound.
func ZZ_C15_decode_range() {
	c, mode, id := zzC15Codec("mode", "id")
	if c == nil {
		return
	}
	p := zzC15Prefix(mode, id)
	S, E := zzBytes("S", 6), zzBytes("E", 6)
	zzAssume(len(E) == 0 || bytes.Compare(S, E) < 0)
	zzAssume(zzC15WellFormed(S, c.endKey))
	zzAssume(zzC15WellFormed(E, c.endKey))
	S0, E0 := zzC15Clone(S), zzC15Clone(E)
	s, e, err := c.DecodeRange(S, E)
	zzAssert(bytes.Equal(S, S0) && bytes.Equal(E, E0), "drange.input-unmodified")
	// does [S,E) contain any string carrying the prefix?  The smallest such
	// string is the prefix itself, the candidates inside [S, ...) are S itself
	// (if it carries the prefix) and the prefix.
	meets := zzOr(zzC15InRange(p, S, E), zzAnd(bytes.HasPrefix(S, p), zzC15InRange(S, S, E)))
	if !meets {
		zzAssert(err != nil, "drange.disjoint-rejected")
		zzAssert(errors.Is(err, errKeyOutOfBound), "drange.disjoint-kind")
		// and indeed no user key is in the range
		k := zzBytes("k", 2)
		zzAssert(!zzC15InRange(zzC15Cat(p, k), S, E), "drange.disjoint-model")
		return
	}
	zzAssert(err == nil, "drange.meets-accepted")
	if err != nil {
		return
	}
	k := zzBytes("k", 2)
	zzAssert(zzC15InRange(k, s, e) == zzC15InRange(zzC15Cat(p, k), S, E), "drange.members")
	zzAssert(s != nil && e != nil, "drange.non-nil")
}

// ZZ_C15_range_roundtrip: DecodeRange(EncodeRange(s,e)) = (s,e).
func ZZ_C15_range_roundtrip() {
	c, _, _ := zzC15Codec("mode", "id")
	if c == nil {
		return
	}
	s, e := zzBytes("s", 2), zzBytes("e", 2)
	es, ee := c.EncodeRange(s, e)
	ds, de, err := c.DecodeRange(es, ee)
	zzAssert(err == nil, "rrt.err")
	zzAssert(bytes.Equal(ds, s), "rrt.start")
	zzAssert(bytes.Equal(de, e), "rrt.end")
}
