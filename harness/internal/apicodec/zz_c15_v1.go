package apicodec

import (
	"bytes"

	"github.com/pingcap/kvproto/pkg/errorpb"
	"github.com/pingcap/kvproto/pkg/kvrpcpb"
	"github.com/pingcap/kvproto/pkg/metapb"
	"github.com/tikv/client-go/v2/tikvrpc"
	"github.com/tikv/client-go/v2/util/codec"
)

// C15 — codec v1, the unprefixed baseline the keyspace client must be
// indistinguishable from: identity on keys and ranges; region keys are
// memcomparable in txn mode and verbatim in raw mode; requests are cloned.

// zzC15V1Region is the wire form of a region / bucket bound under codec v1.
func zzC15V1Region(mode Mode, k []byte) []byte {
	if len(k) == 0 || mode == ModeRaw {
		return k
	}
	return codec.EncodeBytes(nil, k)
}

// ZZ_C15_v1_identity: keys and ranges pass through unchanged; EncodeRequest
// hands out a clone that carries API version 1 and leaves the message alone.
func ZZ_C15_v1_identity() {
	mode := Mode(zzChoice("mode", 2))
	c := NewCodecV1(mode)
	k, e := zzBytes("k", 2), zzBytes("e", 2)
	zzAssert(bytes.Equal(c.EncodeKey(k), k), "v1.key-enc")
	dk, err := c.DecodeKey(k)
	zzAssert(err == nil && bytes.Equal(dk, k), "v1.key-dec")
	es, ee := c.EncodeRange(k, e)
	zzAssert(bytes.Equal(es, k) && bytes.Equal(ee, e), "v1.range-enc")
	ds, de, err := c.DecodeRange(k, e)
	zzAssert(err == nil && bytes.Equal(ds, k) && bytes.Equal(de, e), "v1.range-dec")
	msg := &kvrpcpb.GetRequest{Key: k}
	req := tikvrpc.NewRequest(tikvrpc.CmdGet, msg)
	enc, err := c.EncodeRequest(req)
	zzAssert(err == nil && enc != nil && enc != req, "v1.request-cloned")
	if err != nil || enc == nil {
		return
	}
	zzAssert(enc.GetApiVersion() == kvrpcpb.APIVersion_V1, "v1.api-version")
	zzAssert(enc.Req == interface{}(msg) && bytes.Equal(msg.Key, k), "v1.message-untouched")
}

// ZZ_C15_v1_region: region keys, region ranges, bucket keys and the region
// descriptions inside region errors are decoded to user keys (round trip
// through the real memcomparable codec in txn mode).
func ZZ_C15_v1_region() {
	mode := Mode(zzChoice("mode", 2))
	cc := NewCodecV1(mode)
	c := cc.(*codecV1)
	lens := []int{0, 1, 2, 9}
	s := zzC15BytesFrom("s", lens)
	e := zzC15BytesFrom("e", lens)
	m := zzBytesN("m", 1)
	// region key / range round trip
	rk, err := c.DecodeRegionKey(c.EncodeRegionKey(m))
	zzAssert(err == nil && bytes.Equal(rk, m), "v1.region-key")
	rs, re := c.EncodeRegionRange(s, e)
	if len(e) == 0 {
		zzAssert(len(re) == 0, "v1.region-range-open-end")
	}
	ds, de, err := c.DecodeRegionRange(rs, re)
	zzAssert(err == nil && bytes.Equal(ds, s) && bytes.Equal(de, e), "v1.region-range")
	// region error
	in := &errorpb.Error{
		KeyNotInRegion:        &errorpb.KeyNotInRegion{Key: m, StartKey: zzC15V1Region(mode, s), EndKey: zzC15V1Region(mode, e)},
		EpochNotMatch:         &errorpb.EpochNotMatch{CurrentRegions: []*metapb.Region{{Id: 1, StartKey: zzC15V1Region(mode, s), EndKey: zzC15V1Region(mode, m)}, {Id: 2, StartKey: zzC15V1Region(mode, m), EndKey: zzC15V1Region(mode, e)}}},
		BucketVersionNotMatch: &errorpb.BucketVersionNotMatch{Version: 3, Keys: [][]byte{zzC15V1Region(mode, s), zzC15V1Region(mode, m), zzC15V1Region(mode, e)}},
	}
	out, err := c.decodeRegionError(in)
	zzAssert(err == nil && out != nil, "v1.rerr.err")
	if err != nil || out == nil {
		return
	}
	kn := out.KeyNotInRegion
	zzAssert(kn != nil && bytes.Equal(kn.Key, m) && bytes.Equal(kn.StartKey, s) && bytes.Equal(kn.EndKey, e), "v1.rerr.key-not-in-region")
	rg := out.EpochNotMatch.CurrentRegions
	zzAssert(len(rg) == 2 && bytes.Equal(rg[0].StartKey, s) && bytes.Equal(rg[0].EndKey, m) && bytes.Equal(rg[1].StartKey, m) && bytes.Equal(rg[1].EndKey, e), "v1.rerr.epoch-not-match")
	bk := out.BucketVersionNotMatch.Keys
	zzAssert(len(bk) == 3 && bytes.Equal(bk[0], s) && bytes.Equal(bk[1], m) && bytes.Equal(bk[2], e) && out.BucketVersionNotMatch.Version == 3, "v1.rerr.bucket-keys")
	// the response path applies it
	resp := &kvrpcpb.GetResponse{RegionError: &errorpb.Error{KeyNotInRegion: &errorpb.KeyNotInRegion{StartKey: zzC15V1Region(mode, s), EndKey: zzC15V1Region(mode, e)}}}
	dr, err := cc.DecodeResponse(tikvrpc.NewRequest(tikvrpc.CmdGet, &kvrpcpb.GetRequest{}), &tikvrpc.Response{Resp: resp})
	zzAssert(err == nil && dr != nil, "v1.response.err")
	zzAssert(bytes.Equal(resp.RegionError.KeyNotInRegion.StartKey, s) && bytes.Equal(resp.RegionError.KeyNotInRegion.EndKey, e), "v1.response.region-error-decoded")
}
