package client

// C18 (reduced claim): dispatch by request id and exactly-once completion for
// batchCommandsClient.send / batchRecvLoop (scripted recv) / failRequestsByIDs /
// failPendingRequests, and the two selects of sendBatchRequest. The stream is a harness
// implementation of tikvpb.Tikv_BatchCommandsClient; no gRPC is involved.

import (
	"context"
	"errors"
	"sync"
	"sync/atomic"
	"time"

	"github.com/pingcap/kvproto/pkg/kvrpcpb"
	"github.com/pingcap/kvproto/pkg/tikvpb"
	"github.com/tikv/client-go/v2/config"
)

// zzStream is a scripted batch stream: Send records the request (or fails), Recv hands out the
// scripted responses one by one and then reports the stream as broken after marking the client closed
// (so that batchRecvLoop returns instead of trying to re-dial).
type zzStream struct {
	tikvpb.Tikv_BatchCommandsClient
	owner    *batchCommandsClient
	sendErr  error
	sent     []*tikvpb.BatchCommandsRequest
	script   []*tikvpb.BatchCommandsResponse
	received int
	done     chan struct{}
}

func (s *zzStream) Send(r *tikvpb.BatchCommandsRequest) error {
	if s.sendErr != nil {
		return s.sendErr
	}
	// the ids and requests as they are at send time (the builder reuses the slices afterwards)
	cp := &tikvpb.BatchCommandsRequest{RequestIds: append([]uint64{}, r.RequestIds...), Requests: append([]*tikvpb.BatchCommandsRequest_Request{}, r.Requests...)}
	s.sent = append(s.sent, cp)
	return nil
}

func (s *zzStream) Recv() (*tikvpb.BatchCommandsResponse, error) {
	if s.received < len(s.script) {
		r := s.script[s.received]
		s.received++
		return r, nil
	}
	atomic.StoreInt32(&s.owner.closed, 1)
	if s.done != nil {
		close(s.done)
		s.done = nil
	}
	return nil, errors.New("stream ended")
}

func zzBatchClient(hosts []string) (*batchCommandsClient, map[string]*zzStream) {
	c := &batchCommandsClient{
		target:           "t",
		connIdx:          "0",
		forwardedClients: map[string]*batchCommandsStream{},
		tikvClientCfg:    config.DefaultTiKVClient(),
		tikvLoad:         new(uint64),
		tryLock:          tryLock{Cond: sync.NewCond(new(sync.Mutex))},
		eventListener:    new(atomic.Pointer[ClientEventListener]),
		metrics:          initBatchCommandsClientMetrics("t", "0"),
	}
	c.maxConcurrencyRequestLimit.Store(1 << 20)
	streams := map[string]*zzStream{}
	for _, h := range hosts {
		zs := &zzStream{owner: c}
		streams[h] = zs
		bs := &batchCommandsStream{Tikv_BatchCommandsClient: zs, forwardedHost: h, connIdx: "0"}
		if h == "" {
			c.client = bs
		} else {
			c.forwardedClients[h] = bs
		}
	}
	return c, streams
}

func zzResp(tag uint64) *tikvpb.BatchCommandsResponse_Response {
	return &tikvpb.BatchCommandsResponse_Response{Cmd: &tikvpb.BatchCommandsResponse_Response_Get{Get: &kvrpcpb.GetResponse{CommitTs: tag}}}
}

// zzOutcome reads what an entry's caller would see without blocking:
// 0 nothing yet, 1 a response (returned), 2 failed (channel closed, err set).
func zzOutcome(e *batchCommandsEntry) (int, *tikvpb.BatchCommandsResponse_Response) {
	select {
	case r, ok := <-e.res:
		if !ok {
			return 2, nil
		}
		return 1, r
	default:
		return 0, nil
	}
}

// ZZ_C18_dispatch: n entries go through getClientAndSend (real builder + send) on one connection with
// a scripted stream per forwarded host; the store answers a symbolic subset in a symbolic order, plus a
// response for an id that was never issued and a duplicate of an answered id; one entry may have been
// cancelled after sending. Each caller sees the response registered under its own id, at most once; the
// unknown and duplicate ids are dropped; answered entries leave the table; the in-flight counter matches.
func ZZ_C18_dispatch() {
	n := zzParam("dentries", 3)
	nh := zzParam("hosts", 2)
	c, streams := zzBatchClient(zzHosts[:nh])
	a := newBatchConn(1, 8, new(uint32))
	a.initMetrics("t")
	a.batchCommandsClients = append(a.batchCommandsClients, c)
	var entries []*batchCommandsEntry
	for i := 0; i < n; i++ {
		e := zzEntryP(uint64(i)) // priorities are the builder harnesses' subject
		entries = append(entries, e)
		a.reqBuilder.push(e)
	}
	a.getClientAndSend()
	zzAssert(a.reqBuilder.len() == 0, "dispatch.all-sent")
	// what was sent: id -> entry, per host; ids unique over all streams of the connection
	idOf := map[*batchCommandsEntry]uint64{}
	hostOf := map[uint64]string{}
	okSent := true
	total := 0
	for h, zs := range streams {
		for _, r := range zs.sent {
			for i, id := range r.RequestIds {
				total++
				_, dup := hostOf[id]
				okSent = okSent && !dup && id != 0
				hostOf[id] = h
				v, in := c.batched.Load(id)
				okSent = okSent && in
				if in {
					e := v.(*batchCommandsEntry)
					okSent = okSent && e.req == r.Requests[i] && e.forwardedHost == h && e.requestID.Load() == id
					idOf[e] = id
				}
			}
		}
	}
	zzAssert(okSent && total == n && len(idOf) == n, "dispatch.sent-ids-unique-and-registered")
	zzAssert(c.sent.Load() == int64(n), "dispatch.inflight-counter-after-send")

	// one entry may be cancelled by its caller now (time-out / context) - it must get nothing
	victim := zzChoice("victim", n+1)
	if victim < n {
		atomic.StoreInt32(&entries[victim].canceled, 1)
	}
	// script the answers of each stream
	answered := map[uint64]*tikvpb.BatchCommandsResponse_Response{}
	dupAnswer := zzBool("dupanswer")
	for h, zs := range streams {
		resp := &tikvpb.BatchCommandsResponse{}
		add := func(id uint64, r *tikvpb.BatchCommandsResponse_Response) {
			resp.RequestIds = append(resp.RequestIds, id)
			resp.Responses = append(resp.Responses, r)
		}
		var mine []*batchCommandsEntry
		for _, e := range entries {
			if e.forwardedHost == h {
				mine = append(mine, e)
			}
		}
		if zzBool("reversed") {
			for i, j := 0, len(mine)-1; i < j; i, j = i+1, j-1 {
				mine[i], mine[j] = mine[j], mine[i]
			}
		}
		add(1000, zzResp(1000)) // never issued
		for _, e := range mine {
			if zzBool("answer") {
				r := zzResp(idOf[e])
				answered[idOf[e]] = r
				add(idOf[e], r)
				if dupAnswer {
					add(idOf[e], zzResp(7777)) // a second response under the same id
				}
			}
		}
		zs.script = []*tikvpb.BatchCommandsResponse{resp}
	}
	for h, zs := range streams {
		var bs *batchCommandsStream
		if h == "" {
			bs = c.client
		} else {
			bs = c.forwardedClients[h]
		}
		atomic.StoreInt32(&c.closed, 0)
		zs.done = make(chan struct{})
		done := zs.done
		go c.batchRecvLoop(c.tikvClientCfg, c.tikvLoad, bs)
		<-done
	}
	// outcomes
	own, removed := true, true
	left := 0
	for i, e := range entries {
		id := idOf[e]
		kind, r := zzOutcome(e)
		want, ans := answered[id]
		switch {
		case ans && i != victim:
			own = own && kind == 1 && r == want // its own response, the first one
			k2, _ := zzOutcome(e)
			own = own && k2 == 0 // and nothing more
		default:
			own = own && kind == 0 // not answered, or cancelled: nothing delivered, not failed
		}
		_, in := c.batched.Load(id)
		if ans {
			removed = removed && !in
		} else {
			removed = removed && in
			left++
		}
	}
	zzAssert(own, "dispatch.own-response-exactly-once")
	zzAssert(removed, "dispatch.completed-entries-leave-table")
	zzAssert(c.sent.Load() == int64(left), "dispatch.inflight-counter-after-recv")
}

// ZZ_C18_fail: after sending, the stream of one host breaks (failPendingRequests for that host) or the
// send itself fails (failRequestsByIDs): exactly the entries of that stream are failed, once, with the
// error; the others are untouched; late responses for failed ids are dropped; a second failure pass
// (the other recv loop noticing the same break) completes nobody twice.
func ZZ_C18_fail() {
	n := zzParam("dentries", 3)
	nh := zzParam("hosts", 2)
	c, streams := zzBatchClient(zzHosts[:nh])
	a := newBatchConn(1, 8, new(uint32))
	a.initMetrics("t")
	a.batchCommandsClients = append(a.batchCommandsClients, c)
	broken := zzHosts[zzChoice("broken", nh)]
	boom := errors.New("boom")
	sendFails := zzBool("sendfails")
	if sendFails {
		streams[broken].sendErr = boom
	}
	var entries []*batchCommandsEntry
	for i := 0; i < n; i++ {
		e := zzEntryP(uint64(i))
		entries = append(entries, e)
		a.reqBuilder.push(e)
	}
	a.getClientAndSend()
	ids := map[*batchCommandsEntry]uint64{}
	for _, e := range entries {
		ids[e] = e.requestID.Load()
	}
	if !sendFails {
		c.failPendingRequests(boom, broken)
	}
	c.failPendingRequests(boom, broken) // a second pass must find nothing to fail
	okFail, okOthers := true, true
	inflight := 0
	for _, e := range entries {
		kind, _ := zzOutcome(e)
		_, in := c.batched.Load(ids[e])
		if e.forwardedHost == broken {
			okFail = okFail && kind == 2 && e.err == boom && !in
		} else {
			okOthers = okOthers && kind == 0 && e.err == nil && in
			inflight++
		}
	}
	zzAssert(okFail, "fail.entries-of-broken-stream-failed-once")
	zzAssert(okOthers, "fail.other-streams-untouched")
	zzAssert(c.sent.Load() == int64(inflight), "fail.inflight-counter")
	// late responses: for every id, on the stream it was (or would have been) sent on
	for h, zs := range streams {
		resp := &tikvpb.BatchCommandsResponse{}
		for _, e := range entries {
			if e.forwardedHost == h && ids[e] != 0 {
				resp.RequestIds = append(resp.RequestIds, ids[e])
				resp.Responses = append(resp.Responses, zzResp(ids[e]))
			}
		}
		zs.script = []*tikvpb.BatchCommandsResponse{resp}
		var bs *batchCommandsStream
		if h == "" {
			bs = c.client
		} else {
			bs = c.forwardedClients[h]
		}
		atomic.StoreInt32(&c.closed, 0)
		zs.done = make(chan struct{})
		done := zs.done
		go c.batchRecvLoop(c.tikvClientCfg, c.tikvLoad, bs)
		<-done
	}
	okLate := true
	for _, e := range entries {
		kind, r := zzOutcome(e)
		if e.forwardedHost == broken {
			okLate = okLate && kind == 2 // still just closed: nothing was sent into it, nothing panicked
		} else {
			okLate = okLate && kind == 1 && r.GetGet().GetCommitTs() == ids[e]
		}
	}
	zzAssert(okLate, "fail.late-responses-for-failed-ids-dropped")
	zzAssert(c.sent.Load() == 0, "fail.inflight-counter-zero-at-end")
}

// ZZ_C18_send_request: sendBatchRequest against a harness send loop, over every combination of
// {context cancelled, connection closed, time-out elapsed} being true before the call or becoming true
// while waiting, and the send loop answering, failing or ignoring the entry: the call returns exactly
// once with its own response or with an error; whenever it gives up on an enqueued entry the entry is
// marked cancelled first.
func ZZ_C18_send_request() {
	zzSchedule(zzParam("sched", 2))
	bc := newBatchConn(1, 8, new(uint32))
	ctx, cancel := context.WithCancel(context.Background())
	defer cancel()
	own := &kvrpcpb.GetResponse{CommitTs: 42}
	boom := errors.New("boom")
	var seen *batchCommandsEntry
	loopMode := zzChoice("loop", 4) // 0 answer, 1 fail, 2 take and ignore, 3 never take
	if loopMode == 3 {
		bc.batchCommandsCh = make(chan *batchCommandsEntry) // nobody receives
	}
	go func() {
		if loopMode == 3 {
			return
		}
		e := <-bc.batchCommandsCh
		seen = e
		switch loopMode {
		case 0:
			e.response(&tikvpb.BatchCommandsResponse_Response{Cmd: &tikvpb.BatchCommandsResponse_Response_Get{Get: own}})
		case 1:
			e.error(boom)
		}
	}()
	switch zzChoice("disturb", 4) {
	case 1:
		cancel()
	case 2:
		bc.Close()
	case 3:
		go func() { zzYield(); cancel() }()
	}
	timeout := time.Second
	if zzBool("notime") {
		timeout = 0
	}
	req := &tikvpb.BatchCommandsRequest_Request{}
	resp, err := sendBatchRequest(ctx, "t", "", bc, nil, req, timeout, 0)
	zzAssert((resp == nil) != (err == nil), "send-request.response-xor-error")
	if err == nil {
		zzAssert(resp.Resp == own, "send-request.own-response")
		zzAssert(loopMode == 0, "send-request.response-only-if-answered")
	} else if seen != nil && loopMode == 2 {
		zzAssert(seen.isCanceled(), "send-request.abandoned-entry-marked-cancelled")
	}
	if loopMode == 1 && err != nil && seen != nil && !seen.isCanceled() {
		zzAssert(errors.Is(err, boom), "send-request.failure-carries-entry-error")
	}
}

// ZZ_C18_send_request_deadline: the time-out of sendBatchRequest covers the whole call - the wait for
// the send loop to take the entry and the wait for the response together. The send loop takes the
// entry after a queueing delay (virtual clock; 0, a third, or all but a millisecond of the time-out)
// and never answers; the call must be back, with an error and the entry marked cancelled, no later
// than its time-out after it began.
func ZZ_C18_send_request_deadline() {
	zzEngineOnly() // elapsed time is exact only on the virtual clock; a real timer fires a little late
	zzSchedule(zzParam("sched", 2))
	bc := newBatchConn(1, 8, new(uint32))
	bc.batchCommandsCh = make(chan *batchCommandsEntry) // unbuffered: the enqueue waits for the loop
	timeout := time.Second
	delay := []time.Duration{0, 300 * time.Millisecond, 999 * time.Millisecond}[zzChoice("queue-delay", 3)]
	var seen *batchCommandsEntry
	go func() {
		time.Sleep(delay)
		seen = <-bc.batchCommandsCh // taken, never answered
	}()
	start := time.Now()
	req := &tikvpb.BatchCommandsRequest_Request{}
	resp, err := sendBatchRequest(context.Background(), "t", "", bc, nil, req, timeout, 0)
	elapsed := time.Since(start)
	zzAssert(resp == nil && err != nil, "deadline.unanswered-call-fails")
	zzAssert(elapsed <= timeout, "deadline.returns-within-its-time-out")
	if seen != nil {
		zzAssert(seen.isCanceled(), "deadline.abandoned-entry-marked-cancelled")
	}
}

// ZZ_C18_cancel_before_send: a caller gives up after its entry was built into a batch and before
// the batch is sent and registered (the window is open while the stream is being established).
// Whatever send does with such an entry, every id that goes out on the stream is registered to the
// entry whose request travels under it, and an echoing store (the answer to id X names the request
// sent under X) makes every caller that is still waiting receive the answer to its own request.
func ZZ_C18_cancel_before_send() {
	n := zzParam("dentries", 3)
	nh := zzParam("hosts", 2)
	c, streams := zzBatchClient(zzHosts[:nh])
	a := newBatchConn(1, 8, new(uint32))
	a.initMetrics("t")
	a.batchCommandsClients = append(a.batchCommandsClients, c)
	var entries []*batchCommandsEntry
	for i := 0; i < n; i++ {
		e := zzEntryP(uint64(i))
		entries = append(entries, e)
		a.reqBuilder.push(e)
	}
	req, fwd := a.reqBuilder.buildWithLimit(1<<20, nil)
	victim := zzChoice("victim", n+1)
	if victim < n {
		atomic.StoreInt32(&entries[victim].canceled, 1)
	}
	if req != nil {
		c.send("", req)
	}
	for h, r := range fwd {
		c.send(h, r)
	}
	// the echoing store: the answer under id X carries the index of the entry whose request was sent under X
	owner := func(r *tikvpb.BatchCommandsRequest_Request) uint64 {
		for i, e := range entries {
			if e.req == r {
				return uint64(i)
			}
		}
		return 999
	}
	okReg := true
	for h, zs := range streams {
		resp := &tikvpb.BatchCommandsResponse{}
		for _, r := range zs.sent {
			for i, id := range r.RequestIds {
				o := owner(r.Requests[i])
				v, in := c.batched.Load(id)
				okReg = okReg && in && o < uint64(n) && v.(*batchCommandsEntry) == entries[o] && entries[o].forwardedHost == h
				resp.RequestIds = append(resp.RequestIds, id)
				resp.Responses = append(resp.Responses, zzResp(o))
			}
		}
		zs.script = []*tikvpb.BatchCommandsResponse{resp}
	}
	zzAssert(okReg, "cancel-before-send.every-sent-id-registered-to-its-own-entry")
	for h, zs := range streams {
		var bs *batchCommandsStream
		if h == "" {
			bs = c.client
		} else {
			bs = c.forwardedClients[h]
		}
		atomic.StoreInt32(&c.closed, 0)
		zs.done = make(chan struct{})
		done := zs.done
		go c.batchRecvLoop(c.tikvClientCfg, c.tikvLoad, bs)
		<-done
	}
	own := true
	for i, e := range entries {
		kind, r := zzOutcome(e)
		if i == victim {
			// its caller is gone: at most its own answer may have been put into its channel
			own = own && (kind == 0 || (kind == 1 && r.GetGet().GetCommitTs() == uint64(i)))
			continue
		}
		own = own && kind == 1 && r.GetGet().GetCommitTs() == uint64(i)
	}
	zzAssert(own, "cancel-before-send.every-waiting-caller-gets-its-own-answer")
}
