package client

// C18 (reduced claim): request-id allocation, request <-> entry correspondence and
// "every non-cancelled pushed entry is built exactly once" for batchCommandsBuilder
// (push / buildWithLimit / reset) and its PriorityQueue.

import (
	"context"
	"sync/atomic"

	"github.com/pingcap/kvproto/pkg/tikvpb"
)

var zzHosts = []string{"", "h1", "h2"}

// zzEntry makes an entry as sendBatchRequest does (Cmd nil: nothing to encode), with a symbolic
// priority and a forwarded host among {"", "h1", "h2"}.
func zzEntry() *batchCommandsEntry { return zzEntryH(zzU64("pri"), zzParam("hosts", 2)) }

// zzEntryP: the same with a given priority.
func zzEntryP(pri uint64) *batchCommandsEntry { return zzEntryH(pri, zzParam("hosts", 2)) }

// zzEntryH: priority pri, forwarded host among the first nhosts of {"", "h1", "h2"}.
func zzEntryH(pri uint64, nhosts int) *batchCommandsEntry {
	e := &batchCommandsEntry{
		ctx: context.Background(),
		req: &tikvpb.BatchCommandsRequest_Request{},
		res: make(chan *tikvpb.BatchCommandsResponse_Response, 1),
		pri: pri,
	}
	e.forwardedHost = zzHosts[zzChoice("host", nhosts)]
	return e
}

type zzBuilt struct {
	id uint64
	e  *batchCommandsEntry
}

// zzCheckGroups checks one buildWithLimit result against the ids handed to collect.
func zzCheckGroups(direct *batchCommandsRequestGroup, fwd map[string]*batchCommandsRequestGroup, collected []zzBuilt) (wellformed bool, total int) {
	wellformed = true
	byID := map[uint64]*batchCommandsEntry{}
	for _, c := range collected {
		byID[c.id] = c.e
	}
	check := func(host string, g *batchCommandsRequestGroup) {
		n := len(g.entries)
		total += n
		wellformed = wellformed && len(g.req.RequestIds) == n && len(g.req.Requests) == n
		wellformed = wellformed && g.state != nil && g.state.batchSize == n
		for i := 0; i < n && i < len(g.req.RequestIds) && i < len(g.req.Requests); i++ {
			e := g.entries[i]
			wellformed = wellformed && byID[g.req.RequestIds[i]] == e // RequestIds[i] <-> entries[i]
			wellformed = wellformed && g.req.Requests[i] == e.req     // Requests[i] is that entry's request
			wellformed = wellformed && e.forwardedHost == host        // grouped under its own host
			wellformed = wellformed && !e.isCanceled()
		}
	}
	if direct != nil {
		check("", direct)
	}
	for h, g := range fwd {
		wellformed = wellformed && h != ""
		check(h, g)
	}
	return
}

// ZZ_C18_builder: n entries (zzParam entries: 3 quick, 4 thorough; symbolic priorities, hosts, at most
// one of them cancelled at a symbolic moment) are pushed in two rounds; buildWithLimit (limit 0, 1 or
// large) / reset are called until the queue is empty.
func ZZ_C18_builder() {
	b := newBatchCommandsBuilder(8)
	n := zzParam("entries", 3)
	first := (n + 1) / 2 // entries pushed before the first build
	limits := []int64{0, 1, 16, 2} // 2: a Take may hand out more entries than the limit has room for
	var pushed []*batchCommandsEntry
	for i := 0; i < first; i++ {
		e := zzEntry()
		pushed = append(pushed, e)
		b.push(e)
	}
	// cancellation: nobody, or entry `victim` - before the first build if it is already pushed
	victim := zzChoice("victim", n+1)
	if victim < first {
		atomic.StoreInt32(&pushed[victim].canceled, 1)
	}
	var all []zzBuilt
	var lastID uint64
	mono, wellformed, counted := true, true, true
	round := func(limit int64) {
		var got []zzBuilt
		direct, fwd := b.buildWithLimit(limit, func(id uint64, e *batchCommandsEntry) {
			mono = mono && id > lastID // strictly increasing, hence never reused
			lastID = id
			got = append(got, zzBuilt{id, e})
		})
		wf, total := zzCheckGroups(direct, fwd, got)
		wellformed = wellformed && wf
		counted = counted && total == len(got) // every collected id appears in exactly one group slot
		all = append(all, got...)
		b.reset()
	}
	round(limits[zzChoice("limit1", 4)])
	for i := first; i < n; i++ {
		e := zzEntry()
		pushed = append(pushed, e)
		b.push(e)
	}
	if victim >= first && victim < n {
		atomic.StoreInt32(&pushed[victim].canceled, 1)
	}
	round([]int64{0, 1, 2}[zzChoice("limit2", 3)])
	// drain: with a positive limit every remaining entry must come out
	for k := 0; k < 2*n && b.len() > 0; k++ {
		round(1)
	}
	zzAssert(b.len() == 0, "builder.drains")
	zzAssert(mono, "builder.ids-strictly-increase")
	zzAssert(wellformed, "builder.request-ids-match-entries")
	zzAssert(counted, "builder.collected-equals-grouped")
	once := true
	for _, e := range pushed {
		cnt := 0
		for _, c := range all {
			if c.e == e {
				cnt++
			}
		}
		if e.isCanceled() {
			once = once && cnt == 0
		} else {
			once = once && cnt == 1
		}
	}
	zzAssert(once, "builder.every-live-entry-built-exactly-once")
	zzAssert(len(all) <= len(pushed), "builder.nothing-invented")
}

// ZZ_C18_builder_late_cancel: an entry cancelled after it was pushed but before the build is dropped,
// never built, and does not disturb the others.
func ZZ_C18_builder_late_cancel() {
	b := newBatchCommandsBuilder(8)
	n := zzParam("entries", 3)
	var pushed []*batchCommandsEntry
	for i := 0; i < n; i++ {
		e := zzEntryH(zzU64("pri"), 2)
		pushed = append(pushed, e)
		b.push(e)
	}
	victim := pushed[zzChoice("victim", n)]
	atomic.StoreInt32(&victim.canceled, 1)
	if zzBool("resetfirst") {
		b.reset() // clean() removes cancelled entries
	}
	built := map[*batchCommandsEntry]int{}
	ids := map[uint64]bool{}
	fresh := true
	for k := 0; k < 2*n && b.len() > 0; k++ {
		b.buildWithLimit(int64(1+zzChoice("limit", 2)), func(id uint64, e *batchCommandsEntry) {
			fresh = fresh && !ids[id]
			ids[id] = true
			built[e]++
		})
		b.reset()
	}
	zzAssert(b.len() == 0, "late-cancel.drains")
	zzAssert(built[victim] == 0, "late-cancel.cancelled-never-built")
	ok := true
	for _, e := range pushed {
		if e != victim {
			ok = ok && built[e] == 1
		}
	}
	zzAssert(ok, "late-cancel.others-built-exactly-once")
	zzAssert(fresh, "late-cancel.ids-not-reused")
}

type zzItem struct {
	pri      uint64
	canceled bool
}

func (i *zzItem) priority() uint64 { return i.pri }
func (i *zzItem) isCanceled() bool { return i.canceled }

// ZZ_C18_pq: PriorityQueue over up to 4 items with symbolic priorities: Take(k) hands out exactly
// min(k, len) items, each once, none invented; when it hands out fewer than all, they are the highest
// priorities in non-increasing order and nothing left behind outranks them; clean() removes exactly
// the cancelled items.
func ZZ_C18_pq() {
	pq := NewPriorityQueue()
	n := zzChoice("n", zzParam("entries", 4)+1)
	items := make([]*zzItem, n)
	for i := range items {
		items[i] = &zzItem{pri: zzU64("pri")}
		pq.Push(items[i])
	}
	zzAssert(pq.Len() == n, "pq.len-after-push")
	if n > 0 {
		top := pq.highestPriority()
		isMax := true
		for _, it := range items {
			isMax = zzAnd(isMax, it.pri <= top)
		}
		zzAssert(isMax, "pq.highest-is-max")
	}
	k := zzChoice("k", 5)
	var got []Item
	calls := 0
	pq.Take(k, func(r []Item) {
		calls++
		got = append(got, r...)
	})
	want := k
	if want > n {
		want = n
	}
	if k > 0 {
		zzAssert(calls == 1, "pq.take-calls-back-once")
	}
	zzAssert(len(got) == want, "pq.take-count")
	zzAssert(pq.Len() == n-want, "pq.take-removes")
	// each taken item is a pushed one, taken once, and no longer in the queue
	rest := pq.all()
	distinct := true
	for i, g := range got {
		found := false
		for _, it := range items {
			if Item(it) == g {
				found = true
			}
		}
		distinct = distinct && found
		for j := 0; j < i; j++ {
			distinct = distinct && got[j] != g
		}
		for _, r := range rest {
			distinct = distinct && r != g
		}
	}
	zzAssert(distinct, "pq.take-each-once")
	if want < n {
		ordered := true
		for i := 1; i < len(got); i++ {
			ordered = zzAnd(ordered, got[i-1].priority() >= got[i].priority())
		}
		for _, r := range rest {
			for _, g := range got {
				ordered = zzAnd(ordered, g.priority() >= r.priority())
			}
		}
		zzAssert(ordered, "pq.take-highest-first")
	}
	// cancel a symbolic subset of what is left, clean, and compare
	live := 0
	for _, r := range rest {
		it := r.(*zzItem)
		it.canceled = zzBool("cancel")
		if !it.canceled {
			live++
		}
	}
	pq.clean()
	okClean := pq.Len() == live
	for _, r := range pq.all() {
		okClean = okClean && !r.isCanceled()
	}
	zzAssert(okClean, "pq.clean-removes-exactly-cancelled")
	if pq.Len() > 0 {
		top := pq.highestPriority()
		isMax := true
		for _, r := range pq.all() {
			isMax = zzAnd(isMax, r.priority() <= top)
		}
		zzAssert(isMax, "pq.heap-order-kept-after-clean")
	}
}
