package client

// C18: asynchronous (callback) entries that are in flight when the client is closed. Every recv loop
// of the connection ends because its stream breaks after the client was marked closed; each callback
// must then be completed exactly once with an error - whichever stream (direct or forwarding) carried
// the entry, and whichever streams exist on this connection (a forwarding stream is only created when a
// forwarded batch is sent, the direct one only when a direct batch is sent).

import (
	"sync/atomic"

	"github.com/tikv/client-go/v2/tikvrpc"
	"github.com/tikv/client-go/v2/util/async"
)

// zzCB records every completion of an async entry.
type zzCB struct {
	n    int
	resp *tikvrpc.Response
	err  error
}

func (c *zzCB) Executor() async.Executor { return nil }
func (c *zzCB) Inject(g func(*tikvrpc.Response, error) (*tikvrpc.Response, error)) {
}
func (c *zzCB) Invoke(r *tikvrpc.Response, err error)   { c.n++; c.resp, c.err = r, err }
func (c *zzCB) Schedule(r *tikvrpc.Response, err error) { c.n++; c.resp, c.err = r, err }

func ZZ_C18_async_close() {
	n := zzParam("dentries", 3)
	nh := zzParam("hosts", 2)
	c, streams := zzBatchClient(zzHosts[:nh])
	a := newBatchConn(1, 8, new(uint32))
	a.initMetrics("t")
	a.batchCommandsClients = append(a.batchCommandsClients, c)
	var entries []*batchCommandsEntry
	cbs := map[*batchCommandsEntry]*zzCB{}
	for i := 0; i < n; i++ {
		e := zzEntryP(uint64(i))
		if zzBool("async") {
			cb := &zzCB{}
			cbs[e] = cb
			e.cb = cb
		}
		entries = append(entries, e)
		a.reqBuilder.push(e)
	}
	a.getClientAndSend()
	zzAssert(a.reqBuilder.len() == 0, "aclose.all-sent")
	ids := map[*batchCommandsEntry]uint64{}
	for _, e := range entries {
		ids[e] = e.requestID.Load()
	}
	// the streams that exist on this connection: those that carried a batch. Each has one recv loop,
	// which ends when its stream breaks after the client was closed.
	ran := 0
	for h, zs := range streams {
		if len(zs.sent) == 0 {
			continue
		}
		var bs *batchCommandsStream
		if h == "" {
			bs = c.client
		} else {
			bs = c.forwardedClients[h]
		}
		atomic.StoreInt32(&c.closed, 1)
		zs.done = make(chan struct{})
		done := zs.done
		finished := make(chan struct{})
		go func() {
			c.batchRecvLoop(c.tikvClientCfg, c.tikvLoad, bs)
			close(finished)
		}()
		<-done
		<-finished
		ran++
	}
	zzAssert(ran > 0, "aclose.some-stream-existed")
	okAsync, okSync := true, true
	left := 0
	for _, e := range entries {
		_, in := c.batched.Load(ids[e])
		if cb := cbs[e]; cb != nil {
			okAsync = okAsync && cb.n == 1 && cb.err != nil && cb.resp == nil && !in
		} else {
			// synchronous callers wake up through their own select on the closed channel
			kind, _ := zzOutcome(e)
			okSync = okSync && kind == 0 && in
			left++
		}
	}
	zzAssert(okAsync, "aclose.every-async-call-completed-once-with-error")
	zzAssert(okSync, "aclose.sync-entries-left-to-their-callers")
	zzAssert(c.sent.Load() == int64(left), "aclose.inflight-counter")
}
