package locate

import (
	"bytes"

	"github.com/pingcap/kvproto/pkg/metapb"
	"github.com/tikv/pd/client/clients/router"
)

// C09 K1..K3 — pure kernels of the region cache.

// ZZ_C09_k1_contains: the containment predicates equal their interval
// specification: contains / Region.Contains / KeyLocation.Contains = [s,e),
// Region.ContainsByEnd = (s,e] with "" = +inf on the key side.
func ZZ_C09_k1_contains() {
	klen := zzParam("k1len", 2)
	s := zzBytes("s", klen)
	e := zzBytes("e", klen)
	k := zzBytes("k", klen)
	spec := zzIn(s, e, k)
	zzAssert(contains(s, e, k) == spec, "K1.contains")
	r := &Region{meta: &metapb.Region{StartKey: s, EndKey: e}}
	zzAssert(r.Contains(k) == spec, "K1.region-contains")
	loc := &KeyLocation{StartKey: s, EndKey: e}
	zzAssert(loc.Contains(k) == spec, "K1.location-contains")
	zzAssert(r.ContainsByEnd(k) == zzInByEnd(s, e, k), "K1.region-contains-by-end")
}

// ZZ_C09_k1_tiling: over a tiling of the key space by 3 regions, every key is
// contained in exactly one region, and every end key (incl. "" = +inf) is
// contained-by-end in exactly one region; the two notions agree on interior
// points: a key that is not a region start lies, by end, in the same region.
func ZZ_C09_k1_tiling() {
	klen := zzParam("k1len", 2)
	sp := zzSplits(2, klen)
	k := zzBytes("k", klen)
	bounds := [][]byte{nil, sp[0], sp[1], nil}
	nc, ne := 0, 0
	ci, ei := -1, -1
	for i := 0; i < 3; i++ {
		r := &Region{meta: &metapb.Region{StartKey: bounds[i], EndKey: bounds[i+1]}}
		if r.Contains(k) {
			nc++
			ci = i
		}
		if r.ContainsByEnd(k) {
			ne++
			ei = i
		}
	}
	zzAssert(nc == 1, "K1.tiling-contains-unique")
	zzAssert(ne == 1, "K1.tiling-by-end-unique")
	if len(k) == 0 {
		zzAssert(ci == 0, "K1.tiling-empty-key-first")
		zzAssert(ei == 2, "K1.tiling-empty-end-last")
	} else if !bytes.Equal(k, sp[0]) && !bytes.Equal(k, sp[1]) {
		zzAssert(ci == ei, "K1.tiling-interior-agree")
	} else {
		zzAssert(ei == ci-1, "K1.tiling-boundary-prev")
	}
}

// zzArbRegions draws n arbitrary region descriptions (any order, any overlap);
// a PD answer is not trusted by regionsHaveGapInRanges.
func zzArbRegions(n, klen int) []*router.Region {
	sn := [...]string{"g0.start", "g1.start", "g2.start", "g3.start"}
	en := [...]string{"g0.end", "g1.end", "g2.end", "g3.end"}
	var out []*router.Region
	for i := 0; i < n; i++ {
		s := zzBytes(sn[i], klen)
		e := zzBytes(en[i], klen)
		out = append(out, &router.Region{Meta: &metapb.Region{Id: uint64(i + 1), StartKey: s, EndKey: e}})
	}
	return out
}

// ZZ_C09_k2_gap_sound: when regionsHaveGapInRanges answers "no gap" for an
// arbitrary list of regions, every point of every range is in some region —
// for all points if the list is shorter than the limit, and at least for all
// points below the last region's end key if the limit was reached (that is the
// part BatchLocateKeyRanges then treats as loaded, see rangesAfterKey).
func ZZ_C09_k2_gap_sound() {
	klen := zzParam("k2len", 1)
	nr := 1 + zzChoice("nranges", zzParam("k2ranges", 2))
	ng := 1 + zzChoice("nregions", zzParam("k2regions", 3))
	limited := zzBool("limited")
	ranges := zzSortedRanges(nr, klen)
	regions := zzArbRegions(ng, klen)
	limit := ng + 1
	if limited {
		limit = ng
	}
	gap := regionsHaveGapInRanges(ranges, regions, limit)
	if gap {
		return
	}
	p := zzBytes("p", klen)
	covered := false
	for _, g := range regions {
		covered = zzOr(covered, zzIn(g.Meta.StartKey, g.Meta.EndKey, p))
	}
	want := zzInRanges(ranges, p)
	if limited {
		last := regions[ng-1].Meta.EndKey
		if len(last) > 0 {
			want = zzAnd(want, bytes.Compare(p, last) < 0)
		}
		zzAssert(zzImplies(want, covered), "K2.no-gap-prefix-covered")
	} else {
		zzAssert(zzImplies(want, covered), "K2.no-gap-all-covered")
	}
}

// ZZ_C09_k2_tiling_no_gap: the answer a correct PD gives for sorted ranges over a
// tiling (every region that meets a range, in order, cut at the limit) is never
// reported as a gap.
func ZZ_C09_k2_tiling_no_gap() {
	klen := zzParam("k2tlen", 1)
	nsp := zzChoice("nsplits", zzParam("k2splits", 3)+1)
	nr := 1 + zzChoice("nranges", zzParam("k2tranges", 2))
	sp := zzSplits(nsp, klen)
	pd := zzLayout(sp)
	ranges := zzSortedRanges(nr, klen)
	limit := 1 + zzChoice("limit", nsp+2)
	ans := pd.scan(ranges, limit)
	zzAssert(len(ans) > 0, "K2.pd-answer-nonempty")
	zzAssert(!regionsHaveGapInRanges(ranges, ans, limit), "K2.tiling-not-a-gap")
}

// ZZ_C09_k3_ranges_after_key: rangesAfterKey keeps exactly the points of the
// ranges that are >= splitKey; an empty split key (the loaded region is
// unbounded) leaves nothing.
func ZZ_C09_k3_ranges_after_key() {
	klen := zzParam("k3len", 2)
	nr := 1 + zzChoice("nranges", zzParam("k3ranges", 3))
	ranges := zzSortedRanges(nr, klen)
	orig := zzCloneRanges(ranges)
	split := zzBytes("splitkey", klen)
	rest := rangesAfterKey(ranges, split)
	if len(split) == 0 {
		zzAssert(len(rest) == 0, "K3.empty-split-nothing-left")
		return
	}
	p := zzBytes("p", klen)
	want := zzAnd(zzInRanges(orig, p), bytes.Compare(p, split) >= 0)
	zzAssert(zzInRanges(rest, p) == want, "K3.exact-points")
	// the result is still sorted, disjoint and without empty ranges
	for i, r := range rest {
		if len(r.EndKey) > 0 {
			zzAssert(bytes.Compare(r.StartKey, r.EndKey) < 0, "K3.rest-nonempty-ranges")
		}
		if i > 0 {
			zzAssert(bytes.Compare(rest[i-1].EndKey, r.StartKey) <= 0, "K3.rest-sorted")
		}
	}
	// rangesAfterKey(nil, k) is nil
	zzAssert(rangesAfterKey(nil, split) == nil, "K3.nil-input")
}
