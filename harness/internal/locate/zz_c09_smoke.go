package locate

import (
	"bytes"
	"context"

	"github.com/tikv/client-go/v2/config/retry"
)

// ZZ_C09_smoke: LocateKey over a two-region layout with a symbolic split.
func ZZ_C09_smoke() {
	split := zzBytes("split", 2)
	zzAssume(len(split) > 0)
	p := zzLayout([][]byte{split})
	c := NewRegionCache(p)
	defer c.Close()
	key := zzBytes("k", 2)
	bo := retry.NewBackofferWithVars(context.Background(), 1000, nil)
	loc, err := c.LocateKey(bo, key)
	zzAssert(err == nil, "smoke.err")
	zzAssert(loc != nil, "smoke.loc")
	zzAssert(loc.Contains(key), "smoke.contains")
	if bytes.Compare(key, split) < 0 {
		zzAssert(loc.Region.GetID() == 10, "smoke.first")
	} else {
		zzAssert(loc.Region.GetID() == 11, "smoke.second")
	}
	// warm cache gives the same answer without asking PD
	n := p.calls
	loc2, err2 := c.LocateKey(bo, key)
	zzAssert(err2 == nil && loc2.Region.GetID() == loc.Region.GetID(), "smoke.warm-same")
	zzAssert(p.calls == n, "smoke.warm-no-pd")
}
