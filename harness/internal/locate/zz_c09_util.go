package locate

import (
	"bytes"

	"github.com/pingcap/kvproto/pkg/metapb"
	"github.com/tikv/pd/client/clients/router"
)

// Shared helpers of the C09 harnesses. Interval convention everywhere:
// [start, end) over byte strings, empty end = +infinity, empty start = -infinity
// (the empty string is the least key).

// zzIn: p ∈ [s,e). One boolean term, no fork (lengths are concrete).
func zzIn(s, e, p []byte) bool {
	lo := bytes.Compare(s, p) <= 0
	if len(e) == 0 {
		return lo
	}
	return zzAnd(lo, bytes.Compare(p, e) < 0)
}

// zzInByEnd: p ∈ (s,e] with the convention of Region.ContainsByEnd: the empty
// key stands for +infinity and belongs only to an interval with an empty end.
func zzInByEnd(s, e, p []byte) bool {
	if len(p) == 0 {
		return len(e) == 0
	}
	lo := bytes.Compare(s, p) < 0
	if len(e) == 0 {
		return lo
	}
	return zzAnd(lo, bytes.Compare(p, e) <= 0)
}

// zzSplits draws n strictly increasing non-empty keys of at most klen bytes.
func zzSplits(n, klen int) [][]byte {
	names := [...]string{"split0", "split1", "split2", "split3"}
	var out [][]byte
	for i := 0; i < n; i++ {
		k := zzBytes(names[i], klen)
		zzAssume(len(k) > 0)
		if i > 0 {
			zzAssume(bytes.Compare(out[i-1], k) < 0)
		}
		out = append(out, k)
	}
	return out
}

// zzSortedRanges draws n key ranges, each non-empty (start < end or end
// unbounded), sorted and pairwise disjoint (end_i <= start_{i+1}).
func zzSortedRanges(n, klen int) []router.KeyRange {
	sn := [...]string{"r0.start", "r1.start", "r2.start", "r3.start"}
	en := [...]string{"r0.end", "r1.end", "r2.end", "r3.end"}
	var out []router.KeyRange
	for i := 0; i < n; i++ {
		s := zzBytes(sn[i], klen)
		if i > 0 {
			zzAssume(len(s) > 0)
			zzAssume(bytes.Compare(out[i-1].EndKey, s) <= 0)
		}
		e := zzBytes(en[i], klen)
		if i < n-1 {
			zzAssume(len(e) > 0)
		}
		if len(e) > 0 {
			zzAssume(bytes.Compare(s, e) < 0)
		}
		out = append(out, router.KeyRange{StartKey: s, EndKey: e})
	}
	return out
}

// zzInRanges: p lies in one of the ranges (one term).
func zzInRanges(rs []router.KeyRange, p []byte) bool {
	in := false
	for _, r := range rs {
		in = zzOr(in, zzIn(r.StartKey, r.EndKey, p))
	}
	return in
}

func zzCloneRanges(rs []router.KeyRange) []router.KeyRange {
	out := make([]router.KeyRange, len(rs))
	for i, r := range rs {
		out[i] = router.KeyRange{StartKey: append([]byte(nil), r.StartKey...), EndKey: append([]byte(nil), r.EndKey...)}
	}
	return out
}

// zzBareRegion builds a Region with the given identity and range and a minimal
// store set (one TiKV slot), enough for the index operations.
func zzBareRegion(id, confVer, ver uint64, start, end []byte) *Region {
	r := &Region{meta: &metapb.Region{Id: id, StartKey: start, EndKey: end,
		RegionEpoch: &metapb.RegionEpoch{ConfVer: confVer, Version: ver},
		Peers:       []*metapb.Peer{{Id: id*10 + 1, StoreId: 1}}}}
	rs := &regionStore{workTiKVIdx: 0, proxyTiKVIdx: -1, stores: []*Store{{storeID: 1}}, storeEpochs: []uint32{0}}
	rs.accessIndex[tiKVOnly] = []int{0}
	r.setStore(rs)
	r.ttl = 1 << 60
	return r
}
