package locate

import (
	"context"
	"sync/atomic"
	"time"

	"github.com/pingcap/kvproto/pkg/errorpb"
	"github.com/pingcap/kvproto/pkg/kvrpcpb"
	"github.com/pingcap/kvproto/pkg/metapb"
	"github.com/tikv/client-go/v2/config/retry"
	"github.com/tikv/client-go/v2/kv"
	"github.com/tikv/client-go/v2/tikvrpc"
)

// C10 (a) — one-step lemmas of the replica selector over an arbitrary selector
// state: 3 replicas with symbolic attempt counters, flags, epoch-stale bits,
// liveness, label-match and slow bits, any leader index, any read type, stale
// flag, busy threshold, read or write command.

type zzSelWorld struct {
	w   *zzWorld
	ver RegionVerID
	r   *Region
	req *tikvrpc.Request
	sel *replicaSelector
	pre [3]int // attempts before the step
	bo  *retry.Backoffer
	// function seams (only when seams == true): candidate predicates and score
	// of the mixed / leader strategies are arbitrary per replica
	seams bool
	cand  [3]bool
	lcand [3]bool
	score [3]int64
}

func (sw *zzSelWorld) indexOf(r *replica) int {
	for i, rep := range sw.sel.replicas {
		if rep == r {
			return i
		}
	}
	return -1
}

// installSeams replaces isCandidate / calculateScore / isLeaderCandidate by
// arbitrary per-replica answers. What the real predicates imply is decided by
// ZZ_C10_candidate_lemmas; this makes replicaSelector.next explorable for 3 replicas.
func (sw *zzSelWorld) installSeams() {
	cn := [...]string{"cand0", "cand1", "cand2"}
	ln := [...]string{"leadercand0", "leadercand1", "leadercand2"}
	sn := [...]string{"score0", "score1", "score2"}
	for i := range sw.sel.replicas {
		sw.cand[i] = zzBool(cn[i])
		sw.lcand[i] = zzBool(ln[i])
		sc := zzI64(sn[i])
		zzAssume(sc >= 0 && sc < 32)
		sw.score[i] = sc
	}
	zzStub("(*github.com/tikv/client-go/v2/internal/locate.ReplicaSelectMixedStrategy).isCandidate",
		func(s *ReplicaSelectMixedStrategy, r *replica, isLeader bool, epochStale bool, liveness livenessState) bool {
			return sw.cand[sw.indexOf(r)]
		})
	zzStub("(*github.com/tikv/client-go/v2/internal/locate.ReplicaSelectMixedStrategy).calculateScore",
		func(s *ReplicaSelectMixedStrategy, r *replica, isLeader bool) storeSelectionScore {
			return storeSelectionScore(sw.score[sw.indexOf(r)])
		})
	zzStub("github.com/tikv/client-go/v2/internal/locate.isLeaderCandidate",
		func(leader *replica) bool {
			return sw.lcand[sw.indexOf(leader)]
		})
}

var zzC10Label = &metapb.StoreLabel{Key: "zone", Value: "a"}

func zzReadTypes() []kv.ReplicaReadType {
	return []kv.ReplicaReadType{kv.ReplicaReadLeader, kv.ReplicaReadFollower, kv.ReplicaReadMixed, kv.ReplicaReadLearner, kv.ReplicaReadPreferLeader}
}

// zzNewSelWorld builds a one-region cache (3 TiKV peers on stores 1..3), a
// request and a replica selector, then overwrites the selector state with
// symbolic values.
func zzNewSelWorld(nrep int, write, seams, symLiveness bool) *zzSelWorld {
	sw := &zzSelWorld{seams: seams}
	w := &zzWorld{}
	w.pd = zzLayout(nil)
	w.pd.regions[0].Peers = w.pd.regions[0].Peers[:nrep]
	w.c = NewRegionCache(w.pd)
	w.bo = retry.NewBackofferWithVars(context.Background(), 40000, nil)
	r, err := newRegion(w.bo, w.c, w.pd.wrap(0))
	zzAssume(err == nil)
	w.c.mu.Lock()
	w.c.insertRegionToCache(r, true, true)
	w.c.mu.Unlock()
	sw.w, sw.r, sw.bo = w, r, w.bo
	sw.ver = r.VerID()
	// leader index
	lead := zzChoice("leader", nrep)
	r.switchWorkLeaderToPeer(r.meta.Peers[lead])
	// request. Dimensions that cannot matter in the chosen mode are pinned to the
	// value that enables the most code: a write never looks at the label option
	// and passes the busy threshold only to guarded branches; with seams the
	// leader-only option is consumed by the stubbed predicates only.
	rt := kv.ReplicaReadMixed
	stale := false
	if !write {
		stale = zzBool("stale")
	}
	if !stale {
		rt = zzReadTypes()[zzChoice("readtype", 5)]
	}
	if write {
		sw.req = tikvrpc.NewRequest(tikvrpc.CmdPrewrite, &kvrpcpb.PrewriteRequest{})
		sw.req.ReplicaReadType = rt
	} else {
		sw.req = tikvrpc.NewReplicaReadRequest(tikvrpc.CmdGet, &kvrpcpb.GetRequest{}, rt, nil)
		if stale {
			sw.req.EnableStaleWithMixedReplicaRead()
		}
	}
	alldims := zzParam("c10alldims", 1) == 1 // 0: busy threshold and label option pinned on (quick tier)
	if write || !alldims || zzBool("busy_threshold") {
		sw.req.BusyThresholdMs = 50
	}
	var opts []StoreSelectorOption
	if write || !alldims || zzBool("with_labels") {
		opts = append(opts, WithMatchLabels([]*metapb.StoreLabel{zzC10Label}))
	}
	if !seams && zzBool("leader_only") {
		opts = append(opts, WithLeaderOnly())
	}
	sel, err := newReplicaSelector(w.c, sw.ver, sw.req, opts...)
	zzAssume(err == nil && sel != nil)
	sw.sel = sel
	// arbitrary replica state
	an := [...]string{"attempts0", "attempts1", "attempts2"}
	fn := [...]string{"flags0", "flags1", "flags2"}
	en := [...]string{"epochstale0", "epochstale1", "epochstale2"}
	ln := [...]string{"liveness0", "liveness1", "liveness2"}
	mn := [...]string{"labelmatch0", "labelmatch1", "labelmatch2"}
	sn := [...]string{"slow0", "slow1", "slow2"}
	wn := [...]string{"wait0", "wait1", "wait2"}
	for i, rep := range sel.replicas {
		a := zzInt(an[i])
		zzAssume(a >= 0 && a <= maxReplicaAttempt+1)
		rep.attempts = a
		sw.pre[i] = a
		f := zzU8(fn[i])
		zzAssume(f < 32)
		rep.flag = f
		// all of the following are stored as symbolic values (no fork here)
		es := zzU32(en[i])
		zzAssume(es <= 1)
		rep.epoch = rep.store.epoch + es
		// with seams liveness and slowness are consumed by the stubbed predicates
		// (and by a reload hint that is not asserted on): stores stay reachable
		if !seams || symLiveness {
			lv := zzU32(ln[i])
			zzAssume(lv <= 2)
			atomic.StoreUint32(&rep.store.livenessState, lv)
		}
		if !seams {
			rep.store.healthStatus.isSlow.Store(zzBool(sn[i]))
		}
		rep.store.labels = []*metapb.StoreLabel{{Key: "zone", Value: string(zzBytesN(mn[i], 1))}}
		wt := zzI64(wn[i])
		zzAssume(wt >= 0 && wt <= int64(time.Hour))
		rep.store.loadStats.Store(&storeLoadStats{estimatedWait: time.Duration(wt), waitTimeUpdatedAt: time.Now()})
	}
	sa := zzInt("selattempts")
	zzAssume(sa >= 0 && sa <= 3)
	sel.attempts = sa
	return sw
}

func (sw *zzSelWorld) targetIndex() int {
	for i, rep := range sw.sel.replicas {
		if rep == sw.sel.target {
			return i
		}
	}
	return -1
}

// checkStep: postconditions of replicaSelector.next that hold for reads and writes.
func (sw *zzSelWorld) checkStep(rpcCtx *RPCContext, err error, selAttemptsBefore int, staleBefore [3]bool, liveBefore [3]uint32) {
	sel := sw.sel
	zzAssert(err == nil, "C10.next-no-error")
	if rpcCtx == nil {
		// nothing is sent: no attempt is accounted to any replica
		for i, rep := range sel.replicas {
			zzAssert(rep.attempts == sw.pre[i], "C10.no-context-no-attempt")
		}
		return
	}
	ti := sw.targetIndex()
	zzAssert(ti >= 0, "C10.target-is-a-replica")
	t := sel.replicas[ti]
	zzAssert(rpcCtx.Peer == t.peer && rpcCtx.Store == t.store, "C10.context-is-target")
	zzAssert(rpcCtx.Region == sw.ver, "C10.context-region")
	zzAssert(sel.attempts == selAttemptsBefore+1, "C10.selector-attempts-plus-one")
	for i, rep := range sel.replicas {
		if i == ti {
			zzAssert(rep.attempts == sw.pre[i]+1, "C10.target-attempts-plus-one")
		} else {
			zzAssert(rep.attempts == sw.pre[i], "C10.others-attempts-unchanged")
		}
	}
	// the chosen replica was a candidate
	zzAssert(!staleBefore[ti], "C10.target-epoch-not-stale")
	if sw.seams {
		li := int(sw.r.getStore().workTiKVIdx)
		byLeader := ti == li && sw.lcand[ti]
		byMixed := sw.cand[ti]
		for j := range sel.replicas {
			byMixed = zzAnd(byMixed, zzImplies(sw.cand[j], sw.score[j] <= sw.score[ti]))
		}
		zzAssert(zzOr(byLeader, byMixed), "C10.target-was-best-candidate")
	} else {
		zzAssert(sw.pre[ti] < maxReplicaAttempt, "C10.target-was-not-exhausted")
		zzAssert(liveBefore[ti] != uint32(unreachable), "C10.target-not-unreachable")
	}
	// never both read flags
	zzAssert(!(sw.req.ReplicaRead && sw.req.StaleRead), "C10.not-both-read-flags")
}

func (sw *zzSelWorld) snapshot() (stale [3]bool, live [3]uint32) {
	for i, rep := range sw.sel.replicas {
		stale[i] = rep.isEpochStale()
		live[i] = atomic.LoadUint32(&rep.store.livenessState)
	}
	return
}

// ZZ_C10_next_write: after one selector step for a write command the request is
// flagged neither replica-read nor stale-read, whatever the selector state and
// the configured read type; plus the common step postconditions.
func ZZ_C10_next_write() {
	seams := zzParam("c10seams", 1) == 1
	sw := zzNewSelWorld(zzParam("c10replicas", 3), true, seams, false)
	defer sw.w.c.Close()
	if seams {
		sw.installSeams()
	}
	stale, live := sw.snapshot()
	sa := sw.sel.attempts
	rpcCtx, err := sw.sel.next(sw.bo, sw.req)
	zzAssert(!sw.req.ReplicaRead, "C10.write-never-replica-read")
	zzAssert(!sw.req.StaleRead, "C10.write-never-stale-read")
	sw.checkStep(rpcCtx, err, sa, stale, live)
}

// ZZ_C10_next_read: the common step postconditions for a read command (any
// read type, stale or not).
func ZZ_C10_next_read() {
	seams := zzParam("c10seams", 1) == 1
	sw := zzNewSelWorld(zzParam("c10readreplicas", 2), false, seams, false) // the read dimensions multiply with the replica count
	defer sw.w.c.Close()
	if seams {
		sw.installSeams()
	}
	stale, live := sw.snapshot()
	sa := sw.sel.attempts
	rpcCtx, err := sw.sel.next(sw.bo, sw.req)
	sw.checkStep(rpcCtx, err, sa, stale, live)
}

// ZZ_C10_on_update_leader: replica.onUpdateLeader is the only place where an
// attempt counter goes down: to maxReplicaAttempt-1, and only from an exhausted
// replica; it clears exactly the not-leader and suspect flags.
func ZZ_C10_on_update_leader() {
	a := zzInt("attempts")
	zzAssume(a >= 0 && a <= 2*maxReplicaAttempt)
	f := zzU8("flags")
	at := zzI64("attempted_ns")
	zzAssume(at >= 0)
	r := &replica{attempts: a, flag: f, attemptedTime: time.Duration(at)}
	r.onUpdateLeader()
	exhausted := a >= maxReplicaAttempt || time.Duration(at) >= maxReplicaAttemptTime
	if exhausted {
		zzAssert(r.attempts == maxReplicaAttempt-1, "C10.update-leader-one-more-chance")
		zzAssert(r.attemptedTime == 0, "C10.update-leader-time-reset")
	} else {
		zzAssert(r.attempts == a, "C10.update-leader-keeps-counter")
	}
	zzAssert(r.flag == f&^(notLeaderFlag|suspectNotLeaderFlag), "C10.update-leader-flags")
}

// ZZ_C10_handlers_monotone: every region-error / send-failure handler of the
// selector leaves every attempt counter where it was, except onNotLeader with a
// leader hint, which may move the hinted replica to maxReplicaAttempt-1 (via
// onUpdateLeader). So a counter only decreases through a NotLeader hint.
func ZZ_C10_handlers_monotone() {
	// the lean set of dimensions (as with seams, but no seam is installed and
	// liveness stays symbolic: updateLeader looks at it)
	sw := zzNewSelWorld(zzParam("c10replicas", 3), zzBool("write"), true, true)
	sw.seams = false
	defer sw.w.c.Close()
	// a target as after a send
	ti := zzChoice("target", len(sw.sel.replicas))
	sw.sel.target = sw.sel.replicas[ti]
	t := sw.sel.target
	ctx := &RPCContext{Region: sw.ver, Meta: sw.r.meta, Peer: t.peer, Store: t.store, AccessMode: tiKVOnly, TiKVNum: len(sw.sel.replicas), Addr: "s"}
	sw.w.c.stores.setMockRequestLiveness(func(ctx context.Context, s *Store) livenessState {
		return livenessState(atomic.LoadUint32(&s.livenessState))
	})
	h := zzChoice("handler", 9)
	hinted := -1
	switch h {
	case 0:
		_, _ = sw.sel.onNotLeader(sw.bo, ctx, &errorpb.NotLeader{})
	case 1:
		hinted = zzChoice("hint", len(sw.sel.replicas)+1)
		var p *metapb.Peer
		if hinted < len(sw.sel.replicas) {
			p = &metapb.Peer{Id: sw.r.meta.Peers[hinted].Id, StoreId: sw.r.meta.Peers[hinted].StoreId}
		} else {
			p = &metapb.Peer{Id: 999, StoreId: 9}
		}
		_, _ = sw.sel.onNotLeader(sw.bo, ctx, &errorpb.NotLeader{Leader: p})
	case 2:
		_, _ = sw.sel.onRegionNotFound(sw.bo, ctx, sw.req)
	case 3:
		_, _ = sw.sel.onServerIsBusy(sw.bo, ctx, sw.req, &errorpb.ServerIsBusy{})
	case 4:
		_, _ = sw.sel.onServerIsBusy(sw.bo, ctx, sw.req, &errorpb.ServerIsBusy{EstimatedWaitMs: 100})
	case 5:
		sw.sel.onDataIsNotReady()
	case 6:
		sw.sel.onSendFailure(sw.bo, context.DeadlineExceeded)
	case 7:
		sw.sel.onSendSuccess(sw.req)
	case 8:
		_ = sw.sel.onReadReqConfigurableTimeout(sw.req)
		_ = sw.sel.onFlashbackInProgress(sw.req)
	}
	for i, rep := range sw.sel.replicas {
		if i == hinted {
			zzAssert(rep.attempts == sw.pre[i] || (sw.pre[i] >= maxReplicaAttempt && rep.attempts == maxReplicaAttempt-1), "C10.hinted-leader-counter")
		} else {
			zzAssert(rep.attempts == sw.pre[i], "C10.handler-keeps-counters")
		}
	}
}

// ZZ_C10_candidate_lemmas: what the candidate predicates of the three
// strategies imply for one replica in an arbitrary state: a candidate is never
// epoch-stale, never on an unreachable store, never exhausted.
func ZZ_C10_candidate_lemmas() {
	st := newStore(1, "s1", "", "", tikvrpc.TiKV, resolved, nil)
	lv := zzU32("liveness")
	zzAssume(lv <= 2)
	atomic.StoreUint32(&st.livenessState, lv)
	st.healthStatus.isSlow.Store(zzBool("slow"))
	wt := zzI64("wait")
	zzAssume(wt >= 0 && wt <= int64(time.Hour))
	st.loadStats.Store(&storeLoadStats{estimatedWait: time.Duration(wt), waitTimeUpdatedAt: time.Now()})
	a := zzInt("attempts")
	zzAssume(a >= 0 && a <= 2*maxReplicaAttempt)
	at := zzI64("attempted_ns")
	zzAssume(at >= 0)
	es := zzU32("epochstale")
	zzAssume(es <= 1)
	r := &replica{store: st, peer: &metapb.Peer{Id: 11, StoreId: 1}, epoch: st.epoch + es, attempts: a, attemptedTime: time.Duration(at), flag: zzU8("flags")}
	isLeader := zzBool("is_leader")
	stale := r.isEpochStale()
	switch zzChoice("strategy", 3) {
	case 0:
		if isLeaderCandidate(r) {
			zzAssert(lv == uint32(reachable), "C10.leader-candidate-reachable")
			zzAssert(a < maxReplicaAttempt, "C10.leader-candidate-not-exhausted")
			zzAssert(time.Duration(at) < maxReplicaAttemptTime, "C10.leader-candidate-time-not-exhausted")
			zzAssert(!stale, "C10.leader-candidate-epoch-fresh")
			zzAssert(r.flag&(notLeaderFlag|deadlineErrUsingConfTimeoutFlag) == 0, "C10.leader-candidate-flags")
		}
	case 1:
		s := &ReplicaSelectMixedStrategy{leaderOnly: zzBool("leader_only"), preferLeader: zzBool("prefer_leader")}
		if zzBool("busy") {
			s.busyThreshold = 50 * time.Millisecond
		}
		if s.isCandidate(r, isLeader, stale, livenessState(lv)) {
			zzAssert(lv != uint32(unreachable), "C10.mixed-candidate-not-unreachable")
			zzAssert(!stale, "C10.mixed-candidate-epoch-fresh")
			zzAssert(a < 2, "C10.mixed-candidate-at-most-one-retry")
			zzAssert(a == 0 || (r.flag&dataIsNotReadyFlag != 0 && !isLeader), "C10.mixed-candidate-retry-only-data-not-ready")
			zzAssert(!s.leaderOnly || isLeader, "C10.mixed-candidate-leader-only")
		}
	case 2:
		if (ReplicaSelectLeaderWithProxyStrategy{}).isCandidate(r, isLeader) {
			zzAssert(!isLeader && a < 1 && lv == uint32(reachable) && !stale, "C10.proxy-candidate")
		}
	}
}
