package locate

import (
	"bytes"
	"context"

	"github.com/pingcap/kvproto/pkg/metapb"
	"github.com/tikv/client-go/v2/config/retry"
	"github.com/tikv/client-go/v2/kv"
)

// C09 K4..K6 — lookups over the real index with a harness PD that answers from
// a symbolic ground-truth layout; the cache starts from a symbolic subset of
// the truth in a symbolic per-region state.

type zzWorld struct {
	pd     *zzPD
	c      *RegionCache
	bo     *retry.Backoffer
	splits [][]byte
	state  []int // per truth region: 0 absent, 1 cached, 2 cached but invalidated, 3 cached and marked need-reload (nstates == 3: 0, 1, 3)
}

// zzNewWorld: nsp symbolic splits (nsp+1 regions), every truth region i is put in
// cache state zzChoice(nstates) (see zzWorld.state).
func zzNewWorld(nsp, klen, nstates int) *zzWorld {
	w := &zzWorld{}
	w.splits = zzSplits(nsp, klen)
	w.pd = zzLayout(w.splits)
	w.finish(nstates)
	return w
}

// finish creates the cache over w.pd and pre-fills it.
func (w *zzWorld) finish(nstates int) {
	w.c = NewRegionCache(w.pd)
	w.bo = retry.NewBackofferWithVars(context.Background(), 2000, nil)
	names := [...]string{"cache0", "cache1", "cache2", "cache3", "cache4"}
	for i := range w.pd.regions {
		st := zzChoice(names[i], nstates)
		if nstates == 3 && st == 2 {
			st = 3 // with three states the third one is need-reload
		}
		w.state = append(w.state, st)
		if st == 0 {
			continue
		}
		r, err := newRegion(w.bo, w.c, w.pd.wrap(i))
		zzAssume(err == nil)
		w.c.mu.Lock()
		ok := w.c.insertRegionToCache(r, true, true)
		w.c.mu.Unlock()
		zzAssume(ok)
		switch st {
		case 2:
			r.invalidate(Other)
		case 3:
			r.setSyncFlags(needReloadOnAccess)
		}
	}
	w.pd.calls, w.pd.scans = 0, 0
}

// truthOf returns the index of the truth region with that id, or -1.
func (w *zzWorld) truthOf(id uint64) int {
	for i, r := range w.pd.regions {
		if r.Id == id {
			return i
		}
	}
	return -1
}

// locIsTruth: the location is exactly a region of the ground truth.
func (w *zzWorld) locIsTruth(l *KeyLocation) bool {
	i := w.truthOf(l.Region.GetID())
	if i < 0 {
		return false
	}
	t := w.pd.regions[i]
	return zzAnd(bytes.Equal(l.StartKey, t.StartKey), bytes.Equal(l.EndKey, t.EndKey))
}

func zzCovered(locs []*KeyLocation, p []byte) bool {
	in := false
	for _, l := range locs {
		in = zzOr(in, zzIn(l.StartKey, l.EndKey, p))
	}
	return in
}

// zzCheckLocs: common postconditions of a multi-region lookup.
func (w *zzWorld) checkLocsWellFormed(locs []*KeyLocation) (truth, sorted bool) {
	truth, sorted = true, true
	for i, l := range locs {
		truth = zzAnd(truth, w.locIsTruth(l))
		if i > 0 {
			sorted = zzAnd(sorted, bytes.Compare(locs[i-1].StartKey, l.StartKey) < 0)
		}
	}
	return
}

// ZZ_C09_k4_batch_locate: BatchLocateKeyRanges over sorted disjoint ranges: no
// error, every location is a truth region, locations are in key order, and every
// point of every requested range lies in a returned location.
func ZZ_C09_k4_batch_locate() {
	klen := zzParam("k4len", 1)
	nsp := zzChoice("nsplits", zzParam("k4splits", 2)+1)
	nr := 1 + zzChoice("nranges", zzParam("k4ranges", 2))
	w := zzNewWorld(nsp, klen, zzParam("k4states", 2))
	defer w.c.Close()
	ranges := zzSortedRanges(nr, klen)
	var req []kv.KeyRange
	for _, r := range ranges {
		req = append(req, kv.KeyRange{StartKey: r.StartKey, EndKey: r.EndKey})
	}
	locs, err := w.c.BatchLocateKeyRanges(w.bo, req)
	zzAssert(err == nil, "K4.batch-no-error")
	truth, sorted := w.checkLocsWellFormed(locs)
	zzAssert(truth, "K4.batch-locations-are-truth-regions")
	zzAssert(sorted, "K4.batch-locations-in-key-order")
	p := zzBytes("p", klen)
	// A coverage failure gets its own label when the uncovered point lies in the
	// last truth region (end key empty) and that region was cached while PD had to
	// be asked for something else: that was the trigger of a defect of
	// batchLocateRangesMerger (a cached region whose end key is empty was skipped
	// once an uncached region had been appended; repaired in /repo d7382dc). The
	// label stays as the regression guard of that fix; every other coverage
	// failure is "K4.coverage". (Separate labels rather than notes: the engine
	// keeps the first two counterexamples per label.)
	n := len(w.pd.regions)
	covered := zzImplies(zzInRanges(ranges, p), zzCovered(locs, p))
	if n > 1 && w.state[n-1] == 1 && w.pd.scans > 0 && bytes.Compare(p, w.splits[n-2]) >= 0 {
		zzNote("cached_unbounded_tail_after_pd_load", true)
		zzAssert(covered, "K4.coverage.cached-unbounded-tail")
	} else {
		zzAssert(covered, "K4.coverage")
	}
}

// ZZ_C09_k4_locate_key_range: the same for LocateKeyRange(start, end).
func ZZ_C09_k4_locate_key_range() {
	klen := zzParam("k4len", 1)
	nsp := zzChoice("nsplits", zzParam("k4splits", 2)+1)
	w := zzNewWorld(nsp, klen, zzParam("k4states", 2))
	defer w.c.Close()
	ranges := zzSortedRanges(1, klen)
	locs, err := w.c.LocateKeyRange(w.bo, ranges[0].StartKey, ranges[0].EndKey)
	zzAssert(err == nil, "K4.range-no-error")
	truth, sorted := w.checkLocsWellFormed(locs)
	zzAssert(truth, "K4.range-locations-are-truth-regions")
	zzAssert(sorted, "K4.range-locations-in-key-order")
	p := zzBytes("p", klen)
	zzAssert(zzImplies(zzInRanges(ranges, p), zzCovered(locs, p)), "K4.range-coverage")
	// the first location contains the start key, consecutive locations touch
	zzAssert(len(locs) > 0, "K4.range-nonempty")
	zzAssert(zzIn(locs[0].StartKey, locs[0].EndKey, ranges[0].StartKey), "K4.range-first-contains-start")
	for i := 1; i < len(locs); i++ {
		zzAssert(bytes.Equal(locs[i-1].EndKey, locs[i].StartKey), "K4.range-contiguous")
	}
}

// ZZ_C09_k5_locate_key: LocateKey / TryLocateKey return a truth region containing the key.
func ZZ_C09_k5_locate_key() {
	klen := zzParam("k5len", 2)
	nsp := zzChoice("nsplits", zzParam("k5splits", 2)+1)
	w := zzNewWorld(nsp, klen, 4)
	defer w.c.Close()
	k := zzBytes("k", klen)
	if tl := w.c.TryLocateKey(k); tl != nil {
		zzAssert(zzIn(tl.StartKey, tl.EndKey, k), "K5.try-contains")
		zzAssert(w.pd.calls == 0, "K5.try-no-pd")
	}
	loc, err := w.c.LocateKey(w.bo, k)
	zzAssert(err == nil, "K5.key-no-error")
	zzAssert(zzIn(loc.StartKey, loc.EndKey, k), "K5.key-contains")
	zzAssert(loc.Contains(k), "K5.key-contains-method")
	zzAssert(w.locIsTruth(loc), "K5.key-is-truth-region")
	// second lookup: same answer from the cache, without PD
	n := w.pd.calls
	loc2, err2 := w.c.LocateKey(w.bo, k)
	zzAssert(err2 == nil, "K5.key-warm-no-error")
	zzAssert(loc2.Region == loc.Region, "K5.key-warm-same")
	zzAssert(w.pd.calls == n, "K5.key-warm-no-pd")
}

// ZZ_C09_k5_locate_end_key: LocateEndKey(k) returns a truth region with
// ContainsByEnd(k): start < k <= end, and for k = "" (the end of the key space)
// the region whose end key is empty.
func ZZ_C09_k5_locate_end_key() {
	klen := zzParam("k5len", 2)
	nsp := zzChoice("nsplits", zzParam("k5splits", 2)+1)
	w := zzNewWorld(nsp, klen, 4)
	defer w.c.Close()
	k := zzBytes("k", klen)
	loc, err := w.c.LocateEndKey(w.bo, k)
	zzAssert(err == nil, "K5.endkey-no-error")
	zzAssert(w.locIsTruth(loc), "K5.endkey-is-truth-region")
	// LocateEndKey("") on a layout with more than one region is a recorded
	// defect (the first region is returned); it gets its own label so that it
	// cannot mask a failure for a non-empty key.
	if len(k) == 0 && len(w.pd.regions) > 1 {
		zzNote("endkey_empty", true)
		zzAssert(zzInByEnd(loc.StartKey, loc.EndKey, k), "K5.endkey-contains.empty-key")
	} else {
		zzAssert(zzInByEnd(loc.StartKey, loc.EndKey, k), "K5.endkey-contains")
	}
}

// ZZ_C09_k5_locate_by_id: LocateRegionByID returns the region with that id and
// its true range; an unknown id is an error, not some other region.
func ZZ_C09_k5_locate_by_id() {
	klen := zzParam("k5len", 2)
	nsp := zzChoice("nsplits", zzParam("k5splits", 2)+1)
	w := zzNewWorld(nsp, klen, 4)
	defer w.c.Close()
	which := zzChoice("which", nsp+2)
	id := uint64(10 + which)
	loc, err := w.c.LocateRegionByID(w.bo, id)
	if which > nsp {
		zzAssert(err != nil && loc == nil, "K5.id-unknown-is-error")
		return
	}
	zzAssert(err == nil, "K5.id-no-error")
	zzAssert(loc.Region.GetID() == id, "K5.id-same-id")
	zzAssert(w.locIsTruth(loc), "K5.id-is-truth-region")
}

// ZZ_C09_k6_group_keys: GroupKeysByRegion partitions the keys (as a multiset),
// every group's region contains its keys, and `first` is the region of keys[0].
func ZZ_C09_k6_group_keys() {
	klen := zzParam("k6len", 1)
	nsp := zzChoice("nsplits", zzParam("k6splits", 2)+1)
	nk := 1 + zzChoice("nkeys", zzParam("k6keys", 3))
	w := zzNewWorld(nsp, klen, 2)
	defer w.c.Close()
	names := [...]string{"key0", "key1", "key2", "key3"}
	var keys [][]byte
	for i := 0; i < nk; i++ {
		keys = append(keys, zzBytes(names[i], klen))
	}
	groups, first, err := w.c.GroupKeysByRegion(w.bo, keys, nil)
	zzAssert(err == nil, "K6.no-error")
	total := 0
	for ver, g := range groups {
		ti := w.truthOf(ver.GetID())
		zzAssert(ti >= 0, "K6.group-is-truth-region")
		t := w.pd.regions[ti]
		total += len(g)
		for _, e := range g {
			zzAssert(zzIn(t.StartKey, t.EndKey, e), "K6.group-contains-key")
		}
	}
	zzAssert(total == nk, "K6.count")
	// multiset equality: every input key occurs in the groups as often as in the input
	for _, k := range keys {
		var inInput, inGroups uint64
		for _, k2 := range keys {
			inInput += zzIte64(bytes.Equal(k, k2), 1, 0)
		}
		for _, g := range groups {
			for _, e := range g {
				inGroups += zzIte64(bytes.Equal(k, e), 1, 0)
			}
		}
		zzAssert(inInput == inGroups, "K6.multiset")
	}
	ft := w.truthOf(first.GetID())
	zzAssert(ft >= 0, "K6.first-is-truth-region")
	zzAssert(zzIn(w.pd.regions[ft].StartKey, w.pd.regions[ft].EndKey, keys[0]), "K6.first-contains-key0")
}

// ---- stale cache / stale PD ------------------------------------------------

// zzCoarsen merges neighbouring regions of a fine layout: split i is dropped when
// drop[i]. A merged region keeps the id and peers of its leftmost part.
func zzCoarsen(fine *zzPD, drop []bool) *zzPD {
	c := &zzPD{stores: fine.stores}
	for i, r := range fine.regions {
		if i > 0 && drop[i-1] {
			c.regions[len(c.regions)-1].EndKey = r.EndKey
			continue
		}
		c.regions = append(c.regions, &metapb.Region{Id: r.Id, StartKey: r.StartKey, EndKey: r.EndKey,
			RegionEpoch: &metapb.RegionEpoch{ConfVer: 1, Version: 1}, Peers: r.Peers})
		c.leaders = append(c.leaders, fine.leaders[i])
	}
	return c
}

// zzStaleWorld: two layouts of the same key space, one a refinement of the other
// (splits only / merges only), the newer one with version 2, the older with
// version 1. Either the cache is stale (PD answers from the newer layout, the
// cache holds a subset of the older one) or PD is stale (a lagging PD follower:
// PD answers from the older layout, the cache holds a subset of the newer one).
type zzStaleWorld struct {
	zzWorld
	cacheLayout *zzPD
}

func zzNewStaleWorld(nsp, klen int) *zzStaleWorld {
	w := &zzStaleWorld{}
	w.splits = zzSplits(nsp, klen)
	fine := zzLayout(w.splits)
	dn := [...]string{"drop0", "drop1", "drop2"}
	var drop []bool
	for i := 0; i < nsp; i++ {
		drop = append(drop, zzChoice(dn[i], 2) == 1)
	}
	coarse := zzCoarsen(fine, drop)
	newer, older := fine, coarse
	if zzChoice("newer_is_coarse", 2) == 1 {
		newer, older = coarse, fine
	}
	for _, r := range newer.regions {
		r.RegionEpoch.Version = 2
	}
	if zzChoice("pd_is_stale", 2) == 1 {
		w.pd, w.cacheLayout = older, newer
	} else {
		w.pd, w.cacheLayout = newer, older
	}
	w.c = NewRegionCache(w.pd)
	w.bo = retry.NewBackofferWithVars(context.Background(), 2000, nil)
	names := [...]string{"cache0", "cache1", "cache2", "cache3", "cache4"}
	for i := range w.cacheLayout.regions {
		st := zzChoice(names[i], 2)
		w.state = append(w.state, st)
		if st == 0 {
			continue
		}
		r, err := newRegion(w.bo, w.c, w.cacheLayout.wrap(i))
		zzAssume(err == nil)
		w.c.mu.Lock()
		ok := w.c.insertRegionToCache(r, true, true)
		w.c.mu.Unlock()
		zzAssume(ok)
	}
	w.pd.calls, w.pd.scans = 0, 0
	return w
}

// locIsKnown: the location is a region of one of the two layouts (same id, same
// version, same range).
func (w *zzStaleWorld) locIsKnown(l *KeyLocation) bool {
	known := false
	for _, lay := range []*zzPD{w.pd, w.cacheLayout} {
		for _, t := range lay.regions {
			if t.Id == l.Region.GetID() && t.RegionEpoch.Version == l.Region.GetVer() {
				known = zzOr(known, zzAnd(bytes.Equal(l.StartKey, t.StartKey), bytes.Equal(l.EndKey, t.EndKey)))
			}
		}
	}
	return known
}

// ZZ_C09_k4_batch_locate_stale: coverage of BatchLocateKeyRanges when cache and
// PD disagree (one of them is one split/merge generation behind).
func ZZ_C09_k4_batch_locate_stale() {
	klen := zzParam("k4len", 1)
	nsp := 1 + zzChoice("nsplits", zzParam("k4ssplits", 2))
	nr := 1 + zzChoice("nranges", zzParam("k4ranges", 2))
	w := zzNewStaleWorld(nsp, klen)
	defer w.c.Close()
	ranges := zzSortedRanges(nr, klen)
	var req []kv.KeyRange
	for _, r := range ranges {
		req = append(req, kv.KeyRange{StartKey: r.StartKey, EndKey: r.EndKey})
	}
	locs, err := w.c.BatchLocateKeyRanges(w.bo, req)
	zzAssert(err == nil, "K4.stale-batch-no-error")
	known := true
	for _, l := range locs {
		known = zzAnd(known, w.locIsKnown(l))
	}
	zzAssert(known, "K4.stale-batch-locations-are-known-regions")
	// No ordering assertion here: with a stale cache the result may legitimately
	// hold a stale cached region next to the fresh regions that overlap it (e.g.
	// fresh ["",a),[a,m) followed by the stale cached [a,inf)); the store rejects
	// the stale epoch. Order is asserted for the consistent cache (ZZ_C09_k4_batch_locate).
	p := zzBytes("p", klen)
	covered := zzImplies(zzInRanges(ranges, p), zzCovered(locs, p))
	// same split of labels as in ZZ_C09_k4_batch_locate (regression guard of the
	// merger fix): a cached region with an empty end key contains p, and PD was
	// asked for something.
	tail := w.cacheLayout.regions[len(w.cacheLayout.regions)-1]
	if w.state[len(w.state)-1] == 1 && w.pd.scans > 0 && bytes.Compare(p, tail.StartKey) >= 0 {
		zzNote("cached_unbounded_tail_after_pd_load", true)
		zzAssert(covered, "K4.stale-coverage.cached-unbounded-tail")
	} else {
		zzAssert(covered, "K4.stale-coverage")
	}
}

// ZZ_C09_k5_locate_key_stale: single-key lookups when cache and PD disagree: the
// returned region contains the key and is a region of one of the two layouts.
func ZZ_C09_k5_locate_key_stale() {
	klen := zzParam("k5len", 2)
	nsp := 1 + zzChoice("nsplits", zzParam("k5ssplits", 2))
	w := zzNewStaleWorld(nsp, klen)
	defer w.c.Close()
	k := zzBytes("k", klen)
	if zzChoice("by_end", 2) == 0 {
		loc, err := w.c.LocateKey(w.bo, k)
		zzAssert(err == nil, "K5.stale-key-no-error")
		zzAssert(zzIn(loc.StartKey, loc.EndKey, k), "K5.stale-key-contains")
		zzAssert(w.locIsKnown(loc), "K5.stale-key-known-region")
		return
	}
	zzAssume(len(k) > 0) // LocateEndKey("") is the recorded defect, see ZZ_C09_k5_locate_end_key
	loc, err := w.c.LocateEndKey(w.bo, k)
	zzAssert(err == nil, "K5.stale-endkey-no-error")
	zzAssert(zzInByEnd(loc.StartKey, loc.EndKey, k), "K5.stale-endkey-contains")
	zzAssert(w.locIsKnown(loc), "K5.stale-endkey-known-region")
}
