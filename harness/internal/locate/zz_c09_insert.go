package locate

import (
	"bytes"

	"github.com/pingcap/kvproto/pkg/metapb"
)

// C09 K7..K9 — installing region descriptions: non-regression of
// insertRegionToCache, OnRegionEpochNotMatch, UpdateLeader.

type zzIndexSnap struct {
	items  []*Region
	latest map[uint64]RegionVerID
	byVer  map[RegionVerID]*Region
}

func zzSnapIndex(mu *regionIndexMu) *zzIndexSnap {
	s := &zzIndexSnap{latest: map[uint64]RegionVerID{}, byVer: map[RegionVerID]*Region{}}
	mu.sorted.b.Ascend(func(it *btreeItem) bool {
		s.items = append(s.items, it.cachedRegion)
		return true
	})
	for k, v := range mu.latestVersions {
		s.latest[k] = v
	}
	for k, v := range mu.regions {
		s.byVer[k] = v
	}
	return s
}

// zzSameIndex: the ordered index, the by-version map and the latest-version
// map are what the snapshot recorded (same objects, same order).
func zzSameIndex(mu *regionIndexMu, pre *zzIndexSnap) bool {
	now := zzSnapIndex(mu)
	if len(now.items) != len(pre.items) || len(now.latest) != len(pre.latest) || len(now.byVer) != len(pre.byVer) {
		return false
	}
	same := true
	for i := range pre.items {
		if now.items[i] != pre.items[i] {
			return false
		}
	}
	for id, v := range pre.latest {
		w, ok := now.latest[id]
		if !ok {
			return false
		}
		same = zzAnd(same, zzAnd(w.ver == v.ver, w.confVer == v.confVer))
	}
	// by-version map: same set of region objects
	for _, r := range pre.byVer {
		found := false
		for _, r2 := range now.byVer {
			if r == r2 {
				found = true
			}
		}
		if !found {
			return false
		}
	}
	return same
}

// ZZ_C09_k7_insert_nonregression: after up to n inserts of symbolic region
// descriptions (ids from a pool of 3, symbolic version / conf-ver / range), an
// insert that is older than latestVersions[id], or older (by version) than a
// cached region starting inside its range, returns false and changes nothing;
// a successful insert is what SearchByKey returns for every key it contains
// and is what the id maps point to.
func ZZ_C09_k7_insert_nonregression() {
	klen := zzParam("k7len", 1)
	n := 1 + zzChoice("ninserts", zzParam("k7inserts", 2))
	idn := [...]string{"id0", "id1", "id2", "id3"}
	vern := [...]string{"ver0", "ver1", "ver2", "ver3"}
	confn := [...]string{"conf0", "conf1", "conf2", "conf3"}
	sn := [...]string{"start0", "start1", "start2", "start3"}
	en := [...]string{"end0", "end1", "end2", "end3"}
	kn := [...]string{"k0", "k1", "k2", "k3"}
	mu := newRegionIndexMu(nil)
	for step := 0; step < n; step++ {
		// ids matter only through equality: the k-th insert picks among the ids
		// used so far and one fresh id (symmetry reduction of the pool of 3)
		nid := step + 1
		if nid > 3 {
			nid = 3
		}
		id := uint64(1 + zzChoice(idn[step], nid))
		ver := zzU64(vern[step])
		conf := zzU64(confn[step])
		s := zzBytes(sn[step], klen)
		e := zzBytes(en[step], klen)
		if len(e) > 0 {
			zzAssume(bytes.Compare(s, e) < 0)
		}
		r := zzBareRegion(id, conf, ver, s, e)
		// a cached description may have been invalidated (region error, store failure) or have
		// outlived its TTL in the meantime: it stays in the index and still counts as newer
		if cached := zzSnapIndex(mu).items; len(cached) > 0 && zzBool("invalidate") {
			cached[zzChoice("invalidated", len(cached))].invalidate(Other)
		}
		pre := zzSnapIndex(mu)
		staleLatest := false
		if lv, ok := pre.latest[id]; ok {
			staleLatest = zzOr(lv.ver > ver, lv.confVer > conf)
		}
		staleInside := false
		for _, it := range pre.items {
			staleInside = zzOr(staleInside, zzAnd(zzIn(s, e, it.StartKey()), it.meta.RegionEpoch.Version > ver))
		}
		ok := mu.insertRegionToCache(r, step%2 == 0, true)
		if !ok {
			zzAssert(zzSameIndex(mu, pre), "K7.refused-changes-nothing")
			continue
		}
		zzAssert(!staleLatest, "K7.older-than-latest-refused")
		zzAssert(!staleInside, "K7.older-than-region-inside-refused")
		k := zzBytes(kn[step], klen)
		zzAssume(zzIn(s, e, k))
		zzAssert(mu.sorted.SearchByKey(k, false) == r, "K7.installed-is-found")
		cur := zzSnapIndex(mu)
		lv, has := cur.latest[id]
		zzAssert(has, "K7.installed-latest-present")
		zzAssert(zzAnd(lv.ver == ver, lv.confVer == conf), "K7.installed-is-latest")
		hit := false
		for _, r2 := range cur.byVer {
			if r2 == r {
				hit = true
			}
		}
		zzAssert(hit, "K7.installed-by-version")
		// the ordered index has no region left that starts inside the new one
		for _, it := range cur.items {
			if it != r {
				zzAssert(!zzIn(s, e, it.StartKey()), "K7.no-other-start-inside")
			}
		}
	}
}

// ZZ_C09_k8_epoch_not_match: OnRegionEpochNotMatch for a cached region X with
// symbolic versions. The store reports (shape 0) X with a new epoch, (1) a split
// of X into two, (2) X merged with its right neighbour.
//   - a report whose epoch for X's id is behind the request's epoch: the request
//     is retried after a back-off and the index is unchanged;
//   - otherwise every reported region that is not older than a cached region
//     starting inside it is what the index returns for its keys; a refused one
//     leaves the newer neighbour in place; keys outside the reported ranges keep
//     their entry.
func ZZ_C09_k8_epoch_not_match() {
	klen := zzParam("k8len", 1)
	nsp := 1 + zzChoice("nsplits", zzParam("k8splits", 2))
	w := &zzWorld{}
	w.splits = zzSplits(nsp, klen)
	w.pd = zzLayout(w.splits)
	vn := [...]string{"tver0", "tver1", "tver2", "tver3", "tver4"}
	for i, tr := range w.pd.regions {
		v := zzU64(vn[i])
		zzAssume(v >= 1 && v <= 3)
		tr.RegionEpoch.Version = v
	}
	w.finish(2)
	defer w.c.Close()
	x := zzChoice("x", nsp+1)
	zzAssume(w.state[x] == 1)
	X := w.pd.regions[x]
	ctxVer := RegionVerID{id: X.Id, confVer: X.RegionEpoch.ConfVer, ver: X.RegionEpoch.Version}
	store := w.c.stores.getOrInsertDefault(1)
	ctx := &RPCContext{Region: ctxVer, Store: store}
	shape := zzChoice("shape", 4)
	nver := zzU64("newver")
	nconf := zzU64("newconf")
	zzAssume(nver <= 4 && nconf <= 2)
	mkPeers := func(base uint64) []*metapb.Peer {
		return []*metapb.Peer{{Id: base + 1, StoreId: 1}, {Id: base + 2, StoreId: 2}, {Id: base + 3, StoreId: 3}}
	}
	ep := func() *metapb.RegionEpoch { return &metapb.RegionEpoch{ConfVer: nconf, Version: nver} }
	var reported []*metapb.Region
	lo, hi := X.StartKey, X.EndKey // the key range touched by the report
	switch shape {
	case 0:
		reported = []*metapb.Region{{Id: X.Id, StartKey: X.StartKey, EndKey: X.EndKey, RegionEpoch: ep(), Peers: mkPeers(500)}}
	case 1:
		m := zzBytes("mid", klen+1)
		zzAssume(zzAnd(bytes.Compare(X.StartKey, m) < 0, zzIn(X.StartKey, X.EndKey, m)))
		reported = []*metapb.Region{
			{Id: X.Id, StartKey: X.StartKey, EndKey: m, RegionEpoch: ep(), Peers: mkPeers(500)},
			{Id: 77, StartKey: m, EndKey: X.EndKey, RegionEpoch: ep(), Peers: mkPeers(600)}}
	case 2:
		zzAssume(x < nsp)
		hi = w.pd.regions[x+1].EndKey
		reported = []*metapb.Region{{Id: X.Id, StartKey: X.StartKey, EndKey: hi, RegionEpoch: ep(), Peers: mkPeers(500)}}
	case 3:
		// X was split and its id stayed on the right part; the store reports only that part
		m := zzBytes("mid", klen+1)
		zzAssume(zzAnd(bytes.Compare(X.StartKey, m) < 0, zzIn(X.StartKey, X.EndKey, m)))
		lo = m
		zzAssume(nver > ctxVer.ver) // a split bumps the version
		reported = []*metapb.Region{{Id: X.Id, StartKey: m, EndKey: X.EndKey, RegionEpoch: ep(), Peers: mkPeers(500)}}
	}
	pre := zzSnapIndex(&w.c.mu)
	ahead := zzOr(nconf < ctxVer.confVer, nver < ctxVer.ver)
	retry, err := w.c.OnRegionEpochNotMatch(w.bo, ctx, reported)
	if retry {
		zzAssert(ahead, "K8.retry-only-when-ahead")
		zzAssert(err == nil, "K8.ahead-backoff-no-error")
		zzAssert(zzSameIndex(&w.c.mu, pre), "K8.ahead-index-unchanged")
		return
	}
	zzAssert(!ahead, "K8.ahead-means-retry")
	zzAssert(err == nil, "K8.no-error")
	k := zzBytes("k", klen+1)
	got := w.c.mu.sorted.SearchByKey(k, false)
	var before *Region
	for _, it := range pre.items {
		if it.Contains(k) {
			before = it
		}
	}
	if !contains(lo, hi, k) {
		zzAssert(got == before, "K8.outside-untouched")
		if shape == 3 && contains(X.StartKey, X.EndKey, k) {
			// the part X lost: the request's outdated description must not be served for it any more
			zzAssert(w.c.TryLocateKey(k) == nil, "K8.outdated-entry-not-served-for-the-lost-range")
		}
		return
	}
	// newer neighbour inside the merged range?
	refused := false
	if shape == 2 && w.state[x+1] == 1 && w.pd.regions[x+1].RegionEpoch.Version > nver {
		refused = true
	}
	if refused {
		if w.pd.regions[x+1].StartKey != nil && bytes.Compare(k, w.pd.regions[x+1].StartKey) >= 0 {
			zzAssert(got == before, "K8.refused-keeps-newer-neighbour")
		} else {
			zzAssert(got == nil || got.meta != reported[0], "K8.refused-not-installed")
		}
		return
	}
	zzAssert(got != nil, "K8.reported-installed")
	var want *metapb.Region
	for _, m := range reported {
		if contains(m.StartKey, m.EndKey, k) {
			want = m
		}
	}
	zzAssert(got.meta == want, "K8.reported-installed-meta")
	zzAssert(got.VerID().ver == nver && got.VerID().confVer == nconf, "K8.reported-installed-epoch")
}

// ZZ_C09_k8_empty_report: an epoch-not-match without current regions
// invalidates the cached region: it is no longer served from the cache.
func ZZ_C09_k8_empty_report() {
	klen := zzParam("k8len", 1)
	nsp := zzChoice("nsplits", 2)
	w := zzNewWorld(nsp, klen, 2)
	defer w.c.Close()
	x := zzChoice("x", nsp+1)
	X := w.pd.regions[x]
	ctx := &RPCContext{Region: RegionVerID{id: X.Id, confVer: 1, ver: 1}, Store: w.c.stores.getOrInsertDefault(1)}
	retry, err := w.c.OnRegionEpochNotMatch(w.bo, ctx, nil)
	zzAssert(!retry && err == nil, "K8.empty-no-retry")
	k := zzBytes("k", klen)
	zzAssume(zzIn(X.StartKey, X.EndKey, k))
	zzAssert(w.c.TryLocateKey(k) == nil, "K8.empty-invalidates")
	// and the next blocking lookup reloads a region containing the key
	loc, err := w.c.LocateKey(w.bo, k)
	zzAssert(err == nil, "K8.empty-reload-no-error")
	zzAssert(zzIn(loc.StartKey, loc.EndKey, k), "K8.empty-reload-contains")
}

// ZZ_C09_k9_update_leader: UpdateLeader moves the work peer to the reported
// peer, or to the next peer when no leader is reported and the failing peer is
// the current one, or invalidates the region when the reported peer is not a
// peer of the region; an unknown region version is a no-op.
func ZZ_C09_k9_update_leader() {
	w := zzNewWorld(0, 1, 2)
	defer w.c.Close()
	zzAssume(w.state[0] == 1)
	T := w.pd.regions[0]
	ver := RegionVerID{id: T.Id, confVer: 1, ver: 1}
	r := w.c.GetCachedRegionWithRLock(ver)
	zzAssert(r != nil, "K9.setup-cached")
	w0 := zzChoice("work0", 3)
	r.switchWorkLeaderToPeer(&metapb.Peer{Id: T.Peers[w0].Id, StoreId: T.Peers[w0].StoreId})
	zzAssert(int(r.getStore().workTiKVIdx) == w0, "K9.setup-work-index")
	lead := zzChoice("leader", 6)
	cur := AccessIndex(zzChoice("cur", 3))
	switch {
	case lead < 3:
		w.c.UpdateLeader(ver, &metapb.Peer{Id: T.Peers[lead].Id, StoreId: T.Peers[lead].StoreId}, cur)
		zzAssert(int(r.getStore().workTiKVIdx) == lead, "K9.moved-to-reported-peer")
		zzAssert(r.GetLeaderStoreID() == T.Peers[lead].StoreId, "K9.leader-store")
		zzAssert(r.isValid(), "K9.still-valid")
	case lead == 3:
		w.c.UpdateLeader(ver, &metapb.Peer{Id: 999, StoreId: 9}, cur)
		zzAssert(!r.isValid(), "K9.unknown-peer-invalidates")
		zzAssert(w.c.TryLocateKey([]byte("a")) == nil, "K9.unknown-peer-not-served")
	case lead == 4:
		w.c.UpdateLeader(ver, nil, cur)
		if int(cur) == w0 {
			zzAssert(int(r.getStore().workTiKVIdx) == (w0+1)%3, "K9.nil-leader-next-peer")
		} else {
			zzAssert(int(r.getStore().workTiKVIdx) == w0, "K9.nil-leader-other-peer-kept")
		}
		zzAssert(r.isValid(), "K9.nil-leader-still-valid")
	default:
		w.c.UpdateLeader(RegionVerID{id: T.Id, confVer: 1, ver: 2}, &metapb.Peer{Id: T.Peers[2].Id, StoreId: 3}, cur)
		zzAssert(int(r.getStore().workTiKVIdx) == w0, "K9.unknown-version-noop")
		zzAssert(r.isValid(), "K9.unknown-version-still-valid")
	}
}
