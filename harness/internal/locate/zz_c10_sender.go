package locate

import (
	"context"
	"errors"
	"sync/atomic"
	"time"

	"github.com/pingcap/kvproto/pkg/errorpb"
	"github.com/pingcap/kvproto/pkg/kvrpcpb"
	"github.com/pingcap/kvproto/pkg/metapb"
	"github.com/tikv/client-go/v2/config/retry"
	"github.com/tikv/client-go/v2/internal/client"
	"github.com/tikv/client-go/v2/kv"
	"github.com/tikv/client-go/v2/oracle"
	"github.com/tikv/client-go/v2/tikvrpc"
)

// C10 (b)/(c) — the real SendReqCtx / sendReqState.next over a one-region cache
// with a harness client.Client that answers from a symbolic fault script.

const (
	zzEvOK = iota
	zzEvRPCError
	zzEvDeadline
	zzEvNotLeaderNoHint
	zzEvNotLeaderHint
	zzEvEpochNotMatchEmpty
	zzEvEpochNotMatchRegions
	zzEvRegionNotFound
	zzEvServerBusy
	zzEvServerBusyWait
	zzEvStaleCommand
	zzEvStoreNotMatch
	zzEvDataIsNotReady
	zzEvMaxTsNotSynced
	zzEvDiskFull
	zzEvUnknown
	zzEvServerBusyDeadline // ServerIsBusy whose reason says the request's deadline is exceeded
	zzNumEv
)

type zzSendRecord struct {
	retry, replicaRead, staleRead bool
	peerID                        uint64
	sleptMs                       int   // back-off sleep the call's Backoffer had accounted when the request was sent
}

// zzClient is the harness transport: call i gets script[i], calls beyond the
// script succeed. It records what was sent.
type zzClient struct {
	client.Client
	region   *metapb.Region
	bo       *retry.Backoffer
	script   []int
	sent     []zzSendRecord
	produced []*tikvrpc.Response
}

func (c *zzClient) Close() error                                  { return nil }
func (c *zzClient) CloseAddr(addr string) error                   { return nil }
func (c *zzClient) SetEventListener(l client.ClientEventListener) {}

func (c *zzClient) respond(req *tikvrpc.Request, e *errorpb.Error) (*tikvrpc.Response, error) {
	var resp *tikvrpc.Response
	if e == nil {
		switch req.Type {
		case tikvrpc.CmdGet:
			resp = &tikvrpc.Response{Resp: &kvrpcpb.GetResponse{Value: []byte("v")}}
		default:
			resp = &tikvrpc.Response{Resp: &kvrpcpb.PrewriteResponse{}}
		}
	} else {
		resp, _ = tikvrpc.GenRegionErrorResp(req, e)
	}
	c.produced = append(c.produced, resp)
	return resp, nil
}

func (c *zzClient) SendRequest(ctx context.Context, addr string, req *tikvrpc.Request, timeout time.Duration) (*tikvrpc.Response, error) {
	i := len(c.sent)
	rec := zzSendRecord{retry: req.IsRetryRequest, replicaRead: req.ReplicaRead, staleRead: req.StaleRead, peerID: req.Context.GetPeer().GetId()}
	if c.bo != nil {
		rec.sleptMs = c.bo.GetTotalSleep()
	}
	c.sent = append(c.sent, rec)
	ev := zzEvOK
	if i < len(c.script) {
		ev = c.script[i]
	}
	switch ev {
	case zzEvOK:
		return c.respond(req, nil)
	case zzEvRPCError:
		return nil, errors.New("zz: connection reset")
	case zzEvDeadline:
		return nil, context.DeadlineExceeded
	case zzEvNotLeaderNoHint:
		return c.respond(req, &errorpb.Error{NotLeader: &errorpb.NotLeader{RegionId: c.region.Id}})
	case zzEvNotLeaderHint:
		// the hint names the peer after the one that was asked
		cur := req.Context.GetPeer().GetId()
		var hint *metapb.Peer
		for k, p := range c.region.Peers {
			if p.Id == cur {
				n := c.region.Peers[(k+1)%len(c.region.Peers)]
				hint = &metapb.Peer{Id: n.Id, StoreId: n.StoreId}
			}
		}
		return c.respond(req, &errorpb.Error{NotLeader: &errorpb.NotLeader{RegionId: c.region.Id, Leader: hint}})
	case zzEvEpochNotMatchEmpty:
		return c.respond(req, &errorpb.Error{EpochNotMatch: &errorpb.EpochNotMatch{}})
	case zzEvEpochNotMatchRegions:
		cur := &metapb.Region{Id: c.region.Id, StartKey: c.region.StartKey, EndKey: c.region.EndKey,
			RegionEpoch: &metapb.RegionEpoch{ConfVer: c.region.RegionEpoch.ConfVer, Version: c.region.RegionEpoch.Version + 1},
			Peers:       []*metapb.Peer{{Id: 101, StoreId: 1}, {Id: 102, StoreId: 2}, {Id: 103, StoreId: 3}}}
		return c.respond(req, &errorpb.Error{EpochNotMatch: &errorpb.EpochNotMatch{CurrentRegions: []*metapb.Region{cur}}})
	case zzEvRegionNotFound:
		return c.respond(req, &errorpb.Error{RegionNotFound: &errorpb.RegionNotFound{RegionId: c.region.Id}})
	case zzEvServerBusy:
		return c.respond(req, &errorpb.Error{ServerIsBusy: &errorpb.ServerIsBusy{Reason: "busy"}})
	case zzEvServerBusyDeadline:
		return c.respond(req, &errorpb.Error{ServerIsBusy: &errorpb.ServerIsBusy{Reason: "deadline is exceeded"}})
	case zzEvServerBusyWait:
		return c.respond(req, &errorpb.Error{ServerIsBusy: &errorpb.ServerIsBusy{Reason: "busy", EstimatedWaitMs: 200}})
	case zzEvStaleCommand:
		return c.respond(req, &errorpb.Error{StaleCommand: &errorpb.StaleCommand{}})
	case zzEvStoreNotMatch:
		return c.respond(req, &errorpb.Error{StoreNotMatch: &errorpb.StoreNotMatch{}})
	case zzEvDataIsNotReady:
		return c.respond(req, &errorpb.Error{DataIsNotReady: &errorpb.DataIsNotReady{}})
	case zzEvMaxTsNotSynced:
		return c.respond(req, &errorpb.Error{MaxTimestampNotSynced: &errorpb.MaxTimestampNotSynced{}})
	case zzEvDiskFull:
		return c.respond(req, &errorpb.Error{DiskFull: &errorpb.DiskFull{}})
	default:
		return c.respond(req, &errorpb.Error{Message: "zz: some other region error"})
	}
}

// zzValidator is the harness read-ts validator: records every call, fails when told to.
type zzValidator struct {
	calls   int
	ts      uint64
	isStale bool
	fail    bool
}

func (v *zzValidator) ValidateReadTS(ctx context.Context, readTS uint64, isStaleRead bool, opt *oracle.Option) error {
	v.calls++
	v.ts, v.isStale = readTS, isStaleRead
	if v.fail {
		return errors.New("zz: read ts is in the future")
	}
	return nil
}

type zzSendWorld struct {
	w      *zzWorld
	cl     *zzClient
	val    *zzValidator
	sender *RegionRequestSender
	ver    RegionVerID
}

func zzNewSendWorld(budgetMs, nrep int) *zzSendWorld {
	sw := &zzSendWorld{}
	w := &zzWorld{}
	w.pd = zzLayout(nil)
	w.pd.regions[0].Peers = w.pd.regions[0].Peers[:nrep]
	w.c = NewRegionCache(w.pd)
	w.bo = retry.NewBackofferWithVars(context.Background(), budgetMs, nil)
	r, err := newRegion(retry.NewBackofferWithVars(context.Background(), 2000, nil), w.c, w.pd.wrap(0))
	zzAssume(err == nil)
	w.c.mu.Lock()
	w.c.insertRegionToCache(r, true, true)
	w.c.mu.Unlock()
	// store liveness probing is outside the claim: a probe answers "reachable" or
	// "unreachable" as the harness chooses once per world
	probe := livenessState(zzChoice("probe", 2))
	w.c.stores.setMockRequestLiveness(func(ctx context.Context, s *Store) livenessState { return probe })
	sw.w = w
	sw.ver = r.VerID()
	sw.cl = &zzClient{region: w.pd.regions[0], bo: w.bo}
	sw.val = &zzValidator{}
	sw.sender = NewRegionRequestSender(w.c, sw.cl, sw.val)
	return sw
}

func zzScript(maxLen int) []int {
	names := [...]string{"ev0", "ev1", "ev2", "ev3"}
	n := zzChoice("scriptlen", maxLen+1)
	var s []int
	for i := 0; i < n; i++ {
		s = append(s, 1+zzChoice(names[i], zzNumEv-1))
	}
	return s
}

func zzIsProduced(c *zzClient, resp *tikvrpc.Response) bool {
	for _, p := range c.produced {
		if p == resp {
			return true
		}
	}
	return false
}

// zzSendAndCheck runs SendReqCtx for the request over the world's script and
// checks the C10 postconditions:
//   - it terminates, with at most one send more than the script is long;
//   - every send after the first carries IsRetryRequest;
//   - a write is never sent flagged replica-read or stale-read;
//   - the result is an error, or a response the transport produced, or the
//     synthetic region error — never a response nobody produced without a
//     region error in it;
//   - virtual back-off sleep stays within budget + one step (+ the excluded
//     server-busy sleeps of the script).
func zzSendAndCheck(sw *zzSendWorld, req *tikvrpc.Request, write bool, budget int) {
	nBusy := 0
	for _, ev := range sw.cl.script {
		if ev == zzEvServerBusy || ev == zzEvServerBusyWait || ev == zzEvServerBusyDeadline {
			nBusy++
		}
	}
	resp, _, _, err := sw.sender.SendReqCtx(sw.w.bo, req, sw.ver, time.Second, tikvrpc.TiKV)
	zzAssert(len(sw.cl.sent) <= len(sw.cl.script)+1, "C10.sends-bounded-by-script")
	for i, s := range sw.cl.sent {
		if i > 0 {
			zzAssert(s.retry, "C10.resend-carries-retry-flag")
		} else {
			zzAssert(!s.retry, "C10.first-send-not-retry")
		}
		if write {
			zzAssert(!s.replicaRead && !s.staleRead, "C10.sent-write-not-replica-or-stale")
		}
		zzAssert(!(s.replicaRead && s.staleRead), "C10.sent-not-both-read-flags")
	}
	{
		// a store that answered "busy" is not asked again at once: the re-send goes to another peer or
		// comes after a back-off (a read with the configurable short time-out may retry at once: not used here)
		for i := 1; i < len(sw.cl.sent) && i-1 < len(sw.cl.script); i++ {
			ev := sw.cl.script[i-1]
			if ev == zzEvServerBusy || ev == zzEvServerBusyDeadline {
				p, q := sw.cl.sent[i-1], sw.cl.sent[i]
				zzAssert(q.peerID != p.peerID || q.sleptMs > p.sleptMs, "C10.busy-store-not-asked-again-without-back-off")
			}
		}
	}
	zzAssert((err == nil) != (resp == nil), "C10.result-response-xor-error")
	if resp != nil {
		regionErr, e2 := resp.GetRegionError()
		zzAssert(e2 == nil, "C10.result-well-formed")
		if !zzIsProduced(sw.cl, resp) {
			zzAssert(regionErr != nil, "C10.no-fabricated-success")
		}
		if regionErr == nil {
			zzAssert(zzIsProduced(sw.cl, resp), "C10.success-is-from-transport")
			zzAssert(resp == sw.cl.produced[len(sw.cl.produced)-1], "C10.success-is-last-answer")
		}
	}
	if zzInterp() {
		limitMs := int64(budget) + 5000 + int64(nBusy)*10000
		zzAssert(zzSleptNs() <= limitMs*int64(time.Millisecond), "C10.sleep-within-budget-plus-step")
	}
}

// zzRequest: mode 0 write (prewrite), 1..3 get with leader / follower / mixed
// read, 4 stale read.
func zzRequest(mode int) (*tikvrpc.Request, bool) {
	switch mode {
	case 0:
		return tikvrpc.NewRequest(tikvrpc.CmdPrewrite, &kvrpcpb.PrewriteRequest{StartVersion: 5}), true
	case 1, 2, 3:
		rts := []kv.ReplicaReadType{kv.ReplicaReadLeader, kv.ReplicaReadFollower, kv.ReplicaReadMixed}
		return tikvrpc.NewReplicaReadRequest(tikvrpc.CmdGet, &kvrpcpb.GetRequest{Version: 5}, rts[mode-1], nil), false
	default:
		req := tikvrpc.NewRequest(tikvrpc.CmdGet, &kvrpcpb.GetRequest{Version: 5})
		req.EnableStaleWithMixedReplicaRead()
		return req, false
	}
}

// ZZ_C10_send_script: SendReqCtx over every fault script of at most `c10script`
// entries from the full alphabet of the statement, for a write and for leader /
// follower / mixed / stale reads, with a large and with an exhausted back-off
// budget, store probes answering reachable or unreachable.
func ZZ_C10_send_script() {
	budget := 40000
	if zzBool("tiny_budget") {
		budget = 1
	}
	// a single-replica region runs out of candidates after one fault (the
	// synthetic region error), a three-replica region has somewhere to go
	nrep := 3
	if zzBool("single_replica") {
		nrep = 1
	}
	sw := zzNewSendWorld(budget, nrep)
	defer sw.w.c.Close()
	req, write := zzRequest(zzChoice("mode", 5))
	sw.cl.script = zzScript(zzParam("c10script", 1))
	zzSendAndCheck(sw, req, write, budget)
}

// ZZ_C10_send_script_long: scripts of exactly `c10long` entries over a reduced
// alphabet (RPC error, NotLeader with hint, EpochNotMatch without regions,
// ServerIsBusy, StaleCommand, DataIsNotReady) for a write, a mixed read and a
// stale read.
func ZZ_C10_send_script_long() {
	budget := 40000
	if zzParam("tier", 0) == 1 && zzBool("tiny_budget") { // the exhausted budget: thorough tier only (quick: ZZ_C10_send_script)
		budget = 1
	}
	sw := zzNewSendWorld(budget, 3)
	defer sw.w.c.Close()
	modes := [...]int{0, 3, 4}
	req, write := zzRequest(modes[zzChoice("mode", 3)])
	alpha := [...]int{zzEvRPCError, zzEvNotLeaderHint, zzEvEpochNotMatchEmpty, zzEvServerBusy, zzEvStaleCommand, zzEvDataIsNotReady}
	names := [...]string{"ev0", "ev1", "ev2", "ev3"}
	n := zzParam("c10long", 2)
	for i := 0; i < n; i++ {
		sw.cl.script = append(sw.cl.script, alpha[zzChoice(names[i], len(alpha))])
	}
	zzSendAndCheck(sw, req, write, budget)
}

// ZZ_C10_validate_read_ts: validateReadTS asks the validator exactly for the
// read commands, with the request's start ts and stale flag; when validation
// fails SendReqCtx returns that error and nothing is sent.
func ZZ_C10_validate_read_ts() {
	sw := zzNewSendWorld(2000, 3)
	defer sw.w.c.Close()
	ts := zzU64("ts")
	stale := zzBool("stale")
	type cmd struct {
		typ  tikvrpc.CmdType
		body interface{}
		read bool
	}
	cmds := []cmd{
		{tikvrpc.CmdGet, &kvrpcpb.GetRequest{Version: ts}, true},
		{tikvrpc.CmdScan, &kvrpcpb.ScanRequest{Version: ts}, true},
		{tikvrpc.CmdBatchGet, &kvrpcpb.BatchGetRequest{Version: ts}, true},
		{tikvrpc.CmdScanLock, &kvrpcpb.ScanLockRequest{MaxVersion: ts}, true},
		{tikvrpc.CmdBufferBatchGet, &kvrpcpb.BufferBatchGetRequest{Version: ts}, true},
		{tikvrpc.CmdPrewrite, &kvrpcpb.PrewriteRequest{StartVersion: ts}, false},
		{tikvrpc.CmdCommit, &kvrpcpb.CommitRequest{StartVersion: ts}, false},
		{tikvrpc.CmdPessimisticLock, &kvrpcpb.PessimisticLockRequest{StartVersion: ts}, false},
		{tikvrpc.CmdBatchRollback, &kvrpcpb.BatchRollbackRequest{StartVersion: ts}, false},
		{tikvrpc.CmdResolveLock, &kvrpcpb.ResolveLockRequest{StartVersion: ts}, false},
		{tikvrpc.CmdRawGet, &kvrpcpb.RawGetRequest{}, false},
	}
	c := cmds[zzChoice("cmd", len(cmds))]
	req := tikvrpc.NewRequest(c.typ, c.body)
	req.StaleRead = stale && c.read
	sw.val.fail = zzBool("validation_fails")
	err := sw.sender.validateReadTS(context.Background(), req)
	if c.read {
		zzAssert(sw.val.calls == 1, "C10.read-command-validated-once")
		zzAssert(sw.val.ts == ts, "C10.validated-ts-is-read-ts")
		zzAssert(sw.val.isStale == req.StaleRead, "C10.validated-stale-flag")
		zzAssert((err != nil) == sw.val.fail, "C10.validation-verdict-returned")
	} else {
		zzAssert(sw.val.calls == 0 && err == nil, "C10.non-read-not-validated")
	}
	// through SendReqCtx: a failed validation sends nothing
	if c.typ == tikvrpc.CmdGet {
		resp, _, _, err2 := sw.sender.SendReqCtx(sw.w.bo, req, sw.ver, time.Second, tikvrpc.TiKV)
		if sw.val.fail {
			zzAssert(err2 != nil && resp == nil, "C10.failed-validation-is-error")
			zzAssert(len(sw.cl.sent) == 0, "C10.failed-validation-sends-nothing")
		} else {
			zzAssert(err2 == nil && resp != nil, "C10.valid-read-is-sent")
			zzAssert(len(sw.cl.sent) == 1, "C10.valid-read-one-send")
		}
	}
	// a request addressed to TiDB is not validated
	req2 := tikvrpc.NewRequest(tikvrpc.CmdGet, &kvrpcpb.GetRequest{Version: ts})
	req2.StoreTp = tikvrpc.TiDB
	n := sw.val.calls
	zzAssert(sw.sender.validateReadTS(context.Background(), req2) == nil && sw.val.calls == n, "C10.tidb-not-validated")
}

// ZZ_C10_send_script_forwarding: the same postconditions with forwarding enabled on a three-replica
// region whose leader store cannot be reached directly (probes: leader unreachable, followers
// reachable). The leader store may already be known as unreachable from an earlier call, so that the
// first attempt of this call is a forwarded one; the script (at most `c10fwd` entries from RPC error,
// deadline, NotLeader with hint, ServerIsBusy) decides what each hop answers.
func ZZ_C10_send_script_forwarding() {
	budget := 40000
	sw := zzNewSendWorld(budget, 3)
	defer sw.w.c.Close()
	c := sw.w.c
	c.enableForwarding = true
	r := c.GetCachedRegionWithRLock(sw.ver)
	leader, _, _, _ := r.WorkStorePeer(r.getStore())
	c.stores.setMockRequestLiveness(func(ctx context.Context, s *Store) livenessState {
		if s == leader {
			return unreachable
		}
		return reachable
	})
	if zzBool("leader_known_unreachable") {
		atomic.StoreUint32(&leader.livenessState, uint32(unreachable))
	}
	modes := [...]int{0, 1}
	req, write := zzRequest(modes[zzChoice("mode", 2)])
	alpha := [...]int{zzEvRPCError, zzEvDeadline, zzEvNotLeaderHint, zzEvServerBusy}
	names := [...]string{"ev0", "ev1", "ev2", "ev3"}
	n := zzChoice("scriptlen", zzParam("c10fwd", 2)+1)
	for i := 0; i < n; i++ {
		sw.cl.script = append(sw.cl.script, alpha[zzChoice(names[i], len(alpha))])
	}
	zzSendAndCheck(sw, req, write, budget)
}
