package unionstore

import (
	"context"
	"errors"
	"math"

	tikverr "github.com/tikv/client-go/v2/error"
	"github.com/tikv/client-go/v2/kv"
)

// C08 (d) size limits and (e) iterator / snapshot invalidation, on the real buffers.

func zzNewBuffer(which int) MemBuffer {
	if which == 0 {
		return newArtDBWithContext()
	}
	return newRbtDBWithContext()
}

// ZZ_C08_limit_key: a key of 65 535 bytes is accepted, one of 65 536 bytes is rejected with
// ErrKeyTooLarge and leaves the buffer empty (both trees).
func ZZ_C08_limit_key() {
	db := zzNewBuffer(zzChoice("impl", 2))
	n := math.MaxUint16 + zzChoice("over", 2)
	key := make([]byte, n)
	key[0], key[n-1] = zzU8("k.first"), zzU8("k.last")
	err := db.Set(key, []byte{1})
	if n > math.MaxUint16 {
		var tooLarge *tikverr.ErrKeyTooLarge
		zzAssert(errors.As(err, &tooLarge) && tooLarge.KeySize == n, "limit.key-65536-rejected")
		zzAssert(db.Len() == 0 && db.Size() == 0, "limit.rejected-key-leaves-buffer-empty")
		return
	}
	zzAssert(err == nil, "limit.key-65535-accepted")
	v, err := db.Get(context.Background(), key)
	zzAssert(err == nil && len(v.Value) == 1 && v.Value[0] == 1, "limit.long-key-readable")
	zzAssert(db.Len() == 1 && db.Size() == n+1, "limit.long-key-accounted")
}

// ZZ_C08_limit_entry: entry size (key + value) against an arbitrary entry limit, buffer size
// against an arbitrary buffer limit; 0 passed through KVUnionStore means unlimited.
func ZZ_C08_limit_entry() {
	db := zzNewBuffer(zzChoice("impl", 2))
	k := zzBytes("k", 2)
	v := zzBytesN("v", 1+zzChoice("vlen", 2))
	entryLimit, bufferLimit := zzU64("entry-limit"), zzU64("buffer-limit")
	us := NewUnionStore(db, nil)
	us.SetEntrySizeLimit(entryLimit, bufferLimit)
	size := uint64(len(k) + len(v))
	err := db.Set(k, v)
	var eTooLarge *tikverr.ErrEntryTooLarge
	var tTooLarge *tikverr.ErrTxnTooLarge
	switch {
	case entryLimit != 0 && size > entryLimit:
		zzAssert(errors.As(err, &eTooLarge) && eTooLarge.Size == size && eTooLarge.Limit == entryLimit, "limit.entry-over-limit-rejected")
		zzAssert(db.Len() == 0 && db.Size() == 0, "limit.rejected-entry-leaves-buffer-empty")
	case bufferLimit != 0 && size > bufferLimit:
		zzAssert(errors.As(err, &tTooLarge) && uint64(tTooLarge.Size) == size, "limit.buffer-over-limit-reported")
	default:
		zzAssert(err == nil, "limit.within-limits-accepted")
		zzAssert(db.Len() == 1 && uint64(db.Size()) == size, "limit.accepted-entry-accounted")
	}
	// flags-only updates and deletes are not subject to the entry limit through the value check
	// when value is nil (UpdateFlags) — they never fail
	db2 := zzNewBuffer(zzChoice("impl2", 2))
	db2.SetEntrySizeLimit(1, math.MaxUint64)
	db2.UpdateFlags([]byte("long-key"), kv.SetKeyLocked)
	f, ferr := db2.GetFlags([]byte("long-key"))
	zzAssert(ferr == nil && f.HasLocked(), "limit.flags-only-update-not-limited")
}

// ZZ_C08_set_empty_value: Set / SetWithFlags refuse an empty value (a delete must be explicit).
func ZZ_C08_set_empty_value() {
	db := zzNewBuffer(zzChoice("impl", 2))
	k := zzBytes("k", 1)
	var err error
	if zzChoice("with-flags", 2) == 1 {
		err = db.SetWithFlags(k, []byte{}, kv.SetKeyLocked)
	} else {
		err = db.Set(k, nil)
	}
	zzAssert(err == tikverr.ErrCannotSetNilValue, "limit.empty-value-rejected")
	zzAssert(db.Len() == 0, "limit.empty-value-leaves-buffer-empty")
}

func zzPanics(f func()) (p bool) {
	defer func() {
		if recover() != nil {
			p = true
		}
	}()
	f()
	return false
}

// ZZ_C08_iter_invalidation: (ART, the tree behind MemDB) an iterator used after any write to the
// buffer panics on every accessor; an iterator created after the write works; without a write
// it keeps working.
func ZZ_C08_iter_invalidation() {
	db := newArtDBWithContext()
	k1, k2 := []byte{zzU8("k1")}, []byte{zzU8("k2"), 1}
	zzAssert(db.Set(k1, []byte{1}) == nil && db.Set(k2, []byte{2}) == nil, "inval.setup")
	h := 0
	if zzChoice("staged", 2) == 1 {
		h = db.Staging()
	}
	var it Iterator
	var err error
	if zzChoice("reverse", 2) == 1 {
		it, err = db.IterReverse(nil, nil)
	} else {
		it, err = db.Iter(nil, nil)
	}
	zzAssert(err == nil && it.Valid(), "inval.iter-opens")
	wrote := true
	switch zzChoice("write", 7) {
	case 0:
		wrote = false
	case 1:
		db.Set(k1, []byte{9}) // same length: in-place value swap
	case 2:
		db.Set([]byte{zzU8("k3"), 2, 3}, []byte{3})
	case 3:
		db.Delete(k2)
	case 4:
		db.UpdateFlags(k1, kv.SetKeyLocked)
	case 5:
		zzAssume(h != 0)
		db.Release(h)
	default:
		zzAssume(h != 0)
		db.Cleanup(h)
	}
	use := zzChoice("use", 4)
	panicked := zzPanics(func() {
		switch use {
		case 0:
			it.Valid()
		case 1:
			it.Key()
		case 2:
			it.Value()
		default:
			it.Next()
		}
	})
	if wrote {
		zzAssert(panicked, "inval.use-after-write-panics")
		it2, err := db.Iter(nil, nil)
		zzAssert(err == nil && !zzPanics(func() { it2.Valid() }), "inval.fresh-iterator-works")
	} else {
		zzAssert(!panicked, "inval.no-write-no-panic")
	}
}

// ZZ_C08_snapshot_invalidation: a MemBufferSnapshot taken inside the outermost staging level
// reads the pre-staging view while writes go on, and reports an error (never stale data) once
// that level is released or cleaned up (the pre-staging view on both trees, the invalidation on ART).
func ZZ_C08_snapshot_invalidation() {
	which := zzChoice("impl", 2)
	db := zzNewBuffer(which)
	k := zzBytes("k", 2)
	v1, v2 := zzBytesN("v1", 1), zzBytesN("v2", 1+zzChoice("v2len", 2))
	ctx := context.Background()
	zzAssert(db.Set(k, v1) == nil, "snap.setup")
	h := db.Staging()
	snap := db.GetSnapshot()
	zzAssert(db.Set(k, v2) == nil, "snap.staged-write")
	got, err := snap.Get(ctx, k)
	zzAssert(err == nil && len(got.Value) == 1 && got.Value[0] == v1[0], "snap.reads-pre-staging-value")
	it := snap.BatchedSnapshotIter(nil, nil, zzChoice("reverse", 2) == 1)
	zzAssert(it.Valid() && len(it.Value()) == 1 && it.Value()[0] == v1[0], "snap.iter-reads-pre-staging-value")
	if zzChoice("end", 2) == 0 {
		db.Release(h)
	} else {
		db.Cleanup(h)
	}
	if which == 1 {
		// "The RBT doesn't maintain the sequence number" (memdb_rbt.go): the legacy tree has no
		// snapshot invalidation; the claim is made for ART, the tree behind MemDB.
		return
	}
	_, err = snap.Get(ctx, k)
	zzAssert(err != nil && !tikverr.IsErrNotFound(err), "snap.get-after-level-closed-errors")
	zzAssert(!it.Valid(), "snap.iter-after-level-closed-invalid")
	zzAssert(it.Next() != nil, "snap.iter-next-after-level-closed-errors")
}
