package art

// C08 (c) — radix-node kernels against their naive definitions.

// zzBit: bit i of a 256-bit bitmap held in four words.
func zzBit(p *[4]uint64, i int) bool { return p[i>>6]>>(uint(i)&63)&1 == 1 }

// The reference is the linear scan "first set bit at or after start" (resp. "last set bit at or
// before start"). To keep the solver terms small (z3 is slow on one 256-deep ite chain) the
// harness chooses which 64-bit word W holds the answer (or none), assumes the scanned part of the
// earlier words empty and of word W non-empty, and scans word W bit by bit.

// zzScanUp: least i in [lo,63] with bit i of x set (64 if none), as a bit-by-bit scan.
func zzScanUp(x uint64, lo int) uint64 {
	c := uint64(64)
	for i := 63; i >= lo; i-- {
		c = zzIte64(x>>uint(i)&1 == 1, uint64(i), c)
	}
	return c
}

// zzScanDown: greatest i in [0,hi] with bit i of x set (64 if none).
func zzScanDown(x uint64, hi int) uint64 {
	c := uint64(64)
	for i := 0; i <= hi; i++ {
		c = zzIte64(x>>uint(i)&1 == 1, uint64(i), c)
	}
	return c
}

var zzStarts = []int{0, 1, 63, 64, 65, 192, 255, 256}

func zzBitmap() [4]uint64 {
	return [4]uint64{zzU64("present0"), zzU64("present1"), zzU64("present2"), zzU64("present3")}
}

// ZZ_C08_present_idx: node48 / node256 next/prevPresentIdx for every bitmap and the starts the
// iterators and the grow/shrink code can pass (next: 0..256, prev: -1..255; quick tier: the
// boundary starts of zzStarts, thorough: five positions in every word, all_starts=1: all).
func ZZ_C08_present_idx() {
	p := zzBitmap()
	which := zzChoice("which", 4)
	var s int
	switch zzParam("all_starts", 0) {
	case 1: // every start (about 3600 paths, ~4 h of z3 time on a loaded machine: run on demand)
		s = zzChoice("start", node256cap+1)
	case 2: // thorough: first, second, middle, last-but-one and last bit of every word, and 256
		w := zzChoice("start.word", 4)
		s = 64*w + []int{0, 1, 31, 62, 63, 64}[zzChoice("start.bit", 6)]
	default:
		s = zzStarts[zzChoice("start", len(zzStarts))]
	}
	var n48 node48
	var n256 node256
	n48.present, n256.present = p, p
	if which < 2 {
		// next: words first..3 are scanned upwards; W = 4 means no bit found
		first := s >> 6
		W := first + zzChoice("word", 4-first+1)
		want := node256cap
		for w := first; w < 4 && w <= W; w++ {
			lo := 0
			if w == first {
				lo = s & 63
			}
			scanned := p[w] >> uint(lo) // bits lo..63 of the word
			if w < W {
				zzAssume(scanned == 0)
			} else {
				zzAssume(scanned != 0)
				want = w*64 + int(zzScanUp(p[w], lo))
			}
		}
		if which == 0 {
			zzAssert(n48.nextPresentIdx(s) == want, "node48.next-present-is-least-set-bit-from-start")
		} else {
			zzAssert(n256.nextPresentIdx(s) == want, "node256.next-present-is-least-set-bit-from-start")
		}
		return
	}
	// prev: start s-1 in -1..255; words first..0 are scanned downwards; W = -1 means none
	s--
	first := s >> 6 // -1 for s == -1
	W := first - zzChoice("word", first+2)
	want := inplaceIndex
	for w := first; w >= 0 && w >= W; w-- {
		hi := 63
		if w == first {
			hi = s & 63
		}
		scanned := p[w] << uint(63-hi) // bits 0..hi of the word
		if w > W {
			zzAssume(scanned == 0)
		} else {
			zzAssume(scanned != 0)
			want = w*64 + int(zzScanDown(p[w], hi))
		}
	}
	if which == 2 {
		zzAssert(n48.prevPresentIdx(s) == want, "node48.prev-present-is-greatest-set-bit-upto-start")
	} else {
		zzAssert(n256.prevPresentIdx(s) == want, "node256.prev-present-is-greatest-set-bit-upto-start")
	}
}

// ZZ_C08_lcp: longestCommonPrefix (8-byte word compare on amd64) equals the byte loop, for every
// pair of lengths up to lcp_len, every depth the precondition allows, every content.
func ZZ_C08_lcp() {
	maxlen := zzParam("lcp_len", 10)
	la := zzChoice("la", maxlen+1)
	lb := zzChoice("lb", maxlen+1)
	a := zzBytesN("a", la)
	b := zzBytesN("b", lb)
	limit := la
	if lb < limit {
		limit = lb
	}
	depth := zzChoice("depth", limit+1)
	// precondition of the function: the keys agree below depth
	same := true
	for i := 0; i < depth; i++ {
		same = zzAnd(same, a[i] == b[i])
	}
	zzAssume(same)
	r := longestCommonPrefix(artKey(a), artKey(b), uint32(depth))
	// r == c  <=>  bytes depth..depth+c-1 agree and (depth+c is the limit or that byte differs)
	ok := true
	agree := true
	for c := 0; depth+c <= limit; c++ {
		stop := depth+c == limit
		if !stop {
			stop = a[depth+c] != b[depth+c]
		}
		ok = zzAnd(ok, zzImplies(zzAnd(agree, stop), r == uint32(c)))
		if depth+c < limit {
			agree = zzAnd(agree, a[depth+c] == b[depth+c])
		}
	}
	zzAssert(ok, "lcp.equals-byte-loop")
	zzAssert(int(r) <= limit-depth, "lcp.within-shorter-key")
}

// ZZ_C08_artkey: charAt / valid.
func ZZ_C08_artkey() {
	k := artKey(zzBytes("k", 3))
	pos := zzInt("pos")
	zzAssume(pos >= -2 && pos <= 5)
	c := k.charAt(pos)
	if pos >= 0 && pos < len(k) {
		zzAssert(c == k[pos], "artkey.char-at-inside")
		zzAssert(k.valid(pos), "artkey.valid-inside")
	} else {
		zzAssert(c == 0, "artkey.char-at-outside-is-zero")
		if pos >= len(k) {
			zzAssert(!k.valid(pos), "artkey.invalid-past-end")
		}
	}
}
