package unionstore

import (
	"bytes"
	"context"
	"errors"

	tikverr "github.com/tikv/client-go/v2/error"
	"github.com/tikv/client-go/v2/kv"
)

// C07 — read-your-writes over the snapshot: UnionIter merge, KVUnionStore.Get/Iter/IterReverse.
//
// The buffer and the snapshot are harness implementations of MemBuffer / uSnapshot / Iterator that
// serve two strictly ascending symbolic key sequences. Buffer values are empty (tombstone) or one
// symbolic byte; snapshot values are one symbolic byte (a snapshot never yields an empty value).

type zzKV struct{ k, v []byte }

// zzSeqIter serves a prepared list of entries in order. failAt >= 0 makes the failAt-th Next
// return zzErrIter (and stay where it is).
type zzSeqIter struct {
	ents   []zzKV
	pos    int
	nexts  int
	failAt int
	closed bool
}

var zzErrIter = errors.New("zz: iterator failure")
var zzErrOther = errors.New("zz: store failure")

func (it *zzSeqIter) Valid() bool   { return it.pos < len(it.ents) }
func (it *zzSeqIter) Key() []byte   { return it.ents[it.pos].k }
func (it *zzSeqIter) Value() []byte { return it.ents[it.pos].v }
func (it *zzSeqIter) Close()        { it.closed = true }
func (it *zzSeqIter) Next() error {
	n := it.nexts
	it.nexts++
	if n == it.failAt {
		return zzErrIter
	}
	it.pos++
	return nil
}

func zzNewSeqIter(ents []zzKV) *zzSeqIter { return &zzSeqIter{ents: ents, failAt: -1} }

// zzAscending draws n entries with strictly ascending keys of at most klen bytes.
// vmin = 0 allows empty values (tombstones); vmin = 1 gives exactly one value byte.
func zzAscending(n, klen, vmin int, b bool) []zzKV {
	out := make([]zzKV, 0, n)
	for i := 0; i < n; i++ {
		var k, v []byte
		// names must be constant strings: spell the three positions out
		switch {
		case b && i == 0:
			k = zzBytes("b0.k", klen)
		case b && i == 1:
			k = zzBytes("b1.k", klen)
		case b && i == 2:
			k = zzBytes("b2.k", klen)
		case !b && i == 0:
			k = zzBytes("s0.k", klen)
		case !b && i == 1:
			k = zzBytes("s1.k", klen)
		default:
			k = zzBytes("s2.k", klen)
		}
		if i > 0 {
			zzAssume(bytes.Compare(out[i-1].k, k) < 0)
		}
		if vmin == 0 {
			switch i {
			case 0:
				v = zzBytes("b0.v", 1)
			case 1:
				v = zzBytes("b1.v", 1)
			default:
				v = zzBytes("b2.v", 1)
			}
		} else {
			switch i {
			case 0:
				v = zzBytesN("s0.v", 1)
			case 1:
				v = zzBytesN("s1.v", 1)
			default:
				v = zzBytesN("s2.v", 1)
			}
		}
		out = append(out, zzKV{k, v})
	}
	return out
}

func zzReversed(e []zzKV) []zzKV {
	out := make([]zzKV, len(e))
	for i := range e {
		out[len(e)-1-i] = e[i]
	}
	return out
}

// zzHasKey: some entry of e has key k (one boolean term, no fork).
func zzHasKey(e []zzKV, k []byte) bool {
	r := false
	for i := range e {
		r = zzOr(r, bytes.Equal(e[i].k, k))
	}
	return r
}

// zzHasKV: some entry of e is exactly (k, v).
func zzHasKV(e []zzKV, k, v []byte) bool {
	r := false
	for i := range e {
		r = zzOr(r, zzAnd(bytes.Equal(e[i].k, k), bytes.Equal(e[i].v, v)))
	}
	return r
}

// zzCheckMerged asserts that out is exactly snapshot ⊕ buffer in the requested order:
//
//	order    — keys strictly monotone (so no key is repeated),
//	sound    — every yielded pair is a live buffer pair, or a snapshot pair whose key the buffer
//	           does not mention,
//	complete — every live buffer pair and every unshadowed snapshot pair is yielded.
//
// Together these three say out = the model; nothing is skipped or invented.
func zzCheckMerged(out, buf, snap []zzKV, reverse bool) {
	okOrder, okSound, okComplete := true, true, true
	for i := range out {
		if i > 0 {
			c := bytes.Compare(out[i-1].k, out[i].k)
			if reverse {
				okOrder = zzAnd(okOrder, c > 0)
			} else {
				okOrder = zzAnd(okOrder, c < 0)
			}
		}
		fromBuf := zzAnd(len(out[i].v) > 0, zzHasKV(buf, out[i].k, out[i].v))
		fromSnap := zzAnd(zzHasKV(snap, out[i].k, out[i].v), !zzHasKey(buf, out[i].k))
		okSound = zzAnd(okSound, zzOr(fromBuf, fromSnap))
	}
	for i := range buf {
		if len(buf[i].v) > 0 {
			okComplete = zzAnd(okComplete, zzHasKV(out, buf[i].k, buf[i].v))
		} else {
			okComplete = zzAnd(okComplete, !zzHasKey(out, buf[i].k))
		}
	}
	for i := range snap {
		okComplete = zzAnd(okComplete, zzOr(zzHasKey(buf, snap[i].k), zzHasKV(out, snap[i].k, snap[i].v)))
	}
	zzAssert(okOrder, "merge.strictly-monotone")
	zzAssert(okSound, "merge.only-model-pairs")
	zzAssert(okComplete, "merge.nothing-skipped")
}

// zzDrain reads an iterator to its end (at most max entries) copying what it yields.
func zzDrain(it Iterator, max int) (out []zzKV, err error) {
	for it.Valid() {
		if len(out) > max {
			zzAssert(false, "merge.terminates")
		}
		out = append(out, zzKV{it.Key(), it.Value()})
		if err = it.Next(); err != nil {
			return out, err
		}
	}
	return out, nil
}

// ZZ_C07_merge: NewUnionIter over two arbitrary strictly monotone sequences equals the model,
// forward and reverse.
func ZZ_C07_merge() {
	nmax := zzParam("n", 2)
	klen := zzParam("klen", 2)
	reverse := zzChoice("reverse", 2) == 1
	nb := zzChoice("nb", nmax+1)
	ns := zzChoice("ns", nmax+1)
	buf := zzAscending(nb, klen, 0, true)
	snap := zzAscending(ns, klen, 1, false)
	bi, si := buf, snap
	if reverse {
		bi, si = zzReversed(buf), zzReversed(snap)
	}
	dirty, sn := zzNewSeqIter(bi), zzNewSeqIter(si)
	it, err := NewUnionIter(dirty, sn, reverse)
	zzAssert(err == nil && it != nil, "merge.new-no-error")
	out, err := zzDrain(it, nb+ns)
	zzAssert(err == nil, "merge.next-no-error")
	zzAssert(!it.Valid(), "merge.ends-invalid")
	zzCheckMerged(out, buf, snap, reverse)
	it.Close()
	zzAssert(dirty.closed && sn.closed, "merge.close-closes-both")
}

// ZZ_C07_merge_error: an error of either underlying iterator's Next is returned by
// NewUnionIter / Next (never swallowed), and what was yielded before it is a prefix-consistent
// part of the model (sound and strictly monotone).
func ZZ_C07_merge_error() {
	nmax := zzParam("n", 2)
	reverse := zzChoice("reverse", 2) == 1
	nb := zzChoice("nb", nmax+1)
	ns := zzChoice("ns", nmax+1)
	buf := zzAscending(nb, 1, 0, true)
	snap := zzAscending(ns, 1, 1, false)
	bi, si := buf, snap
	if reverse {
		bi, si = zzReversed(buf), zzReversed(snap)
	}
	dirty, sn := zzNewSeqIter(bi), zzNewSeqIter(si)
	who := zzChoice("who", 2)
	at := zzChoice("at", nmax)
	if who == 0 {
		dirty.failAt = at
	} else {
		sn.failAt = at
	}
	it, err := NewUnionIter(dirty, sn, reverse)
	var out []zzKV
	if err == nil {
		out, err = zzDrain(it, nb+ns)
	}
	failed := dirty.nexts > dirty.failAt && dirty.failAt >= 0 || sn.nexts > sn.failAt && sn.failAt >= 0
	zzAssert((err != nil) == failed, "merge-error.reported-iff-happened")
	if err != nil {
		zzAssert(err == zzErrIter, "merge-error.same-error")
	}
	okOrder, okSound := true, true
	for i := range out {
		if i > 0 {
			c := bytes.Compare(out[i-1].k, out[i].k)
			if reverse {
				c = -c
			}
			okOrder = zzAnd(okOrder, c < 0)
		}
		fromBuf := zzAnd(len(out[i].v) > 0, zzHasKV(buf, out[i].k, out[i].v))
		fromSnap := zzAnd(zzHasKV(snap, out[i].k, out[i].v), !zzHasKey(buf, out[i].k))
		okSound = zzAnd(okSound, zzOr(fromBuf, fromSnap))
	}
	zzAssert(okOrder, "merge-error.strictly-monotone")
	zzAssert(okSound, "merge-error.only-model-pairs")
}

// ---- harness MemBuffer and snapshot --------------------------------------------------------

// zzStore serves one ascending sequence through the Get / Iter / IterReverse contracts that
// MemBuffer and uSnapshot document. Any other MemBuffer method hits the nil embedded interface.
type zzStore struct {
	MemBuffer
	ents    []zzKV
	gets    int
	getErr  error // returned by Get when set
	iterErr error // returned by Iter/IterReverse when set
	iters   []*zzSeqIter
}

func (s *zzStore) Get(ctx context.Context, k []byte, _ ...kv.GetOption) (kv.ValueEntry, error) {
	s.gets++
	if s.getErr != nil {
		return kv.ValueEntry{}, s.getErr
	}
	for i := range s.ents {
		if bytes.Equal(s.ents[i].k, k) {
			return kv.NewValueEntry(s.ents[i].v, 0), nil
		}
	}
	return kv.ValueEntry{}, tikverr.ErrNotExist
}

// Iter: entries with k <= key < upperBound ascending (empty upperBound = unbounded).
func (s *zzStore) Iter(k, upper []byte) (Iterator, error) {
	if s.iterErr != nil {
		return nil, s.iterErr
	}
	var sel []zzKV
	for i := range s.ents {
		if bytes.Compare(s.ents[i].k, k) >= 0 && (len(upper) == 0 || bytes.Compare(s.ents[i].k, upper) < 0) {
			sel = append(sel, s.ents[i])
		}
	}
	it := zzNewSeqIter(sel)
	s.iters = append(s.iters, it)
	return it, nil
}

// IterReverse: entries with lowerBound <= key < k descending (empty k = from the last key).
func (s *zzStore) IterReverse(k, lower []byte) (Iterator, error) {
	if s.iterErr != nil {
		return nil, s.iterErr
	}
	var sel []zzKV
	for i := len(s.ents) - 1; i >= 0; i-- {
		if (len(k) == 0 || bytes.Compare(s.ents[i].k, k) < 0) && bytes.Compare(s.ents[i].k, lower) >= 0 {
			sel = append(sel, s.ents[i])
		}
	}
	it := zzNewSeqIter(sel)
	s.iters = append(s.iters, it)
	return it, nil
}

// zzBound draws an iteration bound: absent (nil) or up to klen symbolic bytes.
func zzBoundLo(klen int) []byte {
	if zzChoice("lo.nil", 2) == 1 {
		return nil
	}
	return zzBytes("lo", klen)
}
func zzBoundHi(klen int) []byte {
	if zzChoice("hi.nil", 2) == 1 {
		return nil
	}
	return zzBytes("hi", klen)
}

// zzInRange filters the model side: lo <= key, and key < hi when hi is not empty.
func zzInRange(e []zzKV, lo, hi []byte) []zzKV {
	var out []zzKV
	for i := range e {
		if bytes.Compare(e[i].k, lo) >= 0 && (len(hi) == 0 || bytes.Compare(e[i].k, hi) < 0) {
			out = append(out, e[i])
		}
	}
	return out
}

// ZZ_C07_store_iter: KVUnionStore.Iter / IterReverse with arbitrary bounds yield exactly the
// model restricted to the bounds, in order.
func ZZ_C07_store_iter() {
	nmax := zzParam("n_iter", 2)
	klen := zzParam("klen_iter", 1)
	reverse := zzChoice("reverse", 2) == 1
	lo := zzBoundLo(klen)
	hi := zzBoundHi(klen)
	nb := zzChoice("nb", nmax+1)
	ns := zzChoice("ns", nmax+1)
	buf := &zzStore{ents: zzAscending(nb, klen, 0, true)}
	snap := &zzStore{ents: zzAscending(ns, klen, 1, false)}
	us := NewUnionStore(buf, snap)
	var it Iterator
	var err error
	if reverse {
		it, err = us.IterReverse(hi, lo)
	} else {
		it, err = us.Iter(lo, hi)
	}
	zzAssert(err == nil, "store-iter.no-error")
	out, err := zzDrain(it, nb+ns)
	zzAssert(err == nil, "store-iter.next-no-error")
	inside := true
	for i := range out {
		inside = zzAnd(inside, bytes.Compare(out[i].k, lo) >= 0)
		if len(hi) > 0 {
			inside = zzAnd(inside, bytes.Compare(out[i].k, hi) < 0)
		}
	}
	zzAssert(inside, "store-iter.inside-bounds")
	zzCheckMerged(out, zzInRange(buf.ents, lo, hi), zzInRange(snap.ents, lo, hi), reverse)
}

// ZZ_C07_store_iter_error: a failure to open either iterator is returned.
func ZZ_C07_store_iter_error() {
	buf := &zzStore{}
	snap := &zzStore{}
	if zzChoice("who", 2) == 0 {
		buf.iterErr = zzErrOther
	} else {
		snap.iterErr = zzErrOther
	}
	us := NewUnionStore(buf, snap)
	var err error
	if zzChoice("reverse", 2) == 1 {
		_, err = us.IterReverse(nil, nil)
	} else {
		_, err = us.Iter(nil, nil)
	}
	zzAssert(err == zzErrOther, "store-iter.open-error-returned")
}

// ZZ_C07_store_get: buffer first, snapshot only on a buffer miss, empty value = not found.
func ZZ_C07_store_get() {
	nmax := zzParam("n_get", 2)
	klen := zzParam("klen", 2)
	nb := zzChoice("nb", nmax+1)
	ns := zzChoice("ns", nmax+1)
	buf := &zzStore{ents: zzAscending(nb, klen, 0, true)}
	snap := &zzStore{ents: zzAscending(ns, klen, 1, false)}
	q := zzBytes("q", klen)
	us := NewUnionStore(buf, snap)
	v, err := us.Get(context.Background(), q)

	var bv, sv []byte
	inBuf, inSnap := false, false
	for i := range buf.ents {
		if bytes.Equal(buf.ents[i].k, q) {
			inBuf, bv = true, buf.ents[i].v
		}
	}
	for i := range snap.ents {
		if bytes.Equal(snap.ents[i].k, q) {
			inSnap, sv = true, snap.ents[i].v
		}
	}
	switch {
	case inBuf && len(bv) > 0:
		zzAssert(err == nil && bytes.Equal(v.Value, bv), "get.buffer-value-wins")
		zzAssert(snap.gets == 0, "get.snapshot-not-asked-on-hit")
	case inBuf:
		zzAssert(tikverr.IsErrNotFound(err) && v.IsValueEmpty(), "get.tombstone-hides-snapshot")
		zzAssert(snap.gets == 0, "get.snapshot-not-asked-on-tombstone")
	case inSnap:
		zzAssert(err == nil && bytes.Equal(v.Value, sv), "get.snapshot-on-miss")
	default:
		zzAssert(tikverr.IsErrNotFound(err) && v.IsValueEmpty(), "get.absent")
	}
}

// ZZ_C07_store_get_error: an error of the buffer other than not-found is returned without
// asking the snapshot; a snapshot error after a buffer miss is returned; an empty snapshot
// value reads as not found.
func ZZ_C07_store_get_error() {
	q := zzBytes("q", 1)
	buf := &zzStore{}
	snap := &zzStore{}
	us := NewUnionStore(buf, snap)
	switch zzChoice("case", 3) {
	case 0:
		buf.getErr = zzErrOther
		_, err := us.Get(context.Background(), q)
		zzAssert(err == zzErrOther, "get.buffer-error-returned")
		zzAssert(snap.gets == 0, "get.buffer-error-no-snapshot")
	case 1:
		snap.getErr = zzErrOther
		_, err := us.Get(context.Background(), q)
		zzAssert(err == zzErrOther, "get.snapshot-error-returned")
	default:
		snap.ents = []zzKV{{q, nil}}
		v, err := us.Get(context.Background(), q)
		zzAssert(tikverr.IsErrNotFound(err) && v.IsValueEmpty(), "get.empty-snapshot-value-not-found")
	}
}
