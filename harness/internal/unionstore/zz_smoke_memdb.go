package unionstore

import (
	"bytes"
	"context"
)

// ZZ_SMOKE_memdb: does the real ART-backed MemDB run under the engine?
func ZZ_SMOKE_memdb() {
	db := NewMemDB()
	k1 := zzBytesN("k1", 2)
	v1 := zzBytesN("v1", 1)
	err := db.Set(k1, v1)
	zzAssert(err == nil, "smoke.set")
	got, err := db.Get(context.Background(), k1)
	zzAssert(err == nil, "smoke.get")
	zzAssert(bytes.Equal(got.Value, v1), "smoke.value")
	err = db.Set([]byte("zz"), []byte("q"))
	zzAssert(err == nil, "smoke.set2")
	it, err := db.Iter(nil, nil)
	zzAssert(err == nil, "smoke.iter")
	n := 0
	for it.Valid() {
		n++
		it.Next()
	}
	zzAssert(n >= 1, "smoke.count")
}
