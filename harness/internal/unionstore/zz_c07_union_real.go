package unionstore

import (
	"bytes"
	"context"

	tikverr "github.com/tikv/client-go/v2/error"
)

// ZZ_C07_union_real_memdb: the union store over the REAL buffer (the ART-backed MemDB after a
// symbolic operation sequence with staging levels opened, released and discarded; the RBT buffer in
// parallel) and a harness snapshot with symbolic content: Get of every buffer key and of a snapshot
// key, and full forward / reverse iteration, equal the snapshot overlaid with the buffer's current
// view - discarded levels are gone, released ones stay, tombstones hide snapshot keys.
func ZZ_C07_union_real_memdb() {
	art, rbt, m := zzMemdbRun(zzParam("ur_ops", 2), 2, false)
	ns := zzChoice("ns", zzParam("ur_snap", 2)+1)
	snap := &zzStore{ents: zzAscending(ns, 2, 1, false)}
	// the buffer's view as ordered pairs (tombstones carry an empty value)
	var view []zzKV
	for _, i := range m.order() {
		if m.k[i].hasVal {
			view = append(view, zzKV{m.keys[i], m.k[i].val})
		}
	}
	reverse := zzChoice("reverse", 2) == 1
	for bi, db := range []MemBuffer{art, rbt} {
		us := NewUnionStore(db, snap)
		okGet := true
		probe := append([][]byte{}, m.keys...)
		for i := range snap.ents {
			probe = append(probe, snap.ents[i].k)
		}
		for _, q := range probe {
			v, err := us.Get(context.Background(), q)
			var want []byte
			found := false
			for i := range snap.ents {
				if bytes.Equal(snap.ents[i].k, q) {
					want, found = snap.ents[i].v, true
				}
			}
			for i := range view {
				if bytes.Equal(view[i].k, q) {
					want, found = view[i].v, len(view[i].v) > 0
				}
			}
			if found {
				okGet = zzAnd(okGet, zzAnd(err == nil, bytes.Equal(v.Value, want)))
			} else {
				okGet = zzAnd(okGet, tikverr.IsErrNotFound(err))
			}
		}
		var it Iterator
		var err error
		if reverse {
			it, err = us.IterReverse(nil, nil)
		} else {
			it, err = us.Iter(nil, nil)
		}
		zzAssert(err == nil, "union-real.iter-opens")
		out, err := zzDrain(it, len(view)+ns)
		zzAssert(err == nil, "union-real.iter-next-no-error")
		if bi == 0 {
			zzAssert(okGet, "union-real.art.get-equals-overlay")
		} else {
			zzAssert(okGet, "union-real.rbt.get-equals-overlay")
		}
		zzCheckMerged(out, view, snap.ents, reverse)
	}
}
