package unionstore

import (
	"bytes"
	"context"

	tikverr "github.com/tikv/client-go/v2/error"
)

// ZZ_C07_union_real_memdb: the union store over the REAL buffer (the ART-backed MemDB after a
// symbolic operation sequence with staging levels opened, released and discarded; the RBT buffer in
// parallel) and a harness snapshot with symbolic content: Get of every buffer key and of a snapshot
// key, and full forward / reverse iteration, equal the snapshot overlaid with the buffer's current
// view - discarded levels are gone, released ones stay, tombstones hide snapshot keys.
func ZZ_C07_union_real_memdb() {
	art, rbt, m := zzMemdbRun(zzParam("ur_ops", 2), 2, false)
	ns := zzChoice("ns", zzParam("ur_snap", 2)+1)
	snap := &zzStore{ents: zzAscending(ns, 2, 1, false)}
	// the buffer's view as ordered pairs (tombstones carry an empty value)
	var view []zzKV
	for _, i := range m.order() {
		if m.k[i].hasVal {
			view = append(view, zzKV{m.keys[i], m.k[i].val})
		}
	}
	reverse := zzChoice("reverse", 2) == 1
	// bounded scans (seed C07-5): the bound is the buffer's largest key - upper bound (exclusive) of a
	// forward scan, lower bound (inclusive) of a reverse scan - so that leaves a discarded level or a
	// flags-only write left without a value can sit right at the edge of the range
	var bound []byte
	if zzChoice("bounded", 2) == 1 {
		o := m.order()
		bound = m.keys[o[len(o)-1]]
	}
	wantView, wantSnap := view, snap.ents
	if len(bound) > 0 {
		if reverse {
			wantView, wantSnap = zzInRange(view, bound, nil), zzInRange(snap.ents, bound, nil)
		} else {
			wantView, wantSnap = zzInRange(view, nil, bound), zzInRange(snap.ents, nil, bound)
		}
	}
	for bi, db := range []MemBuffer{art, rbt} {
		us := NewUnionStore(db, snap)
		okGet := true
		probe := append([][]byte{}, m.keys...)
		for i := range snap.ents {
			probe = append(probe, snap.ents[i].k)
		}
		for _, q := range probe {
			v, err := us.Get(context.Background(), q)
			var want []byte
			found := false
			for i := range snap.ents {
				if bytes.Equal(snap.ents[i].k, q) {
					want, found = snap.ents[i].v, true
				}
			}
			for i := range view {
				if bytes.Equal(view[i].k, q) {
					want, found = view[i].v, len(view[i].v) > 0
				}
			}
			if found {
				okGet = zzAnd(okGet, zzAnd(err == nil, bytes.Equal(v.Value, want)))
			} else {
				okGet = zzAnd(okGet, tikverr.IsErrNotFound(err))
			}
		}
		var it Iterator
		var err error
		if reverse {
			it, err = us.IterReverse(nil, bound)
		} else {
			it, err = us.Iter(nil, bound)
		}
		zzAssert(err == nil, "union-real.iter-opens")
		out, err := zzDrain(it, len(view)+ns)
		zzAssert(err == nil, "union-real.iter-next-no-error")
		if bi == 0 {
			zzAssert(okGet, "union-real.art.get-equals-overlay")
		} else {
			zzAssert(okGet, "union-real.rbt.get-equals-overlay")
		}
		zzCheckMerged(out, wantView, wantSnap, reverse)
	}
}

// ZZ_C07_union_long_prefix: bounded forward / reverse iteration of the union store over the real ART
// buffer when every key and bound shares a prefix longer than the 20 bytes an ART node keeps of a
// compressed path (index keys with a common leading column). Keys and bounds come from small
// concrete tables (see ZZ_C08_memdb_iter_bounds_long_prefix for why), values are symbolic; the
// snapshot holds one key between the buffer's keys and one the buffer deletes.
func ZZ_C07_union_long_prefix() {
	P := "ppppppppppppppppppppqqqq"
	keys := [][]byte{[]byte(P + "a"), []byte(P + "al"), []byte(P + "b")}
	art := newArtDBWithContext()
	var view []zzKV
	for i := range keys {
		switch zzChoice("state", 3) {
		case 1:
			v := zzBytesN("v", 1)
			zzAssume(len(v) > 0)
			zzAssert(art.Set(keys[i], v) == nil, "union-long.set-no-error")
			view = append(view, zzKV{keys[i], v})
		case 2:
			zzAssert(art.Delete(keys[i]) == nil, "union-long.delete-no-error")
			view = append(view, zzKV{keys[i], []byte{}})
		}
	}
	snap := &zzStore{ents: []zzKV{{[]byte(P + "ak"), zzBytesN("s0", 1)}, {[]byte(P + "al"), zzBytesN("s1", 1)}}}
	table := [][]byte{nil, []byte(P[:10]), []byte(P), []byte(P + "a"), []byte(P + "al"), []byte(P + "alz"), []byte(P + "am"), []byte(P + "b"), []byte(P + "c")}
	lo := table[zzChoice("lo", len(table))]
	hi := table[zzChoice("hi", len(table))]
	zzAssume(lo != nil || hi != nil)
	reverse := zzChoice("reverse", 2) == 1
	us := NewUnionStore(art, snap)
	var it Iterator
	var err error
	if reverse {
		it, err = us.IterReverse(hi, lo)
	} else {
		it, err = us.Iter(lo, hi)
	}
	zzAssert(err == nil, "union-long.iter-opens")
	out, err := zzDrain(it, len(view)+len(snap.ents))
	zzAssert(err == nil, "union-long.iter-next-no-error")
	zzCheckMerged(out, zzInRange(view, lo, hi), zzInRange(snap.ents, lo, hi), reverse)
}
