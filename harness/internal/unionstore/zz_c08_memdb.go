package unionstore

import (
	"bytes"
	"context"

	tikverr "github.com/tikv/client-go/v2/error"
	"github.com/tikv/client-go/v2/kv"
)

// C08 (f) — the real ART-backed and RBT-backed buffers, driven by the same operation sequence as a
// reference model (an indexed map key -> value/tombstone + flags with a stack of staging levels),
// and observed through the MemBuffer API. Both trees are compared with the model, hence with each
// other.
//
// Keys: K0 = [a], K1 = [a b] (K0 is a prefix of K1: in-node leaf + child), K2 = [c], c != a,
// a, b, c symbolic (0x00 and 0xFF included, both orders of a and c).

type zzMKey struct {
	val     []byte // current value (empty = tombstone); meaningful when hasVal
	hasVal  bool
	flags   kv.KeyFlags
	counted bool // contributes to Len / Size (has a value or has been touched and not undone)
}

type zzMStage struct {
	vals    [][]byte
	hasVals []bool
}

type zzModel struct {
	keys   [][]byte
	k      []zzMKey
	stages []zzMStage
	size   int
	length int
	wrote  bool // some value was appended while no stage was open, or a stage with appends was released to level 0
}

func (m *zzModel) touch(i int) {
	if !m.k[i].counted {
		m.k[i].counted = true
		m.length++
		m.size += len(m.keys[i])
	}
}

func (m *zzModel) set(i int, v []byte, ops ...kv.FlagsOp) {
	m.touch(i)
	e := &m.k[i]
	e.flags = kv.ApplyFlagsOps(e.flags, append([]kv.FlagsOp{kv.DelNeedConstraintCheckInPrewrite}, ops...)...)
	if e.hasVal {
		m.size -= len(e.val)
	}
	e.val, e.hasVal = v, true
	m.size += len(v)
	if len(m.stages) == 0 {
		m.wrote = true
	}
}

func (m *zzModel) updateFlags(i int, ops ...kv.FlagsOp) {
	m.touch(i)
	m.k[i].flags = kv.ApplyFlagsOps(m.k[i].flags, ops...)
	if len(m.stages) == 0 {
		m.wrote = true
	}
}

func (m *zzModel) staging() {
	st := zzMStage{}
	for i := range m.k {
		st.vals = append(st.vals, m.k[i].val)
		st.hasVals = append(st.hasVals, m.k[i].hasVal)
	}
	m.stages = append(m.stages, st)
}

func (m *zzModel) release() { m.stages = m.stages[:len(m.stages)-1] }

// cleanup restores the values of the top staging level. A key that had no value when the level
// was opened and got one inside it keeps only its persistent flags; with none left it disappears.
func (m *zzModel) cleanup() {
	st := m.stages[len(m.stages)-1]
	m.stages = m.stages[:len(m.stages)-1]
	for i := range m.k {
		e := &m.k[i]
		if e.hasVal {
			m.size -= len(e.val)
		}
		added := e.hasVal && !st.hasVals[i]
		e.val, e.hasVal = st.vals[i], st.hasVals[i]
		if e.hasVal {
			m.size += len(e.val)
		}
		if added {
			e.flags = e.flags.AndPersistent()
			if e.flags == 0 {
				e.counted = false
				m.length--
				m.size -= len(m.keys[i])
			}
		}
	}
}

// order returns the key indices in ascending key order (forks on the symbolic comparisons).
func (m *zzModel) order() []int {
	idx := make([]int, len(m.keys))
	for i := range idx {
		idx[i] = i
	}
	for i := 1; i < len(idx); i++ {
		for j := i; j > 0 && bytes.Compare(m.keys[idx[j-1]], m.keys[idx[j]]) > 0; j-- {
			idx[j-1], idx[j] = idx[j], idx[j-1]
		}
	}
	return idx
}

type zzObs struct {
	getOK, flagsOK, lenOK, sizeOK, iterOK, revOK, boundOK, snapGetOK, snapIterOK bool
}

func zzInBounds(k, lo, hi []byte) bool {
	return (len(lo) == 0 || bytes.Compare(k, lo) >= 0) && (len(hi) == 0 || bytes.Compare(k, hi) < 0)
}

// zzObserve compares everything the buffer shows with the model.
func zzObserve(db MemBuffer, m *zzModel, lo, hi []byte) zzObs {
	o := zzObs{true, true, true, true, true, true, true, true, true}
	ctx := context.Background()
	for i, k := range m.keys {
		v, err := db.Get(ctx, k)
		if m.k[i].hasVal {
			o.getOK = zzAnd(o.getOK, zzAnd(err == nil, bytes.Equal(v.Value, m.k[i].val)))
		} else {
			o.getOK = o.getOK && tikverr.IsErrNotFound(err)
		}
		f, err := db.GetFlags(k)
		if m.k[i].counted {
			o.flagsOK = o.flagsOK && err == nil && f == m.k[i].flags
		} else {
			o.flagsOK = o.flagsOK && tikverr.IsErrNotFound(err)
		}
	}
	o.lenOK = db.Len() == m.length
	o.sizeOK = db.Size() == m.size

	ord := m.order()
	// full forward / reverse iteration: every key that has a value (tombstones included), in order
	var want []int
	for _, i := range ord {
		if m.k[i].hasVal {
			want = append(want, i)
		}
	}
	check := func(it Iterator, err error, want []int, vals func(i int) []byte) bool {
		if err != nil {
			return false
		}
		ok := true
		n := 0
		for it.Valid() {
			if n < len(want) {
				ok = zzAnd(ok, zzAnd(bytes.Equal(it.Key(), m.keys[want[n]]), bytes.Equal(it.Value(), vals(want[n]))))
			}
			n++
			if n > len(m.keys)+1 {
				return false
			}
			if it.Next() != nil {
				return false
			}
		}
		it.Close()
		return ok && n == len(want)
	}
	cur := func(i int) []byte { return m.k[i].val }
	rev := func(w []int) []int {
		r := make([]int, len(w))
		for i := range w {
			r[len(w)-1-i] = w[i]
		}
		return r
	}
	it, err := db.Iter(nil, nil)
	o.iterOK = check(it, err, want, cur)
	it, err = db.IterReverse(nil, nil)
	o.revOK = check(it, err, rev(want), cur)
	// bounded
	var wantB []int
	for _, i := range want {
		if zzInBounds(m.keys[i], lo, hi) {
			wantB = append(wantB, i)
		}
	}
	if lo != nil || hi != nil {
		it, err = db.Iter(lo, hi)
		o.boundOK = check(it, err, wantB, cur)
		it, err = db.IterReverse(hi, lo)
		o.boundOK = check(it, err, rev(wantB), cur) && o.boundOK
	}

	// snapshot reads ignore everything written since the outermost staging level was opened
	if len(m.stages) > 0 {
		st := m.stages[0]
		g := db.SnapshotGetter()
		var wantS []int
		for _, i := range ord {
			v, err := g.Get(ctx, m.keys[i])
			if st.hasVals[i] {
				o.snapGetOK = zzAnd(o.snapGetOK, zzAnd(err == nil, bytes.Equal(v.Value, st.vals[i])))
				wantS = append(wantS, i)
			} else {
				o.snapGetOK = o.snapGetOK && tikverr.IsErrNotFound(err)
			}
		}
		old := func(i int) []byte { return st.vals[i] }
		o.snapIterOK = check(db.SnapshotIter(nil, nil), nil, wantS, old)
		o.snapIterOK = check(db.SnapshotIterReverse(nil, nil), nil, rev(wantS), old) && o.snapIterOK
	}
	return o
}

// flag ops used by the operation sequences: a non-persistent flag, a persistent one, the temporary
// one that every value write removes. (An op that leaves the flag word zero on a fresh key is the
// subject of ZZ_C08_memdb_zero_flags.)
var zzFlagChoices = []kv.FlagsOp{kv.SetPresumeKeyNotExists, kv.SetKeyLocked, kv.SetNeedConstraintCheckInPrewrite}

// zzMemdbKeys draws the key set.
func zzMemdbKeys(n int) [][]byte {
	a, b, c := zzU8("a"), zzU8("b"), zzU8("c")
	zzAssume(a != c)
	keys := [][]byte{{a}, {a, b}, {c}}
	return keys[:n]
}

// zzMemdbRun applies nops symbolic operations to an ART buffer, an RBT buffer and the model.
func zzMemdbRun(nops, nkeys int, withCheckpoint bool) (art, rbt MemBuffer, m *zzModel) {
	keys := zzMemdbKeys(nkeys)
	m = &zzModel{keys: keys, k: make([]zzMKey, nkeys)}
	art, rbt = newArtDBWithContext(), newRbtDBWithContext()
	dbs := []MemBuffer{art, rbt}
	var handles [][]int = [][]int{nil, nil}
	var cps []*MemDBCheckpoint
	var cpModel *zzModel
	// sinceCp[i]: key i got a new value-log entry after the checkpoint. A same-length overwrite
	// outside staging of a value that is still the checkpoint's own is done in place by both trees,
	// which RevertToCheckpoint cannot undo (recorded finding): such paths carry a note.
	sinceCp := make([]bool, nkeys)
	noteSwap := func(i int, v []byte) {
		e := m.k[i]
		if cps != nil && len(m.stages) == 0 && !sinceCp[i] && e.hasVal && len(e.val) > 0 && len(e.val) == len(v) {
			zzNote("finding", "checkpoint-inplace-swap")
			if zzParam("cp_cut_finding", 0) == 1 { // diagnosis aid: drop the recorded scenario
				zzCut("checkpoint-inplace-swap scenario")
			}
		} else if cps != nil {
			sinceCp[i] = true
		}
	}
	nkinds := 7
	if withCheckpoint {
		nkinds = 9
	}
	for step := 0; step < nops; step++ {
		op := zzChoice("op", nkinds)
		switch op {
		case 0: // set
			i := zzChoice("key", nkeys)
			v := zzBytesN("v", 1+zzChoice("vlen", 2))
			for _, db := range dbs {
				zzAssert(db.Set(keys[i], v) == nil, "memdb.set-no-error")
			}
			noteSwap(i, v)
			m.set(i, v)
		case 1: // delete
			i := zzChoice("key", nkeys)
			for _, db := range dbs {
				zzAssert(db.Delete(keys[i]) == nil, "memdb.delete-no-error")
			}
			noteSwap(i, []byte{})
			m.set(i, []byte{})
		case 2: // flags only
			i := zzChoice("key", nkeys)
			f := zzFlagChoices[zzChoice("flag", len(zzFlagChoices))]
			for _, db := range dbs {
				db.UpdateFlags(keys[i], f)
			}
			m.updateFlags(i, f)
		case 3: // set with flags
			i := zzChoice("key", nkeys)
			f := zzFlagChoices[zzChoice("flag", len(zzFlagChoices))]
			v := zzBytesN("v", 1)
			for _, db := range dbs {
				zzAssert(db.SetWithFlags(keys[i], v, f) == nil, "memdb.set-with-flags-no-error")
			}
			noteSwap(i, v)
			m.set(i, v, f)
		case 4: // staging
			zzAssume(len(m.stages) < 2)
			for d, db := range dbs {
				handles[d] = append(handles[d], db.Staging())
			}
			m.staging()
		case 5: // release
			zzAssume(len(m.stages) > 0)
			for d, db := range dbs {
				db.Release(handles[d][len(handles[d])-1])
				handles[d] = handles[d][:len(handles[d])-1]
			}
			m.release()
		case 6: // cleanup
			zzAssume(len(m.stages) > 0)
			for d, db := range dbs {
				db.Cleanup(handles[d][len(handles[d])-1])
				handles[d] = handles[d][:len(handles[d])-1]
			}
			m.cleanup()
		case 7: // checkpoint (once, outside staging)
			zzAssume(cps == nil && len(m.stages) == 0)
			for _, db := range dbs {
				cps = append(cps, db.Checkpoint())
			}
			cpModel = &zzModel{keys: keys, k: append([]zzMKey(nil), m.k...), size: m.size, length: m.length}
		default: // revert to the checkpoint: the model is what it was, except undone-key flags
			zzAssume(cps != nil && len(m.stages) == 0)
			for d, db := range dbs {
				db.RevertToCheckpoint(cps[d])
			}
			// same rule as cleanup: values as at the checkpoint; newly valued keys keep persistent flags
			st := zzMStage{}
			for i := range cpModel.k {
				st.vals = append(st.vals, cpModel.k[i].val)
				st.hasVals = append(st.hasVals, cpModel.k[i].hasVal)
			}
			m.stages = append(m.stages, st)
			m.cleanup()
			for i := range sinceCp {
				sinceCp[i] = false
			}
		}
	}
	return art, rbt, m
}

// zzMemdbJudge observes both trees and returns the two verdicts.
func zzMemdbJudge(art, rbt MemBuffer, m *zzModel) (a, r zzObs) {
	return zzObserve(art, m, nil, nil), zzObserve(rbt, m, nil, nil)
}

// ZZ_C08_memdb_ops: memdb_ops operations from {set, delete, flags, set-with-flags, staging,
// release, cleanup} over memdb_keys keys (K0 prefix of K1), then every observation on both trees.
func ZZ_C08_memdb_ops() {
	art, rbt, m := zzMemdbRun(zzParam("memdb_ops", 2), zzParam("memdb_keys", 2), false)
	a, r := zzMemdbJudge(art, rbt, m)
	zzAssert(a.getOK, "art.get")
	zzAssert(a.flagsOK, "art.flags")
	zzAssert(a.lenOK, "art.len")
	zzAssert(a.sizeOK, "art.size")
	zzAssert(a.iterOK, "art.iter")
	zzAssert(a.revOK, "art.iter-reverse")
	zzAssert(a.snapGetOK, "art.snapshot-get")
	zzAssert(a.snapIterOK, "art.snapshot-iter")
	zzAssert(r.getOK, "rbt.get")
	zzAssert(r.flagsOK, "rbt.flags")
	zzAssert(r.lenOK, "rbt.len")
	zzAssert(r.sizeOK, "rbt.size")
	zzAssert(r.iterOK, "rbt.iter")
	zzAssert(r.revOK, "rbt.iter-reverse")
	zzAssert(r.snapGetOK, "rbt.snapshot-get")
	zzAssert(r.snapIterOK, "rbt.snapshot-iter")
	zzAssert(art.Dirty() == rbt.Dirty(), "memdb.dirty-agrees")
}

// ZZ_C08_memdb_ops_3keys: the same with the third key (a sibling subtree / a node split at the
// root) and its own depth parameter.
func ZZ_C08_memdb_ops_3keys() {
	art, rbt, m := zzMemdbRun(zzParam("memdb3_ops", 2), 3, false)
	a, r := zzMemdbJudge(art, rbt, m)
	zzAssert(a.getOK && a.flagsOK, "art3.get-flags")
	zzAssert(a.lenOK && a.sizeOK, "art3.len-size")
	zzAssert(a.iterOK && a.revOK, "art3.iter")
	zzAssert(a.snapGetOK && a.snapIterOK, "art3.snapshot")
	zzAssert(r.getOK && r.flagsOK, "rbt3.get-flags")
	zzAssert(r.lenOK && r.sizeOK, "rbt3.len-size")
	zzAssert(r.iterOK && r.revOK, "rbt3.iter")
	zzAssert(r.snapGetOK && r.snapIterOK, "rbt3.snapshot")
	zzAssert(art.Dirty() == rbt.Dirty(), "memdb3.dirty-agrees")
}

// ZZ_C08_memdb_zero_flags: a flags-only update that leaves the flag word zero (e.g. DelKeyLocked on
// a key the buffer does not hold yet) followed by a write of the same key: the key is one entry.
func ZZ_C08_memdb_zero_flags() {
	k := zzBytes("k", 2)
	v := zzBytesN("v", 1)
	which := zzChoice("impl", 2)
	var db MemBuffer
	if which == 0 {
		db = newArtDBWithContext()
	} else {
		db = newRbtDBWithContext()
	}
	db.UpdateFlags(k, kv.DelKeyLocked)
	if zzChoice("then", 2) == 0 {
		zzAssert(db.Set(k, v) == nil, "zero-flags.set-no-error")
	} else {
		db.UpdateFlags(k, kv.DelKeyLocked)
		v = nil
	}
	zzNote("impl", which)
	zzAssert(db.Len() == 1, "zero-flags.len-counts-key-once")
	zzAssert(db.Size() == len(k)+len(v), "zero-flags.size-counts-key-once")
}

// ZZ_C08_memdb_iter_bounds: every key independently absent / live / tombstone / flags-only, then
// Iter and IterReverse with arbitrary bounds of up to two symbolic bytes (absent bound = nil)
// against the model, on both trees.
func ZZ_C08_memdb_iter_bounds() { zzIterBounds(nil) }

// ZZ_C08_memdb_iter_bounds_long_prefix: keys and bounds behind a common prefix of 24 bytes - longer
// than the 20 bytes an ART node stores of a compressed path, so that seeking has to consult a leaf
// for the rest of the prefix. Symbolic key bytes behind such a prefix make the engine concretise
// mismatch positions through queries that z3 4.8.12 does not finish (DESIGN 7.8), so keys and bounds
// are taken from small concrete tables here (keys P+a, P+al, P+b; each bound absent or one of P[:10],
// P, P+a, P+al, P+alz, P+am, P+b, P+c) and only the values are symbolic.
func ZZ_C08_memdb_iter_bounds_long_prefix() {
	P := "ppppppppppppppppppppqqqq"
	keys := [][]byte{[]byte(P + "a"), []byte(P + "al"), []byte(P + "b")}
	m := &zzModel{keys: keys, k: make([]zzMKey, len(keys))}
	art, rbt := newArtDBWithContext(), newRbtDBWithContext()
	for i := range keys {
		switch zzChoice("state", 4) {
		case 1:
			v := zzBytesN("v", 1)
			zzAssert(art.Set(keys[i], v) == nil && rbt.Set(keys[i], v) == nil, "bounds-long.set-no-error")
			m.set(i, v)
		case 2:
			zzAssert(art.Delete(keys[i]) == nil && rbt.Delete(keys[i]) == nil, "bounds-long.delete-no-error")
			m.set(i, []byte{})
		case 3:
			art.UpdateFlags(keys[i], kv.SetKeyLocked)
			rbt.UpdateFlags(keys[i], kv.SetKeyLocked)
			m.updateFlags(i, kv.SetKeyLocked)
		}
	}
	table := [][]byte{nil, []byte(P[:10]), []byte(P), []byte(P + "a"), []byte(P + "al"), []byte(P + "alz"), []byte(P + "am"), []byte(P + "b"), []byte(P + "c")}
	lo := table[zzChoice("lo", len(table))]
	hi := table[zzChoice("hi", len(table))]
	zzAssume(lo != nil || hi != nil)
	a := zzObserve(art, m, lo, hi)
	zzAssert(a.boundOK, "art.iter-bounds-long-prefix")
	r := zzObserve(rbt, m, lo, hi)
	zzAssert(r.boundOK, "rbt.iter-bounds-long-prefix")
}

func zzIterBounds(prefix []byte) {
	nkeys := zzParam("bounds_keys", 3)
	keys := zzMemdbKeys(nkeys)
	for i := range keys {
		keys[i] = append(append([]byte{}, prefix...), keys[i]...)
	}
	m := &zzModel{keys: keys, k: make([]zzMKey, nkeys)}
	art, rbt := newArtDBWithContext(), newRbtDBWithContext()
	for i := range keys {
		switch zzChoice("state", 4) {
		case 1:
			v := zzBytesN("v", 1)
			zzAssert(art.Set(keys[i], v) == nil && rbt.Set(keys[i], v) == nil, "bounds.set-no-error")
			m.set(i, v)
		case 2:
			zzAssert(art.Delete(keys[i]) == nil && rbt.Delete(keys[i]) == nil, "bounds.delete-no-error")
			m.set(i, []byte{})
		case 3:
			art.UpdateFlags(keys[i], kv.SetKeyLocked)
			rbt.UpdateFlags(keys[i], kv.SetKeyLocked)
			m.updateFlags(i, kv.SetKeyLocked)
		}
	}
	bound := func(nilName, name, shortName string) []byte {
		if zzChoice(nilName, 2) == 1 {
			return nil
		}
		if len(prefix) > 0 && zzChoice(shortName, 2) == 1 {
			return append([]byte{}, prefix[:10]...)
		}
		return append(append([]byte{}, prefix...), zzBytes(name, 2)...)
	}
	lo := bound("lo.nil", "lo", "lo.short")
	hi := bound("hi.nil", "hi", "hi.short")
	// an absent bound is nil here; the empty non-nil bound is ZZ_C08_memdb_empty_bound
	zzAssume((lo == nil || len(lo) > 0) && (hi == nil || len(hi) > 0))
	zzAssume(lo != nil || hi != nil)
	a := zzObserve(art, m, lo, hi)
	zzAssert(a.boundOK, "art.iter-bounds")
	r := zzObserve(rbt, m, lo, hi)
	zzAssert(r.boundOK, "rbt.iter-bounds")
}

// ZZ_C08_memdb_checkpoint: the same operation alphabet plus {checkpoint, revert to checkpoint}
// outside staging: reverting restores the values of the checkpoint.
func ZZ_C08_memdb_checkpoint() {
	art, rbt, m := zzMemdbRun(zzParam("cp_ops", 3), zzParam("cp_keys", 1), true)
	a := zzObserve(art, m, nil, nil)
	zzAssert(a.getOK, "cp.art.get")
	zzAssert(a.lenOK && a.sizeOK, "cp.art.len-size")
	zzAssert(a.iterOK && a.revOK, "cp.art.iter")
	r := zzObserve(rbt, m, nil, nil)
	zzAssert(r.getOK, "cp.rbt.get")
	zzAssert(r.lenOK && r.sizeOK, "cp.rbt.len-size")
	zzAssert(r.iterOK && r.revOK, "cp.rbt.iter")
}

// ZZ_C08_memdb_empty_bound: an empty but non-nil bound ([]byte{}) — both trees must treat it the
// same way (ART and the seek code of RBT read it as "unbounded").
func ZZ_C08_memdb_empty_bound() {
	k := zzBytesN("k", 1)
	v := zzBytesN("v", 1)
	art, rbt := newArtDBWithContext(), newRbtDBWithContext()
	zzAssert(art.Set(k, v) == nil && rbt.Set(k, v) == nil, "empty-bound.set-no-error")
	reverse := zzChoice("reverse", 2) == 1
	var ia, ir Iterator
	if reverse {
		ia, _ = art.IterReverse(nil, []byte{})
		ir, _ = rbt.IterReverse(nil, []byte{})
	} else {
		ia, _ = art.Iter(nil, []byte{})
		ir, _ = rbt.Iter(nil, []byte{})
	}
	zzNote("reverse", reverse)
	zzAssert(ia.Valid() == ir.Valid(), "empty-bound.art-rbt-agree")
}

// ZZ_C08_memdb_checkpoint_swap: the shortest checkpoint scenario (quick tier): write, checkpoint
// outside staging, overwrite with a value of the same or of another length, revert.
func ZZ_C08_memdb_checkpoint_swap() {
	which := zzChoice("impl", 2)
	db := zzNewBuffer(which)
	k := zzBytes("k", 2)
	v1 := zzBytesN("v1", 1)
	v2 := zzBytesN("v2", 1+zzChoice("v2len", 2))
	zzAssert(db.Set(k, v1) == nil, "cp-swap.setup")
	cp := db.Checkpoint()
	zzAssert(db.Set(k, v2) == nil, "cp-swap.overwrite")
	db.RevertToCheckpoint(cp)
	if len(v2) == len(v1) {
		zzNote("finding", "checkpoint-inplace-swap")
	}
	zzNote("impl", which)
	got, err := db.Get(context.Background(), k)
	zzAssert(err == nil && bytes.Equal(got.Value, v1), "cp-swap.revert-restores-value")
	zzAssert(db.Len() == 1 && db.Size() == len(k)+1, "cp-swap.revert-restores-accounting")
}

// ZZ_C08_memdb_fanout: node growth boundaries. A node with 3 / 4 / 15 / 16 / 47 / 48 children
// (concrete keys [7, 5i+1]) receives one more write whose second key byte is symbolic (a new
// child anywhere among the existing ones — growing node4→16→48→256 at the boundaries — or an
// overwrite of an existing child), optionally inside a staging level that is then cleaned up.
// Both trees against the model: every key readable with its value, Len/Size, iteration strictly
// ascending and complete, ART = RBT entry by entry.
func ZZ_C08_memdb_fanout() {
	sizes := []int{3, 4, 15, 16, 47, 48}
	n := sizes[zzChoice("children", zzParam("fanout_sizes", 4))] // quick: up to 16 children; thorough: all six
	art, rbt := newArtDBWithContext(), newRbtDBWithContext()
	ctx := context.Background()
	const p = byte(7)
	keys := make([][]byte, n)
	vals := make([][]byte, n)
	for i := 0; i < n; i++ {
		keys[i], vals[i] = []byte{p, byte(i*5 + 1)}, []byte{byte(i + 1)}
		zzAssert(art.Set(keys[i], vals[i]) == nil && rbt.Set(keys[i], vals[i]) == nil, "fanout.setup")
	}
	x := zzU8("x")
	if n >= 16 {
		// node48 / node256 index their tables by the key byte: a symbolic byte would make the
		// present bitmap symbolic and every later bitmap scan a solver problem. Enumerate it.
		x = uint8(zzConc(uint64(x)))
	}
	newKey, newVal := []byte{p, x}, []byte{zzU8("v"), 0xEE}
	staged := zzChoice("staged", 2) == 1
	undo := false
	var ha, hr int
	if staged {
		ha, hr = art.Staging(), rbt.Staging()
	}
	zzAssert(art.Set(newKey, newVal) == nil && rbt.Set(newKey, newVal) == nil, "fanout.write")
	if staged {
		undo = zzChoice("undo", 2) == 1
		if undo {
			art.Cleanup(ha)
			rbt.Cleanup(hr)
		} else {
			art.Release(ha)
			rbt.Release(hr)
		}
	}
	// model: which existing key (if any) the write hit
	hit := -1
	for i := range keys {
		if keys[i][1] == x {
			hit = i
		}
	}
	want := n
	size := 3 * n
	if hit < 0 && !undo {
		want++
		size += 2 + len(newVal)
	}
	if hit >= 0 && !undo {
		size += len(newVal) - 1
	}
	for d, db := range []MemBuffer{art, rbt} {
		okGet := true
		for i := range keys {
			v, err := db.Get(ctx, keys[i])
			exp := vals[i]
			if i == hit && !undo {
				exp = newVal
			}
			okGet = zzAnd(okGet, zzAnd(err == nil, bytes.Equal(v.Value, exp)))
		}
		v, err := db.Get(ctx, newKey)
		switch {
		case !undo:
			okGet = zzAnd(okGet, zzAnd(err == nil, bytes.Equal(v.Value, newVal)))
		case hit >= 0:
			okGet = zzAnd(okGet, zzAnd(err == nil, bytes.Equal(v.Value, vals[hit])))
		default:
			okGet = okGet && tikverr.IsErrNotFound(err)
		}
		if d == 0 {
			zzAssert(okGet, "fanout.art.get")
			zzAssert(db.Len() == want && db.Size() == size, "fanout.art.len-size")
		} else {
			zzAssert(okGet, "fanout.rbt.get")
			zzAssert(db.Len() == want && db.Size() == size, "fanout.rbt.len-size")
		}
	}
	collect := func(it Iterator, err error) (ks, vs [][]byte) {
		if err != nil {
			return nil, nil
		}
		for it.Valid() && len(ks) <= n+2 {
			ks, vs = append(ks, it.Key()), append(vs, it.Value())
			if it.Next() != nil {
				break
			}
		}
		return
	}
	reverse := zzChoice("reverse", 2) == 1
	var ak, av, rk, rv [][]byte
	if reverse {
		ak, av = collect(art.IterReverse(nil, nil))
		rk, rv = collect(rbt.IterReverse(nil, nil))
	} else {
		ak, av = collect(art.Iter(nil, nil))
		rk, rv = collect(rbt.Iter(nil, nil))
	}
	zzAssert(len(ak) == want, "fanout.art.iter-count")
	zzAssert(len(rk) == want, "fanout.rbt.iter-count")
	okOrder, okSame, okAll := true, true, true
	for i := range ak {
		if i > 0 {
			c := bytes.Compare(ak[i-1], ak[i])
			if reverse {
				c = -c
			}
			okOrder = zzAnd(okOrder, c < 0)
		}
		if i < len(rk) {
			okSame = zzAnd(okSame, zzAnd(bytes.Equal(ak[i], rk[i]), bytes.Equal(av[i], rv[i])))
		}
	}
	for i := range keys {
		exp := vals[i]
		if i == hit && !undo {
			exp = newVal
		}
		found := false
		for j := range ak {
			found = zzOr(found, zzAnd(bytes.Equal(ak[j], keys[i]), bytes.Equal(av[j], exp)))
		}
		okAll = zzAnd(okAll, found)
	}
	zzAssert(okOrder, "fanout.art.iter-strictly-monotone")
	zzAssert(okAll, "fanout.art.iter-complete")
	zzAssert(okSame, "fanout.art-rbt-iterate-alike")
}

// ZZ_C08_reset_reuse: Reset returns a buffer to the empty map whatever it went through before -
// node growth (which puts the outgrown nodes on the allocator's free lists), staging - and the
// buffer is fully usable afterwards: new writes are readable, counted and iterated, on both trees.
func ZZ_C08_reset_reuse() {
	sizes := []int{2, 5, 17}
	n := sizes[zzChoice("children", len(sizes))]
	art, rbt := newArtDBWithContext(), newRbtDBWithContext()
	for i := 0; i < n; i++ {
		k, v := []byte{7, byte(i*5 + 1)}, []byte{byte(i + 1)}
		zzAssert(art.Set(k, v) == nil && rbt.Set(k, v) == nil, "reset.setup")
	}
	art.Reset()
	rbt.Reset()
	zzAssert(art.Len() == 0 && rbt.Len() == 0 && art.Size() == 0 && rbt.Size() == 0, "reset.empty-accounting")
	keys := zzMemdbKeys(2)
	m := &zzModel{keys: keys, k: make([]zzMKey, 2)}
	for i := range keys {
		v := zzBytesN("v", 1)
		zzAssert(art.Set(keys[i], v) == nil && rbt.Set(keys[i], v) == nil, "reset.write-after-reset")
		m.set(i, v)
	}
	a := zzObserve(art, m, nil, nil)
	r := zzObserve(rbt, m, nil, nil)
	zzAssert(a.getOK && a.lenOK && a.sizeOK && a.iterOK && a.revOK, "reset.art-is-the-new-map")
	zzAssert(r.getOK && r.lenOK && r.sizeOK && r.iterOK && r.revOK, "reset.rbt-is-the-new-map")
}
