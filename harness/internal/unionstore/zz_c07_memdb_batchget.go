package unionstore

import (
	"bytes"
	"context"
)

// ZZ_C07_memdb_batchget: the real buffers' BatchGet (the buffer side of BufferBatchGetter) after a
// symbolic operation sequence - writes outside and inside open staging levels, releases, clean-ups -
// returns an entry for exactly the requested keys that have a value in the buffer (tombstones
// included, with an empty value), i.e. what Get answers key by key; on both trees.
func ZZ_C07_memdb_batchget() {
	art, rbt, m := zzMemdbRun(zzParam("bg_ops", 2), 2, false)
	absent := append(append([]byte{}, m.keys[1]...), 0) // longer than every key of the buffer
	keys := append(append([][]byte{}, m.keys...), absent)
	for i, db := range []MemBuffer{art, rbt} {
		res, err := db.BatchGet(context.Background(), keys)
		ok := err == nil
		want := 0
		for j, k := range m.keys {
			e, in := res[string(k)]
			if m.k[j].hasVal {
				// the two keys may coincide only as map keys of different length: they never do (K0 is a strict prefix of K1)
				want++
				ok = zzAnd(ok, in)
				ok = zzAnd(ok, bytes.Equal(e.Value, m.k[j].val))
			} else {
				ok = zzAnd(ok, !in)
			}
		}
		_, in := res[string(absent)]
		ok = zzAnd(ok, !in)
		ok = zzAnd(ok, len(res) == want)
		if i == 0 {
			zzAssert(ok, "memdb-batchget.art.equals-get")
		} else {
			zzAssert(ok, "memdb-batchget.rbt.equals-get")
		}
	}
}
