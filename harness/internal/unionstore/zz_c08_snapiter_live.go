package unionstore

import (
	"bytes"
)

// ZZ_C08_snapshot_iter_live: a snapshot iterator that stays open while staged
// writes restructure the tree (a node on its path grows to the next size class
// and another node of the freed size class is allocated) still yields exactly
// the snapshot's pairs — for both trees, whatever other snapshot iterators
// (including ones over an empty range) were opened and closed meanwhile.
func ZZ_C08_snapshot_iter_live() {
	impl := zzChoice("impl", 2)
	var db interface {
		Set([]byte, []byte) error
		Staging() int
		SnapshotIter([]byte, []byte) Iterator
	}
	if impl == 0 {
		db = newArtDBWithContext()
	} else {
		db = newRbtDBWithContext()
	}
	p := zzU8("prefix")
	zzAssume(p >= 1 && p <= 0xF0)
	n := 3 + zzChoice("fanout", 2)*1 // 3 or 4 children under the prefix node
	var keys [][]byte
	var vals [][]byte
	for i := 0; i < n; i++ {
		k := []byte{p, byte(0x10 * (i + 1))}
		v := append(zzBytesN("v", 1), byte('a'+i))
		zzAssume(db.Set(k, v) == nil)
		keys = append(keys, k)
		vals = append(vals, v)
	}
	emptyRange := func() {
		it := db.SnapshotIter([]byte{0xFA}, []byte{0xFB}) // no key lives there
		zzAssert(!it.Valid(), "snaplive.empty-range-iterator-invalid")
		it.Close()
	}
	when := zzChoice("empty-iter", 4) // 0 never, 1 before, 2 while the live one is open, 3 both
	if when == 1 || when == 3 {
		emptyRange()
	}
	live := db.SnapshotIter(nil, nil)
	if when == 2 || when == 3 {
		emptyRange()
	}
	consumed := zzChoice("consumed", 2)
	var got [][]byte
	var gotv [][]byte
	for i := 0; i < consumed && live.Valid(); i++ {
		got = append(got, append([]byte(nil), live.Key()...))
		gotv = append(gotv, append([]byte(nil), live.Value()...))
		zzAssume(live.Next() == nil)
	}
	db.Staging()
	// grow the node under the prefix (4 -> 16 when it is full) ...
	for i := 0; i < 2; i++ {
		zzAssume(db.Set([]byte{p, byte(0x10*(n+1+i) + 1)}, []byte("staged")) == nil)
	}
	// ... and allocate fresh small nodes elsewhere (they may reuse freed ones)
	for i := 0; i < 2; i++ {
		zzAssume(db.Set([]byte{p + 1, byte(i)}, []byte("other")) == nil)
		zzAssume(db.Set([]byte{p + 2, 7, byte(i)}, []byte("other")) == nil)
	}
	for live.Valid() {
		got = append(got, append([]byte(nil), live.Key()...))
		gotv = append(gotv, append([]byte(nil), live.Value()...))
		if live.Next() != nil {
			break
		}
	}
	live.Close()
	zzAssert(len(got) == n, "snaplive.yields-every-snapshot-pair-once")
	for i := 0; i < len(got) && i < n; i++ {
		zzAssert(bytes.Equal(got[i], keys[i]), "snaplive.keys-in-order")
		zzAssert(bytes.Equal(gotv[i], vals[i]), "snaplive.values-of-the-snapshot")
	}
}
