package arena

import (
	"bytes"
	"math"

	"github.com/tikv/client-go/v2/kv"
)

// C08 (a) — the value log and its arena, driven through a harness VlogMemDB.
//
// The harness "tree" is two nodes whose value pointer the log reverts through RevertVAddr exactly
// as ART/RBT do (node.vptr = hdr.OldValue). The reference model is the list of appends still in
// the log; everything the log answers is compared with that list.

type zzNode struct {
	key   []byte
	flags kv.KeyFlags
	vptr  MemdbArenaAddr
}

func (n *zzNode) GetKey() []byte           { return n.key }
func (n *zzNode) GetKeyFlags() kv.KeyFlags { return n.flags }

type zzDB struct {
	nodes   []*zzNode
	reverts []MemdbVlogHdr
}

func zzNodeAddr(i int) MemdbArenaAddr { return MemdbArenaAddr{idx: 0, off: uint32(i)} }

func (d *zzDB) RevertVAddr(hdr *MemdbVlogHdr) {
	d.reverts = append(d.reverts, *hdr)
	d.nodes[hdr.NodeAddr.off].vptr = hdr.OldValue
}

func (d *zzDB) InspectNode(addr MemdbArenaAddr) (*zzNode, MemdbArenaAddr) {
	n := d.nodes[addr.off]
	return n, n.vptr
}

type zzVer struct {
	node int
	val  []byte
	addr MemdbArenaAddr // what AppendValue returned
	old  MemdbArenaAddr // the node's value pointer before the append
}

// zzValue: n bytes, first and last symbolic, the rest zero (n may be several thousand).
func zzValue(n int) []byte {
	v := make([]byte, n)
	if n > 0 {
		v[0] = zzU8("v.first")
	}
	if n > 1 {
		v[n-1] = zzU8("v.last")
	}
	return v
}

// value lengths: small ones and the ones around "fills the 4 KiB first block exactly"
// (an entry is value + 20 header bytes; a block of size B takes an allocation only if it is < B
// when the block is created for it, and <= the free space afterwards).
var zzLens = []int{0, 1, 2, initBlockSize - memdbVlogHdrSize - 1, initBlockSize - memdbVlogHdrSize, initBlockSize - memdbVlogHdrSize + 1}

func zzLastOf(log []zzVer, node int, before int) int {
	r := -1
	for i := 0; i < len(log) && i < before; i++ {
		if log[i].node == node {
			r = i
		}
	}
	return r
}

// ZZ_C08_vlog_ops: up to vlog_ops operations from {append to node 0, append to node 1,
// checkpoint, revert+truncate to the checkpoint}, then every read of the log against the model.
func ZZ_C08_vlog_ops() {
	nops := zzParam("vlog_ops", 3)
	nlens := zzParam("vlog_lens", len(zzLens))
	var l MemdbVlog[*zzNode, *zzDB]
	db := &zzDB{nodes: []*zzNode{{key: []byte("a"), flags: 1, vptr: NullAddr}, {key: []byte("b"), flags: 2, vptr: NullAddr}}}
	hooks := 0
	l.SetMemChangeHook(func() { hooks++ })

	var log []zzVer
	cpSet := false
	var cp MemDBCheckpoint
	cpLen := 0
	reverted := false

	okRevert, okHook, okPos := true, true, true
	for step := 0; step < nops; step++ {
		op := zzChoice("op", 4)
		switch op {
		case 0, 1:
			val := zzValue(zzLens[zzChoice("len", nlens)])
			n := db.nodes[op]
			blocks, h := l.Blocks(), hooks
			addr := l.AppendValue(zzNodeAddr(op), n.vptr, val)
			okHook = okHook && (hooks-h == 1) == (l.Blocks() != blocks)
			log = append(log, zzVer{op, val, addr, n.vptr})
			n.vptr = addr
		case 2:
			zzAssume(!cpSet)
			cp, cpSet, cpLen = l.Checkpoint(), true, len(log)
		default:
			zzAssume(cpSet && len(log) > cpLen)
			db.reverts = nil
			l.RevertToCheckpoint(db, &cp)
			l.Truncate(&cp)
			reverted = true
			// one RevertVAddr per later append, newest first, carrying that append's header
			okRevert = okRevert && len(db.reverts) == len(log)-cpLen
			for i := range db.reverts {
				j := len(log) - 1 - i
				if j >= cpLen {
					r := db.reverts[i]
					okRevert = zzAnd(okRevert, r.NodeAddr == zzNodeAddr(log[j].node) && r.OldValue == log[j].old && int(r.ValueLen) == len(log[j].val))
				}
			}
			log = log[:cpLen]
			now := l.Checkpoint()
			okPos = okPos && now.IsSamePosition(&cp) && now.blockSize == cp.blockSize
		}
	}
	zzAssert(okHook, "vlog.mem-hook-iff-new-block")
	if reverted {
		zzAssert(okRevert, "vlog.revert-calls-newest-first-once-each")
		zzAssert(okPos, "vlog.truncate-restores-position")
	}

	// the nodes point at the last surviving append (the harness tree restores them like ART does)
	for ni, n := range db.nodes {
		last := zzLastOf(log, ni, len(log))
		if last < 0 {
			zzAssert(n.vptr.IsNull(), "vlog.node-without-value-is-null")
			continue
		}
		zzAssert(n.vptr == log[last].addr, "vlog.node-points-at-last-append")
		got := l.GetValue(n.vptr)
		zzAssert(bytes.Equal(got, log[last].val), "vlog.get-value-last-append")
		if len(log[last].val) == 0 {
			zzAssert(len(got) == 0, "vlog.tombstone-empty")
		}
		// history: newest to oldest, exactly the appends of this node still in the log
		var seen []MemdbArenaAddr
		res := l.SelectValueHistory(n.vptr, func(a MemdbArenaAddr) bool { seen = append(seen, a); return false })
		zzAssert(res.IsNull(), "vlog.history-none-selected-null")
		k := len(seen) - 1
		okHist := true
		cnt := 0
		for i := range log {
			if log[i].node == ni {
				okHist = okHist && k >= 0 && seen[k] == log[i].addr
				k--
				cnt++
			}
		}
		zzAssert(okHist && cnt == len(seen), "vlog.history-is-node-versions-newest-first")
		if cpSet {
			sv, ok := l.GetSnapshotValue(n.vptr, &cp)
			at := zzLastOf(log, ni, cpLen)
			if at < 0 {
				zzAssert(!ok, "vlog.snapshot-absent-before-checkpoint")
			} else {
				zzAssert(ok && bytes.Equal(sv, log[at].val), "vlog.snapshot-newest-not-after-checkpoint")
			}
		}
	}
	// every stored version is still readable and CanModify <=> appended after the checkpoint
	okRead, okMod := true, true
	for i := range log {
		okRead = zzAnd(okRead, bytes.Equal(l.GetValue(log[i].addr), log[i].val))
		okMod = okMod && l.CanModify(nil, log[i].addr)
		if cpSet {
			okMod = okMod && l.CanModify(&cp, log[i].addr) == (i >= cpLen)
		}
	}
	zzAssert(okRead, "vlog.every-version-readable")
	zzAssert(okMod, "vlog.can-modify-iff-after-checkpoint")

	// stage inspection between the checkpoint (or the start) and the tail: the current value of
	// every node written in that span, newest first, once
	head := MemDBCheckpoint{}
	from := 0
	if cpSet {
		head, from = cp, cpLen
	}
	tail := l.Checkpoint()
	type kvf struct {
		k, v []byte
		f    kv.KeyFlags
	}
	var got []kvf
	l.InspectKVInLog(db, &head, &tail, func(k []byte, f kv.KeyFlags, v []byte) { got = append(got, kvf{k, v, f}) })
	gi := 0
	okInspect := true
	for i := len(log) - 1; i >= from; i-- {
		n := db.nodes[log[i].node]
		if n.vptr == log[i].addr {
			if gi < len(got) {
				okInspect = zzAnd(okInspect, bytes.Equal(got[gi].k, n.key) && got[gi].f == n.flags && bytes.Equal(got[gi].v, log[i].val))
			}
			gi++
		}
	}
	zzAssert(okInspect && gi == len(got), "vlog.inspect-current-values-newest-first")
}

// ZZ_C08_arena_block_alloc: one allocation in a block with arbitrary fill: the returned range is
// inside the block, after everything allocated before, aligned when asked, of the asked size;
// it fails exactly when it does not fit.
func ZZ_C08_arena_block_alloc() {
	const cap = 24
	b := memdbArenaBlock{buf: make([]byte, cap)}
	b.length = zzInt("length")
	zzAssume(b.length >= 0 && b.length <= cap)
	size := zzChoice("size", cap+3)
	align := zzBool("align")
	before := b.length
	off, data := b.alloc(size, align)
	start := before
	if align {
		start = (before + 7) / 8 * 8
	}
	if start+size > cap {
		zzAssert(off == nullBlockOffset && data == nil, "block.full-rejected")
		zzAssert(b.length == before, "block.full-unchanged")
		return
	}
	zzAssert(int(off) == start, "block.offset")
	zzAssert(len(data) == size, "block.size")
	zzAssert(b.length == start+size, "block.length-advanced")
	if align {
		zzAssert(off%8 == 0, "block.aligned")
	}
	if size > 0 {
		data[0] = 0xAB
		zzAssert(b.buf[start] == 0xAB, "block.data-aliases-block")
	}
}

// ZZ_C08_arena_alloc: MemdbArena.Alloc across block boundaries: block sizes double from 4 KiB,
// a block is created strictly larger than the allocation that caused it, allocations never
// overlap, Checkpoint/Truncate restore Blocks/Capacity position.
func ZZ_C08_arena_alloc() {
	var a MemdbArena
	sizes := []int{1, 8, initBlockSize - 8, initBlockSize - 1, initBlockSize, initBlockSize + 1, 3 * initBlockSize}
	n := zzParam("arena_allocs", 3)
	type rng struct {
		idx      uint32
		from, to int
	}
	var got []rng
	var cp MemDBCheckpoint
	cpAt := zzChoice("cp-at", n+1)
	cpCount := 0
	for i := 0; i < n; i++ {
		if i == cpAt {
			cp, cpCount = a.Checkpoint(), len(got)
		}
		size := sizes[zzChoice("size", len(sizes))]
		align := zzChoice("align", 2) == 1
		addr, data := a.Alloc(size, align)
		zzAssert(!addr.IsNull() && len(data) == size, "arena.alloc-succeeds")
		zzAssert(int(addr.idx) == a.Blocks()-1, "arena.alloc-in-last-block")
		if align {
			zzAssert(addr.off%8 == 0, "arena.aligned")
		}
		blk := a.blocks[addr.idx]
		zzAssert(int(addr.off)+size <= len(blk.buf), "arena.inside-block")
		for _, r := range got {
			zzAssert(r.idx != addr.idx || r.to <= int(addr.off), "arena.no-overlap")
		}
		got = append(got, rng{addr.idx, int(addr.off), int(addr.off) + size})
		full := a.GetData(addr)
		zzAssert(len(full) == len(blk.buf)-int(addr.off), "arena.getdata-from-offset")
	}
	var sum uint64
	for i, blk := range a.blocks {
		sum += uint64(len(blk.buf))
		zzAssert(len(blk.buf) >= initBlockSize && len(blk.buf)&(len(blk.buf)-1) == 0, "arena.block-size-power-of-two")
		if i > 0 {
			zzAssert(len(blk.buf) >= 2*len(a.blocks[i-1].buf) || len(blk.buf) == maxBlockSize, "arena.block-size-doubles")
		}
	}
	zzAssert(a.Capacity() == sum, "arena.capacity-is-sum-of-blocks")
	if cpAt < n {
		a.Truncate(&cp)
		now := a.Checkpoint()
		zzAssert(now.IsSamePosition(&cp) && now.blockSize == cp.blockSize, "arena.truncate-restores-checkpoint")
		// an allocation after the truncate does not overlap anything allocated before the checkpoint
		addr, data := a.Alloc(8, false)
		zzAssert(!addr.IsNull() && len(data) == 8, "arena.alloc-after-truncate")
		for i := 0; i < cpCount; i++ {
			zzAssert(got[i].idx != addr.idx || got[i].to <= int(addr.off), "arena.no-overlap-after-truncate")
		}
	}
}

// ZZ_C08_addr: address conversions on arbitrary 32-bit halves.
func ZZ_C08_addr() {
	a := MemdbArenaAddr{zzU32("idx"), zzU32("off")}
	zzAssert(U64ToAddr(a.AsU64()) == a, "addr.u64-roundtrip")
	u := zzU64("u")
	zzAssert(U64ToAddr(u).AsU64() == u, "addr.u64-roundtrip-2")
	zzAssert(a.IsNull() == (a.idx == math.MaxUint32 || a.off == math.MaxUint32), "addr.null-iff-a-half-is-max")
	zzAssert(NullAddr.IsNull() && U64ToAddr(NullU64Addr) == NullAddr && NullAddr.AsU64() == NullU64Addr, "addr.null-constants")
	var buf [8]byte
	a.store(buf[:])
	var b MemdbArenaAddr
	b.load(buf[:])
	zzAssert(a == b, "addr.store-load")
	if a.idx <= math.MaxUint16 {
		zzAssert(a.ToHandle().ToAddr() == a, "addr.handle-roundtrip")
	}
	hdr := MemdbVlogHdr{NodeAddr: a, OldValue: MemdbArenaAddr{zzU32("o.idx"), zzU32("o.off")}, ValueLen: zzU32("vlen")}
	var hb [memdbVlogHdrSize]byte
	hdr.store(hb[:])
	var h2 MemdbVlogHdr
	h2.load(hb[:])
	zzAssert(h2 == hdr, "addr.hdr-store-load")
	// checkpoints: LessThan is the lexicographic order on (blocks, offset), IsSamePosition its equality
	c1 := MemDBCheckpoint{blocks: int(zzU16("c1.b")), offsetInBlock: int(zzU16("c1.o"))}
	c2 := MemDBCheckpoint{blocks: int(zzU16("c2.b")), offsetInBlock: int(zzU16("c2.o"))}
	lt := c1.blocks < c2.blocks || c1.blocks == c2.blocks && c1.offsetInBlock < c2.offsetInBlock
	zzAssert(c1.LessThan(&c2) == lt, "addr.checkpoint-less-than")
	zzAssert(c1.IsSamePosition(&c2) == (!c1.LessThan(&c2) && !c2.LessThan(&c1)), "addr.checkpoint-same-position")
}
