package transaction

import (
	"bytes"

	"github.com/pingcap/kvproto/pkg/kvrpcpb"
	"github.com/tikv/client-go/v2/tikvrpc"
)

// C04 — request-stream rules, checked as a monitor over the log of every RPC
// the real client emitted during Commit (same scenarios as C03: real KVTxn,
// 2PC/async/1PC, symbolic fault script, symbolic timestamps).

func zzHasKey(keys [][]byte, k []byte) bool {
	for _, x := range keys {
		if bytes.Equal(x, k) {
			return true
		}
	}
	return false
}

func zzPrewriteOK(r zzRPC) bool {
	if r.cmd != tikvrpc.CmdPrewrite || !r.answered || r.resp == nil {
		return false
	}
	pr, ok := r.resp.Resp.(*kvrpcpb.PrewriteResponse)
	return ok && len(pr.Errors) == 0 && pr.RegionError == nil
}

func zzCommitOK(r zzRPC) bool {
	if r.cmd != tikvrpc.CmdCommit || !r.answered || r.resp == nil {
		return false
	}
	cr, ok := r.resp.Resp.(*kvrpcpb.CommitResponse)
	return ok && cr.Error == nil && cr.RegionError == nil
}

func zzC04Stream(mode int, faults int, keys []string) {
	sc := zzRunCommit(mode, faults, keys)
	defer sc.close()
	log := sc.cl.log
	start := sc.startTS
	primary := []byte(keys[0])

	prewrittenOK := map[string]bool{}
	primaryCommitOK := false
	primaryCommitMaybe := false // a primary commit request was sent whose effect cannot be excluded
	nPrewriteReqWithOnePC := 0
	var maxMinCommit uint64
	for _, r := range log {
		switch r.cmd {
		case tikvrpc.CmdPrewrite:
			req := r.req.Prewrite()
			// R5: one primary, and it is one of the transaction's keys
			zzAssert(bytes.Equal(req.PrimaryLock, primary), "stream.prewrite-names-the-primary")
			zzAssert(req.StartVersion == start, "stream.prewrite-start-ts")
			// R8: prewritten mutations are buffered writes with their op and value
			for _, m := range req.Mutations {
				idx := -1
				for i, k := range keys {
					if bytes.Equal([]byte(k), m.Key) {
						idx = i
					}
				}
				zzAssert(idx >= 0, "stream.prewrite-only-buffered-keys")
				if idx >= 0 {
					zzAssert(m.Op == kvrpcpb.Op_Put, "stream.prewrite-op-put-for-set")
					zzAssert(bytes.Equal(m.Value, sc.vals[idx]), "stream.prewrite-carries-the-buffered-value")
				}
			}
			// R9/R2: min-commit-ts above start ts, above everything issued before Commit (linearizability)
			if req.UseAsyncCommit || req.TryOnePc {
				zzAssert(req.MinCommitTs > start, "stream.min-commit-ts-exceeds-start-ts")
				for _, ts := range sc.issuedBefore {
					zzAssert(req.MinCommitTs > ts, "stream.min-commit-ts-exceeds-every-earlier-issued-ts")
				}
			}
			// R6: async primary lists exactly all other keys as secondaries
			if req.UseAsyncCommit && zzHasKey(r.keysOfPrewrite(), primary) {
				zzAssert(len(req.Secondaries) == len(keys)-1, "stream.async-secondaries-count")
				for _, k := range keys[1:] {
					zzAssert(zzHasKey(req.Secondaries, []byte(k)), "stream.async-secondaries-complete")
				}
				zzAssert(!zzHasKey(req.Secondaries, primary), "stream.async-secondaries-exclude-primary")
			}
			// R7: 1PC only when the request carries every mutation
			if req.TryOnePc {
				nPrewriteReqWithOnePC++
				zzAssert(len(req.Mutations) == len(keys), "stream.one-pc-only-with-a-single-prewrite-request")
			}
			// R3: no prewrite once a commit request went out
			zzAssert(!primaryCommitMaybe, "stream.no-prewrite-after-commit-was-sent")
			if zzPrewriteOK(r) {
				for _, m := range req.Mutations {
					prewrittenOK[string(m.Key)] = true
				}
				if mc := r.resp.Resp.(*kvrpcpb.PrewriteResponse).MinCommitTs; mc > maxMinCommit {
					maxMinCommit = mc
				}
			}
		case tikvrpc.CmdCommit:
			req := r.req.Commit()
			// R1: no key committed before all mutations were successfully prewritten
			for _, k := range keys {
				zzAssert(prewrittenOK[k], "stream.commit-only-after-all-prewrites-succeeded")
			}
			zzAssert(req.StartVersion == start, "stream.commit-start-ts")
			// R4: commit ts rules
			zzAssert(req.CommitVersion > start, "stream.commit-ts-exceeds-start-ts")
			zzAssert(req.CommitVersion >= maxMinCommit, "stream.commit-ts-not-below-any-returned-min-commit-ts")
			for _, ts := range sc.issuedBefore {
				zzAssert(req.CommitVersion > ts, "stream.commit-ts-exceeds-every-earlier-issued-ts")
			}
			if r.isPrimary {
				zzAssert(zzHasKey(req.Keys, primary), "stream.primary-batch-holds-the-primary")
				primaryCommitMaybe = true
				if zzCommitOK(r) {
					primaryCommitOK = true
				}
			} else if mode != 1 {
				// R2: secondaries only after the primary commit succeeded
				zzAssert(primaryCommitOK, "stream.secondaries-after-primary-commit-succeeded")
				zzAssert(!zzHasKey(req.Keys, primary), "stream.secondary-batch-lacks-the-primary")
			}
		case tikvrpc.CmdBatchRollback:
			// R3: a rollback is never sent once the primary commit may have taken effect
			zzAssert(!primaryCommitMaybe || !sc.cl.everAppliedPrimaryCommit(log, primary), "stream.no-rollback-after-primary-commit-may-have-applied")
		}
	}
	if sc.err == nil && mode == 2 && nPrewriteReqWithOnePC > 0 {
		zzAssert(sc.txn.commitTS > start, "stream.one-pc-commit-ts-from-store")
	}
}

func (r zzRPC) keysOfPrewrite() [][]byte {
	var out [][]byte
	for _, m := range r.req.Prewrite().Mutations {
		out = append(out, m.Key)
	}
	return out
}

// everAppliedPrimaryCommit: a primary commit request took effect in the store (ghost knowledge of
// the harness: also when its answer was lost). A request that never arrived, or one the store refused,
// does not count - after a definite refusal of a retried request the client may roll back.
func (c *zzCluster) everAppliedPrimaryCommit(log []zzRPC, primary []byte) bool {
	for _, r := range log {
		if r.cmd == tikvrpc.CmdCommit && r.isPrimary && r.applied && r.storeOK {
			return true
		}
	}
	return false
}

func ZZ_C04_stream_2pc()   { zzC04Stream(0, zzParam("faults", 1), []string{"a", "b", "x"}) }
func ZZ_C04_stream_async() { zzC04Stream(1, zzParam("faults", 1), []string{"a", "b", "x"}) }
func ZZ_C04_stream_1pc()   { zzC04Stream(2, zzParam("faults", 1), []string{"a", "b"}) }
