package transaction

import (
	"context"

	"github.com/tikv/client-go/v2/config"
	"github.com/tikv/client-go/v2/config/retry"
	tikverr "github.com/tikv/client-go/v2/error"
	"github.com/tikv/client-go/v2/kv"
	"github.com/tikv/client-go/v2/tikvrpc"
	"github.com/tikv/client-go/v2/txnkv/txnlock"
)

// C03 — truthful Commit result. The real KVTxn.Commit (2PC / async commit /
// 1PC, real batching, real RegionRequestSender, real region cache) runs against
// the harness store; a symbolic fault script decides for every prewrite /
// commit RPC whether it is applied and what the client sees; all timestamps
// are symbolic. See DESIGN §3 C03.

type zzScenario struct {
	mode    int // 0 = 2PC, 1 = async commit, 2 = 1PC
	keys    []string
	vals    [][]byte
	s       *zzStore
	cl      *zzCluster
	txn     *KVTxn
	startTS uint64
	err     error
	// timestamps the oracle had issued before Commit was called
	issuedBefore []uint64
	foreign      *txnlock.LockResolver
}

// zzIsCommitPoint: a request whose execution can move the commit point — the
// commit of the primary key, or a prewrite that carries the async-commit or
// one-phase-commit flag (a transaction may fall back from those modes).
func zzIsCommitPoint(mode int, r zzRPC) bool {
	if r.cmd == tikvrpc.CmdCommit && r.isPrimary {
		return true
	}
	if r.cmd == tikvrpc.CmdPrewrite {
		p := r.req.Prewrite()
		return p.TryOnePc || p.UseAsyncCommit
	}
	return false
}

// zzRunCommit builds the store, buffers one write per key and commits.
func zzRunCommit(mode int, faults int, keys []string) *zzScenario {
	return zzRunCommitConc(mode, faults, keys, 1)
}

// zzRunCommitConc: with concurrency > 1 the batches of one phase run on their
// own goroutines and the script may hold a request back (engine-only: the
// interleaving is chosen by the engine's scheduler).
func zzRunCommitConc(mode int, faults int, keys []string, concurrency int) *zzScenario {
	sc := &zzScenario{mode: mode, keys: keys}
	sc.s, sc.cl = zzNewStoreTS([][]byte{[]byte("m")}, faults, true)
	// the keys of one region travel in one request, or — when their size reaches the
	// batch limit — in several
	if zzChoice("smallbatch", 2) == 1 {
		kv.TxnCommitBatchSize.Store(1)
	}
	if concurrency > 1 {
		zzEngineOnly()
		config.UpdateGlobal(func(conf *config.Config) { conf.CommitterConcurrency = concurrency })
		sc.cl.delays = true
	}
	sc.cl.onePCAllowed = true
	sc.cl.allowFaultOn = func(cmd tikvrpc.CmdType) bool {
		return cmd == tikvrpc.CmdPrewrite || cmd == tikvrpc.CmdCommit
	}
	txn := zzBegin(sc.s)
	sc.txn = txn
	txn.SetEnableAsyncCommit(mode == 1)
	txn.SetEnable1PC(mode == 2)
	for i, k := range keys {
		v := zzBytesN("val", 1)
		v = append(v, byte('0'+i))
		sc.vals = append(sc.vals, v)
		if err := txn.Set([]byte(k), v); err != nil {
			panic(err)
		}
	}
	sc.startTS = txn.StartTS()
	sc.cl.primary, sc.cl.startTS = []byte(keys[0]), sc.startTS
	// the foreign client: a second, real LockResolver over the same store whose
	// clock considers our locks expired although the committer is still running
	foreign := txnlock.NewLockResolver(sc.s)
	sc.foreign = foreign
	sc.cl.lockExpired = true
	sc.cl.realResolver = func(key []byte) {
		ks := sc.cl.key(key)
		if ks.lock == nil {
			return
		}
		l := txnlock.NewLock(zzKeyErrLocked(ks).Locked)
		sc.s.orc.expired = true
		bo := retry.NewBackofferWithVars(context.Background(), 1000, nil)
		caller, _ := sc.s.orc.GetTimestamp(context.Background(), nil)
		_, _ = foreign.ResolveLocks(bo, caller, []*txnlock.Lock{l})
		sc.s.orc.expired = false
	}
	// another transaction obtains a timestamp before Commit is called
	sc.s.orc.GetTimestamp(context.Background(), nil)
	sc.issuedBefore = append([]uint64(nil), sc.s.orc.issued...)
	// the caller's context may end while a request is in flight (script event)
	cctx, cancel := context.WithCancel(context.Background())
	defer cancel()
	sc.cl.cancelCaller = cancel
	// the region of the first two keys may split between them while Commit runs
	sc.cl.splitKey = []byte(keys[1])
	// a reader may pass over a region between two prewrite requests
	sc.cl.orc = sc.s.orc.zzOracleCore
	sc.err = txn.Commit(cctx)
	sc.s.wg.Wait() // background secondaries commit / cleanup
	return sc
}

func (sc *zzScenario) close() {
	if sc.foreign != nil {
		sc.foreign.Close()
	}
	sc.s.close()
}

// committed: 2PC/1PC — the primary carries a commit record; async commit —
// additionally, before the primary is committed, every key is prewritten and
// none is rolled back (the commit point of async commit).
func (sc *zzScenario) committed() bool {
	cl := sc.cl
	primary := []byte(sc.keys[0])
	if cl.committed(primary, sc.startTS) {
		return true
	}
	if sc.mode != 1 {
		return false
	}
	for _, k := range sc.keys {
		kb := []byte(k)
		if !(cl.lockedBy(kb, sc.startTS) || cl.committed(kb, sc.startTS)) {
			return false
		}
	}
	return true
}

func zzC03(mode int, faults int, keys []string) {
	zzC03Conc(mode, faults, keys, 1)
}

func zzC03Conc(mode int, faults int, keys []string, concurrency int) {
	sc := zzRunCommitConc(mode, faults, keys, concurrency)
	defer sc.close()
	cl, err := sc.cl, sc.err
	committed := sc.committed()
	unanswered := false
	faulted := false
	for _, r := range cl.log {
		if r.event != zzEvOK {
			faulted = true
		}
		if zzIsCommitPoint(mode, r) && !r.answered {
			unanswered = true
		}
	}
	undetermined := err != nil && tikverr.IsErrorUndetermined(err)
	if err == nil {
		zzAssert(committed, "c03.nil-implies-committed")
		for _, k := range keys {
			kb := []byte(k)
			zzAssert(cl.committed(kb, sc.startTS) || cl.lockedBy(kb, sc.startTS), "c03.nil-implies-every-key-committed-or-still-locked")
			zzAssert(!cl.rolledBack(kb, sc.startTS), "c03.nil-implies-no-key-rolled-back")
		}
		zzAssert(sc.txn.commitTS > sc.startTS, "c03.nil-reports-a-commit-ts")
	} else if !undetermined {
		zzAssert(!committed, "c03.definite-error-implies-not-committed")
	}
	if undetermined {
		zzAssert(unanswered, "c03.undetermined-only-after-unanswered-commit-point-request")
	}
	if !faulted {
		zzAssert(err == nil, "c03.fault-free-commit-succeeds")
	}
}

func ZZ_C03_2pc() {
	zzC03(0, zzParam("faults", 1), []string{"a", "b", "x"})
}

func ZZ_C03_async() {
	zzC03(1, zzParam("faults", 1), []string{"a", "b", "x"})
}

// ZZ_C03_2pc_delayed: two prewrite batches in flight; one may be held back
// while the other lands and another client's real resolver meets its lock
// (the secondary is prewritten before the primary).
func ZZ_C03_2pc_delayed() {
	zzC03Conc(0, zzParam("faults", 1), []string{"a", "b", "x"}, 3)
}

func ZZ_C03_async_delayed() {
	zzC03Conc(1, zzParam("faults", 1), []string{"a", "b", "x"}, 3)
}

func ZZ_C03_1pc() {
	zzC03(2, zzParam("faults", 1), []string{"a", "b"})
}
