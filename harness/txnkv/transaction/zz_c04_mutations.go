package transaction

import (
	"bytes"
	"context"

	"github.com/pingcap/kvproto/pkg/kvrpcpb"
	"github.com/tikv/client-go/v2/kv"
)

// C04 rule 1 — the mutation list derived from the buffer: for every
// combination of buffer-entry shape (no value / empty value = delete /
// value) and key flags (locked, presumed-absent, newly-inserted, share-mode,
// assertion, constraint-check) in optimistic and pessimistic transactions,
// initKeysAndMutations + buildPrewriteRequest produce exactly the operation,
// value, assertion and pessimistic action the statement's table implies, the
// primary is the first committable exclusive key, and stripNoNeedCommitKeys
// drops exactly the check-not-exists keys.

func ZZ_C04_mutation_table() {
	s, _ := zzNewStore(nil, 0)
	defer s.close()
	txn := zzBegin(s)
	pessimistic := zzBool("pessimistic")
	txn.SetPessimistic(pessimistic)
	level := []kvrpcpb.AssertionLevel{kvrpcpb.AssertionLevel_Off, kvrpcpb.AssertionLevel_Fast, kvrpcpb.AssertionLevel_Strict}[zzChoice("level", 3)]
	txn.SetAssertionLevel(level)

	k1 := []byte("k1") // the entry under test (sorts first)
	k2 := []byte("k2") // a plain put, so that a committable key always exists
	buf := txn.GetMemBuffer()
	val := zzBytesN("val", 1)
	shape := zzChoice("shape", 3) // 0: flags only, 1: delete, 2: value
	switch shape {
	case 1:
		zzAssume(buf.Delete(k1) == nil)
	case 2:
		zzAssume(buf.Set(k1, val) == nil)
	}
	locked, presume, newly, share := zzBool("locked"), zzBool("presume"), zzBool("newly"), zzBool("share")
	needCheck := zzBool("needcheck")
	assertion := zzChoice("assert", 4) // none, exist, not-exist, unknown
	if share {
		zzAssume(locked) // share mode implies locked (documented flag invariant)
	}
	var ops []kv.FlagsOp
	if locked {
		ops = append(ops, kv.SetKeyLocked)
	}
	if share {
		ops = append(ops, kv.SetKeyLockedInShareMode)
	}
	if presume {
		ops = append(ops, kv.SetPresumeKeyNotExists)
	}
	if newly {
		ops = append(ops, kv.SetNewlyInserted)
	}
	if needCheck {
		ops = append(ops, kv.SetNeedConstraintCheckInPrewrite)
	}
	switch assertion {
	case 1:
		ops = append(ops, kv.SetAssertExist)
	case 2:
		ops = append(ops, kv.SetAssertNotExist)
	case 3:
		ops = append(ops, kv.SetAssertUnknown)
	}
	buf.UpdateFlags(k1, ops...)
	zzAssume(buf.Set(k2, []byte("v2")) == nil)

	c, err := newTwoPhaseCommitter(txn, 0)
	zzAssert(err == nil, "table.committer")
	txn.committer = c
	// the lock-result cross check needs lock contexts that this harness does not
	// build: it only runs for pessimistically locked keys with an assertion level
	if level != kvrpcpb.AssertionLevel_Off && pessimistic && locked {
		zzAssume(assertion == 0 || assertion == 3)
	}
	err = c.initKeysAndMutations(context.Background())

	// expected row for k1
	wantPresent := true
	var wantOp kvrpcpb.Op
	lockOp := kvrpcpb.Op_Lock
	if share {
		lockOp = kvrpcpb.Op_SharedLock
	}
	switch shape {
	case 0:
		if !locked {
			wantPresent = false
		}
		wantOp = lockOp
	case 2:
		wantOp = kvrpcpb.Op_Put
		if presume {
			wantOp = kvrpcpb.Op_Insert
		}
	case 1:
		switch {
		case !pessimistic && presume:
			wantOp = kvrpcpb.Op_CheckNotExists
		case newly:
			if !locked {
				wantPresent = false
			}
			wantOp = lockOp
		default:
			wantOp = kvrpcpb.Op_Del
		}
	}
	zzAssert(err == nil, "table.init-ok")
	m := c.mutations
	idx := -1
	for i := 0; i < m.Len(); i++ {
		if bytes.Equal(m.GetKey(i), k1) {
			idx = i
		}
	}
	zzAssert((idx >= 0) == wantPresent, "table.presence")
	zzAssert(m.Len() == 1 || m.Len() == 2, "table.no-extra-mutations")
	if idx >= 0 {
		zzAssert(m.GetOp(idx) == wantOp, "table.op")
		if wantOp == kvrpcpb.Op_Put || wantOp == kvrpcpb.Op_Insert {
			zzAssert(bytes.Equal(m.GetValue(idx), val), "table.value")
		} else {
			zzAssert(len(m.GetValue(idx)) == 0, "table.no-value")
		}
		zzAssert(m.IsPessimisticLock(idx) == (locked && pessimistic), "table.pessimistic-flag")
		wantExist := level != kvrpcpb.AssertionLevel_Off && assertion == 1
		wantNotExist := level != kvrpcpb.AssertionLevel_Off && assertion == 2
		zzAssert(m.IsAssertExists(idx) == wantExist, "table.assert-exist")
		zzAssert(m.IsAssertNotExist(idx) == wantNotExist, "table.assert-not-exist")
		zzAssert(m.NeedConstraintCheckInPrewrite(idx) == needCheck, "table.constraint-check-flag")
	}
	// primary: first key that is neither a check-not-exists nor a shared lock
	wantPrimary := k2
	if wantPresent && wantOp != kvrpcpb.Op_CheckNotExists && wantOp != kvrpcpb.Op_SharedLock {
		wantPrimary = k1
	}
	zzAssert(bytes.Equal(c.primary(), wantPrimary), "table.primary")

	// the prewrite request carries the row unchanged
	batch := batchMutations{mutations: m, isPrimary: true}
	req := c.buildPrewriteRequest(batch, 1).Prewrite()
	zzAssert(len(req.Mutations) == m.Len() && len(req.PessimisticActions) == m.Len(), "table.request-size")
	zzAssert(bytes.Equal(req.PrimaryLock, wantPrimary), "table.request-primary")
	if idx >= 0 {
		pm := req.Mutations[idx]
		zzAssert(pm.Op == wantOp && bytes.Equal(pm.Key, k1), "table.request-op")
		wantA := kvrpcpb.Assertion_None
		if level != kvrpcpb.AssertionLevel_Off && assertion == 1 {
			wantA = kvrpcpb.Assertion_Exist
		}
		if level != kvrpcpb.AssertionLevel_Off && assertion == 2 {
			wantA = kvrpcpb.Assertion_NotExist
		}
		zzAssert(pm.Assertion == wantA, "table.request-assertion")
		wantAct := kvrpcpb.PrewriteRequest_SKIP_PESSIMISTIC_CHECK
		if locked && pessimistic {
			wantAct = kvrpcpb.PrewriteRequest_DO_PESSIMISTIC_CHECK
		} else if needCheck {
			wantAct = kvrpcpb.PrewriteRequest_DO_CONSTRAINT_CHECK
		}
		zzAssert(req.PessimisticActions[idx] == wantAct, "table.request-pessimistic-action")
	}
	zzAssert(req.MinCommitTs > c.startTS, "table.request-min-commit-ts")

	// check-not-exists keys are prewritten but never committed
	c.stripNoNeedCommitKeys()
	for i := 0; i < c.mutations.Len(); i++ {
		zzAssert(c.mutations.GetOp(i) != kvrpcpb.Op_CheckNotExists, "table.strip-drops-check-not-exists")
	}
	wantLeft := 1
	if wantPresent && wantOp != kvrpcpb.Op_CheckNotExists {
		wantLeft = 2
	}
	zzAssert(c.mutations.Len() == wantLeft, "table.strip-keeps-the-rest")
}
