package transaction

import (
	"bytes"
	"context"
	"sync/atomic"
	"time"

	"github.com/pingcap/kvproto/pkg/kvrpcpb"
	"github.com/tikv/client-go/v2/config"
	"github.com/tikv/client-go/v2/kv"
	"github.com/tikv/client-go/v2/oracle"
	"github.com/tikv/client-go/v2/tikvrpc"
)

// C04 rule 5 — the TTL manager: while it runs, every heart-beat names the
// primary, advises a time-to-live that never decreases and exceeds the
// transaction's age on the oracle's clock, and none is sent after close()
// or once the age exceeds the maximum lifetime. The oracle's timestamps at
// the ticks are symbolic and non-decreasing; the ticker runs on virtual time.

func ZZ_C04_ttl_manager() {
	zzEngineOnly() // virtual clock
	s, cl := zzNewStore(nil, 0)
	defer s.close()
	// symbolic, monotone clock
	t0 := zzU64("ts.0")
	zzAssume(t0 >= 1<<30 && t0 < 1<<60)
	s.orc.last = t0
	s.orc.step = 1
	txn := zzBegin(s)
	txn.SetPessimistic(true)
	zzAssume(txn.Set([]byte("a"), []byte("1")) == nil)
	zzAssume(txn.Set([]byte("b"), []byte("2")) == nil)
	c, err := newTwoPhaseCommitter(txn, 0)
	zzAssume(err == nil)
	txn.committer = c
	zzAssume(c.initKeysAndMutations(context.Background()) == nil)
	start := txn.StartTS()
	primary := c.primary()
	// the primary is locked in the store (as after a pessimistic lock request)
	cl.key(primary).lock = &zzLock{startTS: start, primary: primary, op: kvrpcpb.Op_PessimisticLock, ttl: 3000}

	ticks := zzParam("ticks", 2)
	closeAt := zzChoice("closeAt", ticks+1) // close() before tick number closeAt (ticks = never)
	period := time.Duration(atomic.LoadUint64(&ManagedLockTTL)) * time.Millisecond / 2
	c.ttlManager.run(c, nil, false)
	zzRunAll() // let keepAlive reach its select

	var lastAdvised uint64
	sent := 0
	closed := false
	for i := 0; i < ticks; i++ {
		if i == closeAt {
			c.ttlManager.close()
			closed = true
			zzRunAll()
		}
		// the oracle moves on by a symbolic amount before the tick
		jump := zzU64("jump")
		zzAssume(jump < 1<<40)
		s.orc.last += jump
		nowBefore := s.orc.last
		zzAdvance(int64(period))
		zzRunAll()
		nHB := 0
		var hb *kvrpcpb.TxnHeartBeatRequest
		for _, r := range cl.log {
			if r.cmd == tikvrpc.CmdTxnHeartBeat {
				nHB++
				hb = r.req.TxnHeartBeat()
			}
		}
		if closed {
			zzAssert(nHB == sent, "ttl.no-heartbeat-after-close")
			continue
		}
		if nHB == sent {
			// the manager stopped by itself: only legal past the maximum lifetime
			age := uint64(oracle.ExtractPhysical(s.orc.last) - oracle.ExtractPhysical(start))
			zzAssert(age > config.GetGlobalConfig().MaxTxnTTL, "ttl.stops-only-past-max-lifetime")
			closed = true
			continue
		}
		zzAssert(nHB == sent+1, "ttl.one-heartbeat-per-tick")
		sent = nHB
		zzAssert(bytes.Equal(hb.PrimaryLock, primary), "ttl.names-the-primary")
		zzAssert(hb.StartVersion == start, "ttl.start-ts")
		age := uint64(oracle.ExtractPhysical(nowBefore) - oracle.ExtractPhysical(start))
		zzAssert(hb.AdviseLockTtl > age, "ttl.exceeds-the-transaction-age")
		zzAssert(hb.AdviseLockTtl >= lastAdvised, "ttl.never-decreases")
		zzAssert(age <= config.GetGlobalConfig().MaxTxnTTL, "ttl.none-past-max-lifetime")
		lastAdvised = hb.AdviseLockTtl
	}
	c.ttlManager.close()
	zzRunAll()
}

// ZZ_C04_ttl_primary_change: the primary chosen by a first statement may be given up again
// (lock-only-if-exists on an absent key locks nothing); a later statement chooses the real primary.
// Every heart-beat sent afterwards names the key that carries the transaction's primary lock, and
// heart-beats do flow once there is one.
func ZZ_C04_ttl_primary_change() {
	zzEngineOnly() // virtual clock
	s, cl := zzNewStore(nil, 0)
	defer s.close()
	cl.faithful = true
	k1, k2 := []byte("k1"), []byte("k2")
	if zzBool("k1-exists") {
		ks := cl.key(k1)
		ks.writes = append(ks.writes, zzWrite{startTS: 400, commitTS: 500, op: kvrpcpb.Op_Put, value: []byte("v")})
	}
	txn := zzBegin(s)
	txn.SetPessimistic(true)
	ctx := context.Background()
	fut, _ := s.orc.GetTimestamp(ctx, nil)
	l1 := kv.NewLockCtx(fut, kv.LockNoWait, time.Now())
	l1.LockOnlyIfExists = true
	l1.ReturnValues = true
	l1.Values = map[string]kv.ReturnedValue{}
	zzAssert(txn.LockKeys(ctx, l1, k1) == nil, "ttl-primary.first-statement-ok")
	fut2, _ := s.orc.GetTimestamp(ctx, nil)
	l2 := kv.NewLockCtx(fut2, kv.LockNoWait, time.Now())
	zzAssert(txn.LockKeys(ctx, l2, k2) == nil, "ttl-primary.second-statement-ok")
	zzRunAll()
	period := time.Duration(atomic.LoadUint64(&ManagedLockTTL)) * time.Millisecond / 2
	for i := 0; i < zzParam("ticks", 2); i++ {
		zzAdvance(int64(period))
		zzRunAll()
	}
	primary := txn.committer.primary()
	pl := cl.key(primary).lock
	zzAssert(pl != nil && pl.startTS == txn.StartTS() && bytes.Equal(pl.primary, primary), "ttl-primary.primary-lock-is-in-the-store")
	nHB := 0
	for _, r := range cl.log {
		if r.cmd == tikvrpc.CmdTxnHeartBeat {
			nHB++
			zzAssert(bytes.Equal(r.req.TxnHeartBeat().PrimaryLock, primary), "ttl-primary.heartbeat-names-the-primary-lock")
		}
	}
	zzAssert(nHB >= 1, "ttl-primary.heartbeats-flow")
	_ = txn.Rollback()
	zzRunAll()
}
