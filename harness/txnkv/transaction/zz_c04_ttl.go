package transaction

import (
	"bytes"
	"context"
	"sync/atomic"
	"time"

	"github.com/pingcap/kvproto/pkg/kvrpcpb"
	"github.com/tikv/client-go/v2/config"
	"github.com/tikv/client-go/v2/oracle"
	"github.com/tikv/client-go/v2/tikvrpc"
)

// C04 rule 5 — the TTL manager: while it runs, every heart-beat names the
// primary, advises a time-to-live that never decreases and exceeds the
// transaction's age on the oracle's clock, and none is sent after close()
// or once the age exceeds the maximum lifetime. The oracle's timestamps at
// the ticks are symbolic and non-decreasing; the ticker runs on virtual time.

func ZZ_C04_ttl_manager() {
	zzEngineOnly() // virtual clock
	s, cl := zzNewStore(nil, 0)
	defer s.close()
	// symbolic, monotone clock
	t0 := zzU64("ts.0")
	zzAssume(t0 >= 1<<30 && t0 < 1<<60)
	s.orc.last = t0
	s.orc.step = 1
	txn := zzBegin(s)
	txn.SetPessimistic(true)
	zzAssume(txn.Set([]byte("a"), []byte("1")) == nil)
	zzAssume(txn.Set([]byte("b"), []byte("2")) == nil)
	c, err := newTwoPhaseCommitter(txn, 0)
	zzAssume(err == nil)
	txn.committer = c
	zzAssume(c.initKeysAndMutations(context.Background()) == nil)
	start := txn.StartTS()
	primary := c.primary()
	// the primary is locked in the store (as after a pessimistic lock request)
	cl.key(primary).lock = &zzLock{startTS: start, primary: primary, op: kvrpcpb.Op_PessimisticLock, ttl: 3000}

	ticks := zzParam("ticks", 2)
	closeAt := zzChoice("closeAt", ticks+1) // close() before tick number closeAt (ticks = never)
	period := time.Duration(atomic.LoadUint64(&ManagedLockTTL)) * time.Millisecond / 2
	c.ttlManager.run(c, nil, false)
	zzRunAll() // let keepAlive reach its select

	var lastAdvised uint64
	sent := 0
	closed := false
	for i := 0; i < ticks; i++ {
		if i == closeAt {
			c.ttlManager.close()
			closed = true
			zzRunAll()
		}
		// the oracle moves on by a symbolic amount before the tick
		jump := zzU64("jump")
		zzAssume(jump < 1<<40)
		s.orc.last += jump
		nowBefore := s.orc.last
		zzAdvance(int64(period))
		zzRunAll()
		nHB := 0
		var hb *kvrpcpb.TxnHeartBeatRequest
		for _, r := range cl.log {
			if r.cmd == tikvrpc.CmdTxnHeartBeat {
				nHB++
				hb = r.req.TxnHeartBeat()
			}
		}
		if closed {
			zzAssert(nHB == sent, "ttl.no-heartbeat-after-close")
			continue
		}
		if nHB == sent {
			// the manager stopped by itself: only legal past the maximum lifetime
			age := uint64(oracle.ExtractPhysical(s.orc.last) - oracle.ExtractPhysical(start))
			zzAssert(age > config.GetGlobalConfig().MaxTxnTTL, "ttl.stops-only-past-max-lifetime")
			closed = true
			continue
		}
		zzAssert(nHB == sent+1, "ttl.one-heartbeat-per-tick")
		sent = nHB
		zzAssert(bytes.Equal(hb.PrimaryLock, primary), "ttl.names-the-primary")
		zzAssert(hb.StartVersion == start, "ttl.start-ts")
		age := uint64(oracle.ExtractPhysical(nowBefore) - oracle.ExtractPhysical(start))
		zzAssert(hb.AdviseLockTtl > age, "ttl.exceeds-the-transaction-age")
		zzAssert(hb.AdviseLockTtl >= lastAdvised, "ttl.never-decreases")
		zzAssert(age <= config.GetGlobalConfig().MaxTxnTTL, "ttl.none-past-max-lifetime")
		lastAdvised = hb.AdviseLockTtl
	}
	c.ttlManager.close()
	zzRunAll()
}
