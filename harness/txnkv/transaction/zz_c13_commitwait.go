package transaction

import (
	"context"
	"time"

	"github.com/pingcap/failpoint"
	"github.com/pkg/errors"
	"github.com/tikv/client-go/v2/config/retry"
	tikverr "github.com/tikv/client-go/v2/error"
	"github.com/tikv/client-go/v2/oracle"
	"github.com/tikv/client-go/v2/util"
)

// C13 / T5 — KVTxn.GetTimestampForCommit (commit-wait loop). See DESIGN.md §3 C13.
//
// The store is the kvstore interface seam: GetTimestampWithRetry returns
// timestamps that strictly increase in call order, or an error at a chosen
// call. The first timestamp and commitWaitUntilTSO have their physical parts
// from a boundary table (GetTimestampForCommit converts both to time.Time to
// compare the drift with the timeout: ×/÷ 10^3..10^6), logical parts symbolic;
// later timestamps are arbitrary larger 64-bit values below 2^63.

type zzC13Store struct {
	kvstore
	first  uint64 // first timestamp handed out
	last   uint64
	calls  int
	failAt int // this call fails (-1: never)
}

var zzC13ErrTSO = errors.New("zz: tso unavailable")

func (s *zzC13Store) GetTimestampWithRetry(bo *retry.Backoffer, scope string) (uint64, error) {
	idx := s.calls
	s.calls++
	if idx == s.failAt {
		return 0, zzC13ErrTSO
	}
	if idx == 0 {
		s.last = s.first
		return s.first, nil
	}
	ts := zzU64("ts.next")
	zzAssume(ts > s.last && ts < 1<<63)
	s.last = ts
	return ts, nil
}

const zzC13Base = int64(1_700_000_000_000) // ms

// physical offsets (ms) of commitWaitUntilTSO relative to the first timestamp
var zzC13Lag = []int64{-1, 0, 1, 4, 5, 6, 999, 1000, 1001, 5000}

// timeouts: disabled, 5 ms, the default 1 s
var zzC13Timeout = []time.Duration{0, 5 * time.Millisecond, time.Second}

// ZZ_C13_commit_wait — T5:
//   err == nil  =>  result > commitWaitUntilTSO, result is the last timestamp obtained
//   first > commitWaitUntilTSO  =>  (first, nil) after exactly one call
//   lagging and timeout == 0, or drift > timeout  =>  ErrCommitTSLag, result 0, no further call
//   oracle error => that error, result 0 (first call: passed through unchanged)
//   back-off budget exhausted => ErrCommitTSLag, result 0
func ZZ_C13_commit_wait() {
	if !zzInterp() {
		util.EnableFailpoints()
		_ = failpoint.Enable("tikvclient/fastBackoffBySkipSleep", "return")
	}
	k := zzParam("k", 2) // positions at which the oracle may fail: calls 0..k+1
	lagMs := zzC13Lag[zzChoice("lag.ms", len(zzC13Lag))]
	timeout := zzC13Timeout[zzChoice("timeout", len(zzC13Timeout))]
	l1 := int64(zzU32("first.logical") & 0x3ffff)
	l2 := int64(zzU32("wait.logical") & 0x3ffff)
	first := oracle.ComposeTS(zzC13Base, l1)
	wait := oracle.ComposeTS(zzC13Base+lagMs, l2)
	if zzBool("no-constraint") {
		wait = 0
	}
	s := &zzC13Store{first: first, failAt: zzChoice("failAt", k+3) - 1}
	txn := &KVTxn{store: s, startTS: first - 1, commitWaitUntilTSO: wait, commitWaitUntilTSOTimeout: timeout}
	bo := retry.NewBackofferWithVars(context.Background(), 20000, nil)

	ts, err := txn.GetTimestampForCommit(bo, oracle.GlobalTxnScope)

	if err == nil {
		zzAssert(ts > wait, "commitwait.result-above-constraint")
		zzAssert(ts == s.last, "commitwait.result-is-last-obtained")
		zzAssert(s.failAt < 0 || s.failAt >= s.calls, "commitwait.no-error-swallowed")
	} else {
		zzAssert(ts == 0, "commitwait.error-has-no-ts")
	}
	if s.failAt == 0 {
		zzAssert(err == zzC13ErrTSO && s.calls == 1, "commitwait.first-error-passes-through")
		return
	}
	if first > wait {
		zzAssert(err == nil && ts == first && s.calls == 1, "commitwait.no-lag-single-call")
		return
	}
	// lagging
	driftMs := lagMs // same base; whole milliseconds
	switch {
	case timeout == 0:
		zzAssert(tikverr.IsErrorCommitTSLag(err) && s.calls == 1, "commitwait.zero-timeout-fails-at-once")
	case time.Duration(driftMs)*time.Millisecond > timeout:
		zzAssert(tikverr.IsErrorCommitTSLag(err) && s.calls == 1, "commitwait.drift-too-large-fails-at-once")
	default:
		if err != nil {
			lag := tikverr.IsErrorCommitTSLag(err)
			tso := errors.Is(err, zzC13ErrTSO)
			zzAssert(lag != tso, "commitwait.error-kind")
			if tso {
				zzAssert(s.failAt == s.calls-1, "commitwait.oracle-error-stops-loop")
			} else {
				// budget exhausted: every timestamp obtained was still lagging
				zzAssert(s.last <= wait, "commitwait.gives-up-only-while-lagging")
			}
		}
		zzAssert(txn.commitLagWaitStats.firstAttemptTS == first, "commitwait.stats-first-attempt")
		zzAssert(txn.commitLagWaitStats.backoffCnt == s.calls-1, "commitwait.stats-backoff-count")
	}
}
