package transaction

import (
	"bytes"
	"context"
	"time"

	"github.com/pingcap/kvproto/pkg/kvrpcpb"
	"github.com/tikv/client-go/v2/config/retry"
	tikverr "github.com/tikv/client-go/v2/error"
	"github.com/tikv/client-go/v2/kv"
	"github.com/tikv/client-go/v2/tikvrpc"
	"github.com/tikv/client-go/v2/txnkv/txnlock"
	"github.com/tikv/client-go/v2/txnkv/txnsnapshot"
)

// C02 — a client crash anywhere in Commit. The real KVTxn.Commit (2PC / async commit / 1PC) runs
// against the harness store; at a request index chosen by the engine the committing client dies:
// that request is either never delivered or delivered and never answered, and nothing the dead
// client does afterwards reaches the store. Its locks then count as expired. A second client of the
// same cluster (own region cache, own REAL LockResolver, real KVSnapshot) reads every key at a fresh
// timestamp (order and access path are choices), a second reader follows at a later timestamp, and
// finally a resolver pass (as GC does) handles whatever lock is left. Checked: one outcome for all
// keys with one commit ts, no lock left, the outcome agrees with what Commit had reported before the
// crash, and every reader saw all of the transaction's writes or none of them - all iff the
// transaction is committed at or below the reader's timestamp.

type zzCrash struct {
	mode     int
	keys     []string
	s        *zzStore
	cl       *zzCluster
	peer     *zzStore
	txn      *KVTxn
	startTS  uint64
	old      map[string][]byte // value committed before the transaction (nil = none)
	want     map[string][]byte // value the transaction writes (nil = delete)
	returned bool
	err      error
	pessimistic  bool
	deleteSecond bool
	bodyErr      error // an error before Commit was called (the transaction gives up and rolls back)
}

func zzCrashRun(mode int, keys []string, pessimistic bool) *zzCrash {
	sc := &zzCrash{mode: mode, keys: keys, old: map[string][]byte{}, want: map[string][]byte{}}
	sc.s, sc.cl = zzNewStoreTS([][]byte{[]byte("m")}, zzParam("crashfaults", 0), true)
	cl := sc.cl
	if zzChoice("smallbatch", 2) == 1 {
		kv.TxnCommitBatchSize.Store(1)
	}
	cl.onePCAllowed = true
	cl.noForeignResolver = true
	cl.onlyCommitTsExpired = zzParam("crashfaultset", 0) == 1
	cl.allowFaultOn = func(cmd tikvrpc.CmdType) bool {
		return cmd == tikvrpc.CmdPrewrite || cmd == tikvrpc.CmdCommit
	}
	cl.crashArmed = true
	maxAt := zzParam("crashmax", 8)
	if pessimistic {
		maxAt += len(keys) // one lock request per key comes first
	}
	cl.crashAt = zzChoice("crash.at", maxAt)
	cl.crashDelivered = zzBool("crash.delivered")
	cl.crashCh = make(chan struct{})
	cl.never = make(chan struct{})
	// an older committed version under the second key
	oldKey := keys[1]
	sc.old[oldKey] = []byte("old")
	ks := cl.key([]byte(oldKey))
	ks.writes = append(ks.writes, zzWrite{startTS: 400, commitTS: 500, op: kvrpcpb.Op_Put, value: sc.old[oldKey]})

	txn := zzBegin(sc.s)
	sc.txn = txn
	txn.SetEnableAsyncCommit(mode == 1)
	txn.SetEnable1PC(mode == 2)
	txn.SetPessimistic(pessimistic)
	sc.startTS = txn.StartTS()
	cl.primary, cl.startTS = []byte(keys[0]), sc.startTS
	sc.pessimistic = pessimistic
	sc.deleteSecond = zzBool("delete-second")
	for i, k := range keys {
		if i == 1 && sc.deleteSecond {
			sc.want[k] = nil
			continue
		}
		sc.want[k] = append(zzBytesN("val", 1), byte('0'+i))
	}
	return sc
}

// zzSettle lets background goroutines finish: under the engine they run until all are blocked;
// natively it waits (bounded) until cond holds.
func zzSettle(cond func() bool) {
	if zzInterp() {
		zzRunAll()
		return
	}
	for i := 0; i < 400 && !cond(); i++ {
		time.Sleep(5 * time.Millisecond)
	}
}

// commit runs Commit (and the background work it starts) until it is over or the client is dead.
func (sc *zzCrash) commit() {
	done := make(chan struct{})
	go func() {
		defer close(done)
		txn := sc.txn
		for _, k := range sc.keys {
			if sc.pessimistic {
				// the locking phase is part of the transaction's life: a crash may hit it as well
				lctx := kv.NewLockCtx(sc.startTS, kv.LockNoWait, time.Now())
				if err := txn.LockKeys(context.Background(), lctx, []byte(k)); err != nil {
					sc.bodyErr = err
					break
				}
			}
			var err error
			if v := sc.want[k]; v == nil {
				err = txn.Delete([]byte(k))
			} else {
				err = txn.Set([]byte(k), v)
			}
			if err != nil {
				panic(err)
			}
		}
		if sc.bodyErr != nil {
			sc.err = sc.bodyErr
			_ = txn.Rollback()
		} else {
			sc.err = txn.Commit(context.Background())
		}
		sc.returned = true
		sc.s.wg.Wait()
	}()
	select {
	case <-done:
	case <-sc.cl.crashCh:
	}
}

func (sc *zzCrash) get(snap *txnsnapshot.KVSnapshot, k string) ([]byte, bool) {
	e, err := snap.Get(context.Background(), []byte(k))
	if err != nil {
		if tikverr.IsErrNotFound(err) {
			return nil, true
		}
		return nil, false
	}
	return e.Value, true
}

// read: one reader at a fresh timestamp reads every key (access path and order are choices).
func (sc *zzCrash) read(tag string) (uint64, map[string][]byte, bool) {
	ts, _ := sc.peer.orc.GetTimestamp(context.Background(), nil)
	snap := txnsnapshot.NewTiKVSnapshot(sc.peer, ts, 0)
	out := map[string][]byte{}
	ok := true
	if zzChoice("batchget", 2) == 1 {
		var ks [][]byte
		for _, k := range sc.keys {
			ks = append(ks, []byte(k))
		}
		m, err := snap.BatchGet(context.Background(), ks)
		ok = err == nil
		for _, k := range sc.keys {
			if e, in := m[k]; in {
				out[k] = e.Value
			}
		}
		return ts, out, ok
	}
	first := zzChoice("first", len(sc.keys))
	for i := range sc.keys {
		k := sc.keys[(first+i)%len(sc.keys)]
		v, good := sc.get(snap, k)
		ok = ok && good
		if v != nil {
			out[k] = v
		}
	}
	return ts, out, ok
}

func zzC02(mode int, keys []string, pessimistic bool) {
	sc := zzCrashRun(mode, keys, pessimistic)
	defer sc.s.close()
	cl := sc.cl
	sc.commit()
	if !cl.crashed {
		// no crash within this run: keep one representative (crash index == number of requests sent)
		zzAssume(cl.crashAt == cl.mainRPCs)
	}
	// the dead client's locks are considered expired from now on
	cl.lockExpired = true
	cl.holdSecondaryChecks = true
	sc.s.orc.expired = true
	sc.peer = zzNewPeer(sc.s)
	defer sc.peer.close()

	ts1, seen1, ok1 := sc.read("r1")
	zzAssert(ok1, "c02.reader-finishes")
	ts2, seen2, ok2 := sc.read("r2")
	zzAssert(ok2, "c02.second-reader-finishes")
	// Readers need not clean up: a snapshot that has learnt a transaction's outcome tells the store to
	// ignore / read through its other locks, and decided locks may be cleaned by background tasks.
	// A resolver pass (as GC does) over whatever is left ends the transaction's life.
	noLock := func() bool { cl.mu.Lock(); defer cl.mu.Unlock(); return !cl.anyLockOf(sc.startTS) }
	zzSettle(noLock)
	for _, k := range keys {
		ks := cl.key([]byte(k))
		if ks.lock != nil && ks.lock.startTS == sc.startTS {
			l := txnlock.NewLock(zzKeyErrLocked(ks).Locked)
			bo := retry.NewBackofferWithVars(context.Background(), 1000, nil)
			caller, _ := sc.peer.orc.GetTimestamp(context.Background(), nil)
			_, err := sc.peer.resolver.ResolveLocks(bo, caller, []*txnlock.Lock{l})
			zzAssert(err == nil, "c02.resolver-pass-finishes")
		}
	}
	zzSettle(noLock)
	zzAssert(!cl.anyLockOf(sc.startTS), "c02.no-lock-left")

	// one outcome
	ncommitted, nrolled := 0, 0
	var commitTS uint64
	oneTS := true
	for _, k := range keys {
		w := cl.key([]byte(k)).record(sc.startTS)
		if w != nil && w.commitTS != 0 {
			if ncommitted > 0 && w.commitTS != commitTS {
				oneTS = false
			}
			commitTS = w.commitTS
			ncommitted++
		} else {
			nrolled++
		}
	}
	zzAssert(ncommitted == 0 || nrolled == 0, "c02.all-or-nothing")
	zzAssert(oneTS, "c02.one-commit-ts")
	committed := ncommitted == len(keys)
	if committed {
		zzAssert(commitTS > sc.startTS, "c02.commit-ts-exceeds-start-ts")
		for _, k := range keys {
			w := cl.key([]byte(k)).record(sc.startTS)
			wantOp := kvrpcpb.Op_Put
			if sc.want[k] == nil {
				wantOp = kvrpcpb.Op_Del
			}
			zzAssert(w.op == wantOp && bytes.Equal(w.value, sc.want[k]), "c02.committed-records-carry-the-buffered-writes")
		}
	}
	// what the dead client had been told
	if sc.returned {
		if sc.err == nil {
			zzAssert(committed, "c02.acknowledged-success-is-committed")
		} else if !tikverr.IsErrorUndetermined(sc.err) {
			zzAssert(!committed, "c02.definite-failure-is-rolled-back")
		}
	}
	// readers: all of the writes or none, all iff committed at or below the reader's timestamp
	for i, seen := range []map[string][]byte{seen1, seen2} {
		ts := []uint64{ts1, ts2}[i]
		visible := committed && commitTS <= ts
		good := true
		for _, k := range keys {
			exp := sc.old[k]
			if visible {
				exp = sc.want[k]
			}
			good = good && bytes.Equal(seen[k], exp)
		}
		if i == 0 {
			zzAssert(good, "c02.first-reader-sees-all-or-none")
		} else {
			zzAssert(good, "c02.second-reader-sees-all-or-none")
		}
	}
}

func ZZ_C02_crash_2pc()   { zzC02(0, []string{"a", "b", "x"}, false) }
func ZZ_C02_crash_async() { zzC02(1, []string{"a", "b", "x"}, false) }
func ZZ_C02_crash_1pc()   { zzC02(2, []string{"a", "b"}, false) }

// pessimistic transactions: every key is locked (one request per key) before it is written; the
// crash may hit the locking phase, the prewrite of the locked keys or the commit.
func ZZ_C02_crash_pessimistic_2pc()   { zzC02(0, []string{"a", "b", "x"}, true) }
func ZZ_C02_crash_pessimistic_async() { zzC02(1, []string{"a", "b", "x"}, true) }
