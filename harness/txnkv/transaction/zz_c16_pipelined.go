package transaction

import (
	"bytes"
	"context"

	"github.com/pingcap/kvproto/pkg/kvrpcpb"
	"github.com/tikv/client-go/v2/oracle"
	"github.com/tikv/client-go/v2/txnkv/txnsnapshot"
)

// C16 — pipelined transactions: the real KVTxn with the pipelined MemDB, its
// flush goroutine, commitFlushedMutations and resolveFlushedLocks run against
// the harness store (Flush, BufferBatchGet, Commit, region-wide ResolveLock).

func zzBeginPipelined(s *zzStore) *KVTxn {
	startTS, _ := s.orc.GetTimestamp(s.ctx, nil)
	snap := txnsnapshot.NewTiKVSnapshot(s, startTS, 0)
	txn, err := NewTiKVTxn(s, snap, startTS, &TxnOptions{TxnScope: oracle.GlobalTxnScope,
		PipelinedTxn: PipelinedTxnOptions{Enable: true, FlushConcurrency: 1, ResolveLockConcurrency: 1}})
	if err != nil {
		panic(err)
	}
	return txn
}

var zzC16Pool = [][]byte{[]byte("a"), []byte("c"), []byte("m"), []byte("x")} // region border at "m"

// ZZ_C16_outcome: whatever subset of keys is written and flushed (in one or two
// flushes), Commit commits every flushed key and Rollback removes every flushed
// lock — no lock of the transaction is left in the touched range.
func ZZ_C16_outcome() {
	s, cl := zzNewStore([][]byte{[]byte("m")}, 0)
	defer s.close()
	txn := zzBeginPipelined(s)
	start := txn.StartTS()
	ctx := context.Background()
	var written [][]byte
	rounds := zzParam("flushes", 2)
	for r := 0; r < rounds; r++ {
		n := 0
		for _, k := range zzC16Pool {
			if zzChoice("w."+string(k), 2) == 1 {
				v := append(zzBytesN("v", 1), 'v')
				zzAssume(txn.Set(k, v) == nil)
				written = append(written, k)
				n++
			}
		}
		if n > 0 {
			_, err := txn.GetMemBuffer().Flush(true)
			zzAssert(err == nil, "c16.flush-ok")
			zzAssert(txn.GetMemBuffer().FlushWait() == nil, "c16.flush-wait-ok")
		}
	}
	zzAssume(len(written) > 0)
	commit := zzChoice("commit", 2) == 1
	var err error
	if commit {
		err = txn.Commit(ctx)
	} else {
		err = txn.Rollback()
	}
	s.wg.Wait()
	zzAssert(err == nil, "c16.end-ok")
	zzAssert(!cl.unmodelled, "c16.only-modelled-commands")
	if len(written) == 1 {
		zzNote("single_flushed_key", true)
	}
	if bytes.Equal(written[len(written)-1], []byte("m")) {
		zzNote("largest_key_on_region_border", true)
	}
	for _, k := range written {
		zzAssert(!cl.lockedBy(k, start), "c16.no-flushed-lock-left")
		if commit {
			zzAssert(cl.committed(k, start), "c16.commit-commits-every-flushed-key")
		} else {
			zzAssert(!cl.committed(k, start), "c16.rollback-commits-nothing")
		}
	}
}

// ZZ_C16_reads: a read returns the latest write of the transaction whether it
// is in the mutable buffer, in the flushed tier (store) or deleted; every
// buffered mutation reaches exactly one flush; generations increase by one.
func ZZ_C16_reads() {
	s, cl := zzNewStore([][]byte{[]byte("m")}, 0)
	defer s.close()
	k := zzC16Pool[zzChoice("key", len(zzC16Pool))]
	// the key may carry a value committed before the transaction started
	committedBefore := zzChoice("committed-before", 2) == 1
	if committedBefore {
		cl.key(k).writes = append(cl.key(k).writes, zzWrite{startTS: 10, commitTS: 20, op: kvrpcpb.Op_Put, value: []byte("v0")})
	}
	txn := zzBeginPipelined(s)
	ctx := context.Background()
	v1 := append(zzBytesN("v1", 1), '1')
	v2 := append(zzBytesN("v2", 1), '2')
	zzAssume(txn.Set(k, v1) == nil)
	got, err := txn.Get(ctx, k)
	zzAssert(err == nil && bytes.Equal(got.Value, v1), "c16.read-mutable")
	_, err = txn.GetMemBuffer().Flush(true)
	zzAssert(err == nil, "c16.reads.flush1")
	zzAssert(txn.GetMemBuffer().FlushWait() == nil, "c16.reads.flushwait1")
	got, err = txn.Get(ctx, k)
	zzAssert(err == nil && bytes.Equal(got.Value, v1), "c16.read-flushed")
	step := zzChoice("second", 3)
	switch step {
	case 0: // overwrite in the mutable tier hides the flushed value
		zzAssume(txn.Set(k, v2) == nil)
		got, err = txn.Get(ctx, k)
		zzAssert(err == nil && bytes.Equal(got.Value, v2), "c16.read-newer-mutable-wins")
	case 1: // delete hides the flushed value, before and after being flushed itself
		zzAssume(txn.Delete(k) == nil)
		_, err = txn.Get(ctx, k)
		zzAssert(err != nil, "c16.delete-hides-flushed")
		_, err = txn.GetMemBuffer().Flush(true)
		zzAssert(err == nil, "c16.reads.flush2")
		zzAssert(txn.GetMemBuffer().FlushWait() == nil, "c16.reads.flushwait2")
		_, err = txn.Get(ctx, k)
		zzAssert(err != nil, "c16.flushed-delete-hides")
		// once more after another (empty) flush round: the deletion is in neither local buffer
		_, err = txn.GetMemBuffer().Flush(true)
		zzAssert(err == nil, "c16.reads.flush2b")
		zzAssert(txn.GetMemBuffer().FlushWait() == nil, "c16.reads.flushwait2b")
		_, err = txn.Get(ctx, k)
		zzAssert(err != nil, "c16.flushed-delete-hides-after-second-flush")
	case 2: // overwrite, flush again: the second generation's value is read
		zzAssume(txn.Set(k, v2) == nil)
		_, err = txn.GetMemBuffer().Flush(true)
		zzAssert(err == nil, "c16.reads.flush3")
		zzAssert(txn.GetMemBuffer().FlushWait() == nil, "c16.reads.flushwait3")
		got, err = txn.Get(ctx, k)
		zzAssert(err == nil && bytes.Equal(got.Value, v2), "c16.read-second-generation")
	}
	// flush accounting
	var lastGen uint64
	seen := 0
	for _, f := range cl.flushes {
		zzAssert(f.Generation == lastGen+1, "c16.generations-increase-by-one")
		lastGen = f.Generation
		for _, m := range f.Mutations {
			if bytes.Equal(m.Key, k) {
				seen++
			}
		}
		zzAssert(f.StartTs == txn.StartTS() && len(f.PrimaryKey) > 0, "c16.flush-names-txn-and-primary")
		_ = kvrpcpb.Op_Put
	}
	want := 1
	if step != 0 {
		want = 2
	}
	zzAssert(seen == want, "c16.each-mutation-flushed-exactly-once")
	_ = txn.Rollback()
	s.wg.Wait()
}

// ZZ_C16_flush_error: one batch of a flush is refused by the store after another
// batch of the same flush was applied. The error must surface (the transaction
// cannot commit), and Rollback must still drive every flushed lock — including
// those of the partially applied flush — to the rollback outcome.
func ZZ_C16_flush_error() {
	s, cl := zzNewStore([][]byte{[]byte("m")}, 0)
	defer s.close()
	txn := zzBeginPipelined(s)
	start := txn.StartTS()
	ctx := context.Background()
	rounds := 2
	cl.refuseFlushIn = uint64(10 + zzChoice("refuse.region", 2))
	cl.refuseFlushGen = uint64(1 + zzChoice("refuse.generation", rounds))
	var written [][]byte
	last := map[string][]byte{}
	sawError := false
	for r := 0; r < rounds; r++ {
		n := 0
		for _, k := range zzC16Pool {
			if zzChoice("w."+string(k), 2) == 1 {
				v := append(zzBytesN("v", 1), 'v')
				if txn.Set(k, v) != nil {
					sawError = true
					continue
				}
				written = append(written, k)
				last[string(k)] = v
				n++
			}
		}
		if n > 0 {
			if _, err := txn.GetMemBuffer().Flush(true); err != nil {
				sawError = true
			}
			if err := txn.GetMemBuffer().FlushWait(); err != nil {
				sawError = true
			}
		}
	}
	zzAssume(len(written) > 0)
	commit := zzChoice("commit", 2) == 1
	var err error
	if commit {
		err = txn.Commit(ctx)
	} else {
		err = txn.Rollback()
	}
	s.wg.Wait()
	zzAssert(!cl.unmodelled, "c16.flusherr.only-modelled-commands")
	if cl.flushRefused {
		// a refused flush is reported to the caller ...
		zzAssert(sawError || (commit && err != nil), "c16.flusherr.error-surfaces")
	}
	if commit && err == nil {
		// ... and a transaction that nevertheless commits has lost none of its writes
		for _, k := range written {
			w := cl.key(k).record(start)
			zzAssert(w != nil && w.commitTS != 0, "c16.flusherr.commit-loses-no-write")
			if w != nil {
				zzAssert(bytes.Equal(w.value, last[string(k)]), "c16.flusherr.commit-keeps-the-latest-value")
			}
		}
	} else {
		for _, k := range zzC16Pool {
			zzAssert(!cl.committed(k, start), "c16.flusherr.failed-txn-commits-nothing")
		}
	}
	if !commit || err != nil {
		for _, k := range zzC16Pool {
			zzAssert(!cl.lockedBy(k, start), "c16.flusherr.no-flushed-lock-left")
		}
	}
}

// ZZ_C16_staging: staging levels of a pipelined transaction. A write made inside a level that is
// discarded is gone for every read path (get, batch get, and a get after a batch get), a write of a
// released level stays; the value below the level - buffered, flushed or committed before the
// transaction - is what the reads return afterwards.
func ZZ_C16_staging() {
	s, cl := zzNewStore([][]byte{[]byte("m")}, 0)
	defer s.close()
	k := zzC16Pool[zzChoice("key", len(zzC16Pool))]
	ctx := context.Background()
	var below []byte // what a read must return once the level is discarded (nil = not found)
	base := zzChoice("below", 4) // nothing, committed before, buffered, flushed
	if base == 1 {
		cl.key(k).writes = append(cl.key(k).writes, zzWrite{startTS: 10, commitTS: 20, op: kvrpcpb.Op_Put, value: []byte("v0")})
		below = []byte("v0")
	}
	txn := zzBeginPipelined(s)
	buf := txn.GetMemBuffer()
	if base >= 2 {
		below = append(zzBytesN("vb", 1), 'b')
		zzAssume(txn.Set(k, below) == nil)
		if base == 3 {
			_, err := buf.Flush(true)
			zzAssert(err == nil && buf.FlushWait() == nil, "c16.staging.flush-below")
		}
	}
	h := buf.Staging()
	v := append(zzBytesN("vs", 1), 's')
	del := zzBool("delete-in-level")
	if del {
		zzAssume(txn.Delete(k) == nil)
	} else {
		zzAssume(txn.Set(k, v) == nil)
	}
	// reads inside the level see its write; the read path used here must not outlive the level
	switch zzChoice("read-in-level", 3) {
	case 1:
		got, err := txn.Get(ctx, k)
		if del {
			zzAssert(err != nil, "c16.staging.get-in-level-sees-delete")
		} else {
			zzAssert(err == nil && bytes.Equal(got.Value, v), "c16.staging.get-in-level")
		}
	case 2:
		m, err := txn.BatchGet(ctx, [][]byte{k})
		e, in := m[string(k)]
		if del {
			zzAssert(err == nil && !in, "c16.staging.batchget-in-level-sees-delete")
		} else {
			zzAssert(err == nil && in && bytes.Equal(e.Value, v), "c16.staging.batchget-in-level")
		}
	}
	want := below
	if zzBool("release") {
		buf.Release(h)
		want = v
		if del {
			want = nil
		}
	} else {
		buf.Cleanup(h)
	}
	got, err := txn.Get(ctx, k)
	if want == nil {
		zzAssert(err != nil, "c16.staging.get-after-level-not-found")
	} else {
		zzAssert(err == nil && bytes.Equal(got.Value, want), "c16.staging.get-after-level")
	}
	m, err := txn.BatchGet(ctx, [][]byte{k})
	e, in := m[string(k)]
	if want == nil {
		zzAssert(err == nil && !in, "c16.staging.batchget-after-level-not-found")
	} else {
		zzAssert(err == nil && in && bytes.Equal(e.Value, want), "c16.staging.batchget-after-level")
	}
	_ = txn.Rollback()
	s.wg.Wait()
}

// ZZ_C16_read_during_flush: reads while a flush is in flight (the flushed generation sits in the
// buffer being flushed and has not reached the store yet) and after it has landed, through Get and
// BatchGet in either order: the latest write of the transaction is returned at every moment - also by a
// Get that follows a BatchGet issued during the flush (the BatchGet cache must not outlive the truth).
func ZZ_C16_read_during_flush() {
	zzEngineOnly() // "in flight" is a scheduling fact: the flush goroutine runs when the main goroutine blocks
	s, cl := zzNewStore([][]byte{[]byte("m")}, 0)
	defer s.close()
	k := zzC16Pool[zzChoice("key", len(zzC16Pool))]
	ctx := context.Background()
	var want []byte // nil = not found
	if zzBool("committed-before") {
		cl.key(k).writes = append(cl.key(k).writes, zzWrite{startTS: 10, commitTS: 20, op: kvrpcpb.Op_Put, value: []byte("v0")})
		want = []byte("v0")
	}
	txn := zzBeginPipelined(s)
	buf := txn.GetMemBuffer()
	read := func(label string, viaBatch bool) {
		var got []byte
		found := false
		if viaBatch {
			m, err := txn.BatchGet(ctx, [][]byte{k})
			zzAssert(err == nil, "c16.during.batchget-no-error")
			if e, in := m[string(k)]; in {
				got, found = e.Value, true
			}
		} else {
			e, err := txn.Get(ctx, k)
			if err == nil {
				got, found = e.Value, true
			}
		}
		ok := (want == nil && !found) || (want != nil && found && bytes.Equal(got, want))
		switch label {
		case "flying":
			zzAssert(ok, "c16.during.read-while-flush-in-flight")
		case "landed":
			zzAssert(ok, "c16.during.read-after-flush-landed")
		default:
			zzAssert(ok, "c16.during.read-after-newer-write")
		}
	}
	// first generation: a value or a delete
	if zzBool("first-is-delete") {
		zzAssume(txn.Delete(k) == nil)
		want = nil
	} else {
		want = append(zzBytesN("v1", 1), '1')
		zzAssume(txn.Set(k, want) == nil)
	}
	_, err := buf.Flush(true)
	zzAssert(err == nil, "c16.during.flush-starts")
	// the flush goroutine has not run yet: the generation is in the buffer being flushed only
	firstViaBatch := zzBool("first-read-batch")
	read("flying", firstViaBatch)
	if zzBool("write-during-flush") {
		want = append(zzBytesN("v2", 1), '2')
		zzAssume(txn.Set(k, want) == nil)
		read("newer", zzBool("newer-read-batch"))
	}
	zzAssert(buf.FlushWait() == nil, "c16.during.flush-lands")
	read("landed", !firstViaBatch)
	read("landed", firstViaBatch)
	_ = txn.Rollback()
	s.wg.Wait()
}
