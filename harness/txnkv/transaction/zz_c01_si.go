package transaction

import (
	"bytes"
	"context"
	"time"

	"github.com/pingcap/kvproto/pkg/kvrpcpb"
	tikverr "github.com/tikv/client-go/v2/error"
	"github.com/tikv/client-go/v2/kv"
)

// C01 — snapshot isolation and external consistency of the histories two real transactions produce.
// Two client processes (own region cache, own lock resolver, real KVTxn / KVSnapshot) share the
// harness store (faithful mode: write-conflict, key-exists, lock-conflict checks) and the oracle.
// Every request of either client and every timestamp fetch is a scheduling point; the engine
// explores every interleaving at that granularity (zzSched). Each transaction runs one of a few
// small programs over the keys "a" and "x" (two regions). At the end the history (start / commit
// timestamps, values read, writes, results, real-time order) is checked against the definition.

type zzRead struct {
	key   string
	val   []byte // nil = not found
	ok    bool   // the read returned (value or not-found) rather than an error
	locking bool // a locking read of a pessimistic transaction (value as of its for-update ts)
	ts    uint64 // the timestamp the read is as of (start ts, or for-update ts of a locking read)
}

type zzWriteOp struct {
	key    string
	val    []byte // nil = delete
	insert bool   // the key is presumed not to exist
}

type zzT struct {
	id          int
	s           *zzStore
	txn         *KVTxn
	prog        int
	pessimistic bool
	startTS     uint64
	beginStep   int
	endStep     int
	reads       []zzRead
	writes      []zzWriteOp
	tried       bool // Commit was called
	err         error
	done        bool
}

const (
	zzProgRMW       = iota // r(a) w(a)
	zzProgSkew             // r(a) w(x)
	zzProgBlind            // w(a) w(x)
	zzProgReadOnly         // r(a) r(x)
	zzProgInsert           // insert(a) w(x)
	zzProgInsertDel        // insert(a) delete(a) w(x)
	zzProgDelete           // r(x) delete(a)
	zzNumProgs
)

func (t *zzT) get(k string) {
	e, err := t.txn.Get(context.Background(), []byte(k))
	r := zzRead{key: k, ts: t.startTS}
	switch {
	case err == nil:
		r.val, r.ok = e.Value, true
	case tikverr.IsErrNotFound(err):
		r.ok = true
	}
	t.reads = append(t.reads, r)
}

func (t *zzT) lock(k string) error {
	fut, err := t.s.orc.GetTimestamp(context.Background(), nil)
	if err != nil {
		return err
	}
	lctx := kv.NewLockCtx(fut, kv.LockNoWait, time.Now())
	lctx.ReturnValues = true
	lctx.Values = map[string]kv.ReturnedValue{}
	if err := t.txn.LockKeys(context.Background(), lctx, []byte(k)); err != nil {
		return err
	}
	r := zzRead{key: k, ok: true, locking: true, ts: fut}
	if v, in := lctx.Values[k]; in && v.Exists {
		r.val = v.Value
	}
	t.reads = append(t.reads, r)
	return nil
}

func (t *zzT) set(k string, v []byte, insert bool) error {
	if insert {
		// declared before the key is locked: a pessimistic lock request then carries the existence check
		t.txn.GetMemBuffer().UpdateFlags([]byte(k), kv.SetPresumeKeyNotExists)
	}
	if t.pessimistic {
		if err := t.lock(k); err != nil {
			return err
		}
	}
	t.writes = append(t.writes, zzWriteOp{key: k, val: v, insert: insert})
	return t.txn.Set([]byte(k), v)
}

// writeBegin: from when on the transaction excludes other writers of k - its start ts, or, for a
// pessimistic transaction, the for-update ts at which it locked the key (the conflict check of a
// pessimistic lock is made against that timestamp, not against the start ts).
func (t *zzT) writeBegin(k string) uint64 {
	if t.pessimistic {
		for _, r := range t.reads {
			if r.locking && r.key == k {
				return r.ts
			}
		}
	}
	return t.startTS
}

func (t *zzT) del(k string) error {
	if t.pessimistic {
		if err := t.lock(k); err != nil {
			return err
		}
	}
	// a delete after an insert of the same transaction keeps the existence check
	for i := range t.writes {
		if t.writes[i].key == k && t.writes[i].insert {
			t.writes[i].val = nil
			return t.txn.Delete([]byte(k))
		}
	}
	t.writes = append(t.writes, zzWriteOp{key: k})
	return t.txn.Delete([]byte(k))
}

func (t *zzT) body(g *zzSched, mode int) {
	defer func() { t.done = true }()
	t.txn = zzBegin(t.s)
	t.beginStep = g.steps
	t.startTS = t.txn.StartTS()
	t.txn.SetEnableAsyncCommit(mode == 1)
	t.txn.SetEnable1PC(mode == 2)
	t.txn.SetPessimistic(t.pessimistic)
	val := func(tag byte) []byte { return []byte{'v', byte('0' + t.id), tag} }
	var err error
	switch t.prog {
	case zzProgRMW:
		t.get("a")
		err = t.set("a", val('a'), false)
	case zzProgSkew:
		t.get("a")
		err = t.set("x", val('x'), false)
	case zzProgBlind:
		if err = t.set("a", val('a'), false); err == nil {
			err = t.set("x", val('x'), false)
		}
	case zzProgReadOnly:
		t.get("a")
		t.get("x")
	case zzProgInsert:
		if err = t.set("a", val('a'), true); err == nil {
			err = t.set("x", val('x'), false)
		}
	case zzProgInsertDel:
		if err = t.set("a", val('a'), true); err == nil {
			if err = t.del("a"); err == nil {
				err = t.set("x", val('x'), false)
			}
		}
	case zzProgDelete:
		t.get("x")
		err = t.del("a")
	}
	if err != nil {
		t.err = err
		_ = t.txn.Rollback()
	} else {
		t.tried = true
		t.err = t.txn.Commit(context.Background())
	}
	t.endStep = g.steps
	t.s.wg.Wait()
}

// stores: the write puts a record into the store (an optimistic insert that is deleted again only
// sends an existence check).
func (t *zzT) stores(w *zzWriteOp) bool { return !(w.insert && w.val == nil && !t.pessimistic) }

func (t *zzT) committed() bool { return t.tried && t.err == nil }

func (t *zzT) writesKey(k string) *zzWriteOp {
	for i := range t.writes {
		if t.writes[i].key == k {
			return &t.writes[i]
		}
	}
	return nil
}

// zzVersion: a committed version of a key in the history (initial data or a committed transaction).
type zzVersion struct {
	commitTS uint64
	val      []byte
	owner    int // -1 = initial data
}

func zzC01(mode int, pessimistic bool) {
	zzEngineOnly()
	s, cl := zzNewStoreTS([][]byte{[]byte("m")}, 0, true)
	defer s.close()
	cl.faithful = true
	cl.onePCAllowed = true
	cl.noForeignResolver = true
	g := &zzSched{maxPreempt: zzParam("preempt", 2)}
	if pessimistic {
		g.maxPreempt = zzParam("preempt_p", 1) // twice as many requests per transaction
	}
	cl.sched = g
	s.orc.sched = g
	// initial data: "a" may already exist
	initial := map[string][]byte{}
	if zzBool("a-exists") {
		initial["a"] = []byte("a0")
		ks := cl.key([]byte("a"))
		ks.writes = append(ks.writes, zzWrite{startTS: 400, commitTS: 500, op: kvrpcpb.Op_Put, value: initial["a"]})
	}
	peer := zzNewPeer(s)
	defer peer.close()
	progs := zzParam("progs", zzNumProgs)
	ts := []*zzT{
		{id: 0, s: s, prog: zzChoice("prog.0", progs), pessimistic: pessimistic},
		{id: 1, s: peer, prog: zzChoice("prog.1", progs), pessimistic: pessimistic},
	}
	// the two clients are interchangeable: one representative of each unordered pair of programs
	zzAssume(ts[0].prog <= ts[1].prog)
	for _, t := range ts {
		t := t
		go t.body(g, mode)
	}
	finished := g.run(func() bool { return ts[0].done && ts[1].done }, zzParam("maxsteps", 40))
	if !finished {
		zzCut("schedule longer than the step bound")
	}

	// the versions of each key
	versions := map[string][]zzVersion{}
	for k, v := range initial {
		versions[k] = append(versions[k], zzVersion{commitTS: 500, val: v, owner: -1})
	}
	for _, t := range ts {
		if !t.committed() {
			continue
		}
		if len(t.writes) == 0 {
			continue // nothing to commit: a read-only transaction has no commit ts
		}
		zzAssert(t.txn.commitTS > t.startTS, "c01.commit-ts-exceeds-start-ts")
		for _, w := range t.writes {
			versions[w.key] = append(versions[w.key], zzVersion{commitTS: t.txn.commitTS, val: w.val, owner: t.id})
		}
	}
	// the store agrees with what the clients were told
	for _, t := range ts {
		for _, w := range t.writes {
			rec := cl.key([]byte(w.key)).record(t.startTS)
			stored := rec != nil && rec.commitTS != 0
			if t.committed() {
				if w.insert && w.val == nil && !t.pessimistic {
					// insert + delete in one optimistic transaction: only the existence check is sent, nothing is written
					zzAssert(!stored, "c01.insert-then-delete-writes-nothing")
					continue
				}
				if w.insert && w.val == nil {
					// pessimistic: the key is locked, the delete (or the bare lock) is committed
					zzAssert(stored && rec.commitTS == t.txn.commitTS && (rec.op == kvrpcpb.Op_Del || rec.op == kvrpcpb.Op_Lock) && len(rec.value) == 0,
						"c01.pessimistic-insert-then-delete-leaves-no-value")
					continue
				}
				zzAssert(stored && rec.commitTS == t.txn.commitTS, "c01.committed-write-is-in-the-store-at-the-commit-ts")
				wantOp := kvrpcpb.Op_Put
				if w.val == nil {
					wantOp = kvrpcpb.Op_Del
				}
				zzAssert(rec.op == wantOp || (w.insert && rec.op == kvrpcpb.Op_Insert), "c01.committed-write-op")
				zzAssert(bytes.Equal(rec.value, w.val), "c01.committed-write-value")
			} else {
				zzAssert(!stored, "c01.failed-transaction-leaves-no-write")
			}
		}
	}
	zzAssert(!cl.anyLockOf(ts[0].startTS) && !cl.anyLockOf(ts[1].startTS), "c01.no-lock-left-after-both-ended")
	visible := func(k string, at uint64, except int) []byte {
		var best *zzVersion
		vs := versions[k]
		for i := range vs {
			v := &vs[i]
			if v.owner == except || v.commitTS > at {
				continue
			}
			if best == nil || v.commitTS > best.commitTS {
				best = v
			}
		}
		if best == nil {
			return nil
		}
		return best.val
	}
	// reads: the newest version committed at or below the read's timestamp
	for _, t := range ts {
		for _, r := range t.reads {
			zzAssert(r.ok, "c01.read-returns")
			want := visible(r.key, r.ts, t.id)
			if r.locking {
				zzAssert(bytes.Equal(r.val, want), "c01.locking-read-returns-the-newest-committed-value")
			} else {
				zzAssert(bytes.Equal(r.val, want), "c01.read-sees-the-snapshot-at-start-ts")
			}
		}
	}
	// first committer wins: committed transactions that wrote the same key do not overlap
	a, b := ts[0], ts[1]
	if a.committed() && b.committed() {
		for _, w := range a.writes {
			if !a.stores(&w) || b.writesKey(w.key) == nil || !b.stores(b.writesKey(w.key)) {
				continue
			}
			disjoint := a.txn.commitTS < b.writeBegin(w.key) || b.txn.commitTS < a.writeBegin(w.key)
			zzAssert(disjoint, "c01.overlapping-committed-transactions-wrote-no-common-key")
		}
	}
	// a locking read keeps the key: nothing else commits on it between the lock and the locker's end
	for _, t := range ts {
		o := ts[1-t.id]
		if !t.pessimistic || !o.committed() {
			continue
		}
		for _, r := range t.reads {
			if !r.locking || o.writesKey(r.key) == nil {
				continue
			}
			if !o.stores(o.writesKey(r.key)) {
				continue
			}
			end := t.startTS
			if t.committed() {
				end = t.txn.commitTS
			}
			inside := o.txn.commitTS > r.ts && t.committed() && o.txn.commitTS < end
			zzAssert(!inside, "c01.nothing-commits-on-a-locked-key-until-the-locker-ends")
		}
	}
	// inserts: committed only if the key had no value at the commit point; key-exists otherwise
	for _, t := range ts {
		for _, w := range t.writes {
			if !w.insert {
				continue
			}
			if t.committed() {
				if w.val == nil {
					// insert + delete: only an existence check (Op_CheckNotExists) is sent at prewrite
					if visible(w.key, t.startTS, t.id) == nil {
						zzNote("absent_at_start_ts", "true")
					}
					zzAssert(visible(w.key, t.txn.commitTS, t.id) == nil, "c01.insert-deleted-again-commits-only-on-an-absent-key")
					continue
				}
				zzAssert(visible(w.key, t.txn.commitTS, t.id) == nil, "c01.insert-commits-only-on-an-absent-key")
			} else if _, had := initial[w.key]; had && len(ts[1-t.id].writes) == 0 {
				// the key existed all the time and nobody else changed anything: the failure is key-exists
				if !(t.err != nil && tikverr.IsErrKeyExist(t.err)) {
					if t.err != nil {
						zzNote("err", t.err.Error())
					}
					desc := ""
					for _, r := range cl.log {
						desc += string(rune('0'+r.client)) + ":" + r.cmd.String() + ","
					}
					zzNote("rpcs", desc)
				}
				zzAssert(t.err != nil && tikverr.IsErrKeyExist(t.err), "c01.insert-on-an-existing-key-fails-with-key-exists")
			}
		}
	}
	// external consistency: acknowledged before the other began => visible to it
	for _, t := range ts {
		o := ts[1-t.id]
		if t.committed() && len(t.writes) > 0 && t.endStep < o.beginStep {
			zzAssert(o.startTS >= t.txn.commitTS, "c01.start-ts-not-below-an-earlier-acknowledged-commit-ts")
		}
	}
	// a transaction that met no other transaction's data succeeds
	if !ts[0].tried || !ts[1].tried {
		return
	}
}

func ZZ_C01_2pc()               { zzC01(0, false) }
func ZZ_C01_async()             { zzC01(1, false) }
func ZZ_C01_1pc()               { zzC01(2, false) }
func ZZ_C01_pessimistic_2pc()   { zzC01(0, true) }
func ZZ_C01_pessimistic_async() { zzC01(1, true) }
