package transaction

// Shared harness infrastructure for the transaction package (C03, C04, C06,
// C16): a harness kvstore built from the REAL region cache, request sender,
// lock resolver and KVTxn/2PC code over
//   - a harness PD (static layout),
//   - a harness oracle (monotone counter),
//   - a harness TiKV client: a small MVCC model of the store plus a symbolic
//     fault script deciding, per RPC, whether the request is applied and what
//     the client gets to see.
// Only interface seams are used, so every counterexample replays natively.

import (
	"bytes"
	"context"
	"sync"
	"time"

	"github.com/pingcap/kvproto/pkg/errorpb"
	"github.com/pingcap/kvproto/pkg/kvrpcpb"
	"github.com/pingcap/kvproto/pkg/metapb"
	"github.com/pkg/errors"
	"github.com/tikv/client-go/v2/config"
	"github.com/tikv/client-go/v2/config/retry"
	"github.com/tikv/client-go/v2/internal/client"
	"github.com/tikv/client-go/v2/internal/latch"
	"github.com/tikv/client-go/v2/internal/locate"
	"github.com/tikv/client-go/v2/kv"
	"github.com/tikv/client-go/v2/oracle"
	"github.com/tikv/client-go/v2/tikvrpc"
	"github.com/tikv/client-go/v2/txnkv/txnlock"
	"github.com/tikv/client-go/v2/txnkv/txnsnapshot"
	"github.com/tikv/client-go/v2/util/async"
	pd "github.com/tikv/pd/client"
	"github.com/tikv/pd/client/clients/router"
	"github.com/tikv/pd/client/opt"
	"github.com/tikv/pd/client/pkg/caller"
)

// ---- PD -------------------------------------------------------------------

type zzPD struct {
	pd.Client
	regions []*metapb.Region
	leaders []*metapb.Peer
	stores  []*metapb.Store
}

func (p *zzPD) WithCallerComponent(caller.Component) pd.Client { return p }
func (p *zzPD) GetClusterID(context.Context) uint64          { return 1 }
func (p *zzPD) Close()                                       {}

func zzRegionHas(r *metapb.Region, key []byte) bool {
	return bytes.Compare(r.StartKey, key) <= 0 && (len(r.EndKey) == 0 || bytes.Compare(key, r.EndKey) < 0)
}

func (p *zzPD) wrap(i int) *router.Region {
	return &router.Region{Meta: p.regions[i], Leader: p.leaders[i]}
}

func (p *zzPD) GetRegion(ctx context.Context, key []byte, opts ...opt.GetRegionOption) (*router.Region, error) {
	for i, r := range p.regions {
		if zzRegionHas(r, key) {
			return p.wrap(i), nil
		}
	}
	return nil, nil
}

func (p *zzPD) GetPrevRegion(ctx context.Context, key []byte, opts ...opt.GetRegionOption) (*router.Region, error) {
	for i, r := range p.regions {
		if zzRegionHas(r, key) {
			if i == 0 {
				return nil, nil
			}
			return p.wrap(i - 1), nil
		}
	}
	return nil, nil
}

func (p *zzPD) GetRegionByID(ctx context.Context, id uint64, opts ...opt.GetRegionOption) (*router.Region, error) {
	for i, r := range p.regions {
		if r.Id == id {
			return p.wrap(i), nil
		}
	}
	return nil, nil
}

func (p *zzPD) ScanRegions(ctx context.Context, key, endKey []byte, limit int, opts ...opt.GetRegionOption) ([]*router.Region, error) {
	var out []*router.Region
	for i, r := range p.regions {
		if len(r.EndKey) != 0 && bytes.Compare(r.EndKey, key) <= 0 {
			continue
		}
		if len(endKey) != 0 && bytes.Compare(r.StartKey, endKey) >= 0 {
			break
		}
		out = append(out, p.wrap(i))
		if limit > 0 && len(out) >= limit {
			break
		}
	}
	return out, nil
}

func (p *zzPD) BatchScanRegions(ctx context.Context, ranges []router.KeyRange, limit int, opts ...opt.GetRegionOption) ([]*router.Region, error) {
	var out []*router.Region
	seen := map[uint64]bool{}
	for _, rg := range ranges {
		rs, _ := p.ScanRegions(ctx, rg.StartKey, rg.EndKey, limit, opts...)
		for _, r := range rs {
			if !seen[r.Meta.Id] {
				seen[r.Meta.Id] = true
				out = append(out, r)
			}
		}
	}
	return out, nil
}

func (p *zzPD) GetStore(ctx context.Context, id uint64, opts ...opt.GetStoreOption) (*metapb.Store, error) {
	for _, s := range p.stores {
		if s.Id == id {
			return s, nil
		}
	}
	return nil, nil
}

func (p *zzPD) GetAllStores(ctx context.Context, opts ...opt.GetStoreOption) ([]*metapb.Store, error) {
	return p.stores, nil
}

// zzLayout builds len(splits)+1 regions split at the given increasing keys.
// split cuts the region that holds key strictly inside it at key: the left part gets a new id, the
// right part keeps the id; both carry the next version.
func (p *zzPD) split(key []byte) bool {
	for i, r := range p.regions {
		if zzRegionHas(r, key) && !bytes.Equal(r.StartKey, key) {
			nid := uint64(50 + len(p.regions))
			peers := []*metapb.Peer{{Id: nid*10 + 1, StoreId: 1}, {Id: nid*10 + 2, StoreId: 2}, {Id: nid*10 + 3, StoreId: 3}}
			left := &metapb.Region{Id: nid, StartKey: r.StartKey, EndKey: key,
				RegionEpoch: &metapb.RegionEpoch{ConfVer: 1, Version: r.RegionEpoch.Version + 1}, Peers: peers}
			right := &metapb.Region{Id: r.Id, StartKey: key, EndKey: r.EndKey,
				RegionEpoch: &metapb.RegionEpoch{ConfVer: 1, Version: r.RegionEpoch.Version + 1}, Peers: r.Peers}
			regions := append([]*metapb.Region{}, p.regions[:i]...)
			regions = append(regions, left, right)
			regions = append(regions, p.regions[i+1:]...)
			leaders := append([]*metapb.Peer{}, p.leaders[:i]...)
			leaders = append(leaders, peers[0], p.leaders[i])
			leaders = append(leaders, p.leaders[i+1:]...)
			p.regions, p.leaders = regions, leaders
			return true
		}
	}
	return false
}

func zzLayout(splits [][]byte) *zzPD {
	p := &zzPD{}
	p.stores = []*metapb.Store{{Id: 1, Address: "s1"}, {Id: 2, Address: "s2"}, {Id: 3, Address: "s3"}}
	var start []byte
	for i := 0; i <= len(splits); i++ {
		var end []byte
		if i < len(splits) {
			end = splits[i]
		}
		peers := []*metapb.Peer{{Id: uint64(100 + 10*i + 1), StoreId: 1}, {Id: uint64(100 + 10*i + 2), StoreId: 2}, {Id: uint64(100 + 10*i + 3), StoreId: 3}}
		p.regions = append(p.regions, &metapb.Region{Id: uint64(10 + i), StartKey: start, EndKey: end,
			RegionEpoch: &metapb.RegionEpoch{ConfVer: 1, Version: 1}, Peers: peers})
		p.leaders = append(p.leaders, peers[0])
		start = end
	}
	return p
}

// ---- oracle ------------------------------------------------------------------

// zzOracle issues strictly increasing timestamps; the physical clock used for
// expiry is the logical counter itself (ttl arithmetic is not the subject here).
type zzOracleCore struct {
	oracle.Oracle
	sched   *zzSched
	mu      sync.Mutex
	last    uint64
	step    uint64
	issued  []uint64
	expired bool // what IsExpired answers
	fail    bool // GetTimestamp fails (PD unavailable)
	// symbolic: every issued timestamp is the previous one plus a symbolic step
	symbolic bool
	// symbolicStep: the gaps are symbolic too (otherwise a fixed step of 7)
	symbolicStep bool
}

type zzFuture struct {
	ts  uint64
	err error
}

func (f zzFuture) Wait() (uint64, error) { return f.ts, f.err }

// zzOracle is one client's handle on the shared oracle.
type zzOracle struct {
	*zzOracleCore
	id int
}

func (o *zzOracle) GetTimestamp(ctx context.Context, op *oracle.Option) (uint64, error) {
	if o.sched != nil {
		o.sched.point(o.id, "tso")
	}
	return o.zzOracleCore.GetTimestamp(ctx, op)
}
func (o *zzOracle) GetTimestampAsync(ctx context.Context, op *oracle.Option) oracle.Future {
	ts, err := o.GetTimestamp(ctx, op)
	return zzFuture{ts, err}
}

func (o *zzOracleCore) GetTimestamp(ctx context.Context, op *oracle.Option) (uint64, error) {
	o.mu.Lock()
	defer o.mu.Unlock()
	if o.fail {
		return 0, errors.New("zz: PD is unavailable")
	}
	if o.symbolic && o.symbolicStep {
		st := zzU64("ts.step")
		zzAssume(st >= 1 && st <= 1<<20)
		o.step = st
	}
	o.last += o.step
	o.issued = append(o.issued, o.last)
	return o.last, nil
}
func (o *zzOracleCore) GetTimestampAsync(ctx context.Context, op *oracle.Option) oracle.Future {
	ts, err := o.GetTimestamp(ctx, op)
	return zzFuture{ts, err}
}
func (o *zzOracleCore) GetLowResolutionTimestamp(ctx context.Context, op *oracle.Option) (uint64, error) {
	return o.last, nil
}
func (o *zzOracleCore) GetLowResolutionTimestampAsync(ctx context.Context, op *oracle.Option) oracle.Future {
	return zzFuture{o.last, nil}
}
func (o *zzOracleCore) IsExpired(lockTS, ttl uint64, op *oracle.Option) bool { return o.expired }
func (o *zzOracleCore) UntilExpired(lockTS, ttl uint64, op *oracle.Option) int64 {
	if o.expired {
		return 0
	}
	return 1000
}
func (o *zzOracleCore) Close() {}
func (o *zzOracleCore) ValidateReadTS(ctx context.Context, readTS uint64, isStaleRead bool, op *oracle.Option) error {
	return nil
}
func (o *zzOracleCore) GetExternalTimestamp(ctx context.Context) (uint64, error) { return 0, nil }
func (o *zzOracleCore) SetLowResolutionTimestampUpdateInterval(time.Duration) error {
	return nil
}

// ---- store model ---------------------------------------------------------------

type zzLock struct {
	startTS     uint64
	primary     []byte
	op          kvrpcpb.Op
	value       []byte
	minCommitTS uint64
	ttl         uint64
	forUpdateTS uint64
	async       bool
	secondaries [][]byte
	generation  uint64 // > 0: written by a pipelined flush
}

type zzWrite struct {
	startTS  uint64
	commitTS uint64 // 0 = rollback record
	op       kvrpcpb.Op
	value    []byte
}

type zzKeyState struct {
	key    []byte
	lock   *zzLock
	writes []zzWrite // newest last
}

// zzRPC is one request as seen by the harness client (the request log).
type zzRPC struct {
	cmd       tikvrpc.CmdType
	req       *tikvrpc.Request
	applied   bool // the store executed it
	storeOK   bool // the store executed it successfully (ghost: known to the harness even when the answer was lost)
	answered  bool // the client saw the store's answer (not a transport error)
	event     int
	client    int
	regionID  uint64
	keys      [][]byte
	isPrimary bool
	resp      *tikvrpc.Response // the store's answer when the client saw it
}

const (
	zzEvOK = iota
	zzEvLostRequest
	zzEvLostResponse
	zzEvServerBusy
	zzEvFakeEpoch
	zzEvUndeterminedRegionErr
	zzEvCommitTsExpired
	zzEvForeignResolve // another client's resolver rolls our primary back just before this request is executed
	zzEvDelay          // the request is held back while other requests of the transaction proceed (concurrent batches only)
	zzEvLostResponseCtxDone // the request is executed, its answer is lost and the caller's context ends at that moment
	zzEvReaderPush          // a reader with a fresh timestamp passes over the region just before this prewrite (the store's max_ts moves)
	zzEvSplit               // the region splits (once, at cl.splitKey) before the request is executed: EpochNotMatch with the new regions
	zzNumEvents
)

type zzCluster struct {
	mu     sync.Mutex
	keys   []*zzKeyState
	log    []zzRPC
	faults int // faults still allowed by the script bound
	// per-command fault filter: which events may be chosen for which command
	allowFaultOn func(cmd tikvrpc.CmdType) bool
	events       []int
	maxReadTS    uint64
	foreignRollbackAllowed bool
	foreignRolledBack      bool
	onePCAllowed           bool
	delays                 bool     // the script may hold a request back (concurrent batches)
	lockExpired            bool     // what the store answers about ttl expiry to a foreign resolver
	realResolver           func(key []byte) // runs another client's real LockResolver on the lock of key
	noForeignResolver      bool     // the foreign-resolver event is not part of the script
	regionErrorsOnly       bool     // the script may only inject retryable region errors (no lost messages)
	flushes                []*kvrpcpb.FlushRequest
	refuseFlushIn          uint64 // region id whose flush batch of generation refuseFlushGen is refused (0 = none)
	refuseFlushGen         uint64
	flushRefused           bool
	regions                []*metapb.Region
	lockOutcomes           bool     // pessimistic lock outcomes are chosen by the script
	everLocked             [][]byte // keys that ever carried a pessimistic lock of the transaction
	primary                []byte // the transaction under test (for the foreign-resolver event)
	startTS                uint64
	unmodelled             bool
	// client crash (C02): the committing client dies at its crashAt-th request (0-based), which is
	// either never delivered or delivered but never answered; afterwards none of its requests
	// reaches the store. Requests of peer clients are not affected and not counted.
	onlyCommitTsExpired bool // the script's only fault is CommitTsExpired on a commit request
	orc            *zzOracleCore // for events that need a fresh timestamp (nil: none)
	pd             *zzPD
	splitKey       []byte // the script may split the region holding this key once (nil: not part of the script)
	splitDone      bool
	cancelCaller   func() // ends the context the transaction's caller passed to Commit (nil: not part of the script)
	peerRPCs       int
	peers          int
	holdSecondaryChecks bool // the order in which concurrent CheckSecondaryLocks requests arrive is a choice
	// faithful (C01): conflict checks of a store that serves several transactions at once -
	// write-conflict and key-exists checks at prewrite, pessimistic lock conflicts and real values,
	// pessimistic-lock-not-found; off for the single-transaction harnesses, whose scripts choose
	// such outcomes themselves.
	faithful bool
	// sched (C01): every request of every client and every timestamp fetch waits for its turn
	sched *zzSched
	crashArmed     bool
	crashAt        int
	crashDelivered bool
	crashed        bool
	mainRPCs       int
	crashCh        chan struct{}
	never          chan struct{}
	crashedOn      *zzRPC
}

// runForeign: another client meets one of our locks (which one is a choice) and
// runs the REAL lock resolver on it; its RPCs come back into this client and
// no faults are injected on them. Called with c.mu held.
func (c *zzCluster) runForeign() {
	var locked [][]byte
	for _, ks := range c.keys {
		if ks.lock != nil && ks.lock.startTS == c.startTS {
			locked = append(locked, ks.key)
		}
	}
	if len(locked) == 0 {
		return
	}
	k := locked[zzChoice("foreign.meets", len(locked))]
	saved := c.faults
	c.faults = 0
	c.mu.Unlock()
	c.realResolver(k)
	c.mu.Lock()
	c.faults = saved
}

func (c *zzCluster) eventName(req *tikvrpc.Request) string {
	name := "event." + req.Type.String()
	switch req.Type {
	case tikvrpc.CmdPrewrite:
		if ms := req.Prewrite().Mutations; len(ms) > 0 {
			name += "." + string(ms[0].Key)
		}
	case tikvrpc.CmdCommit:
		if ks := req.Commit().Keys; len(ks) > 0 {
			name += "." + string(ks[0])
		}
	}
	return name
}

func (c *zzCluster) key(k []byte) *zzKeyState {
	for _, ks := range c.keys {
		if bytes.Equal(ks.key, k) {
			return ks
		}
	}
	ks := &zzKeyState{key: append([]byte(nil), k...)}
	c.keys = append(c.keys, ks)
	return ks
}

func (ks *zzKeyState) record(startTS uint64) *zzWrite {
	for i := range ks.writes {
		if ks.writes[i].startTS == startTS {
			return &ks.writes[i]
		}
	}
	return nil
}

func (c *zzCluster) committed(key []byte, startTS uint64) bool {
	w := c.key(key).record(startTS)
	return w != nil && w.commitTS != 0
}

func (c *zzCluster) rolledBack(key []byte, startTS uint64) bool {
	w := c.key(key).record(startTS)
	return w != nil && w.commitTS == 0
}

func (c *zzCluster) lockedBy(key []byte, startTS uint64) bool {
	l := c.key(key).lock
	return l != nil && l.startTS == startTS
}

// anyLockOf reports whether any key is still locked by startTS.
func (c *zzCluster) anyLockOf(startTS uint64) bool {
	for _, ks := range c.keys {
		if ks.lock != nil && ks.lock.startTS == startTS {
			return true
		}
	}
	return false
}

func zzKeyErrLocked(ks *zzKeyState) *kvrpcpb.KeyError {
	l := ks.lock
	return &kvrpcpb.KeyError{Locked: &kvrpcpb.LockInfo{PrimaryLock: l.primary, LockVersion: l.startTS, Key: ks.key,
		LockTtl: l.ttl, LockType: l.op, MinCommitTs: l.minCommitTS, UseAsyncCommit: l.async, Secondaries: l.secondaries,
		LockForUpdateTs: l.forUpdateTS}}
}

func (c *zzCluster) prewrite(r *kvrpcpb.PrewriteRequest) *kvrpcpb.PrewriteResponse {
	resp := &kvrpcpb.PrewriteResponse{}
	start := r.StartVersion
	// validate first (all-or-nothing per request, like one raft command)
	for i, m := range r.Mutations {
		ks := c.key(m.Key)
		if w := ks.record(start); w != nil {
			if w.commitTS == 0 {
				resp.Errors = append(resp.Errors, &kvrpcpb.KeyError{Conflict: &kvrpcpb.WriteConflict{StartTs: start, ConflictTs: start,
					ConflictCommitTs: start, Key: m.Key, Primary: r.PrimaryLock, Reason: kvrpcpb.WriteConflict_SelfRolledBack}})
			} else {
				// a prewrite that arrives after the transaction's own commit record (a re-sent 1PC /
				// async-commit prewrite whose first copy was executed): TiKV's newer-version check
				// answers with a write conflict against that record
				resp.Errors = append(resp.Errors, &kvrpcpb.KeyError{Conflict: &kvrpcpb.WriteConflict{StartTs: start, ConflictTs: start,
					ConflictCommitTs: w.commitTS, Key: m.Key, Primary: r.PrimaryLock, Reason: kvrpcpb.WriteConflict_Optimistic}})
			}
			continue
		}
		if ks.lock != nil && ks.lock.startTS != start {
			resp.Errors = append(resp.Errors, zzKeyErrLocked(ks))
			continue
		}
		if c.faithful {
			if e := c.prewriteConflict(r, i, m, ks); e != nil {
				resp.Errors = append(resp.Errors, e)
			}
		}
	}
	if len(resp.Errors) > 0 {
		return resp
	}
	minCommit := r.MinCommitTs
	if c.maxReadTS+1 > minCommit {
		minCommit = c.maxReadTS + 1
	}
	if start+1 > minCommit {
		minCommit = start + 1
	}
	if r.TryOnePc && c.onePCAllowed {
		if r.MaxCommitTs != 0 && minCommit > r.MaxCommitTs {
			// fall back
			resp.OnePcCommitTs = 0
		} else {
			for _, m := range r.Mutations {
				ks := c.key(m.Key)
				if ks.record(start) == nil {
					ks.lock = nil
					ks.writes = append(ks.writes, zzWrite{startTS: start, commitTS: minCommit, op: m.Op, value: m.Value})
				}
			}
			resp.OnePcCommitTs = minCommit
			return resp
		}
	}
	for _, m := range r.Mutations {
		ks := c.key(m.Key)
		if ks.record(start) != nil {
			continue
		}
		if m.Op == kvrpcpb.Op_CheckNotExists {
			// an existence check is a read at the start ts: it pushes max_ts like a get (TiKV does)
			if start > c.maxReadTS {
				c.maxReadTS = start
			}
			continue
		}
		ks.lock = &zzLock{startTS: start, primary: r.PrimaryLock, op: m.Op, value: m.Value, minCommitTS: minCommit, ttl: r.LockTtl,
			async: r.UseAsyncCommit, secondaries: r.Secondaries, forUpdateTS: r.ForUpdateTs}
	}
	if r.UseAsyncCommit {
		if r.MaxCommitTs != 0 && minCommit > r.MaxCommitTs {
			// async commit falls back: locks are plain 2PC locks
			for _, m := range r.Mutations {
				if l := c.key(m.Key).lock; l != nil && l.startTS == start {
					l.async = false
				}
			}
			resp.MinCommitTs = 0
		} else {
			resp.MinCommitTs = minCommit
		}
	}
	return resp
}

// newest: the newest committed data record (put or delete; lock and rollback records skipped).
func (ks *zzKeyState) newest() *zzWrite {
	var best *zzWrite
	for i := range ks.writes {
		w := &ks.writes[i]
		if w.commitTS == 0 || w.op == kvrpcpb.Op_Lock {
			continue
		}
		if best == nil || w.commitTS > best.commitTS {
			best = w
		}
	}
	return best
}

// newestCommitTS: the largest commit ts of any committed record of the key (TiKV's write-conflict
// check looks at every record kind except rollbacks).
func (ks *zzKeyState) newestCommitTS() uint64 {
	var ts uint64
	for i := range ks.writes {
		if ks.writes[i].commitTS > ts {
			ts = ks.writes[i].commitTS
		}
	}
	return ts
}

// prewriteConflict: TiKV's checks for one mutation of a prewrite request (faithful mode).
func (c *zzCluster) prewriteConflict(r *kvrpcpb.PrewriteRequest, i int, m *kvrpcpb.Mutation, ks *zzKeyState) *kvrpcpb.KeyError {
	start := r.StartVersion
	action := kvrpcpb.PrewriteRequest_SKIP_PESSIMISTIC_CHECK
	if i < len(r.PessimisticActions) {
		action = r.PessimisticActions[i]
	}
	if action == kvrpcpb.PrewriteRequest_DO_PESSIMISTIC_CHECK {
		// the key must carry this transaction's pessimistic lock (or already its prewrite lock)
		if ks.lock == nil || ks.lock.startTS != start {
			return &kvrpcpb.KeyError{Abort: "pessimistic lock not found"}
		}
		return nil
	}
	if ks.lock != nil && ks.lock.startTS == start && ks.lock.op != kvrpcpb.Op_PessimisticLock {
		return nil // a repeated prewrite
	}
	// optimistic transactions (and keys whose constraint check was deferred to prewrite) fail on a
	// newer version; keys a pessimistic transaction did not lock are written without that check
	if r.ForUpdateTs == 0 || action == kvrpcpb.PrewriteRequest_DO_CONSTRAINT_CHECK {
		if ts := ks.newestCommitTS(); ts > start {
			return &kvrpcpb.KeyError{Conflict: &kvrpcpb.WriteConflict{StartTs: start, ConflictTs: ts, ConflictCommitTs: ts, Key: m.Key,
				Primary: r.PrimaryLock, Reason: kvrpcpb.WriteConflict_Optimistic}}
		}
	}
	if m.Op == kvrpcpb.Op_Insert || m.Op == kvrpcpb.Op_CheckNotExists {
		if w := ks.newest(); w != nil && w.op != kvrpcpb.Op_Del {
			return &kvrpcpb.KeyError{AlreadyExist: &kvrpcpb.AlreadyExist{Key: m.Key}}
		}
	}
	return nil
}

// pessimistic lock outcomes chosen by the script
const (
	zzLockOK = iota
	zzLockWriteConflict
	zzLockKeyExists
	zzLockDeadlock
	zzLockWithConflict // force-lock mode only: locked although a newer version exists
	zzNumLockOutcomes
)

// pessimisticLock models TiKV's acquire-pessimistic-lock command: the request
// is one atomic command — if it fails for any key, no key of it is locked.
func (c *zzCluster) pessimisticLock(r *kvrpcpb.PessimisticLockRequest) *kvrpcpb.PessimisticLockResponse {
	resp := &kvrpcpb.PessimisticLockResponse{}
	force := r.WakeUpMode == kvrpcpb.PessimisticLockWakeUpMode_WakeUpModeForceLock
	outcome := zzLockOK
	if c.lockOutcomes {
		name := "lock"
		if len(r.Mutations) > 0 {
			name += "." + string(r.Mutations[0].Key)
		}
		outcome = zzChoice(name, zzNumLockOutcomes)
		if outcome == zzLockWithConflict && !force {
			zzAssume(false)
		}
	}
	// an own lock already present is simply kept (idempotent)
	var keyErr *kvrpcpb.KeyError
	k0 := r.Mutations[0].Key
	switch outcome {
	case zzLockWriteConflict:
		keyErr = &kvrpcpb.KeyError{Conflict: &kvrpcpb.WriteConflict{StartTs: r.StartVersion, ConflictTs: r.ForUpdateTs + 1,
			ConflictCommitTs: r.ForUpdateTs + 2, Key: k0, Primary: r.PrimaryLock, Reason: kvrpcpb.WriteConflict_PessimisticRetry}}
	case zzLockKeyExists:
		keyErr = &kvrpcpb.KeyError{AlreadyExist: &kvrpcpb.AlreadyExist{Key: k0}}
	case zzLockDeadlock:
		keyErr = &kvrpcpb.KeyError{Deadlock: &kvrpcpb.Deadlock{LockTs: r.StartVersion + 1, LockKey: k0, DeadlockKeyHash: 12345}}
	}
	if c.faithful && r.ForUpdateTs > c.maxReadTS {
		c.maxReadTS = r.ForUpdateTs // a pessimistic lock request reads as of its for-update ts
	}
	if c.faithful && keyErr == nil {
		for _, m := range r.Mutations {
			ks := c.key(m.Key)
			if ks.lock != nil && ks.lock.startTS != r.StartVersion {
				keyErr = zzKeyErrLocked(ks)
				break
			}
			if ks.record(r.StartVersion) != nil && ks.record(r.StartVersion).commitTS == 0 {
				keyErr = &kvrpcpb.KeyError{Abort: "pessimistic lock after rollback"}
				break
			}
			if ts := ks.newestCommitTS(); ts > r.ForUpdateTs {
				keyErr = &kvrpcpb.KeyError{Conflict: &kvrpcpb.WriteConflict{StartTs: r.StartVersion, ConflictTs: ts, ConflictCommitTs: ts,
					Key: m.Key, Primary: r.PrimaryLock, Reason: kvrpcpb.WriteConflict_PessimisticRetry}}
				break
			}
			if m.Assertion == kvrpcpb.Assertion_NotExist {
				if w := ks.newest(); w != nil && w.op != kvrpcpb.Op_Del {
					keyErr = &kvrpcpb.KeyError{AlreadyExist: &kvrpcpb.AlreadyExist{Key: m.Key}}
					break
				}
			}
		}
	}
	if keyErr != nil {
		resp.Errors = []*kvrpcpb.KeyError{keyErr}
		if force {
			resp.Results = []*kvrpcpb.PessimisticLockKeyResult{{Type: kvrpcpb.PessimisticLockKeyResultType_LockResultFailed}}
		}
		return resp
	}
	fut := r.ForUpdateTs
	if outcome == zzLockWithConflict {
		// the newer version's commit ts is arbitrary above the request's for-update ts
		d := zzU64("conflict.delta")
		zzAssume(d >= 1 && d <= 1<<20)
		fut = r.ForUpdateTs + d
	}
	for _, m := range r.Mutations {
		ks := c.key(m.Key)
		if c.faithful && r.LockOnlyIfExists {
			// lock-only-if-exists: an absent key is reported as not found and stays unlocked
			if w := ks.newest(); w == nil || w.op == kvrpcpb.Op_Del {
				continue
			}
		}
		if ks.lock != nil && ks.lock.startTS == r.StartVersion {
			if ks.lock.op == kvrpcpb.Op_PessimisticLock && ks.lock.forUpdateTS < fut {
				ks.lock.forUpdateTS = fut
			}
			continue
		}
		ks.lock = &zzLock{startTS: r.StartVersion, primary: r.PrimaryLock, op: kvrpcpb.Op_PessimisticLock, ttl: r.LockTtl, forUpdateTS: fut}
		c.everLocked = append(c.everLocked, append([]byte(nil), m.Key...))
	}
	if force {
		res := &kvrpcpb.PessimisticLockKeyResult{Type: kvrpcpb.PessimisticLockKeyResultType_LockResultNormal, Existence: true, Value: []byte("old")}
		if outcome == zzLockWithConflict {
			res.Type = kvrpcpb.PessimisticLockKeyResultType_LockResultLockedWithConflict
			res.LockedWithConflictTs = fut
		}
		resp.Results = []*kvrpcpb.PessimisticLockKeyResult{res}
		return resp
	}
	if r.ReturnValues || r.CheckExistence {
		for _, m := range r.Mutations {
			if c.faithful {
				// the newest committed value (nothing newer than for_update_ts exists, checked above)
				w := c.key(m.Key).newest()
				if w != nil && w.op != kvrpcpb.Op_Del {
					resp.Values = append(resp.Values, w.value)
					resp.NotFounds = append(resp.NotFounds, false)
				} else {
					resp.Values = append(resp.Values, nil)
					resp.NotFounds = append(resp.NotFounds, true)
				}
				continue
			}
			resp.Values = append(resp.Values, []byte("old"))
			resp.NotFounds = append(resp.NotFounds, false)
		}
	}
	return resp
}

// snapshotGet: the newest committed write at or below version; a lock of
// another transaction at or below version blocks the read, the reader's own
// lock does not.
func (c *zzCluster) snapshotGet(key []byte, version uint64, ctx *kvrpcpb.Context) ([]byte, bool, *kvrpcpb.KeyError) {
	ks := c.key(key)
	if version > c.maxReadTS {
		c.maxReadTS = version
	}
	if ks.lock != nil && ks.lock.startTS != version && ks.lock.startTS <= version && ks.lock.op != kvrpcpb.Op_PessimisticLock {
		// the reader may tell the store what it already knows about the lock's transaction (TiKV:
		// Context.resolved_locks are ignored, Context.committed_locks are read through)
		through, ignore := false, false
		for _, ts := range ctx.GetCommittedLocks() {
			through = through || ts == ks.lock.startTS
		}
		for _, ts := range ctx.GetResolvedLocks() {
			ignore = ignore || ts == ks.lock.startTS
		}
		switch {
		case through:
			if ks.lock.op == kvrpcpb.Op_Put {
				return ks.lock.value, true, nil
			}
			if ks.lock.op == kvrpcpb.Op_Del {
				return nil, false, nil
			}
		case ignore:
		default:
			return nil, false, zzKeyErrLocked(ks)
		}
	}
	var best *zzWrite
	for i := range ks.writes {
		w := &ks.writes[i]
		if w.commitTS == 0 || w.commitTS > version || w.op == kvrpcpb.Op_Lock {
			continue
		}
		if best == nil || w.commitTS > best.commitTS {
			best = w
		}
	}
	if best == nil || best.op == kvrpcpb.Op_Del {
		return nil, false, nil
	}
	return best.value, true, nil
}

// checkTxnStatus models TiKV's CheckTxnStatus on the primary key. Whether the
// lock's ttl has elapsed at CurrentTs is the environment's choice (c.lockExpired):
// "resolvers that consider the lock expired while the committer is still running".
func (c *zzCluster) checkTxnStatus(r *kvrpcpb.CheckTxnStatusRequest) *kvrpcpb.CheckTxnStatusResponse {
	out := &kvrpcpb.CheckTxnStatusResponse{}
	ks := c.key(r.PrimaryKey)
	if ks.lock != nil && ks.lock.startTS == r.LockTs {
		l := ks.lock
		if r.VerifyIsPrimary && !bytes.Equal(l.primary, r.PrimaryKey) {
			out.Error = &kvrpcpb.KeyError{PrimaryMismatch: &kvrpcpb.PrimaryMismatch{LockInfo: zzKeyErrLocked(ks).Locked}}
			return out
		}
		if l.async && !r.ForceSyncCommit {
			out.LockTtl = l.ttl
			out.LockInfo = zzKeyErrLocked(ks).Locked
			out.Action = kvrpcpb.Action_NoAction
			return out
		}
		if c.lockExpired || r.CurrentTs == ^uint64(0) {
			c.rollbackKey(r.PrimaryKey, r.LockTs)
			c.foreignRolledBack = true
			out.Action = kvrpcpb.Action_TTLExpireRollback
			return out
		}
		if r.CallerStartTs >= l.minCommitTS {
			l.minCommitTS = r.CallerStartTs + 1
			out.Action = kvrpcpb.Action_MinCommitTSPushed
		}
		out.LockTtl = l.ttl
		out.LockInfo = zzKeyErrLocked(ks).Locked
		return out
	}
	if w := ks.record(r.LockTs); w != nil {
		out.CommitVersion = w.commitTS
		out.Action = kvrpcpb.Action_NoAction
		return out
	}
	if r.RollbackIfNotExist {
		c.rollbackKey(r.PrimaryKey, r.LockTs)
		c.foreignRolledBack = true
		out.Action = kvrpcpb.Action_LockNotExistRollback
		return out
	}
	out.Error = &kvrpcpb.KeyError{TxnNotFound: &kvrpcpb.TxnNotFound{StartTs: r.LockTs, PrimaryKey: r.PrimaryKey}}
	return out
}

// checkSecondaryLocks models TiKV's CheckSecondaryLocks: a key that carries
// neither the lock nor a commit record gets a rollback record.
func (c *zzCluster) checkSecondaryLocks(r *kvrpcpb.CheckSecondaryLocksRequest) *kvrpcpb.CheckSecondaryLocksResponse {
	out := &kvrpcpb.CheckSecondaryLocksResponse{}
	for _, k := range r.Keys {
		ks := c.key(k)
		// a pessimistic lock means the key was never prewritten: TiKV removes it and leaves a
		// rollback record, exactly as for a missing lock
		if ks.lock != nil && ks.lock.startTS == r.StartVersion && ks.lock.op != kvrpcpb.Op_PessimisticLock {
			out.Locks = append(out.Locks, zzKeyErrLocked(ks).Locked)
			continue
		}
		if w := ks.record(r.StartVersion); w != nil && w.commitTS != 0 {
			out.CommitTs = w.commitTS
			out.Locks = nil
			return out
		}
		c.rollbackKey(k, r.StartVersion)
		c.foreignRolledBack = true
		out.CommitTs = 0
		out.Locks = nil
		return out
	}
	return out
}

func (c *zzCluster) commit(r *kvrpcpb.CommitRequest) *kvrpcpb.CommitResponse {
	resp := &kvrpcpb.CommitResponse{}
	for _, k := range r.Keys {
		ks := c.key(k)
		if ks.lock != nil && ks.lock.startTS == r.StartVersion {
			if r.CommitVersion < ks.lock.minCommitTS {
				resp.Error = &kvrpcpb.KeyError{CommitTsExpired: &kvrpcpb.CommitTsExpired{StartTs: r.StartVersion,
					AttemptedCommitTs: r.CommitVersion, Key: k, MinCommitTs: ks.lock.minCommitTS}}
				return resp
			}
			continue
		}
		if w := ks.record(r.StartVersion); w != nil && w.commitTS != 0 {
			continue
		}
		resp.Error = &kvrpcpb.KeyError{TxnLockNotFound: &kvrpcpb.TxnLockNotFound{Key: k}, Retryable: ""}
		resp.Error.Abort = "txn lock not found"
		return resp
	}
	for _, k := range r.Keys {
		ks := c.key(k)
		if ks.lock != nil && ks.lock.startTS == r.StartVersion {
			ks.writes = append(ks.writes, zzWrite{startTS: r.StartVersion, commitTS: r.CommitVersion, op: ks.lock.op, value: ks.lock.value})
			ks.lock = nil
		}
	}
	resp.CommitVersion = r.CommitVersion
	return resp
}

func (c *zzCluster) rollbackKey(k []byte, startTS uint64) *kvrpcpb.KeyError {
	ks := c.key(k)
	if w := ks.record(startTS); w != nil {
		if w.commitTS != 0 {
			return &kvrpcpb.KeyError{Abort: "already committed"}
		}
		return nil
	}
	if ks.lock != nil && ks.lock.startTS == startTS {
		ks.lock = nil
	}
	ks.writes = append(ks.writes, zzWrite{startTS: startTS, commitTS: 0})
	return nil
}

// zzForeignRollback models another client's resolver that considers our
// primary lock expired: it rolls the primary back (allowed only while the
// primary is locked and uncommitted).
func (c *zzCluster) foreignResolve(primary []byte, startTS uint64) {
	if !c.lockedBy(primary, startTS) || c.committed(primary, startTS) {
		return
	}
	l := c.key(primary).lock
	if !l.async {
		c.rollbackKey(primary, startTS)
		c.foreignRolledBack = true
		return
	}
	// async commit: the resolver must consult every secondary (CheckSecondaryLocks).
	// A secondary that is not locked gets a rollback record (so a late prewrite
	// of it fails); only if all are locked is the transaction committed, with
	// commit ts = max min-commit-ts.
	all := true
	commitTS := l.minCommitTS
	for _, sk := range l.secondaries {
		ks := c.key(sk)
		if ks.lock != nil && ks.lock.startTS == startTS {
			if ks.lock.minCommitTS > commitTS {
				commitTS = ks.lock.minCommitTS
			}
			continue
		}
		if w := ks.record(startTS); w != nil && w.commitTS != 0 {
			continue
		}
		all = false
	}
	keys := append([][]byte{primary}, l.secondaries...)
	if all {
		c.commit(&kvrpcpb.CommitRequest{StartVersion: startTS, Keys: keys, CommitVersion: commitTS})
		return
	}
	for _, k := range keys {
		c.rollbackKey(k, startTS)
	}
	c.foreignRolledBack = true
}

// ---- client ------------------------------------------------------------------------

type zzClient struct {
	cl   *zzCluster
	id   int // which client process (0 = the first store, 1.. = peers)
	peer bool // another client of the same cluster (recovery side of a crash scenario): no faults, no crash
}

func (c *zzClient) Close() error                                     { return nil }
func (c *zzClient) CloseAddr(addr string) error                      { return nil }
func (c *zzClient) SetEventListener(l client.ClientEventListener)    {}
func (c *zzClient) SendRequestAsync(ctx context.Context, addr string, req *tikvrpc.Request, cb async.Callback[*tikvrpc.Response]) {
	resp, err := c.SendRequest(ctx, addr, req, 0)
	cb.Invoke(resp, err)
}

var zzErrTransport = errors.New("zz: transport error")

func (c *zzClient) SendRequest(ctx context.Context, addr string, req *tikvrpc.Request, timeout time.Duration) (*tikvrpc.Response, error) {
	cl := c.cl
	if cl.sched != nil {
		cl.sched.point(c.id, req.Type.String())
	}
	if cl.holdSecondaryChecks && req.Type == tikvrpc.CmdCheckSecondaryLocks && len(req.CheckSecondaryLocks().Keys) > 0 &&
		zzChoice("hold.check-secondaries."+string(req.CheckSecondaryLocks().Keys[0]), 2) == 1 {
		// a resolver asks the regions of the secondaries concurrently: this request arrives after the others
		if zzInterp() {
			zzYield()
		} else {
			time.Sleep(50 * time.Millisecond)
		}
	}
	cl.mu.Lock()
	defer cl.mu.Unlock()
	rpc := zzRPC{cmd: req.Type, req: req, regionID: req.Context.GetRegionId(), client: c.id}
	ev := zzEvOK
	dying := false
	if c.peer {
		cl.peerRPCs++
		if cl.peerRPCs > 200 {
			zzAssert(false, "debug.peer-loop")
		}
	}
	if !c.peer && cl.crashArmed {
		if cl.crashed {
			// a dead client sends nothing
			cl.mu.Unlock()
			<-cl.never
		}
		if cl.mainRPCs == cl.crashAt {
			dying = true
		}
		cl.mainRPCs++
	}
	if dying {
		ev = zzEvLostRequest
		if cl.crashDelivered {
			ev = zzEvLostResponse
		}
	} else if !c.peer && cl.faults > 0 && (cl.allowFaultOn == nil || cl.allowFaultOn(req.Type)) {
		// the events that make sense for this request in the current store state
		allowed := []int{zzEvOK, zzEvServerBusy, zzEvFakeEpoch}
		if cl.onlyCommitTsExpired {
			// a reader pushed the primary's min-commit-ts between the commit-ts fetch and this request
			allowed = []int{zzEvOK}
			if req.Type == tikvrpc.CmdCommit {
				allowed = append(allowed, zzEvCommitTsExpired)
			}
		} else if !cl.regionErrorsOnly {
			allowed = append(allowed, zzEvLostRequest, zzEvLostResponse, zzEvUndeterminedRegionErr)
			if req.Type == tikvrpc.CmdCommit {
				allowed = append(allowed, zzEvCommitTsExpired)
			}
		}
		if !cl.noForeignResolver && cl.primary != nil && (cl.lockedBy(cl.primary, cl.startTS) || (cl.realResolver != nil && cl.anyLockOf(cl.startTS))) {
			allowed = append(allowed, zzEvForeignResolve)
		}
		if cl.delays {
			allowed = append(allowed, zzEvDelay)
		}
		if cl.cancelCaller != nil && !cl.regionErrorsOnly {
			allowed = append(allowed, zzEvLostResponseCtxDone)
		}
		if cl.splitKey != nil && !cl.splitDone && cl.pd != nil {
			allowed = append(allowed, zzEvSplit)
		}
		if cl.orc != nil && req.Type == tikvrpc.CmdPrewrite && !cl.regionErrorsOnly && !cl.onlyCommitTsExpired {
			allowed = append(allowed, zzEvReaderPush)
		}
		// the draw is named after the request it decides, so that a native replay
		// matches it regardless of the order in which goroutines send
		ev = allowed[zzChoice(cl.eventName(req), len(allowed))]
		if ev != zzEvOK {
			cl.faults--
		}
	}
	rpc.event = ev
	cl.events = append(cl.events, ev)
	switch req.Type {
	case tikvrpc.CmdPrewrite:
		r := req.Prewrite()
		for _, m := range r.Mutations {
			rpc.keys = append(rpc.keys, m.Key)
			if bytes.Equal(m.Key, r.PrimaryLock) {
				rpc.isPrimary = true
			}
		}
	case tikvrpc.CmdCommit:
		r := req.Commit()
		rpc.keys = r.Keys
		rpc.isPrimary = r.CommitRole == kvrpcpb.CommitRole_Primary
	}
	finish := func(resp *tikvrpc.Response, err error) (*tikvrpc.Response, error) {
		cl.log = append(cl.log, rpc)
		if dying {
			cl.crashed = true
			cl.crashedOn = &cl.log[len(cl.log)-1]
			close(cl.crashCh)
			cl.mu.Unlock()
			<-cl.never
		}
		return resp, err
	}
	switch ev {
	case zzEvLostRequest:
		return finish(nil, zzErrTransport)
	case zzEvServerBusy:
		resp, _ := tikvrpc.GenRegionErrorResp(req, &errorpb.Error{Message: "busy", ServerIsBusy: &errorpb.ServerIsBusy{Reason: "zz"}})
		rpc.answered = true
		return finish(resp, nil)
	case zzEvFakeEpoch:
		resp, _ := tikvrpc.GenRegionErrorResp(req, &errorpb.Error{Message: "epoch", EpochNotMatch: &errorpb.EpochNotMatch{}})
		rpc.answered = true
		return finish(resp, nil)
	case zzEvSplit:
		cl.splitDone = true
		var cur []*metapb.Region
		if cl.pd.split(cl.splitKey) {
			cl.regions = cl.pd.regions
			for _, r := range cl.pd.regions {
				if bytes.Equal(r.EndKey, cl.splitKey) || bytes.Equal(r.StartKey, cl.splitKey) {
					cur = append(cur, r)
				}
			}
		}
		resp, _ := tikvrpc.GenRegionErrorResp(req, &errorpb.Error{Message: "epoch", EpochNotMatch: &errorpb.EpochNotMatch{CurrentRegions: cur}})
		rpc.answered = true
		return finish(resp, nil)
	case zzEvDelay:
		// let the other batches of the transaction run first; afterwards another
		// client may already have met (and resolved) one of their locks
		cl.mu.Unlock()
		zzYield()
		cl.mu.Lock()
		if cl.realResolver != nil && cl.anyLockOf(cl.startTS) && zzChoice("after-delay.foreign", 2) == 1 {
			cl.runForeign()
		}
	case zzEvForeignResolve:
		if cl.realResolver != nil {
			// another client meets one of our locks and runs the REAL lock resolver
			// on it; its RPCs come back into this client (no faults are injected on them)
			cl.runForeign()
		} else {
			cl.foreignResolve(cl.primary, cl.startTS)
		}
	case zzEvReaderPush:
		// another transaction begins now and reads in this region: max_ts becomes its start ts
		if ts, err := cl.orc.GetTimestamp(context.Background(), nil); err == nil && ts > cl.maxReadTS {
			cl.maxReadTS = ts
		}
	case zzEvCommitTsExpired:
		r := req.Commit()
		rpc.answered = true
		return finish(&tikvrpc.Response{Resp: &kvrpcpb.CommitResponse{Error: &kvrpcpb.KeyError{CommitTsExpired: &kvrpcpb.CommitTsExpired{
			StartTs: r.StartVersion, AttemptedCommitTs: r.CommitVersion, Key: r.Keys[0], MinCommitTs: r.CommitVersion + 1}}}}, nil)
	}
	// the request reaches the store
	var resp *tikvrpc.Response
	rpc.applied = true
	switch req.Type {
	case tikvrpc.CmdPrewrite:
		resp = &tikvrpc.Response{Resp: cl.prewrite(req.Prewrite())}
	case tikvrpc.CmdCommit:
		cr := cl.commit(req.Commit())
		rpc.storeOK = cr.Error == nil && cr.RegionError == nil
		resp = &tikvrpc.Response{Resp: cr}
	case tikvrpc.CmdBatchRollback:
		r := req.BatchRollback()
		rpc.keys = r.Keys
		out := &kvrpcpb.BatchRollbackResponse{}
		for _, k := range r.Keys {
			if e := cl.rollbackKey(k, r.StartVersion); e != nil {
				out.Error = e
			}
		}
		resp = &tikvrpc.Response{Resp: out}
	case tikvrpc.CmdCheckTxnStatus:
		resp = &tikvrpc.Response{Resp: cl.checkTxnStatus(req.CheckTxnStatus())}
	case tikvrpc.CmdCheckSecondaryLocks:
		resp = &tikvrpc.Response{Resp: cl.checkSecondaryLocks(req.CheckSecondaryLocks())}
	case tikvrpc.CmdCleanup:
		r := req.Cleanup()
		out := &kvrpcpb.CleanupResponse{}
		if w := cl.key(r.Key).record(r.StartVersion); w != nil && w.commitTS != 0 {
			out.CommitVersion = w.commitTS
		} else if e := cl.rollbackKey(r.Key, r.StartVersion); e != nil {
			out.Error = e
		}
		resp = &tikvrpc.Response{Resp: out}
	case tikvrpc.CmdGet:
		r := req.Get()
		out := &kvrpcpb.GetResponse{}
		v, found, kerr := cl.snapshotGet(r.Key, r.Version, &req.Context)
		if kerr != nil {
			out.Error = kerr
		} else if found {
			out.Value = v
		} else {
			out.NotFound = true
		}
		resp = &tikvrpc.Response{Resp: out}
	case tikvrpc.CmdBatchGet:
		r := req.BatchGet()
		out := &kvrpcpb.BatchGetResponse{}
		for _, k := range r.Keys {
			v, found, kerr := cl.snapshotGet(k, r.Version, &req.Context)
			if kerr != nil {
				out.Pairs = append(out.Pairs, &kvrpcpb.KvPair{Key: k, Error: kerr})
			} else if found {
				out.Pairs = append(out.Pairs, &kvrpcpb.KvPair{Key: k, Value: v})
			}
		}
		resp = &tikvrpc.Response{Resp: out}
	case tikvrpc.CmdFlush:
		r := req.Flush()
		out := &kvrpcpb.FlushResponse{}
		cl.flushes = append(cl.flushes, r)
		if cl.refuseFlushIn != 0 && cl.refuseFlushIn == req.Context.GetRegionId() && r.Generation == cl.refuseFlushGen {
			// the store refuses this batch with a definite error (other batches of the flush may already be applied)
			out.Errors = []*kvrpcpb.KeyError{{Abort: "zz: flush refused"}}
			cl.flushRefused = true
			rpc.answered = true
			rpc.resp = &tikvrpc.Response{Resp: out}
			return finish(rpc.resp, nil)
		}
		for _, m := range r.Mutations {
			rpc.keys = append(rpc.keys, m.Key)
			ks := cl.key(m.Key)
			if ks.lock != nil && ks.lock.startTS != r.StartTs {
				out.Errors = append(out.Errors, zzKeyErrLocked(ks))
			}
		}
		if len(out.Errors) == 0 {
			for _, m := range r.Mutations {
				if m.Op == kvrpcpb.Op_CheckNotExists {
					continue
				}
				ks := cl.key(m.Key)
				ks.lock = &zzLock{startTS: r.StartTs, primary: r.PrimaryKey, op: m.Op, value: m.Value, minCommitTS: r.MinCommitTs,
					ttl: r.LockTtl, generation: r.Generation}
			}
		}
		resp = &tikvrpc.Response{Resp: out}
	case tikvrpc.CmdBufferBatchGet:
		r := req.BufferBatchGet()
		out := &kvrpcpb.BufferBatchGetResponse{}
		for _, k := range r.Keys {
			ks := cl.key(k)
			if ks.lock != nil && ks.lock.startTS == r.Version && ks.lock.generation > 0 {
				out.Pairs = append(out.Pairs, &kvrpcpb.KvPair{Key: k, Value: ks.lock.value})
			}
		}
		resp = &tikvrpc.Response{Resp: out}
	case tikvrpc.CmdResolveLock:
		r := req.ResolveLock()
		// region-wide resolve of one transaction: every lock of StartVersion whose key
		// lies in the request's region
		var region *metapb.Region
		for _, rg := range cl.regions {
			if rg.Id == req.Context.GetRegionId() {
				region = rg
			}
		}
		out := &kvrpcpb.ResolveLockResponse{}
		if len(r.TxnInfos) == 0 && len(r.Keys) > 0 {
			// resolve-lock-lite: only the listed keys
			for _, k := range r.Keys {
				ks := cl.key(k)
				if ks.lock != nil && ks.lock.startTS == r.StartVersion {
					if r.CommitVersion != 0 {
						ks.writes = append(ks.writes, zzWrite{startTS: r.StartVersion, commitTS: r.CommitVersion, op: ks.lock.op, value: ks.lock.value})
					} else {
						ks.writes = append(ks.writes, zzWrite{startTS: r.StartVersion, commitTS: 0})
					}
					ks.lock = nil
				}
			}
		} else if len(r.Keys) == 0 && len(r.TxnInfos) == 0 && region != nil {
			for _, ks := range cl.keys {
				if ks.lock != nil && ks.lock.startTS == r.StartVersion && zzRegionHas(region, ks.key) {
					if r.CommitVersion != 0 {
						ks.writes = append(ks.writes, zzWrite{startTS: r.StartVersion, commitTS: r.CommitVersion, op: ks.lock.op, value: ks.lock.value})
					} else {
						ks.writes = append(ks.writes, zzWrite{startTS: r.StartVersion, commitTS: 0})
					}
					ks.lock = nil
				}
			}
		} else {
			cl.unmodelled = true
		}
		resp = &tikvrpc.Response{Resp: out}
	case tikvrpc.CmdBroadcastTxnStatus:
		resp = &tikvrpc.Response{Resp: &kvrpcpb.BroadcastTxnStatusResponse{}}
	case tikvrpc.CmdPessimisticLock:
		r := req.PessimisticLock()
		for _, m := range r.Mutations {
			rpc.keys = append(rpc.keys, m.Key)
		}
		resp = &tikvrpc.Response{Resp: cl.pessimisticLock(r)}
	case tikvrpc.CmdPessimisticRollback:
		r := req.PessimisticRollback()
		rpc.keys = r.Keys
		for _, k := range r.Keys {
			ks := cl.key(k)
			// TiKV removes a pessimistic lock only if its for_update_ts does not exceed the request's
			if ks.lock != nil && ks.lock.startTS == r.StartVersion && ks.lock.op == kvrpcpb.Op_PessimisticLock &&
				ks.lock.forUpdateTS <= r.ForUpdateTs {
				ks.lock = nil
			}
		}
		resp = &tikvrpc.Response{Resp: &kvrpcpb.PessimisticRollbackResponse{}}
	case tikvrpc.CmdTxnHeartBeat:
		r := req.TxnHeartBeat()
		out := &kvrpcpb.TxnHeartBeatResponse{}
		ks := cl.key(r.PrimaryLock)
		if ks.lock != nil && ks.lock.startTS == r.StartVersion {
			if r.AdviseLockTtl > ks.lock.ttl {
				ks.lock.ttl = r.AdviseLockTtl
			}
			out.LockTtl = ks.lock.ttl
		} else {
			out.Error = &kvrpcpb.KeyError{TxnNotFound: &kvrpcpb.TxnNotFound{StartTs: r.StartVersion, PrimaryKey: r.PrimaryLock}}
		}
		resp = &tikvrpc.Response{Resp: out}
	default:
		cl.unmodelled = true
		cl.log = append(cl.log, rpc)
		zzCut("unmodelled command reached the harness store")
	}
	if ev == zzEvUndeterminedRegionErr {
		// the store executed the command but reports that it cannot tell
		rr, _ := tikvrpc.GenRegionErrorResp(req, &errorpb.Error{Message: "undetermined", UndeterminedResult: &errorpb.UndeterminedResult{Message: "zz"}})
		rpc.answered = false
		return finish(rr, nil)
	}
	if ev == zzEvLostResponse {
		return finish(nil, zzErrTransport)
	}
	if ev == zzEvLostResponseCtxDone {
		// the caller's deadline passes / it cancels while the request is in flight
		cl.cancelCaller()
		return finish(nil, context.Canceled)
	}
	rpc.answered = true
	rpc.resp = resp
	return finish(resp, nil)
}

// ---- kvstore ------------------------------------------------------------------------------

type zzStore struct {
	pd       *zzPD
	cache    *locate.RegionCache
	cli      *zzClient
	orc      *zzOracle
	resolver *txnlock.LockResolver
	wg       sync.WaitGroup
	ctx      context.Context
	spawned  int
}

func (s *zzStore) GetRegionCache() *locate.RegionCache { return s.cache }
func (s *zzStore) SplitRegions(ctx context.Context, splitKeys [][]byte, scatter bool, tableID *int64) ([]uint64, error) {
	return nil, nil
}
func (s *zzStore) WaitScatterRegionFinish(ctx context.Context, regionID uint64, backOff int) error {
	return nil
}
func (s *zzStore) GetTimestampWithRetry(bo *retry.Backoffer, scope string) (uint64, error) {
	return s.orc.GetTimestamp(bo.GetCtx(), &oracle.Option{TxnScope: scope})
}
func (s *zzStore) GetOracle() oracle.Oracle { return s.orc }
func (s *zzStore) CurrentTimestamp(txnScope string) (uint64, error) {
	return s.orc.GetTimestamp(s.ctx, &oracle.Option{TxnScope: txnScope})
}
func (s *zzStore) SendReq(bo *retry.Backoffer, req *tikvrpc.Request, regionID locate.RegionVerID, timeout time.Duration) (*tikvrpc.Response, error) {
	sender := locate.NewRegionRequestSender(s.cache, s.cli, s.orc)
	resp, _, err := sender.SendReq(bo, req, regionID, timeout)
	return resp, err
}
func (s *zzStore) GetTiKVClient() client.Client            { return s.cli }
func (s *zzStore) GetLockResolver() *txnlock.LockResolver  { return s.resolver }
func (s *zzStore) Ctx() context.Context                    { return s.ctx }
func (s *zzStore) WaitGroup() *sync.WaitGroup              { return &s.wg }
func (s *zzStore) TxnLatches() *latch.LatchesScheduler     { return nil }
func (s *zzStore) GetClusterID() uint64                    { return 1 }
func (s *zzStore) IsClose() bool                           { return false }
func (s *zzStore) CheckVisibility(startTime uint64) error  { return nil }
func (s *zzStore) Go(f func()) error {
	s.spawned++
	go f()
	return nil
}

// zzNewStore builds the harness store over a layout split at the given keys.
func zzNewStore(splits [][]byte, faults int) (*zzStore, *zzCluster) {
	return zzNewStoreTS(splits, faults, false)
}

func zzNewStoreTS(splits [][]byte, faults int, symbolicTS bool) (*zzStore, *zzCluster) {
	locate.SetStoreLivenessTimeout(0)
	// package-level knobs are process-global in a native replay: set every one a harness relies on
	kv.TxnCommitBatchSize.Store(kv.DefTxnCommitBatchSize)
	zzConcreteRand()
	// one batch at a time: request order is then the same under the engine and in
	// a native replay (interleavings of batches are not the subject of these checks)
	config.UpdateGlobal(func(conf *config.Config) { conf.CommitterConcurrency = 1 })
	cl := &zzCluster{faults: faults}
	s := &zzStore{ctx: context.Background()}
	pdc := zzLayout(splits)
	cl.regions = pdc.regions
	cl.pd = pdc
	s.pd = pdc
	s.cache = locate.NewRegionCache(pdc)
	s.cli = &zzClient{cl: cl}
	s.orc = &zzOracle{zzOracleCore: &zzOracleCore{last: 1000, step: 10}}
	if symbolicTS {
		t0 := zzU64("ts.0")
		zzAssume(t0 >= 1<<20 && t0 < 1<<60)
		s.orc.last = t0
		s.orc.step = 7
		s.orc.symbolic = true
		s.orc.symbolicStep = zzParam("symstep", 0) == 1
	}
	s.resolver = txnlock.NewLockResolver(s)
	return s, cl
}

// zzNewPeer: another client process of the same cluster: own region cache, own lock resolver, own
// connection (never faulted, not affected by a crash of the first client); the oracle is shared.
func zzNewPeer(s *zzStore) *zzStore {
	s.cli.cl.peers++
	p := &zzStore{ctx: context.Background(), pd: s.pd, orc: &zzOracle{zzOracleCore: s.orc.zzOracleCore, id: s.cli.cl.peers}}
	p.cache = locate.NewRegionCache(s.pd)
	p.cli = &zzClient{cl: s.cli.cl, peer: true, id: s.cli.cl.peers}
	p.resolver = txnlock.NewLockResolver(p)
	return p
}

func (s *zzStore) close() {
	s.resolver.Close()
	s.cache.Close()
}

// zzBegin starts a transaction on the harness store.
func zzBegin(s *zzStore) *KVTxn {
	startTS, _ := s.orc.GetTimestamp(s.ctx, nil)
	snap := txnsnapshot.NewTiKVSnapshot(s, startTS, 0)
	txn, err := NewTiKVTxn(s, snap, startTS, &TxnOptions{TxnScope: oracle.GlobalTxnScope})
	if err != nil {
		panic(err)
	}
	return txn
}

// ---- scheduler over requests (C01) --------------------------------------------------------
//
// Every request of every client and every timestamp fetch is a scheduling point: the goroutine
// parks on a ticket and the harness' main goroutine decides whose turn it is (a forked choice), so
// that the engine explores every interleaving of the transactions at request granularity.
// Engine-only: between two decisions all other goroutines run until they block (zzRunAll).

type zzTicket struct {
	client int
	what   string
	ch     chan struct{}
}

type zzSched struct {
	pending []*zzTicket
	steps   int // number of tickets granted so far (the harness' real-time axis)
	// preemption bounding: taking the turn away from the goroutine group (client) that moved last
	// while it could move on counts as a preemption; at most maxPreempt per schedule (< 0: unbounded).
	// Switches at points where the last mover is blocked or finished are free.
	maxPreempt int
	preempts   int
	last       int
}

func (g *zzSched) point(client int, what string) {
	t := &zzTicket{client: client, what: what, ch: make(chan struct{}, 1)}
	g.pending = append(g.pending, t)
	<-t.ch
}

// run grants tickets until no goroutine is waiting for one and done() holds; sleepers (back-off)
// are woken only when nobody else can move. Returns false if the run did not come to an end
// within the bounds (the caller cuts the path).
func (g *zzSched) run(done func() bool, maxSteps int) bool {
	idle := 0
	for {
		zzRunAll()
		if len(g.pending) == 0 {
			if done() {
				return true
			}
			idle++
			if idle > 40 {
				return false
			}
			zzAdvance(int64(500 * time.Millisecond))
			continue
		}
		idle = 0
		if g.steps >= maxSteps {
			return false
		}
		cand := g.pending
		if g.maxPreempt >= 0 && g.preempts >= g.maxPreempt {
			// no preemption left: the last mover goes on if it can
			var same []*zzTicket
			for _, t := range g.pending {
				if t.client == g.last {
					same = append(same, t)
				}
			}
			if len(same) > 0 {
				cand = same
			}
		}
		t := cand[zzChoice("sched", len(cand))]
		if g.steps > 0 && t.client != g.last {
			for _, o := range g.pending {
				if o.client == g.last {
					g.preempts++
					break
				}
			}
		}
		g.last = t.client
		k := 0
		for i, o := range g.pending {
			if o == t {
				k = i
			}
		}
		g.pending = append(g.pending[:k:k], g.pending[k+1:]...)
		g.steps++
		t.ch <- struct{}{}
	}
}
