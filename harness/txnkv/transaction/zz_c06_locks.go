package transaction

import (
	"context"
	"time"

	"github.com/pkg/errors"

	"github.com/tikv/client-go/v2/kv"
	"github.com/tikv/client-go/v2/tikvrpc"
)

// C06 — no lock of a finished transaction is left behind. The real KVTxn
// (pessimistic locking, aggressive locking, Rollback, Commit and their
// background clean-up) runs against the harness store. No message is lost;
// the script may answer clean-up requests with retryable region errors.
// After the transaction ended and the background work drained, the store
// holds no lock of the transaction.

var zzC06Keys = [][]byte{[]byte("a"), []byte("b"), []byte("x")} // a,b in region 1; x in region 2

func zzC06LockCall(s *zzStore, txn *KVTxn, which int) error {
	fut, _ := s.orc.GetTimestamp(context.Background(), nil)
	lockCtx := kv.NewLockCtx(fut, kv.LockNoWait, time.Now())
	var keys [][]byte
	switch which {
	case 0:
		keys = zzC06Keys[:1] // a
	case 1:
		keys = zzC06Keys[:2] // a,b: one region (several requests when the batch size is small)
	case 2:
		keys = zzC06Keys[1:] // b,x: two regions
	case 3:
		keys = zzC06Keys[2:] // x
	}
	return txn.LockKeys(context.Background(), lockCtx, keys...)
}

func zzC06Finish(s *zzStore, cl *zzCluster, txn *KVTxn) {
	start := txn.StartTS()
	if txn.IsInAggressiveLockingMode() {
		if zzChoice("done", 2) == 1 {
			txn.DoneAggressiveLocking(context.Background())
		} else {
			txn.CancelAggressiveLocking(context.Background())
		}
	}
	if zzChoice("commit", 2) == 1 {
		_ = txn.Commit(context.Background())
	} else {
		_ = txn.Rollback()
	}
	s.wg.Wait()
	zzAssert(!cl.unmodelled, "c06.only-modelled-commands")
	for _, k := range zzC06Keys {
		zzAssert(!cl.lockedBy(k, start), "c06.no-lock-left-behind")
	}
}

// ZZ_C06_lock_calls: a sequence of LockKeys calls with scripted outcomes
// (ok / write conflict / key exists / deadlock), then Commit or Rollback.
// zzC06BatchSize: the keys of one region are sent in one request, or — when
// their total size reaches the batch size limit — in several.
func zzC06BatchSize() {
	if zzChoice("smallbatch", 2) == 1 {
		kv.TxnCommitBatchSize.Store(1)
	} else {
		kv.TxnCommitBatchSize.Store(kv.DefTxnCommitBatchSize)
	}
}

func ZZ_C06_lock_calls() {
	s, cl := zzNewStoreTS([][]byte{[]byte("m")}, zzParam("rerr", 1), false)
	defer s.close()
	zzC06BatchSize()
	cl.lockOutcomes = true
	cl.regionErrorsOnly = true
	cl.noForeignResolver = true
	cl.allowFaultOn = func(cmd tikvrpc.CmdType) bool {
		return cmd == tikvrpc.CmdPessimisticRollback || cmd == tikvrpc.CmdBatchRollback
	}
	txn := zzBegin(s)
	txn.SetPessimistic(true)
	n := zzParam("calls", 2)
	for i := 0; i < n; i++ {
		_ = zzC06LockCall(s, txn, zzChoice("keys", zzParam("keysets", 2)))
		if zzChoice("write", 2) == 1 {
			_ = txn.Set(zzC06Keys[0], []byte("v"))
		}
	}
	zzC06Finish(s, cl, txn)
}

// ZZ_C06_aggressive: start / lock / retry / lock / done-or-cancel sequences of
// aggressive (fair) locking, then Commit or Rollback.
func ZZ_C06_aggressive() {
	s, cl := zzNewStoreTS([][]byte{[]byte("m")}, zzParam("rerr", 1), false)
	defer s.close()
	zzC06BatchSize()
	cl.lockOutcomes = true
	cl.regionErrorsOnly = true
	cl.noForeignResolver = true
	cl.allowFaultOn = func(cmd tikvrpc.CmdType) bool {
		return cmd == tikvrpc.CmdPessimisticRollback || cmd == tikvrpc.CmdBatchRollback
	}
	txn := zzBegin(s)
	txn.SetPessimistic(true)
	if zzChoice("lockBefore", 2) == 1 {
		_ = zzC06LockCall(s, txn, zzChoice("keys0", zzParam("keysets", 2)))
	}
	txn.StartAggressiveLocking()
	_ = zzC06LockCall(s, txn, zzChoice("keys1", zzParam("keysets", 2)))
	rounds := zzParam("rounds", 1)
	for i := 0; i < rounds; i++ {
		// LockKeys may itself leave aggressive mode when it is inapplicable
		if txn.IsInAggressiveLockingMode() && zzChoice("retry", 2) == 1 {
			txn.RetryAggressiveLocking(context.Background())
			_ = zzC06LockCall(s, txn, zzChoice("keys2", zzParam("keysets", 2)))
		}
	}
	zzC06Finish(s, cl, txn)
}

// ZZ_C06_failed_commit: an optimistic commit that fails with a definite error
// (the primary lock is rolled back by another client's resolver) cleans up
// every prewritten lock, also when clean-up requests meet region errors.
func ZZ_C06_failed_commit() {
	s, cl := zzNewStoreTS([][]byte{[]byte("m")}, 1+zzParam("rerr", 1), true)
	defer s.close()
	cl.allowFaultOn = func(cmd tikvrpc.CmdType) bool { return true }
	cl.regionErrorsOnly = true // no message is lost; the foreign resolver is the source of the failure
	txn := zzBegin(s)
	txn.SetEnableAsyncCommit(false)
	txn.SetEnable1PC(false)
	for _, k := range zzC06Keys {
		_ = txn.Set(k, []byte("v"))
	}
	start := txn.StartTS()
	cl.primary, cl.startTS = zzC06Keys[0], start
	err := txn.Commit(context.Background())
	s.wg.Wait()
	if err != nil {
		for _, k := range zzC06Keys {
			zzAssert(!cl.lockedBy(k, start), "c06.failed-commit-leaves-no-lock")
		}
	} else {
		for _, k := range zzC06Keys {
			zzAssert(!cl.lockedBy(k, start), "c06.successful-commit-leaves-no-lock")
			zzAssert(cl.committed(k, start), "c06.successful-commit-commits-every-key")
		}
	}
}

type zzSchemaChanged struct{}

func (zzSchemaChanged) CheckBySchemaVer(txnTS uint64, startSchemaVer SchemaVer) (*RelatedSchemaChange, error) {
	return nil, errors.New("zz: schema changed")
}

// ZZ_C06_commit_fails_early: a pessimistic transaction that holds locks and whose
// Commit fails with a definite error BEFORE anything is prewritten (the oracle
// or the schema check fails while preparing an async-commit / 1PC / plain commit)
// still releases every lock.
func ZZ_C06_commit_fails_early() {
	s, cl := zzNewStoreTS([][]byte{[]byte("m")}, 0, false)
	defer s.close()
	txn := zzBegin(s)
	txn.SetPessimistic(true)
	mode := zzChoice("mode", 4) // 0 plain 2PC, 1 async commit, 2 1PC, 3 both
	txn.SetEnableAsyncCommit(mode == 1 || mode == 3)
	txn.SetEnable1PC(mode == 2 || mode == 3)
	start := txn.StartTS()
	zzAssume(zzC06LockCall(s, txn, zzChoice("keys", 3)) == nil)
	_ = txn.Set(zzC06Keys[0], []byte("v"))
	switch zzChoice("failure", 2) {
	case 0:
		s.orc.fail = true // every timestamp request from now on fails
	case 1:
		txn.SetSchemaLeaseChecker(zzSchemaChanged{})
	}
	err := txn.Commit(context.Background())
	s.orc.fail = false
	s.wg.Wait()
	zzAssert(!cl.unmodelled, "c06.early.only-modelled-commands")
	zzAssert(err != nil, "c06.early.commit-fails")
	zzAssert(!cl.committed(zzC06Keys[0], start), "c06.early.failed-commit-commits-nothing")
	for _, k := range zzC06Keys {
		zzAssert(!cl.lockedBy(k, start), "c06.early.no-lock-left-behind")
	}
}
