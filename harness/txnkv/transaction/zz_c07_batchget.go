package transaction

import (
	"bytes"
	"context"
	"errors"

	tikverr "github.com/tikv/client-go/v2/error"
	"github.com/tikv/client-go/v2/kv"
)

// C07 — BufferBatchGetter.BatchGet: buffer first, the snapshot is asked exactly for the keys the
// buffer does not mention (in request order), tombstones hide snapshot values.
// (All helper identifiers carry the zzC07 prefix: other harness files share this directory.)

type zzC07KV struct{ k, v []byte }

var zzC07Err = errors.New("zz: batch get failure")

// zzC07Buffer is a BatchBufferGetter over a small content list (values may be empty = deleted).
type zzC07Buffer struct {
	ents []zzC07KV
	err  error
}

func (b *zzC07Buffer) Len() int { return len(b.ents) }

func (b *zzC07Buffer) Get(ctx context.Context, k []byte, _ ...kv.GetOption) (kv.ValueEntry, error) {
	for i := range b.ents {
		if bytes.Equal(b.ents[i].k, k) {
			return kv.NewValueEntry(b.ents[i].v, 0), nil
		}
	}
	return kv.ValueEntry{}, tikverr.ErrNotExist
}

// BatchGet has the contract of MemDB.BatchGet: an entry for every requested key the buffer
// holds (tombstones included, with an empty value), nothing else.
func (b *zzC07Buffer) BatchGet(ctx context.Context, keys [][]byte, _ ...kv.BatchGetOption) (map[string]kv.ValueEntry, error) {
	if b.err != nil {
		return nil, b.err
	}
	m := map[string]kv.ValueEntry{}
	for _, k := range keys {
		for i := range b.ents {
			if bytes.Equal(b.ents[i].k, k) {
				m[string(k)] = kv.NewValueEntry(b.ents[i].v, 0)
			}
		}
	}
	return m, nil
}

// zzC07Snap is a kv.BatchGetter over a small content list (values non-empty); it records what it
// was asked for.
type zzC07Snap struct {
	ents  []zzC07KV
	err   error
	calls int
	asked [][]byte
}

func (s *zzC07Snap) BatchGet(ctx context.Context, keys [][]byte, _ ...kv.BatchGetOption) (map[string]kv.ValueEntry, error) {
	s.calls++
	s.asked = append([][]byte(nil), keys...)
	if s.err != nil {
		return nil, s.err
	}
	m := map[string]kv.ValueEntry{}
	for _, k := range keys {
		for i := range s.ents {
			if bytes.Equal(s.ents[i].k, k) {
				m[string(k)] = kv.NewValueEntry(s.ents[i].v, 7)
			}
		}
	}
	return m, nil
}

// zzC07Content draws n entries with pairwise distinct keys.
func zzC07Content(n, klen int, buffer bool) []zzC07KV {
	var out []zzC07KV
	for i := 0; i < n; i++ {
		var k, v []byte
		switch {
		case buffer && i == 0:
			k, v = zzBytes("b0.k", klen), zzBytes("b0.v", 1)
		case buffer:
			k, v = zzBytes("b1.k", klen), zzBytes("b1.v", 1)
		case i == 0:
			k, v = zzBytes("s0.k", klen), zzBytesN("s0.v", 1)
		default:
			k, v = zzBytes("s1.k", klen), zzBytesN("s1.v", 1)
		}
		for j := range out {
			zzAssume(!bytes.Equal(out[j].k, k))
		}
		out = append(out, zzC07KV{k, v})
	}
	return out
}

func zzC07Find(e []zzC07KV, k []byte) (bool, []byte) {
	for i := range e {
		if bytes.Equal(e[i].k, k) {
			return true, e[i].v
		}
	}
	return false, nil
}

// zzC07Outcome is what one BatchGet run is judged on.
type zzC07Outcome struct {
	noErr, askedOnce, askedCount, askedOrder, size, values bool
}

// zzC07Run draws buffer content, snapshot content and a key list, runs the real BatchGet and
// compares with the model. dup=false: the requested keys are pairwise distinct; dup=true: at
// least two requested keys are equal.
func zzC07Run(dup bool) zzC07Outcome {
	klen := zzParam("klen_bg", 1)
	nkmax := zzParam("nkeys", 2)
	nk := zzChoice("nkeys", nkmax+1)
	nb := zzChoice("nb", 3)
	ns := zzChoice("ns", 3)
	buf := &zzC07Buffer{ents: zzC07Content(nb, klen, true)}
	snap := &zzC07Snap{ents: zzC07Content(ns, klen, false)}
	var keys [][]byte
	anyDup := false
	for i := 0; i < nk; i++ {
		var k []byte
		switch i {
		case 0:
			k = zzBytes("q0", klen)
		case 1:
			k = zzBytes("q1", klen)
		default:
			k = zzBytes("q2", klen)
		}
		for j := range keys {
			anyDup = zzOr(anyDup, bytes.Equal(keys[j], k))
		}
		keys = append(keys, k)
	}
	zzAssume(anyDup == dup)
	res, err := NewBufferBatchGetter(buf, snap).BatchGet(context.Background(), keys)

	// model
	var wantAsked [][]byte
	want := map[string][]byte{}
	for _, k := range keys {
		inBuf, bv := zzC07Find(buf.ents, k)
		inSnap, sv := zzC07Find(snap.ents, k)
		switch {
		case inBuf && len(bv) > 0:
			want[string(k)] = bv
		case inBuf:
		default:
			wantAsked = append(wantAsked, k)
			if inSnap {
				want[string(k)] = sv
			}
		}
	}
	o := zzC07Outcome{noErr: err == nil, askedOnce: snap.calls == 1, askedCount: len(snap.asked) == len(wantAsked),
		askedOrder: true, size: len(res) == len(want), values: true}
	for i := range wantAsked {
		if i < len(snap.asked) {
			o.askedOrder = zzAnd(o.askedOrder, bytes.Equal(snap.asked[i], wantAsked[i]))
		}
	}
	for _, k := range keys {
		w, wok := want[string(k)]
		g, gok := res[string(k)]
		o.values = zzAnd(o.values, wok == gok)
		if wok && gok {
			o.values = zzAnd(o.values, bytes.Equal(w, g.Value))
		}
	}
	return o
}

// ZZ_C07_batchget: pairwise distinct request keys — result and snapshot request against the model.
func ZZ_C07_batchget() {
	o := zzC07Run(false)
	zzAssert(o.noErr, "batchget.no-error")
	zzAssert(o.askedOnce, "batchget.snapshot-asked-once")
	zzAssert(o.askedCount, "batchget.snapshot-asked-missing-keys-count")
	zzAssert(o.askedOrder, "batchget.snapshot-asked-missing-keys-in-order")
	zzAssert(o.size, "batchget.result-size")
	zzAssert(o.values, "batchget.result-values")
}

// ZZ_C07_batchget_dup: the same with a key requested twice. Only the result is judged (how often
// the snapshot is asked for a repeated key is not part of the property).
func ZZ_C07_batchget_dup() {
	o := zzC07Run(true)
	zzNote("duplicate-request-key", 1)
	zzAssert(o.noErr, "batchget-dup.no-error")
	zzAssert(o.size, "batchget-dup.result-size")
	zzAssert(o.values, "batchget-dup.result-values")
}

// ZZ_C07_batchget_error: an error of the buffer or of the snapshot is returned, with no result.
func ZZ_C07_batchget_error() {
	q := zzBytesN("q", 1)
	buf := &zzC07Buffer{}
	snap := &zzC07Snap{}
	which := zzChoice("which", 3)
	switch which {
	case 0:
		buf.err = zzC07Err
	case 1: // empty buffer answer -> whole request goes to the snapshot, which fails
		snap.err = zzC07Err
	default: // buffer holds another key -> shrink path, snapshot fails
		buf.ents = []zzC07KV{{[]byte{q[0] + 1}, []byte{1}}}
		snap.err = zzC07Err
	}
	keys := [][]byte{q}
	if which == 2 {
		keys = append(keys, buf.ents[0].k)
	}
	res, err := NewBufferBatchGetter(buf, snap).BatchGet(context.Background(), keys)
	zzAssert(err == zzC07Err, "batchget.error-returned")
	zzAssert(res == nil, "batchget.error-no-result")
	if which == 0 {
		zzAssert(snap.calls == 0, "batchget.buffer-error-no-snapshot")
	}
}
