package rangetask

import (
	"bytes"
	"context"
	"errors"
	"sync"
	"time"

	"github.com/pingcap/kvproto/pkg/errorpb"
	"github.com/pingcap/kvproto/pkg/kvrpcpb"
	"github.com/pingcap/kvproto/pkg/metapb"
	"github.com/tikv/client-go/v2/config/retry"
	"github.com/tikv/client-go/v2/internal/locate"
	"github.com/tikv/client-go/v2/kv"
	"github.com/tikv/client-go/v2/tikvrpc"
)

// Key drawing (same convention as C11): parameter lens=1: every length 0..2
// (1..2 for the non-empty variant); lens=0: empty or 2 bytes / exactly 2 bytes.
func zzc14Key(name string) []byte {
	if zzParam("lens", 0) == 1 {
		return zzBytes(name, 2)
	}
	return zzBytesN(name, 2*zzChoice(name+".nonempty", 2))
}

func zzc14KeyNE(name string) []byte {
	if zzParam("lens", 0) == 1 {
		k := zzBytes(name, 2)
		zzAssume(len(k) > 0)
		return k
	}
	return zzBytesN(name, 2)
}

func zzc14Splits(nreg int, a, b string) [][]byte {
	var sp [][]byte
	if nreg >= 2 {
		sp = append(sp, zzc14KeyNE(a))
	}
	if nreg >= 3 {
		sp = append(sp, zzc14KeyNE(b))
		zzAssume(bytes.Compare(sp[0], sp[1]) < 0)
	}
	return sp
}

// zzc14Store implements the package's storage seam: a real RegionCache over the
// harness PD, and SendReq answering DeleteRange requests per region like TiKV.
type zzc14Store struct {
	pd    *zzc14PD
	cache *locate.RegionCache

	mu      sync.Mutex
	reqs    int
	deleted []kv.KeyRange // ranges of the served delete-range requests, in order
	notify  []bool
	outside bool // a served request was not inside the region of its context
	bumpReq int  // ordinal of the request that meets a topology change (0 = none)
	next    [][]byte
	withCur bool
	bumped  bool
	regErrs int
}

func zzc14NewStore(splits [][]byte) *zzc14Store {
	locate.SetRegionCacheTTLWithJitter(600, 0) // see C11: keeps the cache's TTL bookkeeping concrete
	s := &zzc14Store{pd: zzc14NewPD(splits)}
	s.cache = locate.NewRegionCache(s.pd)
	return s
}

func (s *zzc14Store) GetRegionCache() *locate.RegionCache { return s.cache }

const zzc14MaxReqs = 12

func (s *zzc14Store) SendReq(bo *retry.Backoffer, req *tikvrpc.Request, id locate.RegionVerID, timeout time.Duration) (*tikvrpc.Response, error) {
	s.mu.Lock()
	defer s.mu.Unlock()
	// What RegionRequestSender.SendReq does before sending: no valid cached
	// region for the id => synthetic EpochNotMatch, nothing is sent.
	rpcCtx, err := s.cache.GetTiKVRPCContext(bo, id, kv.ReplicaReadLeader, 0)
	if err != nil {
		return nil, err
	}
	if rpcCtx == nil {
		return tikvrpc.GenRegionErrorResp(req, &errorpb.Error{EpochNotMatch: &errorpb.EpochNotMatch{}})
	}
	s.reqs++
	if s.reqs > zzc14MaxReqs {
		panic("zzc14Store: request budget exceeded: the task does not make progress")
	}
	if !s.bumped && s.bumpReq != 0 && s.reqs == s.bumpReq {
		s.bumped = true
		s.pd.setLayout(s.next, 10, 2)
	}
	var r *metapb.Region
	for _, x := range s.pd.regions {
		if x.Id == id.GetID() && x.RegionEpoch.Version == id.GetVer() && x.RegionEpoch.ConfVer == id.GetConfVer() {
			r = x
		}
	}
	if r == nil {
		// what RegionRequestSender does with EpochNotMatch before handing the
		// region error to the caller: drop / replace the cached region
		s.regErrs++
		var cur []*metapb.Region
		if s.withCur {
			cur = s.pd.regions
		}
		if _, err := s.cache.OnRegionEpochNotMatch(bo, rpcCtx, cur); err != nil {
			return nil, err
		}
		return tikvrpc.GenRegionErrorResp(req, &errorpb.Error{Message: "epoch not match", EpochNotMatch: &errorpb.EpochNotMatch{CurrentRegions: cur}})
	}
	if req.Type != tikvrpc.CmdDeleteRange {
		panic("zzc14Store: unexpected command")
	}
	q := req.DeleteRange()
	in := bytes.Compare(r.StartKey, q.StartKey) <= 0
	if len(r.EndKey) != 0 {
		in = zzAnd(in, bytes.Compare(q.StartKey, r.EndKey) < 0)
		if len(q.EndKey) == 0 {
			in = false
		} else {
			in = zzAnd(in, bytes.Compare(q.EndKey, r.EndKey) <= 0)
		}
	}
	s.outside = zzOr(s.outside, !in)
	s.deleted = append(s.deleted, kv.KeyRange{StartKey: q.StartKey, EndKey: q.EndKey})
	s.notify = append(s.notify, q.NotifyOnly)
	return &tikvrpc.Response{Resp: &kvrpcpb.DeleteRangeResponse{}}, nil
}

// zzc14Cover: the ranges, taken in increasing start order, are consecutive,
// non-empty, start at start and end at end (empty end = +inf): they tile
// [start,end) exactly. The list is sorted first (handlers of different workers
// may record out of order).
func zzc14Cover(rs []kv.KeyRange, start, end []byte) bool {
	rs = append([]kv.KeyRange(nil), rs...)
	for i := 1; i < len(rs); i++ {
		for j := i; j > 0 && bytes.Compare(rs[j-1].StartKey, rs[j].StartKey) > 0; j-- {
			rs[j-1], rs[j] = rs[j], rs[j-1]
		}
	}
	if len(rs) == 0 {
		return false
	}
	ok := bytes.Equal(rs[0].StartKey, start)
	for i := range rs {
		last := i == len(rs)-1
		if last {
			ok = zzAnd(ok, bytes.Equal(rs[i].EndKey, end))
		} else {
			ok = zzAnd(ok, bytes.Equal(rs[i].EndKey, rs[i+1].StartKey))
		}
		if len(rs[i].EndKey) != 0 {
			ok = zzAnd(ok, bytes.Compare(rs[i].StartKey, rs[i].EndKey) < 0)
		} else if !last {
			ok = false
		}
	}
	return ok
}

// ZZ_C14_run_on_range (G3): the sub-ranges handed to the handler are consecutive,
// disjoint and exactly cover [start,end) - last region and empty end included -
// for every layout, 1..2 regions per task and 1..2 workers; an error from any
// handler call makes RunOnRange fail; an empty range runs nothing.
func ZZ_C14_run_on_range() {
	st := zzc14NewStore(zzc14Splits(zzParam("nreg", 3), "s0", "s1"))
	defer st.cache.Close()
	start := zzc14Key("start")
	end := zzc14Key("end")
	conc := 1 + zzChoice("concurrency", 2)
	failAt := zzChoice("fail.at", 4) // 0 = never, k = the k-th handler call fails
	// what the failing call returns: an error of its own, or the cancellation of its context (the
	// caller gave up, a deadline passed): every kind of failure must make the run fail
	failErr := errors.New("zz: handler failure")
	if failAt != 0 && zzChoice("fail.kind", 2) == 1 {
		failErr = context.Canceled
	}
	var mu sync.Mutex
	var got []kv.KeyRange
	calls, failed := 0, false
	h := func(ctx context.Context, r kv.KeyRange) (TaskStat, error) {
		mu.Lock()
		defer mu.Unlock()
		calls++
		if calls == failAt {
			failed = true
			return TaskStat{}, failErr
		}
		got = append(got, r)
		return TaskStat{CompletedRegions: 1}, nil
	}
	r := NewRangeTaskRunner("zz", st, conc, h)
	r.SetRegionsPerTask(1 + zzChoice("regions.per.task", 2))
	if zzParam("sched", 0) > 0 {
		zzSchedule(zzParam("sched", 0))
	}
	err := r.RunOnRange(context.Background(), start, end)
	empty := len(end) != 0 && bytes.Compare(start, end) >= 0
	if empty {
		zzAssert(err == nil, "g3.empty-range-ok")
		zzAssert(calls == 0, "g3.empty-range-no-call")
		return
	}
	if failed {
		zzAssert(err != nil, "g3.handler-error-fails-run")
		return
	}
	zzAssert(err == nil, "g3.no-error")
	zzAssert(zzc14Cover(got, start, end), "g3.subranges-tile-the-range")
	zzAssert(r.CompletedRegions() == len(got), "g3.completed-count")
}

// ZZ_C14_delete_range_task (G4): the delete-range requests of a DeleteRangeTask
// are each inside the region they are addressed to, and together tile exactly
// [start,end), with an optional topology change met by one request.
func ZZ_C14_delete_range_task() {
	st := zzc14NewStore(zzc14Splits(zzParam("nreg", 3), "s0", "s1"))
	defer st.cache.Close()
	start := zzc14Key("start")
	end := zzc14Key("end")
	v := zzChoice("variant", 5) // 0 none; 1..4: request (v+1)/2 meets the change, without/with current regions
	if v > 0 {
		st.next = zzc14Splits(zzParam("nreg2", 2), "t0", "t1")
		st.bumpReq = (v + 1) / 2
		st.withCur = v%2 == 0
	}
	notify := zzChoice("notify", 2) == 1
	var t *DeleteRangeTask
	if notify {
		t = NewNotifyDeleteRangeTask(st, start, end, 1+zzChoice("concurrency", 2))
	} else {
		t = NewDeleteRangeTask(st, start, end, 1+zzChoice("concurrency", 2))
	}
	err := t.Execute(context.Background())
	zzAssert(err == nil, "g4.no-error")
	zzAssert(!st.outside, "g4.request-inside-region-of-context")
	if len(end) != 0 && bytes.Compare(start, end) >= 0 {
		zzAssert(len(st.deleted) == 0, "g4.empty-range-no-request")
		return
	}
	zzAssert(zzc14Cover(st.deleted, start, end), "g4.requests-tile-the-range")
	zzAssert(t.CompletedRegions() == len(st.deleted), "g4.completed-count")
	for _, n := range st.notify {
		zzAssert(n == notify, "g4.notify-flag")
	}
}
