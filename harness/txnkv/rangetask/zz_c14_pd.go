package rangetask

import (
	"bytes"
	"context"

	"github.com/pingcap/kvproto/pkg/metapb"
	pd "github.com/tikv/pd/client"
	"github.com/tikv/pd/client/clients/router"
	"github.com/tikv/pd/client/opt"
	"github.com/tikv/pd/client/pkg/caller"
)

// zzc14PD is a harness PD (same idiom as harness/internal/locate/zz_c09_pd.go (copied for C14)): it
// answers region queries from the current ground-truth layout. Only the methods
// the region cache uses are implemented; any other call hits the nil embedded
// interface and panics (which the engine reports).
type zzc14PD struct {
	pd.Client
	regions []*metapb.Region // sorted by start key, tiling the key space
	leaders []*metapb.Peer
	stores  []*metapb.Store
	calls   int
}

func (p *zzc14PD) WithCallerComponent(caller.Component) pd.Client { return p }
func (p *zzc14PD) GetClusterID(context.Context) uint64            { return 1 }
func (p *zzc14PD) Close()                                         {}

func zzc14RegionContains(r *metapb.Region, key []byte) bool {
	return bytes.Compare(r.StartKey, key) <= 0 && (len(r.EndKey) == 0 || bytes.Compare(key, r.EndKey) < 0)
}

func (p *zzc14PD) wrap(i int) *router.Region {
	return &router.Region{Meta: p.regions[i], Leader: p.leaders[i]}
}

func (p *zzc14PD) GetRegion(ctx context.Context, key []byte, opts ...opt.GetRegionOption) (*router.Region, error) {
	p.calls++
	for i, r := range p.regions {
		if zzc14RegionContains(r, key) {
			return p.wrap(i), nil
		}
	}
	return nil, nil
}

func (p *zzc14PD) GetPrevRegion(ctx context.Context, key []byte, opts ...opt.GetRegionOption) (*router.Region, error) {
	p.calls++
	for i, r := range p.regions {
		if zzc14RegionContains(r, key) {
			if i == 0 {
				return nil, nil
			}
			return p.wrap(i - 1), nil
		}
	}
	return nil, nil
}

func (p *zzc14PD) GetRegionByID(ctx context.Context, id uint64, opts ...opt.GetRegionOption) (*router.Region, error) {
	p.calls++
	for i, r := range p.regions {
		if r.Id == id {
			return p.wrap(i), nil
		}
	}
	return nil, nil
}

func (p *zzc14PD) ScanRegions(ctx context.Context, key, endKey []byte, limit int, opts ...opt.GetRegionOption) ([]*router.Region, error) {
	p.calls++
	var out []*router.Region
	for i, r := range p.regions {
		if len(r.EndKey) != 0 && bytes.Compare(r.EndKey, key) <= 0 {
			continue
		}
		if len(endKey) != 0 && bytes.Compare(r.StartKey, endKey) >= 0 {
			break
		}
		out = append(out, p.wrap(i))
		if limit > 0 && len(out) >= limit {
			break
		}
	}
	return out, nil
}

func (p *zzc14PD) BatchScanRegions(ctx context.Context, ranges []router.KeyRange, limit int, opts ...opt.GetRegionOption) ([]*router.Region, error) {
	p.calls++
	var out []*router.Region
	for i, r := range p.regions {
		hit := false
		for _, kr := range ranges {
			if len(r.EndKey) != 0 && bytes.Compare(r.EndKey, kr.StartKey) <= 0 {
				continue
			}
			if len(kr.EndKey) != 0 && bytes.Compare(r.StartKey, kr.EndKey) >= 0 {
				continue
			}
			hit = true
		}
		if hit {
			out = append(out, p.wrap(i))
			if limit > 0 && len(out) >= limit {
				break
			}
		}
	}
	return out, nil
}

func (p *zzc14PD) GetStore(ctx context.Context, id uint64, opts ...opt.GetStoreOption) (*metapb.Store, error) {
	for _, s := range p.stores {
		if s.Id == id {
			return s, nil
		}
	}
	return nil, nil
}

func (p *zzc14PD) GetAllStores(ctx context.Context, opts ...opt.GetStoreOption) ([]*metapb.Store, error) {
	return p.stores, nil
}

// setLayout installs len(splits)+1 regions split at the given strictly
// increasing keys. Region i gets id idBase+i and epoch version ver.
func (p *zzc14PD) setLayout(splits [][]byte, idBase uint64, ver uint64) {
	p.regions = nil
	p.leaders = nil
	var start []byte
	for i := 0; i <= len(splits); i++ {
		var end []byte
		if i < len(splits) {
			end = splits[i]
		}
		id := idBase + uint64(i)
		peers := []*metapb.Peer{{Id: id*10 + 1, StoreId: 1}, {Id: id*10 + 2, StoreId: 2}, {Id: id*10 + 3, StoreId: 3}}
		p.regions = append(p.regions, &metapb.Region{Id: id, StartKey: start, EndKey: end,
			RegionEpoch: &metapb.RegionEpoch{ConfVer: 1, Version: ver}, Peers: peers})
		p.leaders = append(p.leaders, peers[0])
		start = end
	}
}

func zzc14NewPD(splits [][]byte) *zzc14PD {
	p := &zzc14PD{}
	p.stores = []*metapb.Store{{Id: 1, Address: "s1"}, {Id: 2, Address: "s2"}, {Id: 3, Address: "s3"}}
	p.setLayout(splits, 10, 1)
	return p
}
