package txnlock

import (
	"context"
	"math"

	"github.com/pingcap/kvproto/pkg/kvrpcpb"
	"github.com/tikv/client-go/v2/config/retry"
	"github.com/tikv/client-go/v2/tikvrpc"
)

// Primary states of the scenarios.
const (
	zzrPCommitted = iota
	zzrPRolledBack
	zzrPLocked
	zzrPNone
	zzrPPessLocked
	zzrPMismatch
	zzrNumPStates
)

// zzrMakePrimary puts transaction t's primary key into one of the ghost states
// (symbolic commit ts / ttl / min-commit-ts) and returns its entry.
func zzrMakePrimary(s *zzrStore, t *zzrTxn, state int) *zzrEntry {
	e := &zzrEntry{key: t.primary, txn: t.startTS, primary: t.primary, txnSize: 1}
	switch state {
	case zzrPCommitted:
		e.state = zzrCommitted
		e.commitTS = zzU64("primary.committs")
		zzAssume(e.commitTS > t.startTS)
	case zzrPRolledBack:
		e.state = zzrRolledBack
	case zzrPLocked:
		e.state = zzrLocked
		e.ttl = zzrStoredTTL("primary.ttl")
		e.minCommitTS = zzU64("primary.mincommit")
		zzAssume(e.minCommitTS == 0 || e.minCommitTS > t.startTS)
	case zzrPNone:
		e.state = zzrNone
	case zzrPPessLocked:
		e.state = zzrPessLocked
		e.ttl = zzrStoredTTL("primary.ttl")
		e.forUpdateTS = t.startTS
	case zzrPMismatch:
		// the key named as primary is locked by t but belongs to another primary
		e.state = zzrPessLocked
		e.primary = []byte("zz")
		e.ttl = zzrStoredTTL("primary.ttl")
		e.forUpdateTS = t.startTS
	}
	return s.add(e)
}

func zzrHas(set []uint64, v uint64) bool {
	for _, x := range set {
		if x == v {
			return true
		}
	}
	return false
}

// zzrUntil is the wait the resolver must report for a lock alive until start+ttl.
func zzrUntil(s *zzrStore, start, ttl uint64) int64 {
	u := s.orc.UntilExpired(start, ttl, nil)
	if u < 0 {
		return 0
	}
	return u
}

// ZZ_C04_resolver_single: one lock (the primary itself or a secondary in another
// region; prewrite or pessimistic; small or large transaction; symbolic ttl incl. 0)
// of a transaction whose primary is committed / rolled back / locked (symbolic ttl
// and min-commit-ts) / absent / pessimistically locked / owned by another primary,
// resolved through ResolveLocks, ResolveLocksForRead (lite or not) or
// ResolveLocksWithOpts(PessimisticRegionResolve), clock and caller ts symbolic.
func ZZ_C04_resolver_single() {
	s, lr := zzrNewStore(zzParam("faults", 0))
	defer s.close(lr)
	start := zzrStartTS("txn.start")
	t := &zzrTxn{startTS: start, primary: []byte("a")}
	s.txns = append(s.txns, t)

	pstate := zzChoice("primary.state", zzrNumPStates)
	isPrimary := zzBool("lock.isprimary")
	pess := zzBool("lock.pessimistic")
	if pstate == zzrPMismatch {
		zzAssume(!isPrimary)
	}
	p := zzrMakePrimary(s, t, pstate)

	l := &Lock{Key: []byte("m"), Primary: t.primary, TxnID: start, TTL: zzrTTL("lock.ttl"), TxnSize: 1, LockType: kvrpcpb.Op_Put}
	if !pess && zzBool("lock.large") {
		l.TxnSize = 1000 // (the size is not looked at for pessimistic locks)
	}
	if pess {
		l.LockType = kvrpcpb.Op_PessimisticLock
		l.LockForUpdateTS = start
	}
	if isPrimary {
		l.Key = t.primary
	} else {
		e := &zzrEntry{key: l.Key, txn: start, primary: t.primary, state: zzrLocked, ttl: l.TTL, txnSize: l.TxnSize}
		if pess {
			e.state, e.forUpdateTS = zzrPessLocked, start
		}
		s.add(e)
	}
	t.inputTTL = []uint64{l.TTL}

	caller := zzU64("caller.start")
	mode := zzChoice("mode", 4)
	// lite only matters for prewrite locks, region-wide pessimistic rollback only for pessimistic ones
	zzAssume((mode != 2 || !pess) && (mode != 3 || pess))
	bo := retry.NewBackoffer(context.Background(), 20)
	opts := ResolveLocksOptions{CallerStartTS: caller, Locks: []*Lock{l}}
	switch mode {
	case 1:
		opts.ForRead = true
	case 2:
		opts.ForRead, opts.Lite = true, true
	case 3:
		opts.PessimisticRegionResolve = true
	}
	res, err := lr.ResolveLocksWithOpts(bo, opts)
	zzrDrain()
	s.mu.Lock()
	defer s.mu.Unlock()

	zzAssert(s.misrouted == 0 && s.unknownTxn == 0 && s.unknownCmd == 0, "single.requests-well-formed")
	zzAssert(s.badOutcome == 0 && s.undetermined == 0, "single.resolve-carries-store-outcome")
	zzAssert(s.liveRemoved == 0, "single.live-lock-never-removed")
	zzAssert(s.expiredLive == 0, "single.expiry-only-on-own-clock")
	zzAssert(s.checksUseOwnClock(), "single.current-ts-own-clock")
	zzAssert(s.rollbackIfNotExistOnlyExpired(), "single.rollback-if-not-exist-only-expired")
	zzAssert(s.resolvesFollowReports(), "single.resolve-after-determined-report")

	// a primary lock that has not outlived its ttl on the resolver's clock (and no
	// ttl-0 order from the store) stays, nothing is resolved, and the wait is reported
	if (pstate == zzrPLocked || pstate == zzrPPessLocked) && l.TTL != 0 && err == nil &&
		!(zzrPhys(start)+p.ttl < zzrPhys(s.orc.now())) {
		zzAssert(p.state == p.state0, "single.live-primary-stays")
		zzAssert(s.count(tikvrpc.CmdResolveLock, start) == 0 && s.count(tikvrpc.CmdPessimisticRollback, start) == 0,
			"single.live-lock-nothing-sent")
		pushed := (caller != 0 && p.minCommitTS > caller) || caller == math.MaxUint64
		if !opts.ForRead || !pushed {
			zzAssert(res.TTL == zzrUntil(s, start, p.ttl), "single.live-lock-wait-reported")
		}
	}
	if opts.ForRead && err == nil && !pess {
		kind, cts := s.truth(t)
		if zzrHas(res.AccessLocks, start) {
			zzAssert(kind == zzrTruthCommit && cts <= caller, "single.read-access-only-committed-before")
		}
		if zzrHas(res.IgnoreLocks, start) {
			pushed := p.locked() && ((caller != 0 && p.minCommitTS > caller) || caller == math.MaxUint64)
			zzAssert(kind == zzrTruthRollback || (kind == zzrTruthCommit && cts > caller) || pushed,
				"single.read-ignore-only-invisible")
		}
	}
}
