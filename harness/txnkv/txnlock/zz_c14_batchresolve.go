package txnlock

import (
	"bytes"
	"context"
	"math"
	"time"

	"github.com/pingcap/kvproto/pkg/errorpb"
	"github.com/pingcap/kvproto/pkg/kvrpcpb"
	"github.com/tikv/client-go/v2/config/retry"
	"github.com/tikv/client-go/v2/internal/locate"
	"github.com/tikv/client-go/v2/oracle"
	"github.com/tikv/client-go/v2/tikvrpc"
)

// zzc14Txn: ground truth about one transaction as TiKV would report it to a
// forced status check (current ts = max: a live primary is rolled back).
type zzc14Txn struct {
	id     uint64
	commit uint64 // commit ts, 0 = rolled back
}

type zzc14Check struct {
	txn, callerStart, current uint64
	primary                   []byte
	rollbackIfNotExist        bool
	resolvingPessimistic      bool
}

type zzc14Rollback struct {
	start, forUpdate uint64
	keys             [][]byte
}

// zzc14Storage implements the package's storage seam.
type zzc14Storage struct {
	cache *locate.RegionCache
	txns  []zzc14Txn

	// fault: 0 none; 1 the resolve request meets a region error; 2 a status
	// check answers "still locked" (ttl > 0) although asked to roll back.
	fault int

	checks    []zzc14Check
	resolves  []*kvrpcpb.ResolveLockRequest
	resolveAt []locate.RegionVerID
	rollbacks []zzc14Rollback
	order     []tikvrpc.CmdType
}

func (s *zzc14Storage) GetRegionCache() *locate.RegionCache { return s.cache }
func (s *zzc14Storage) GetOracle() oracle.Oracle            { return nil }

func (s *zzc14Storage) SendReq(bo *retry.Backoffer, req *tikvrpc.Request, id locate.RegionVerID, timeout time.Duration) (*tikvrpc.Response, error) {
	s.order = append(s.order, req.Type)
	switch req.Type {
	case tikvrpc.CmdCheckTxnStatus:
		q := req.CheckTxnStatus()
		s.checks = append(s.checks, zzc14Check{txn: q.LockTs, callerStart: q.CallerStartTs, current: q.CurrentTs,
			primary: q.PrimaryKey, rollbackIfNotExist: q.RollbackIfNotExist, resolvingPessimistic: q.ResolvingPessimisticLock})
		out := &kvrpcpb.CheckTxnStatusResponse{}
		if s.fault == 2 {
			out.LockTtl = 3000
			out.Action = kvrpcpb.Action_NoAction
			return &tikvrpc.Response{Resp: out}, nil
		}
		for _, t := range s.txns {
			if t.id == q.LockTs {
				out.CommitVersion = t.commit
			}
		}
		if out.CommitVersion == 0 {
			out.Action = kvrpcpb.Action_TTLExpireRollback
		}
		return &tikvrpc.Response{Resp: out}, nil
	case tikvrpc.CmdResolveLock:
		s.resolves = append(s.resolves, req.ResolveLock())
		s.resolveAt = append(s.resolveAt, id)
		if s.fault == 1 {
			return tikvrpc.GenRegionErrorResp(req, &errorpb.Error{EpochNotMatch: &errorpb.EpochNotMatch{}})
		}
		return &tikvrpc.Response{Resp: &kvrpcpb.ResolveLockResponse{}}, nil
	case tikvrpc.CmdPessimisticRollback:
		q := req.PessimisticRollback()
		s.rollbacks = append(s.rollbacks, zzc14Rollback{start: q.StartVersion, forUpdate: q.ForUpdateTs, keys: q.Keys})
		return &tikvrpc.Response{Resp: &kvrpcpb.PessimisticRollbackResponse{}}, nil
	}
	panic("zzc14Storage: unexpected command")
}

// ZZ_C14_batch_resolve_locks (G2): BatchResolveLocks asks for the status of
// every transaction with a forced check (current ts = max, roll back if absent),
// then sends ONE resolve request to the given region that names exactly the
// transactions owning a non-pessimistic lock, each once, each with the commit ts
// its status check returned (0 = rolled back) - no outcome invented; pessimistic
// locks are rolled back, never committed. A region error on the
// resolve request yields (false, nil); a status check that reports a live lock
// yields an error and no resolve request.
func ZZ_C14_batch_resolve_locks() {
	locate.SetRegionCacheTTLWithJitter(600, 0)
	pd := zzc14NewPD(nil)
	st := &zzc14Storage{cache: locate.NewRegionCache(pd)}
	defer st.cache.Close()
	lr := NewLockResolver(st)
	defer lr.Close()

	// two transactions with distinct ids and arbitrary outcomes
	st.txns = []zzc14Txn{{id: zzU64("txn0"), commit: zzU64("commit0")}, {id: zzU64("txn1"), commit: zzU64("commit1")}}
	zzAssume(st.txns[0].id != st.txns[1].id)
	st.fault = zzChoice("fault", 3)

	n := 1 + zzChoice("nlocks", zzParam("g2locks", 3))
	var locks []*Lock
	owner := make([]int, n)
	for i := 0; i < n; i++ {
		var l *Lock
		switch i {
		case 0:
			l = &Lock{Key: zzBytesN("key0", 2), LockForUpdateTS: zzU64("fut0")}
			owner[i] = zzChoice("owner0", 2)
			if zzChoice("pess0", 2) == 1 {
				l.LockType = kvrpcpb.Op_PessimisticLock
			}
			if zzChoice("isprimary0", 2) == 1 {
				l.Primary = l.Key
			} else {
				l.Primary = zzBytesN("primary0", 2)
				zzAssume(!bytes.Equal(l.Primary, l.Key))
			}
		case 1:
			l = &Lock{Key: zzBytesN("key1", 2), LockForUpdateTS: zzU64("fut1")}
			owner[i] = zzChoice("owner1", 2)
			if zzChoice("pess1", 2) == 1 {
				l.LockType = kvrpcpb.Op_PessimisticLock
			}
			if zzChoice("isprimary1", 2) == 1 {
				l.Primary = l.Key
			} else {
				l.Primary = zzBytesN("primary1", 2)
				zzAssume(!bytes.Equal(l.Primary, l.Key))
			}
		default:
			l = &Lock{Key: zzBytesN("key2", 2), LockForUpdateTS: zzU64("fut2")}
			owner[i] = zzChoice("owner2", 2)
			if zzChoice("pess2", 2) == 1 {
				l.LockType = kvrpcpb.Op_PessimisticLock
			}
			l.Primary = zzBytesN("primary2", 2)
			zzAssume(!bytes.Equal(l.Primary, l.Key))
		}
		l.TxnID = st.txns[owner[i]].id
		l.TTL = 3000
		locks = append(locks, l)
	}

	// locks of one batch are on distinct keys
	for i := range locks {
		for j := 0; j < i; j++ {
			zzAssume(!bytes.Equal(locks[i].Key, locks[j].Key))
		}
	}
	bo := retry.NewBackofferWithVars(context.Background(), 20000, nil)
	loc, err := st.cache.LocateKey(bo, locks[0].Key)
	zzAssume(err == nil)
	ok, err := lr.BatchResolveLocks(bo, locks, loc.Region)

	// which transactions own a non-pessimistic lock
	var wantTxn [2]bool
	for i, l := range locks {
		if !l.IsPessimistic() {
			wantTxn[owner[i]] = true
		}
	}

	// every status check is the forced one
	for _, c := range st.checks {
		zzAssert(c.current == math.MaxUint64 && c.rollbackIfNotExist && c.callerStart == 0, "g2.status-check-is-forced-rollback")
	}

	if st.fault == 2 {
		// the first lock's status check reports a live lock
		if locks[0].IsPessimistic() {
			// a pessimistic lock is rolled back whatever the check says; the
			// outcome depends on the later locks - not asserted here
			return
		}
		zzAssert(!ok && err != nil, "g2.live-lock-is-an-error")
		zzAssert(len(st.resolves) == 0, "g2.live-lock-nothing-resolved")
		return
	}
	zzAssert(err == nil, "g2.no-error")
	zzAssert(len(st.resolves) == 1, "g2.one-resolve-request")
	zzAssert(st.resolveAt[0] == loc.Region, "g2.resolve-sent-to-the-given-region")
	if st.fault == 1 {
		zzAssert(!ok, "g2.region-error-not-ok")
	} else {
		zzAssert(ok, "g2.ok")
	}
	// the status of every lock's transaction was checked before the resolve request
	zzAssert(st.order[len(st.order)-1] == tikvrpc.CmdResolveLock, "g2.resolve-is-last")
	for i := range locks {
		seen := false
		for _, c := range st.checks {
			seen = zzOr(seen, c.txn == locks[i].TxnID)
		}
		zzAssert(seen, "g2.every-transaction-status-checked")
	}
	// txn infos: exactly the transactions with a non-pessimistic lock, each once, with the reported status
	infos := st.resolves[0].TxnInfos
	for t := 0; t < 2; t++ {
		cnt := uint64(0)
		okStatus := true
		for _, in := range infos {
			hit := in.Txn == st.txns[t].id
			cnt += zzIte64(hit, 1, 0)
			okStatus = zzAnd(okStatus, zzImplies(hit, in.Status == st.txns[t].commit))
		}
		if wantTxn[t] {
			zzAssert(cnt == 1, "g2.transaction-named-once")
		} else {
			zzAssert(cnt == 0, "g2.pessimistic-only-transaction-not-named")
		}
		zzAssert(okStatus, "g2.status-is-the-checked-one")
	}
	for _, in := range infos {
		zzAssert(zzOr(in.Txn == st.txns[0].id, in.Txn == st.txns[1].id), "g2.no-foreign-transaction")
	}
	// pessimistic locks are cleared without being committed: either rolled back
	// individually (a secondary), or rolled back by the forced status check on
	// the lock itself (a primary), or - when the same transaction also owns a
	// non-pessimistic lock seen earlier - covered by the transaction's entry in
	// the resolve request (TiKV rolls a pessimistic lock back when asked to
	// commit or roll back its transaction).
	for _, l := range locks {
		if !l.IsPessimistic() {
			continue
		}
		named := false
		for _, in := range infos {
			named = zzOr(named, in.Txn == l.TxnID)
		}
		cleared := named
		if bytes.Equal(l.Key, l.Primary) {
			for _, c := range st.checks {
				cleared = zzOr(cleared, zzAnd(c.txn == l.TxnID, zzAnd(c.resolvingPessimistic, bytes.Equal(c.primary, l.Key))))
			}
		} else {
			for _, r := range st.rollbacks {
				fu := l.LockForUpdateTS
				hit := zzAnd(r.start == l.TxnID, len(r.keys) == 1 && bytes.Equal(r.keys[0], l.Key))
				hit = zzAnd(hit, zzOr(r.forUpdate == fu, zzAnd(fu == 0, r.forUpdate == math.MaxUint64)))
				cleared = zzOr(cleared, hit)
			}
		}
		zzAssert(cleared, "g2.pessimistic-lock-cleared")
	}
	// rollback requests only for pessimistic locks of the batch
	for _, r := range st.rollbacks {
		match := false
		for _, l := range locks {
			if l.IsPessimistic() {
				match = zzOr(match, zzAnd(r.start == l.TxnID, len(r.keys) == 1 && bytes.Equal(r.keys[0], l.Key)))
			}
		}
		zzAssert(match, "g2.rollback-only-for-pessimistic-locks")
	}
}
