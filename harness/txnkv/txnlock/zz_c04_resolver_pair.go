package txnlock

import (
	"context"
	"math"

	"github.com/pingcap/kvproto/pkg/kvrpcpb"

	"github.com/tikv/client-go/v2/config/retry"
	"github.com/tikv/client-go/v2/tikvrpc"
)

// zzrSimplePrimary: primary of t committed (symbolic ts) / rolled back / locked (symbolic ttl,
// min-commit-ts); names carry the transaction's tag.
func zzrSimplePrimary(s *zzrStore, t *zzrTxn, state int, ctsName, ttlName, minName string) *zzrEntry {
	e := &zzrEntry{key: t.primary, txn: t.startTS, primary: t.primary, txnSize: 1}
	switch state {
	case 0:
		e.state = zzrCommitted
		e.commitTS = zzU64(ctsName)
		zzAssume(e.commitTS > t.startTS)
	case 1:
		e.state = zzrRolledBack
	case 2:
		e.state = zzrLocked
		e.ttl = zzrStoredTTL(ttlName)
		if zzParam("tier", 0) == 1 {
			// quick: no min-commit-ts (its push is exercised by `single`)
			e.minCommitTS = zzU64(minName)
			zzAssume(e.minCommitTS == 0 || e.minCommitTS > t.startTS)
		}
	}
	return s.add(e)
}

// ZZ_C04_resolver_pair: two locks in one ResolveLocks / ResolveLocksForRead call - of one
// transaction or of two (primaries "a" and "b"), in the same or in different regions, small
// or large. No outcome leaks from one transaction to the other; each live transaction is
// left alone and the shortest remaining ttl is what the caller is told to wait.
func ZZ_C04_resolver_pair() {
	s, lr := zzrNewStore(zzParam("pairfaults", 0)) // region errors are exercised by the one-lock harnesses
	defer s.close(lr)
	startA := zzrStartTS("txnA.start")
	tA := &zzrTxn{startTS: startA, primary: []byte("a")}
	s.txns = append(s.txns, tA)
	pA := zzrSimplePrimary(s, tA, zzChoice("primaryA.state", 3), "primaryA.committs", "primaryA.ttl", "primaryA.mincommit")
	tB, pB := tA, pA
	if zzBool("twotxns") {
		startB := zzrStartTS("txnB.start")
		zzAssume(startB != startA)
		tB = &zzrTxn{startTS: startB, primary: []byte("b")}
		s.txns = append(s.txns, tB)
		pB = zzrSimplePrimary(s, tB, zzChoice("primaryB.state", 3), "primaryB.committs", "primaryB.ttl", "primaryB.mincommit")
	}
	size := uint64(1)
	if zzBool("large") {
		size = 1000
	}
	k2 := "n"
	two := size > 1 // quick: large transactions across two regions, small ones in one
	if zzParam("tier", 0) == 1 {
		two = zzBool("layout.tworegions")
	}
	if two {
		k2 = "t"
	}
	locks := []*Lock{
		zzrSecondaryLock(s, tA, "m", false, zzrStoredTTL("lock0.ttl"), size),
		zzrSecondaryLock(s, tB, k2, false, zzrStoredTTL("lock1.ttl"), size),
	}
	caller := zzU64("caller.start")
	forRead := zzBool("forread")
	bo := retry.NewBackoffer(context.Background(), 20)
	res, err := lr.ResolveLocksWithOpts(bo, ResolveLocksOptions{CallerStartTS: caller, Locks: locks, ForRead: forRead})
	zzrDrain()
	s.mu.Lock()
	defer s.mu.Unlock()

	zzAssert(s.misrouted == 0 && s.unknownTxn == 0 && s.unknownCmd == 0, "pair.requests-well-formed")
	zzAssert(s.badOutcome == 0 && s.undetermined == 0, "pair.resolve-carries-own-txn-outcome")
	zzAssert(s.liveRemoved == 0, "pair.live-lock-never-removed")
	zzAssert(s.expiredLive == 0, "pair.expiry-only-on-own-clock")
	zzAssert(s.checksUseOwnClock(), "pair.current-ts-own-clock")
	zzAssert(s.rollbackIfNotExistOnlyExpired(), "pair.rollback-if-not-exist-only-expired")
	zzAssert(s.resolvesFollowReports(), "pair.resolve-after-determined-report")
	if err != nil {
		return
	}
	// expected wait: the shortest remaining ttl over the transactions still alive on the
	// resolver's clock (a reader does not wait for a transaction whose min-commit-ts was pushed)
	var want int64
	have := false
	for _, p := range []*zzrEntry{pA, pB} {
		if p.state0 != zzrLocked || zzrPhys(p.txn)+p.ttl < zzrPhys(s.orc.now()) {
			continue
		}
		zzAssert(p.state == zzrLocked, "pair.live-primary-stays")
		zzAssert(s.count(tikvrpc.CmdResolveLock, p.txn) == 0, "pair.live-lock-nothing-sent")
		if forRead && ((caller != 0 && p.minCommitTS > caller) || caller == math.MaxUint64) {
			continue
		}
		u := zzrUntil(s, p.txn, p.ttl)
		if !have || u < want {
			want, have = u, true
		}
	}
	zzAssert(res.TTL == want, "pair.shortest-wait-reported")
	if forRead {
		for _, t := range []*zzrTxn{tA, tB} {
			kind, cts := s.truth(t)
			p := s.find(t.primary, t.startTS)
			if zzrHas(res.AccessLocks, t.startTS) {
				zzAssert(kind == zzrTruthCommit && cts <= caller, "pair.read-access-only-committed-before")
			}
			if zzrHas(res.IgnoreLocks, t.startTS) {
				pushed := p.locked() && ((caller != 0 && p.minCommitTS > caller) || caller == math.MaxUint64)
				zzAssert(kind == zzrTruthRollback || (kind == zzrTruthCommit && cts > caller) || pushed, "pair.read-ignore-only-invisible")
			}
		}
	}
}

// ZZ_C04_resolver_addkeys: asyncResolveData.addKeys fed with the CheckSecondaryLocks answers
// of two regions in both orders: same commit ts, same verdict, no error - for every
// consistent pair of answers (all locks present with symbolic min-commit-ts, or a lock
// missing with the commit ts found / 0).
func ZZ_C04_resolver_addkeys() {
	start := zzrStartTS("txn.start")
	primaryMin := zzU64("primary.mincommit")
	zzAssume(primaryMin > start)
	commitTS := zzU64("txn.committs")
	zzAssume(commitTS >= primaryMin)
	type answer struct {
		locks    []*kvrpcpb.LockInfo
		expected int
		commitTS uint64
	}
	var ans [2]answer
	maxMin := primaryMin
	missing, missingTS := false, uint64(0)
	kindNames := []string{"answer0.kind", "answer1.kind"}
	nNames := []string{"answer0.keys", "answer1.keys"}
	minNames := [][]string{{"answer0.min0", "answer0.min1"}, {"answer1.min0", "answer1.min1"}}
	committed := zzBool("txn.committed")
	for i := 0; i < 2; i++ {
		n := 1 + zzChoice(nNames[i], 2)
		ans[i].expected = n
		if zzChoice(kindNames[i], 2) == 0 {
			for j := 0; j < n; j++ {
				m := zzU64(minNames[i][j])
				zzAssume(m > start && m <= commitTS)
				ans[i].locks = append(ans[i].locks, &kvrpcpb.LockInfo{LockVersion: start, UseAsyncCommit: true, MinCommitTs: m, Key: []byte{byte('k' + 2*i + j)}})
				maxMin = zzIte64(m > maxMin, m, maxMin)
			}
		} else {
			if committed {
				ans[i].commitTS = commitTS
			}
			missing, missingTS = true, ans[i].commitTS
		}
	}
	run := func(first, second int) (*asyncResolveData, error) {
		d := &asyncResolveData{commitTs: primaryMin, keys: [][]byte{}}
		if err := d.addKeys(ans[first].locks, ans[first].expected, start, ans[first].commitTS); err != nil {
			return d, err
		}
		return d, d.addKeys(ans[second].locks, ans[second].expected, start, ans[second].commitTS)
	}
	d1, err1 := run(0, 1)
	d2, err2 := run(1, 0)
	zzAssert(err1 == nil && err2 == nil, "addkeys.consistent-answers-accepted")
	zzAssert(d1.commitTs == d2.commitTs && d1.missingLock == d2.missingLock, "addkeys.order-independent")
	if missing {
		zzAssert(d1.missingLock && d1.commitTs == missingTS, "addkeys.missing-lock-gives-reported-ts")
	} else {
		zzAssert(!d1.missingLock && d1.commitTs == maxMin, "addkeys.all-locked-gives-max-min-commit")
		zzAssert(len(d1.keys) == ans[0].expected+ans[1].expected && len(d2.keys) == len(d1.keys), "addkeys.all-locked-keys-collected")
	}
}
