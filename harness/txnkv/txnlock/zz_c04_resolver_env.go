package txnlock

// Harness environment for the lock-resolver part of C04 (DESIGN §3 C04 item 6).
//
// The REAL LockResolver runs over a harness `storage`:
//   - GetRegionCache: the real locate.RegionCache over a harness PD (static layout),
//   - GetOracle:      a harness oracle with a symbolic physical clock,
//   - SendReq:        answered by the harness directly from a ghost truth about the
//                     transactions that own the locks (no sender, no transport).
// The ghost store follows TiKV's CheckTxnStatus / CheckSecondaryLocks / ResolveLock /
// PessimisticRollback semantics over symbolic timestamps and ttls; every request is
// logged and judged against the truth at the moment it arrives.
// Only interface seams are used, so counterexamples replay natively.

import (
	"bytes"
	"context"
	"math"
	"sync"
	"time"

	"github.com/pingcap/kvproto/pkg/errorpb"
	"github.com/pingcap/kvproto/pkg/kvrpcpb"
	"github.com/pingcap/kvproto/pkg/metapb"
	"github.com/tikv/client-go/v2/config/retry"
	"github.com/tikv/client-go/v2/internal/locate"
	"github.com/tikv/client-go/v2/oracle"
	"github.com/tikv/client-go/v2/tikvrpc"
	pd "github.com/tikv/pd/client"
	"github.com/tikv/pd/client/clients/router"
	"github.com/tikv/pd/client/opt"
	"github.com/tikv/pd/client/pkg/caller"
)

// ---- PD (idiom of harness/txnkv/transaction/zz_txn_infra.go) ------------------

type zzrPD struct {
	pd.Client
	regions []*metapb.Region
	leaders []*metapb.Peer
	stores  []*metapb.Store
}

func (p *zzrPD) WithCallerComponent(caller.Component) pd.Client { return p }
func (p *zzrPD) GetClusterID(context.Context) uint64            { return 1 }
func (p *zzrPD) Close()                                         {}

func zzrRegionHas(r *metapb.Region, key []byte) bool {
	return bytes.Compare(r.StartKey, key) <= 0 && (len(r.EndKey) == 0 || bytes.Compare(key, r.EndKey) < 0)
}

func (p *zzrPD) wrap(i int) *router.Region {
	return &router.Region{Meta: p.regions[i], Leader: p.leaders[i]}
}

func (p *zzrPD) GetRegion(ctx context.Context, key []byte, opts ...opt.GetRegionOption) (*router.Region, error) {
	for i, r := range p.regions {
		if zzrRegionHas(r, key) {
			return p.wrap(i), nil
		}
	}
	return nil, nil
}

func (p *zzrPD) GetPrevRegion(ctx context.Context, key []byte, opts ...opt.GetRegionOption) (*router.Region, error) {
	for i, r := range p.regions {
		if zzrRegionHas(r, key) {
			if i == 0 {
				return nil, nil
			}
			return p.wrap(i - 1), nil
		}
	}
	return nil, nil
}

func (p *zzrPD) GetRegionByID(ctx context.Context, id uint64, opts ...opt.GetRegionOption) (*router.Region, error) {
	for i, r := range p.regions {
		if r.Id == id {
			return p.wrap(i), nil
		}
	}
	return nil, nil
}

func (p *zzrPD) ScanRegions(ctx context.Context, key, endKey []byte, limit int, opts ...opt.GetRegionOption) ([]*router.Region, error) {
	var out []*router.Region
	for i, r := range p.regions {
		if len(r.EndKey) != 0 && bytes.Compare(r.EndKey, key) <= 0 {
			continue
		}
		if len(endKey) != 0 && bytes.Compare(r.StartKey, endKey) >= 0 {
			break
		}
		out = append(out, p.wrap(i))
		if limit > 0 && len(out) >= limit {
			break
		}
	}
	return out, nil
}

func (p *zzrPD) BatchScanRegions(ctx context.Context, ranges []router.KeyRange, limit int, opts ...opt.GetRegionOption) ([]*router.Region, error) {
	var out []*router.Region
	seen := map[uint64]bool{}
	for _, rg := range ranges {
		rs, _ := p.ScanRegions(ctx, rg.StartKey, rg.EndKey, limit, opts...)
		for _, r := range rs {
			if !seen[r.Meta.Id] {
				seen[r.Meta.Id] = true
				out = append(out, r)
			}
		}
	}
	return out, nil
}

func (p *zzrPD) GetStore(ctx context.Context, id uint64, opts ...opt.GetStoreOption) (*metapb.Store, error) {
	for _, s := range p.stores {
		if s.Id == id {
			return s, nil
		}
	}
	return nil, nil
}

func (p *zzrPD) GetAllStores(ctx context.Context, opts ...opt.GetStoreOption) ([]*metapb.Store, error) {
	return p.stores, nil
}

// zzrLayout builds len(splits)+1 regions split at the given increasing keys.
func zzrLayout(splits [][]byte) *zzrPD {
	p := &zzrPD{}
	p.stores = []*metapb.Store{{Id: 1, Address: "s1"}, {Id: 2, Address: "s2"}, {Id: 3, Address: "s3"}}
	var start []byte
	for i := 0; i <= len(splits); i++ {
		var end []byte
		if i < len(splits) {
			end = splits[i]
		}
		peers := []*metapb.Peer{{Id: uint64(100 + 10*i + 1), StoreId: 1}, {Id: uint64(100 + 10*i + 2), StoreId: 2}, {Id: uint64(100 + 10*i + 3), StoreId: 3}}
		p.regions = append(p.regions, &metapb.Region{Id: uint64(10 + i), StartKey: start, EndKey: end,
			RegionEpoch: &metapb.RegionEpoch{ConfVer: 1, Version: 1}, Peers: peers})
		p.leaders = append(p.leaders, peers[0])
		start = end
	}
	return p
}

// ---- oracle: the resolver's own clock ---------------------------------------------

// zzrOracle is a clock standing at a symbolic physical time nowMs (milliseconds).
// IsExpired / UntilExpired follow oracles.pdOracle over that one clock value.
type zzrOracle struct {
	oracle.Oracle
	nowMs   int64
	logical int64
	lowRes  int // GetLowResolutionTimestamp calls
}

func (o *zzrOracle) now() uint64 { return oracle.ComposeTS(o.nowMs, o.logical) }
func (o *zzrOracle) GetTimestamp(context.Context, *oracle.Option) (uint64, error) {
	return o.now(), nil
}
func (o *zzrOracle) GetLowResolutionTimestamp(context.Context, *oracle.Option) (uint64, error) {
	o.lowRes++
	return o.now(), nil
}
func (o *zzrOracle) IsExpired(lockTS, ttl uint64, _ *oracle.Option) bool {
	return o.nowMs >= oracle.ExtractPhysical(lockTS)+int64(ttl)
}
func (o *zzrOracle) UntilExpired(lockTS, ttl uint64, _ *oracle.Option) int64 {
	return oracle.ExtractPhysical(lockTS) + int64(ttl) - o.nowMs
}
func (o *zzrOracle) ValidateReadTS(context.Context, uint64, bool, *oracle.Option) error { return nil }
func (o *zzrOracle) Close()                                                            {}

// ---- ghost truth --------------------------------------------------------------------

// State of one key with respect to one transaction.
const (
	zzrNone       = iota // neither lock nor record
	zzrLocked            // prewrite lock
	zzrPessLocked        // pessimistic lock
	zzrCommitted         // commit record at commitTS
	zzrRolledBack        // rollback record
)

type zzrEntry struct {
	key         []byte
	txn         uint64
	state       int
	primary     []byte // the lock's primary pointer
	ttl         uint64
	minCommitTS uint64
	async       bool
	secondaries [][]byte
	forUpdateTS uint64
	txnSize     uint64
	commitTS    uint64
	// ghost
	state0 int // state at the start of the run
}

func (e *zzrEntry) locked() bool { return e != nil && (e.state == zzrLocked || e.state == zzrPessLocked) }

func (e *zzrEntry) lockInfo() *kvrpcpb.LockInfo {
	op := kvrpcpb.Op_Put
	if e.state == zzrPessLocked {
		op = kvrpcpb.Op_PessimisticLock
	}
	return &kvrpcpb.LockInfo{PrimaryLock: e.primary, LockVersion: e.txn, Key: e.key, LockTtl: e.ttl, TxnSize: e.txnSize,
		LockType: op, LockForUpdateTs: e.forUpdateTS, UseAsyncCommit: e.async, MinCommitTs: e.minCommitTS, Secondaries: e.secondaries}
}

// zzrTxn: the harness' knowledge of one lock-owning transaction.
type zzrTxn struct {
	startTS uint64
	primary []byte
	// the locks of this transaction handed to the resolver (for the ttl-0 / expiry rules)
	inputTTL []uint64
}

// zzrRPC is one request as seen by the harness store.
type zzrRPC struct {
	cmd      tikvrpc.CmdType
	req      *tikvrpc.Request
	regionID uint64
	fault    bool // answered with a region error, not executed
	// CheckTxnStatus
	determined bool
	commitTS   uint64
	respTTL    uint64
	// CheckSecondaryLocks
	nLocks   int
	maxMin   uint64 // max min-commit-ts of the returned locks
	nonAsync bool   // a returned lock is not an async-commit lock
	// CheckTxnStatus answered "still locked": the primary lock as reported
	primaryAsync bool
	primaryMin   uint64
	secondaries  [][]byte
}

type zzrStore struct {
	mu      sync.Mutex
	pd      *zzrPD
	cache   *locate.RegionCache
	orc     *zzrOracle
	entries []*zzrEntry
	txns    []*zzrTxn
	log     []zzrRPC
	faults  int  // region errors the script may still inject
	batch   bool // the run is a BatchResolveLocks (GC) run

	// monitors (judged when a request arrives)
	misrouted     int // a request addressed a region that does not hold its key(s)
	badOutcome    int // ResolveLock whose (commit/rollback, commit ts) is not the transaction's truth
	undetermined  int // ResolveLock for a transaction whose outcome is not determined
	liveRemoved   int // ResolveLock / PessimisticRollback while the primary lock is alive
	expiredLive   int // the store expired a lock that is alive on the resolver's clock
	unknownTxn    int // a request names a transaction that owns none of the locks
	unknownCmd    int
	pessRollbacks int
}

func (s *zzrStore) GetRegionCache() *locate.RegionCache { return s.cache }
func (s *zzrStore) GetOracle() oracle.Oracle            { return s.orc }

func zzrPhys(ts uint64) uint64 { return ts >> 18 }

func (s *zzrStore) find(key []byte, txn uint64) *zzrEntry {
	for _, e := range s.entries {
		if e.txn == txn && bytes.Equal(e.key, key) {
			return e
		}
	}
	return nil
}

func (s *zzrStore) findOrAdd(key []byte, txn uint64) *zzrEntry {
	if e := s.find(key, txn); e != nil {
		return e
	}
	e := &zzrEntry{key: append([]byte(nil), key...), txn: txn}
	s.entries = append(s.entries, e)
	return e
}

func (s *zzrStore) txn(startTS uint64) *zzrTxn {
	for _, t := range s.txns {
		if t.startTS == startTS {
			return t
		}
	}
	return nil
}

// add registers an entry (scenario construction).
func (s *zzrStore) add(e *zzrEntry) *zzrEntry {
	e.state0 = e.state
	s.entries = append(s.entries, e)
	return e
}

// Truth of a transaction.
const (
	zzrUndetermined = iota
	zzrTruthCommit
	zzrTruthRollback
)

// truth returns what the store's content implies for transaction t right now:
// the primary's record decides; a locked async-commit primary is decided by its
// secondaries (all locked as async-commit locks: committed at the max min-commit-ts;
// one committed: that commit ts; one with a rollback record: rolled back); anything
// else is undetermined.
func (s *zzrStore) truth(t *zzrTxn) (int, uint64) {
	p := s.find(t.primary, t.startTS)
	if p == nil {
		return zzrUndetermined, 0
	}
	switch p.state {
	case zzrCommitted:
		return zzrTruthCommit, p.commitTS
	case zzrRolledBack:
		return zzrTruthRollback, 0
	case zzrLocked:
		if !p.async || !bytes.Equal(p.primary, p.key) {
			return zzrUndetermined, 0
		}
		maxMin := p.minCommitTS
		all := true
		for _, sk := range p.secondaries {
			e := s.find(sk, t.startTS)
			if e == nil {
				all = false
				continue
			}
			switch e.state {
			case zzrCommitted:
				return zzrTruthCommit, e.commitTS
			case zzrRolledBack:
				return zzrTruthRollback, 0
			case zzrLocked:
				if !e.async {
					all = false
				} else if e.minCommitTS > maxMin {
					maxMin = e.minCommitTS
				}
			default:
				all = false
			}
		}
		if all {
			return zzrTruthCommit, maxMin
		}
	}
	return zzrUndetermined, 0
}

// primaryAlive: the transaction's primary lock is in place (pointing to itself) and,
// for an async-commit primary, has not outlived its ttl on the resolver's clock.
// (A non-async primary that the store was asked to expire is no longer locked.)
func (s *zzrStore) primaryAlive(t *zzrTxn) bool {
	p := s.find(t.primary, t.startTS)
	if !p.locked() || !bytes.Equal(p.primary, p.key) {
		return false
	}
	if p.state == zzrLocked && p.async {
		if s.batch {
			return false // GC: every lock at or below the safe point counts as expired
		}
		return !s.orc.IsExpired(t.startTS, p.ttl, nil)
	}
	return true
}

func (s *zzrStore) regionOf(id uint64) *metapb.Region {
	for _, r := range s.pd.regions {
		if r.Id == id {
			return r
		}
	}
	return nil
}

func zzrFaultName(req *tikvrpc.Request) string {
	switch req.Type {
	case tikvrpc.CmdCheckTxnStatus:
		return "fault.check." + string(req.CheckTxnStatus().PrimaryKey)
	case tikvrpc.CmdCheckSecondaryLocks:
		return "fault.secondaries." + string(req.CheckSecondaryLocks().Keys[0])
	case tikvrpc.CmdResolveLock:
		if ks := req.ResolveLock().Keys; len(ks) > 0 {
			return "fault.resolve." + string(ks[0])
		}
		return "fault.resolve"
	case tikvrpc.CmdPessimisticRollback:
		return "fault.pessrollback"
	}
	return "fault.other"
}

func (s *zzrStore) SendReq(bo *retry.Backoffer, req *tikvrpc.Request, regionID locate.RegionVerID, timeout time.Duration) (*tikvrpc.Response, error) {
	s.mu.Lock()
	defer s.mu.Unlock()
	rpc := zzrRPC{cmd: req.Type, req: req, regionID: regionID.GetID()}
	region := s.regionOf(regionID.GetID())
	if region == nil {
		s.misrouted++
		s.log = append(s.log, rpc)
		resp, _ := tikvrpc.GenRegionErrorResp(req, &errorpb.Error{Message: "notfound", RegionNotFound: &errorpb.RegionNotFound{RegionId: regionID.GetID()}})
		return resp, nil
	}
	if s.faults > 0 {
		if zzChoice(zzrFaultName(req), 2) == 1 {
			s.faults--
			rpc.fault = true
			s.log = append(s.log, rpc)
			resp, _ := tikvrpc.GenRegionErrorResp(req, &errorpb.Error{Message: "epoch", EpochNotMatch: &errorpb.EpochNotMatch{}})
			return resp, nil
		}
	}
	var resp *tikvrpc.Response
	switch req.Type {
	case tikvrpc.CmdCheckTxnStatus:
		r := req.CheckTxnStatus()
		if !zzrRegionHas(region, r.PrimaryKey) {
			s.misrouted++
		}
		out := s.checkTxnStatus(r)
		rpc.respTTL = out.LockTtl
		if out.Error == nil && out.LockTtl == 0 {
			if out.CommitVersion != 0 {
				rpc.determined, rpc.commitTS = true, out.CommitVersion
			} else if out.Action == kvrpcpb.Action_NoAction || out.Action == kvrpcpb.Action_LockNotExistRollback || out.Action == kvrpcpb.Action_TTLExpireRollback {
				rpc.determined = true
			}
		}
		if out.LockInfo != nil {
			rpc.primaryAsync = out.LockInfo.UseAsyncCommit
			rpc.primaryMin = out.LockInfo.MinCommitTs
			rpc.secondaries = out.LockInfo.Secondaries
		}
		resp = &tikvrpc.Response{Resp: out}
	case tikvrpc.CmdCheckSecondaryLocks:
		r := req.CheckSecondaryLocks()
		for _, k := range r.Keys {
			if !zzrRegionHas(region, k) {
				s.misrouted++
			}
		}
		out := s.checkSecondaryLocks(r)
		rpc.nLocks = len(out.Locks)
		rpc.commitTS = out.CommitTs
		for _, l := range out.Locks {
			rpc.maxMin = zzIte64(l.MinCommitTs > rpc.maxMin, l.MinCommitTs, rpc.maxMin)
			if !l.UseAsyncCommit {
				rpc.nonAsync = true
			}
		}
		resp = &tikvrpc.Response{Resp: out}
	case tikvrpc.CmdResolveLock:
		r := req.ResolveLock()
		for _, k := range r.Keys {
			if !zzrRegionHas(region, k) {
				s.misrouted++
			}
		}
		if len(r.TxnInfos) > 0 {
			for _, ti := range r.TxnInfos {
				s.resolve(region, ti.Txn, ti.Status, nil)
			}
		} else if r.StartVersion != 0 {
			s.resolve(region, r.StartVersion, r.CommitVersion, r.Keys)
		} // else: an empty status map resolves nothing (TiKV: no lock matches)
		resp = &tikvrpc.Response{Resp: &kvrpcpb.ResolveLockResponse{}}
	case tikvrpc.CmdPessimisticRollback:
		r := req.PessimisticRollback()
		for _, k := range r.Keys {
			if !zzrRegionHas(region, k) {
				s.misrouted++
			}
		}
		s.pessimisticRollback(region, r)
		resp = &tikvrpc.Response{Resp: &kvrpcpb.PessimisticRollbackResponse{}}
	default:
		s.unknownCmd++
		resp, _ = tikvrpc.GenRegionErrorResp(req, &errorpb.Error{Message: "unmodelled"})
	}
	s.log = append(s.log, rpc)
	return resp, nil
}

// checkTxnStatus follows TiKV (actions/check_txn_status.rs, commands/check_txn_status.rs).
func (s *zzrStore) checkTxnStatus(r *kvrpcpb.CheckTxnStatusRequest) *kvrpcpb.CheckTxnStatusResponse {
	resp := &kvrpcpb.CheckTxnStatusResponse{}
	t := s.txn(r.LockTs)
	if t == nil {
		s.unknownTxn++
	}
	e := s.find(r.PrimaryKey, r.LockTs)
	if e.locked() {
		if r.VerifyIsPrimary && !bytes.Equal(e.primary, r.PrimaryKey) {
			resp.Error = &kvrpcpb.KeyError{PrimaryMismatch: &kvrpcpb.PrimaryMismatch{LockInfo: e.lockInfo()}}
			return resp
		}
		if e.async && !r.ForceSyncCommit {
			// never rolled back or pushed by CheckTxnStatus
			resp.LockTtl = e.ttl
			resp.LockInfo = e.lockInfo()
			return resp
		}
		if zzrPhys(e.txn)+e.ttl < zzrPhys(r.CurrentTs) {
			// expired on the clock the caller supplied
			if t != nil && !s.batch && !s.orc.IsExpired(e.txn, e.ttl, nil) && !zzrHasZeroTTL(t) {
				s.expiredLive++
			}
			if r.ResolvingPessimisticLock && e.state == zzrPessLocked {
				e.state = zzrNone
				resp.Action = kvrpcpb.Action_TTLExpirePessimisticRollback
				return resp
			}
			e.state = zzrRolledBack
			resp.Action = kvrpcpb.Action_TTLExpireRollback
			return resp
		}
		if e.minCommitTS != 0 && r.CallerStartTs != math.MaxUint64 && r.CallerStartTs >= e.minCommitTS {
			e.minCommitTS = r.CallerStartTs + 1
			if e.minCommitTS < r.CurrentTs {
				e.minCommitTS = r.CurrentTs
			}
		}
		if (r.CallerStartTs != 0 && e.minCommitTS > r.CallerStartTs) || r.CallerStartTs == math.MaxUint64 {
			resp.Action = kvrpcpb.Action_MinCommitTSPushed
		}
		resp.LockTtl = e.ttl
		resp.LockInfo = e.lockInfo()
		return resp
	}
	if e != nil && e.state == zzrCommitted {
		resp.CommitVersion = e.commitTS
		return resp
	}
	if e != nil && e.state == zzrRolledBack {
		resp.Action = kvrpcpb.Action_NoAction
		return resp
	}
	if !r.RollbackIfNotExist {
		resp.Error = &kvrpcpb.KeyError{TxnNotFound: &kvrpcpb.TxnNotFound{StartTs: r.LockTs, PrimaryKey: r.PrimaryKey}}
		return resp
	}
	if r.ResolvingPessimisticLock {
		resp.Action = kvrpcpb.Action_LockNotExistDoNothing
		return resp
	}
	s.findOrAdd(r.PrimaryKey, r.LockTs).state = zzrRolledBack
	resp.Action = kvrpcpb.Action_LockNotExistRollback
	return resp
}

// zzrHasZeroTTLSym is zzrHasZeroTTL without forking.
func zzrHasZeroTTLSym(t *zzrTxn) bool {
	z := false
	for _, ttl := range t.inputTTL {
		z = zzOr(z, ttl == 0)
	}
	return z
}

func zzrHasZeroTTL(t *zzrTxn) bool {
	for _, ttl := range t.inputTTL {
		if ttl == 0 {
			return true
		}
	}
	return false
}

// checkSecondaryLocks follows TiKV (commands/check_secondary_locks.rs).
func (s *zzrStore) checkSecondaryLocks(r *kvrpcpb.CheckSecondaryLocksRequest) *kvrpcpb.CheckSecondaryLocksResponse {
	resp := &kvrpcpb.CheckSecondaryLocksResponse{}
	if s.txn(r.StartVersion) == nil {
		s.unknownTxn++
	}
	for _, k := range r.Keys {
		e := s.find(k, r.StartVersion)
		if e != nil && e.state == zzrLocked {
			resp.Locks = append(resp.Locks, e.lockInfo())
			continue
		}
		resp.Locks = nil
		if e != nil && e.state == zzrCommitted {
			resp.CommitTs = e.commitTS
			return resp
		}
		// pessimistic lock: unlocked; nothing: a rollback record is written
		s.findOrAdd(k, r.StartVersion).state = zzrRolledBack
		return resp
	}
	return resp
}

// resolve judges a ResolveLock for one transaction against the truth and applies it.
func (s *zzrStore) resolve(region *metapb.Region, txn, commitTS uint64, keys [][]byte) {
	t := s.txn(txn)
	if t == nil {
		s.unknownTxn++
		return
	}
	kind, ts := s.truth(t)
	if s.primaryAlive(t) {
		s.liveRemoved++
	} else if kind == zzrUndetermined {
		s.undetermined++
	} else if (kind == zzrTruthCommit) != (commitTS != 0) || (kind == zzrTruthCommit && commitTS != ts) {
		s.badOutcome++
	}
	for _, e := range s.entries {
		if e.txn != txn || !e.locked() || !zzrRegionHas(region, e.key) {
			continue
		}
		if len(keys) > 0 {
			in := false
			for _, k := range keys {
				in = in || bytes.Equal(k, e.key)
			}
			if !in {
				continue
			}
		}
		if e.state == zzrPessLocked {
			// TiKV's ResolveLock releases a pessimistic lock of the transaction either way
			e.state = zzrNone
		} else if commitTS != 0 {
			e.state, e.commitTS = zzrCommitted, commitTS
		} else {
			e.state = zzrRolledBack
		}
	}
}

func (s *zzrStore) pessimisticRollback(region *metapb.Region, r *kvrpcpb.PessimisticRollbackRequest) {
	s.pessRollbacks++
	t := s.txn(r.StartVersion)
	if t == nil {
		s.unknownTxn++
		return
	}
	if s.primaryAlive(t) {
		s.liveRemoved++
	}
	for _, e := range s.entries {
		if e.txn != r.StartVersion || e.state != zzrPessLocked || !zzrRegionHas(region, e.key) || e.forUpdateTS > r.ForUpdateTs {
			continue
		}
		if len(r.Keys) > 0 {
			in := false
			for _, k := range r.Keys {
				in = in || bytes.Equal(k, e.key)
			}
			if !in {
				continue
			}
		}
		e.state = zzrNone
	}
}

// ---- construction -------------------------------------------------------------------

// zzrNewStore: regions (-inf,"h") ["h","r") ["r",+inf); the clock stands at a symbolic
// physical time; region errors: at most `faults`.
func zzrNewStore(faults int) (*zzrStore, *LockResolver) {
	zzConcreteRand()
	s := &zzrStore{faults: faults}
	s.pd = zzrLayout([][]byte{[]byte("h"), []byte("r")})
	s.cache = locate.NewRegionCache(s.pd)
	now := zzI64("now.ms")
	zzAssume(now >= 0 && now < 1<<40)
	lg := zzI64("now.logical")
	zzAssume(lg >= 0 && lg < 1<<18)
	s.orc = &zzrOracle{nowMs: now, logical: lg}
	return s, NewLockResolver(s)
}

func (s *zzrStore) close(lr *LockResolver) {
	lr.Close()
	s.cache.Close()
}

// zzrDrain waits for the resolver's background tasks (async resolve pool).
func zzrDrain() {
	zzRunAll()
	// a background task sleeping in a back-off: let virtual time pass
	for i := 0; zzInterp() && i < 4 && len(globalAsyncResolveLockSemaphore) > 0; i++ {
		zzAdvance(int64(time.Second))
		zzRunAll()
	}
	if !zzInterp() {
		for i := 0; i < 2000 && len(globalAsyncResolveLockSemaphore) > 0; i++ {
			time.Sleep(time.Millisecond)
		}
	}
}

// zzrStartTS draws a transaction start timestamp.
func zzrStartTS(name string) uint64 {
	ts := zzU64(name)
	zzAssume(ts >= 1<<20 && ts < 1<<58)
	return ts
}

func zzrTTL(name string) uint64 {
	ttl := zzU64(name)
	zzAssume(ttl < 1<<40)
	return ttl
}

// zzrStoredTTL draws the ttl of a lock in the store: at least 1 (CheckTxnStatusResponse
// encodes "no lock" as LockTtl 0, no client writes a lock with ttl 0).
func zzrStoredTTL(name string) uint64 {
	ttl := zzU64(name)
	zzAssume(ttl >= 1 && ttl < 1<<40)
	return ttl
}

// ---- log predicates --------------------------------------------------------------------

// reported computes, from the answers the store gave before log index upto, what
// the store told the resolver about transaction txn: a determined CheckTxnStatus
// answer, or - for an async-commit primary - the CheckSecondaryLocks answers covering
// all secondaries: a missing lock gives the reported commit ts (0 = roll back), else
// the max of all min-commit timestamps (primary included).
func (s *zzrStore) reported(txn uint64, upto int) (determined bool, commitTS uint64) {
	var secondaries [][]byte
	asyncPrimary := false
	var maxMin uint64
	covered := 0
	missing := false
	plain := false
	var missingTS uint64
	for i := 0; i < upto; i++ {
		rpc := &s.log[i]
		if rpc.fault {
			continue
		}
		switch rpc.cmd {
		case tikvrpc.CmdCheckTxnStatus:
			r := rpc.req.CheckTxnStatus()
			if r.LockTs != txn {
				continue
			}
			if rpc.determined {
				return true, rpc.commitTS
			}
			if rpc.respTTL != 0 && rpc.primaryAsync && !r.ForceSyncCommit {
				asyncPrimary = true
				secondaries = rpc.secondaries
				maxMin = zzIte64(rpc.primaryMin > maxMin, rpc.primaryMin, maxMin)
			}
		case tikvrpc.CmdCheckSecondaryLocks:
			r := rpc.req.CheckSecondaryLocks()
			if r.StartVersion != txn {
				continue
			}
			if rpc.nonAsync {
				// not an async-commit transaction after all: only the primary decides
				plain = true
				continue
			}
			if rpc.nLocks < len(r.Keys) {
				if !missing {
					missing, missingTS = true, rpc.commitTS
				}
			} else {
				maxMin = zzIte64(rpc.maxMin > maxMin, rpc.maxMin, maxMin)
			}
			covered += len(r.Keys)
		}
	}
	if !asyncPrimary || plain || covered < len(secondaries) {
		return false, 0
	}
	if missing {
		return true, missingTS
	}
	return true, maxMin
}

// resolvesFollowReports: every ResolveLock names (per transaction) exactly the outcome
// and commit ts the store had reported before it was sent.
func (s *zzrStore) resolvesFollowReports() bool {
	ok := true
	for i := range s.log {
		rpc := &s.log[i]
		if rpc.cmd != tikvrpc.CmdResolveLock {
			continue
		}
		r := rpc.req.ResolveLock()
		if len(r.TxnInfos) > 0 {
			for _, ti := range r.TxnInfos {
				det, ts := s.reported(ti.Txn, i)
				ok = zzAnd(ok, zzAnd(det, ts == ti.Status))
			}
			continue
		}
		if r.StartVersion == 0 {
			continue // names no transaction: resolves nothing
		}
		det, ts := s.reported(r.StartVersion, i)
		ok = zzAnd(ok, zzAnd(det, ts == r.CommitVersion))
	}
	return ok
}

func (s *zzrStore) count(cmd tikvrpc.CmdType, txn uint64) int {
	n := 0
	for i := range s.log {
		rpc := &s.log[i]
		if rpc.cmd != cmd {
			continue
		}
		switch cmd {
		case tikvrpc.CmdResolveLock:
			r := rpc.req.ResolveLock()
			if r.StartVersion == txn {
				n++
			}
			for _, ti := range r.TxnInfos {
				if ti.Txn == txn {
					n++
				}
			}
		case tikvrpc.CmdPessimisticRollback:
			if rpc.req.PessimisticRollback().StartVersion == txn {
				n++
			}
		case tikvrpc.CmdCheckTxnStatus:
			if rpc.req.CheckTxnStatus().LockTs == txn {
				n++
			}
		case tikvrpc.CmdCheckSecondaryLocks:
			if rpc.req.CheckSecondaryLocks().StartVersion == txn {
				n++
			}
		}
	}
	return n
}

// checksUseOwnClock: every CheckTxnStatus carries the resolver's own timestamp as
// CurrentTs; MaxUint64 only when a lock of that transaction with ttl 0 was handed in
// (or always, in a GC batch run).
func (s *zzrStore) checksUseOwnClock() bool {
	ok := true
	for i := range s.log {
		rpc := &s.log[i]
		if rpc.cmd != tikvrpc.CmdCheckTxnStatus {
			continue
		}
		r := rpc.req.CheckTxnStatus()
		t := s.txn(r.LockTs)
		if t == nil {
			ok = false
			continue
		}
		if s.batch {
			ok = zzAnd(ok, r.CurrentTs == math.MaxUint64)
			continue
		}
		own := r.CurrentTs == s.orc.now()
		forced := zzAnd(r.CurrentTs == math.MaxUint64, zzrHasZeroTTLSym(t))
		ok = zzAnd(ok, zzOr(own, forced))
	}
	return ok
}

// rollbackIfNotExistOnlyExpired: RollbackIfNotExist is set only when a lock of that
// transaction handed to the resolver has outlived its ttl on the resolver's clock.
func (s *zzrStore) rollbackIfNotExistOnlyExpired() bool {
	ok := true
	for i := range s.log {
		rpc := &s.log[i]
		if rpc.cmd != tikvrpc.CmdCheckTxnStatus {
			continue
		}
		r := rpc.req.CheckTxnStatus()
		if !r.RollbackIfNotExist || s.batch {
			continue
		}
		t := s.txn(r.LockTs)
		if t == nil {
			ok = false
			continue
		}
		expired := false
		for _, ttl := range t.inputTTL {
			expired = zzOr(expired, s.orc.UntilExpired(t.startTS, ttl, nil) <= 0)
		}
		ok = zzAnd(ok, expired)
	}
	return ok
}
