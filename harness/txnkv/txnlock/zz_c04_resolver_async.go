package txnlock

import (
	"context"

	"github.com/pingcap/kvproto/pkg/kvrpcpb"
	"github.com/tikv/client-go/v2/config/retry"
	"github.com/tikv/client-go/v2/tikvrpc"
)

// Secondary states of the async-commit scenarios.
const (
	zzrSLockedAsync = iota
	zzrSNone
	zzrSCommitted
	zzrSRolledBack
	zzrSLockedPlain // a prewrite lock without the async-commit flag (the owner fell back to 2PC)
	zzrNumSStates
)

// zzrAsyncWorld: transaction t with an async-commit primary lock on "a" (symbolic ttl and
// min-commit-ts) naming two secondaries, "m" and - by layout - "n" (same region) or "t"
// (another region), each in a symbolic state. The content is consistent: a commit ts found
// on a key is at least every min-commit-ts of the transaction, commit records never coexist
// with rollback records, missing or non-async locks.
// It returns the primary entry and what the protocol implies for the transaction:
// want = zzrTruthCommit/zzrTruthRollback with the commit ts, or zzrUndetermined when the
// decision falls back to the primary (a non-async secondary lock).
func zzrAsyncWorld(s *zzrStore, t *zzrTxn) (p *zzrEntry, sec []*zzrEntry, want int, wantTS uint64) {
	k2 := []byte("n")
	if zzBool("layout.tworegions") {
		k2 = []byte("t")
	}
	keys := [][]byte{[]byte("m"), k2}
	p = s.add(&zzrEntry{key: t.primary, txn: t.startTS, primary: t.primary, state: zzrLocked, async: true,
		ttl: zzrStoredTTL("primary.ttl"), minCommitTS: zzU64("primary.mincommit"), secondaries: keys, txnSize: 3})
	zzAssume(p.minCommitTS > t.startTS)
	commitTS := zzU64("txn.committs")
	zzAssume(commitTS >= p.minCommitTS)
	maxMin := p.minCommitTS
	nCommitted, nMissing, nPlain := 0, 0, 0
	st0 := zzChoice("secondary0.state", zzrNumSStates)
	st1 := zzChoice("secondary1.state", zzrNumSStates)
	minNames := []string{"secondary0.mincommit", "secondary1.mincommit"}
	for i, st := range []int{st0, st1} {
		e := &zzrEntry{key: keys[i], txn: t.startTS, primary: t.primary, ttl: p.ttl, txnSize: 3}
		switch st {
		case zzrSLockedAsync:
			e.state, e.async = zzrLocked, true
			e.minCommitTS = zzU64(minNames[i])
			zzAssume(e.minCommitTS > t.startTS && e.minCommitTS <= commitTS)
			maxMin = zzIte64(e.minCommitTS > maxMin, e.minCommitTS, maxMin)
		case zzrSNone:
			e.state = zzrNone
			nMissing++
		case zzrSCommitted:
			e.state, e.commitTS = zzrCommitted, commitTS
			nCommitted++
		case zzrSRolledBack:
			e.state = zzrRolledBack
			nMissing++
		case zzrSLockedPlain:
			e.state = zzrLocked
			nPlain++
		}
		sec = append(sec, s.add(e))
	}
	zzAssume(nCommitted == 0 || nMissing+nPlain == 0)
	switch {
	case nCommitted > 0:
		want, wantTS = zzrTruthCommit, commitTS
	case nPlain > 0:
		// the resolver may fall back to the primary (forced sync check) or learn of a
		// missing lock first: judged by the store monitors only
		want = zzrUndetermined
	case nMissing > 0:
		want = zzrTruthRollback
	default:
		want, wantTS = zzrTruthCommit, maxMin
	}
	return
}

// ZZ_C04_resolver_async: an async-commit transaction (primary + 2 secondaries over 1-2
// secondary regions) met through its primary or a secondary lock, by a writer or a reader.
// While the primary's ttl has not elapsed on the resolver's clock nothing is checked or
// resolved; afterwards the outcome applied to every lock is: the commit ts a secondary
// already carries, roll-back if a secondary lock is missing, else the max of all
// min-commit timestamps - whatever the order of the answers.
func ZZ_C04_resolver_async() {
	s, lr := zzrNewStore(zzParam("faults", 0))
	defer s.close(lr)
	start := zzrStartTS("txn.start")
	t := &zzrTxn{startTS: start, primary: []byte("a")}
	s.txns = append(s.txns, t)
	p, sec, want, wantTS := zzrAsyncWorld(s, t)

	l := &Lock{Key: t.primary, Primary: t.primary, TxnID: start, TTL: zzrStoredTTL("lock.ttl"), TxnSize: 3,
		LockType: kvrpcpb.Op_Put, UseAsyncCommit: true, MinCommitTS: p.minCommitTS}
	if zzBool("lock.secondary") {
		l.Key = sec[0].key
		zzAssume(sec[0].state == zzrLocked)
	}
	t.inputTTL = []uint64{l.TTL}
	caller := zzU64("caller.start")
	forRead := zzBool("forread")
	bo := retry.NewBackoffer(context.Background(), 20)
	res, err := lr.ResolveLocksWithOpts(bo, ResolveLocksOptions{CallerStartTS: caller, Locks: []*Lock{l}, ForRead: forRead})
	zzrDrain()
	s.mu.Lock()
	defer s.mu.Unlock()

	zzAssert(s.misrouted == 0 && s.unknownTxn == 0 && s.unknownCmd == 0, "async.requests-well-formed")
	zzAssert(s.badOutcome == 0 && s.undetermined == 0, "async.resolve-carries-derived-outcome")
	zzAssert(s.liveRemoved == 0, "async.live-lock-never-removed")
	zzAssert(s.expiredLive == 0, "async.expiry-only-on-own-clock")
	zzAssert(s.checksUseOwnClock(), "async.current-ts-own-clock")
	zzAssert(s.rollbackIfNotExistOnlyExpired(), "async.rollback-if-not-exist-only-expired")
	zzAssert(s.resolvesFollowReports(), "async.resolve-after-all-secondaries-reported")

	if !s.orc.IsExpired(start, p.ttl, nil) {
		// alive: waited for
		zzAssert(s.count(tikvrpc.CmdCheckSecondaryLocks, start) == 0 && s.count(tikvrpc.CmdResolveLock, start) == 0,
			"async.live-nothing-sent")
		zzAssert(p.state == zzrLocked && sec[0].state == sec[0].state0 && sec[1].state == sec[1].state0, "async.live-store-untouched")
		if err == nil {
			zzAssert(res.TTL == zzrUntil(s, start, p.ttl), "async.live-wait-reported")
		}
		return
	}
	if err != nil {
		return
	}
	// expired and the call succeeded
	for i := range s.log {
		rpc := &s.log[i]
		if rpc.cmd != tikvrpc.CmdResolveLock {
			continue
		}
		r := rpc.req.ResolveLock()
		switch want {
		case zzrTruthCommit:
			zzAssert(r.CommitVersion == wantTS, "async.commit-ts-is-reported-or-max-min-commit")
		case zzrTruthRollback:
			zzAssert(r.CommitVersion == 0, "async.missing-secondary-never-commits")
		}
	}
	if want != zzrUndetermined {
		// the primary lock is always among the resolved keys
		if want == zzrTruthCommit {
			zzAssert(p.state == zzrCommitted && p.commitTS == wantTS, "async.primary-committed-at-derived-ts")
		} else {
			zzAssert(p.state == zzrRolledBack, "async.primary-rolled-back")
		}
	}
}
