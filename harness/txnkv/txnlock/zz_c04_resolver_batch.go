package txnlock

import (
	"context"

	"github.com/pingcap/kvproto/pkg/kvrpcpb"
	"github.com/tikv/client-go/v2/config/retry"
	"github.com/tikv/client-go/v2/tikvrpc"
)

// zzrSecondaryLock adds a lock of transaction t on key (prewrite or pessimistic) to the
// store and returns it the way a scan would have reported it.
func zzrSecondaryLock(s *zzrStore, t *zzrTxn, key string, pess bool, ttl uint64, size uint64) *Lock {
	l := &Lock{Key: []byte(key), Primary: t.primary, TxnID: t.startTS, TTL: ttl, TxnSize: size, LockType: kvrpcpb.Op_Put}
	e := &zzrEntry{key: l.Key, txn: t.startTS, primary: t.primary, state: zzrLocked, ttl: ttl, txnSize: size}
	if pess {
		l.LockType, l.LockForUpdateTS = kvrpcpb.Op_PessimisticLock, t.startTS
		e.state, e.forUpdateTS = zzrPessLocked, t.startTS
	}
	s.add(e)
	t.inputTTL = append(t.inputTTL, ttl)
	return l
}

// zzrTxnInfoCount counts, over all ResolveLock requests, the TxnInfos entries naming txn.
func (s *zzrStore) txnInfoCount(txn uint64) int {
	n := 0
	for i := range s.log {
		if s.log[i].cmd != tikvrpc.CmdResolveLock || s.log[i].fault {
			continue
		}
		for _, ti := range s.log[i].req.ResolveLock().TxnInfos {
			if ti.Txn == txn {
				n++
			}
		}
	}
	return n
}

// ZZ_C04_resolver_batch: GC's BatchResolveLocks over 1-2 locks of one region, owned by one
// or two transactions (A: any primary state; B: committed / rolled back / locked), prewrite
// or pessimistic. The one caller allowed to force expiry (CurrentTs = max); still, per
// transaction it sends exactly the status its own check returned, once, and when it
// reports success no lock handed in is left.
func ZZ_C04_resolver_batch() {
	s, lr := zzrNewStore(zzParam("faults", 0))
	defer s.close(lr)
	s.batch = true
	startA := zzrStartTS("txnA.start")
	tA := &zzrTxn{startTS: startA, primary: []byte("a")}
	s.txns = append(s.txns, tA)
	pstate := zzChoice("primaryA.state", zzrNumPStates)
	pessA := zzBool("lock0.pessimistic")
	zzrMakePrimary(s, tA, pstate)
	locks := []*Lock{zzrSecondaryLock(s, tA, "m", pessA, zzrStoredTTL("lock0.ttl"), 1)}
	var tB *zzrTxn
	pessB := false
	switch zzChoice("second", 3) {
	case 1: // a second lock of A
		pessB = zzBool("lock1.pessimistic")
		locks = append(locks, zzrSecondaryLock(s, tA, "n", pessB, zzrStoredTTL("lock1.ttl"), 1))
	case 2: // a lock of another transaction
		startB := zzrStartTS("txnB.start")
		zzAssume(startB != startA)
		tB = &zzrTxn{startTS: startB, primary: []byte("b")}
		s.txns = append(s.txns, tB)
		e := &zzrEntry{key: tB.primary, txn: startB, primary: tB.primary, txnSize: 1}
		switch zzChoice("primaryB.state", 3) {
		case 0:
			e.state = zzrCommitted
			e.commitTS = zzU64("primaryB.committs")
			zzAssume(e.commitTS > startB)
		case 1:
			e.state = zzrRolledBack
		case 2:
			e.state = zzrLocked
			e.ttl = zzrStoredTTL("primaryB.ttl")
		}
		s.add(e)
		locks = append(locks, zzrSecondaryLock(s, tB, "n", false, zzrStoredTTL("lock1.ttl"), 1))
	}
	bo := retry.NewBackoffer(context.Background(), 20)
	loc, lerr := s.cache.LocateKey(bo, []byte("m"))
	zzAssume(lerr == nil)
	ok, err := lr.BatchResolveLocks(bo, locks, loc.Region)
	zzrDrain()
	s.mu.Lock()
	defer s.mu.Unlock()

	zzAssert(s.misrouted == 0 && s.unknownTxn == 0 && s.unknownCmd == 0, "batch.requests-well-formed")
	zzAssert(s.badOutcome == 0 && s.undetermined == 0, "batch.resolve-carries-store-outcome")
	zzAssert(s.liveRemoved == 0, "batch.no-resolve-before-check")
	zzAssert(s.checksUseOwnClock(), "batch.current-ts-max")
	zzAssert(s.resolvesFollowReports(), "batch.status-is-what-the-check-returned")
	zzAssert(s.txnInfoCount(startA) <= 1 && (tB == nil || s.txnInfoCount(tB.startTS) <= 1), "batch.one-status-per-txn")
	if !ok || err != nil {
		return
	}
	// success: every lock handed in is gone
	gone := true
	for _, l := range locks {
		gone = gone && !s.find(l.Key, l.TxnID).locked()
	}
	zzAssert(gone, "batch.success-means-no-lock-left")
	allPessA := pessA && (len(locks) == 1 || tB != nil || pessB)
	if !allPessA {
		zzAssert(s.txnInfoCount(startA) == 1, "batch.txn-with-prewrite-lock-listed")
	} else {
		zzAssert(s.txnInfoCount(startA) == 0 && s.count(tikvrpc.CmdPessimisticRollback, startA) > 0, "batch.pessimistic-only-rolled-back-per-key")
	}
}

// ZZ_C04_resolver_batch_async: BatchResolveLocks meets a secondary lock of an async-commit
// transaction: the status sent is derived from all secondaries (ttl is ignored - GC's exception).
func ZZ_C04_resolver_batch_async() {
	s, lr := zzrNewStore(zzParam("faults", 0))
	defer s.close(lr)
	s.batch = true
	start := zzrStartTS("txn.start")
	t := &zzrTxn{startTS: start, primary: []byte("a")}
	s.txns = append(s.txns, t)
	p, sec, want, wantTS := zzrAsyncWorld(s, t)
	zzAssume(sec[0].state == zzrLocked)
	l := &Lock{Key: sec[0].key, Primary: t.primary, TxnID: start, TTL: p.ttl, TxnSize: 3, LockType: kvrpcpb.Op_Put,
		UseAsyncCommit: sec[0].async, MinCommitTS: sec[0].minCommitTS}
	t.inputTTL = []uint64{l.TTL}
	bo := retry.NewBackoffer(context.Background(), 20)
	loc, lerr := s.cache.LocateKey(bo, l.Key)
	zzAssume(lerr == nil)
	ok, err := lr.BatchResolveLocks(bo, []*Lock{l}, loc.Region)
	zzrDrain()
	s.mu.Lock()
	defer s.mu.Unlock()

	zzAssert(s.misrouted == 0 && s.unknownTxn == 0 && s.unknownCmd == 0, "batchasync.requests-well-formed")
	zzAssert(s.badOutcome == 0 && s.undetermined == 0, "batchasync.resolve-carries-derived-outcome")
	zzAssert(s.checksUseOwnClock(), "batchasync.current-ts-max")
	zzAssert(s.resolvesFollowReports(), "batchasync.status-derived-from-all-secondaries")
	if !ok || err != nil {
		return
	}
	zzAssert(s.txnInfoCount(start) == 1, "batchasync.txn-listed-once")
	e := s.find(l.Key, start)
	switch want {
	case zzrTruthCommit:
		zzAssert(e.state == zzrCommitted && e.commitTS == wantTS, "batchasync.commit-ts-is-reported-or-max-min-commit")
	case zzrTruthRollback:
		zzAssert(e.state == zzrRolledBack, "batchasync.missing-secondary-never-commits")
	}
}
