package txnsnapshot

import (
	"context"

	"github.com/tikv/client-go/v2/config"
	"github.com/tikv/client-go/v2/oracle"
)

const zzNowMs = int64(1 << 20)

// zzLockStore: rows "a" | "b", "c" (two regions split at "b") and one foreign transaction T
// (start ts before the snapshot ts, primary "a") in a symbolic ghost status:
//
//	committed at a symbolic commit ts (before or after the snapshot) - primary already committed,
//	rolled back, pending-live (alive for 1..2 status checks, then committed or rolled back),
//	pending with an expired TTL, pending large transaction whose min-commit-ts gets pushed.
//
// "a" is locked iff T is pending; "b" and "c" carry a leftover / pending lock of T or not
// (put or delete); "c" may instead carry a lock the store never reports to this reader
// (start ts after the snapshot, or pessimistic). Underlying committed values: "a", "c" present, "b" absent.
func zzLockStore() *zzStore {
	startTS := oracle.ComposeTS(zzNowMs-1000, 0)
	ts := oracle.ComposeTS(zzNowMs-500, 0)
	st := &zzStore{pd: zzLayout([][]byte{[]byte("b")}), ts: ts}
	t := &zzTxn{startTS: startTS, primary: []byte("a"), ttl: 3000}
	st.txn = t
	commit := func() {
		t.commitTS = zzU64("committs")
		zzAssume(t.commitTS > startTS && t.commitTS < 1<<62)
	}
	t.status = zzChoice("txnstatus", 5)
	switch t.status {
	case zzTxnCommitted:
		commit()
	case zzTxnLive:
		t.waits = 1 + zzChoice("waits", 2)
		t.final = zzTxnRolledBack
		if zzBool("finalcommit") {
			t.final = zzTxnCommitted
			commit()
		}
	case zzTxnExpired:
		t.ttl = 500
	}
	pending := t.status >= zzTxnLive
	mk := func(key string, present bool, lock int) {
		r := &zzRow{key: []byte(key), commitTS: 50, lock: lock}
		if present {
			r.val = zzBytesN("val", 1)
		}
		if lock == zzLockPut {
			r.lockVal = zzBytesN("lockval", 1)
		}
		st.rows = append(st.rows, r)
	}
	l0 := zzNoLock
	if pending {
		l0 = zzLockPut + zzChoice("lock0", 2)
	}
	mk("a", true, l0)
	mk("b", false, zzChoice("lock1", 3))
	mk("c", true, zzChoice("lock2", 5))
	st.respLevel = zzBool("resplevel")
	st.txnSize = 1
	if zzParam("lock_bigtxn", 0) != 0 && zzBool("bigtxn") {
		st.txnSize = 100
	}
	return st
}

// zzWaited: once told that the transaction is still alive, the client never re-read a key blocked
// by it without having slept in between (engine only: virtual time).
func zzWaited(st *zzStore) bool {
	ok := true
	for _, w := range st.sleptAtBlocked {
		ok = ok && w
	}
	return ok
}

// ZZ_C05_lock_get: point gets over every lock status equal the MVCC truth (committed at or before
// the snapshot: read through; committed later / rolled back / expired / min-commit-ts pushed: ignored;
// pending-live: waited for, then its true outcome), first cold, then warm.
func ZZ_C05_lock_get() {
	st := zzLockStore()
	kvs := zzNewKVStore(st)
	defer kvs.close()
	snap := NewTiKVSnapshot(kvs, st.ts, 0)
	ok := true
	for _, k := range []string{"c", "a", "b", "d"} {
		ok = zzAnd(ok, zzGetIs(snap, []byte(k), st.modelGet([]byte(k))))
	}
	zzAssert(ok, "lock.get.equals-truth")
	zzAssert(zzWaited(st), "lock.get.blocked-reads-wait")
	zzAssert(!st.badResolve, "lock.get.resolves-true-outcome")
	n := st.rpcs
	ok = true
	for _, k := range []string{"a", "b", "c", "d"} {
		ok = zzAnd(ok, zzGetIs(snap, []byte(k), st.modelGet([]byte(k))))
	}
	zzAssert(ok, "lock.get.warm-equals-truth")
	zzAssert(st.rpcs == n, "lock.get.warm-no-rpc")
}

// ZZ_C05_lock_batchget: BatchGet (two regions) over every lock status equals the truth; with
// zzParam lock_async also through the async batch-get path.
func ZZ_C05_lock_batchget() {
	if zzParam("lock_async", 0) != 0 && zzBool("async") {
		restore := config.UpdateGlobal(func(c *config.Config) { c.EnableAsyncBatchGet = true })
		defer restore()
	}
	st := zzLockStore()
	kvs := zzNewKVStore(st)
	defer kvs.close()
	snap := NewTiKVSnapshot(kvs, st.ts, 0)
	keys := [][]byte{[]byte("c"), []byte("d"), []byte("a"), []byte("b")}
	m, err := snap.BatchGet(context.Background(), keys)
	zzAssert(err == nil, "lock.batchget.noerr")
	zzAssert(zzMapIs(st, m, keys, len(st.modelScan(nil, nil))), "lock.batchget.equals-truth")
	zzAssert(zzWaited(st), "lock.batchget.blocked-reads-wait")
	zzAssert(!st.badResolve, "lock.batchget.resolves-true-outcome")
}

// ZZ_C05_lock_scan: forward and reverse scans (batch size 2) over every lock status, with pair-level
// and response-level lock errors, equal the truth.
// Not covered: response-level lock error x min-commit-ts-pushed transaction (the scanner waits for
// such a transaction to finish; the model never finishes it).
func ZZ_C05_lock_scan() {
	st := zzLockStore()
	zzAssume(!(st.respLevel && st.txn.status == zzTxnLivePushed))
	kvs := zzNewKVStore(st)
	defer kvs.close()
	snap := NewTiKVSnapshot(kvs, st.ts, 0)
	snap.SetScanBatchSize(2)
	keyOnly := zzParam("lock_keyonly", 0) != 0 && zzBool("keyonly")
	snap.SetKeyOnly(keyOnly)
	reverse := zzBool("reverse")
	var hi []byte
	if reverse {
		hi = zzBound(zzBoundTop)
	}
	got, err := zzDrain(snap, nil, hi, reverse)
	zzAssert(err == nil, "lock.scan.noerr")
	want := st.modelScan(nil, hi)
	if keyOnly {
		// key-only: the keys must be the truth's keys; a pair whose lock was resolved by a point get
		// carries its value, the others carry none - values are not compared
		for i := range got {
			got[i].v = nil
		}
		for i := range want {
			want[i].v = nil
		}
	}
	zzAssert(zzSamePairs(got, want, reverse, false), "lock.scan.equals-truth")
	zzAssert(zzWaited(st), "lock.scan.blocked-reads-wait")
	zzAssert(!st.badResolve, "lock.scan.resolves-true-outcome")
}

// ZZ_C05_lock_ts_move: a lock ignored at the old timestamp because the transaction's min-commit-ts was
// pushed beyond it must not stay ignored after SetSnapshotTS: the transaction then commits between
// the two timestamps and the moved snapshot has to read its value.
func ZZ_C05_lock_ts_move() {
	st := zzLockStore()
	zzAssume(st.txn.status == zzTxnLivePushed)
	kvs := zzNewKVStore(st)
	defer kvs.close()
	snap := NewTiKVSnapshot(kvs, st.ts, 0)
	viaBatch := zzBool("viabatch")
	keys := [][]byte{[]byte("a"), []byte("b"), []byte("c")}
	read := func() bool {
		if viaBatch {
			m, err := snap.BatchGet(context.Background(), keys)
			return zzAnd(err == nil, zzMapIs(st, m, keys, len(st.modelScan(nil, nil))))
		}
		ok := true
		for _, k := range keys {
			ok = zzAnd(ok, zzGetIs(snap, k, st.modelGet(k)))
		}
		return ok
	}
	zzAssert(read(), "lock.ts-move.old-equals-truth")
	// the transaction commits after the old snapshot ts; the snapshot moves beyond the commit
	t := st.txn
	t.status, t.commitTS = zzTxnCommitted, st.ts+10
	for _, r := range st.rows {
		if string(r.key) == "a" {
			st.applyOutcomeAt(r, st.ts+20)
		}
	}
	st.ts += 20
	snap.SetSnapshotTS(st.ts)
	zzAssert(read(), "lock.ts-move.new-equals-truth")
}
