package txnsnapshot

// Harness environment for C05 (snapshot reads): a PD answering from a ground-truth
// region layout, a TiKV stand-in answering Get/BatchGet/Scan/CheckTxnStatus/
// ResolveLock per region with TiKV semantics from a small MVCC model, a fixed
// oracle, and a kvstore that wires the real RegionCache, the real
// RegionRequestSender and the real LockResolver on top of them.
// Interface seams only (pd.Client, client.Client, oracle.Oracle, kvstore), so
// counterexamples replay natively.

import (
	"errors"
	"bytes"
	"context"
	"sync"
	"time"

	"github.com/pingcap/kvproto/pkg/errorpb"
	"github.com/pingcap/kvproto/pkg/kvrpcpb"
	"github.com/pingcap/kvproto/pkg/metapb"
	"github.com/tikv/client-go/v2/config/retry"
	"github.com/tikv/client-go/v2/internal/client"
	"github.com/tikv/client-go/v2/internal/locate"
	"github.com/tikv/client-go/v2/oracle"
	"github.com/tikv/client-go/v2/tikvrpc"
	"github.com/tikv/client-go/v2/txnkv/txnlock"
	"github.com/tikv/client-go/v2/util/async"
	pd "github.com/tikv/pd/client"
	"github.com/tikv/pd/client/clients/router"
	"github.com/tikv/pd/client/opt"
	"github.com/tikv/pd/client/pkg/caller"
)

// ---------------------------------------------------------------- PD

type zzPD struct {
	pd.Client
	regions []*metapb.Region // sorted by start key, tiling the key space
	stores  []*metapb.Store
	nextID  uint64
	calls   int
}

func (p *zzPD) WithCallerComponent(caller.Component) pd.Client { return p }
func (p *zzPD) GetClusterID(context.Context) uint64            { return 1 }
func (p *zzPD) Close()                                         {}

func zzRegionContains(r *metapb.Region, key []byte) bool {
	return bytes.Compare(r.StartKey, key) <= 0 && (len(r.EndKey) == 0 || bytes.Compare(key, r.EndKey) < 0)
}

func (p *zzPD) wrap(i int) *router.Region {
	return &router.Region{Meta: p.regions[i], Leader: p.regions[i].Peers[0]}
}

func (p *zzPD) GetRegion(ctx context.Context, key []byte, opts ...opt.GetRegionOption) (*router.Region, error) {
	p.calls++
	for i, r := range p.regions {
		if zzRegionContains(r, key) {
			return p.wrap(i), nil
		}
	}
	return nil, nil
}

func (p *zzPD) GetPrevRegion(ctx context.Context, key []byte, opts ...opt.GetRegionOption) (*router.Region, error) {
	p.calls++
	for i, r := range p.regions {
		if zzRegionContains(r, key) {
			if i == 0 {
				return nil, nil
			}
			return p.wrap(i - 1), nil
		}
	}
	return nil, nil
}

func (p *zzPD) GetRegionByID(ctx context.Context, id uint64, opts ...opt.GetRegionOption) (*router.Region, error) {
	p.calls++
	for i, r := range p.regions {
		if r.Id == id {
			return p.wrap(i), nil
		}
	}
	return nil, nil
}

func (p *zzPD) GetStore(ctx context.Context, id uint64, opts ...opt.GetStoreOption) (*metapb.Store, error) {
	for _, s := range p.stores {
		if s.Id == id {
			return s, nil
		}
	}
	return nil, nil
}

func (p *zzPD) GetAllStores(ctx context.Context, opts ...opt.GetStoreOption) ([]*metapb.Store, error) {
	return p.stores, nil
}

func (p *zzPD) newRegion(start, end []byte, ver uint64) *metapb.Region {
	id := p.nextID
	p.nextID++
	peers := []*metapb.Peer{{Id: id*10 + 1, StoreId: 1}, {Id: id*10 + 2, StoreId: 2}, {Id: id*10 + 3, StoreId: 3}}
	return &metapb.Region{Id: id, StartKey: start, EndKey: end,
		RegionEpoch: &metapb.RegionEpoch{ConfVer: 1, Version: ver}, Peers: peers}
}

// zzLayout builds len(splits)+1 regions split at the given strictly increasing keys.
func zzLayout(splits [][]byte) *zzPD {
	p := &zzPD{nextID: 10}
	p.stores = []*metapb.Store{{Id: 1, Address: "s1"}, {Id: 2, Address: "s2"}, {Id: 3, Address: "s3"}}
	var start []byte
	for i := 0; i <= len(splits); i++ {
		var end []byte
		if i < len(splits) {
			end = splits[i]
		}
		p.regions = append(p.regions, p.newRegion(start, end, 1))
		start = end
	}
	return p
}

// split splits the region containing key at key (TiKV right-derive: the old id keeps
// the right part, the left part gets a fresh id; both epochs' versions grow).
// key must lie strictly inside a region.
func (p *zzPD) split(key []byte) {
	for i, r := range p.regions {
		if zzRegionContains(r, key) && !bytes.Equal(r.StartKey, key) {
			left := p.newRegion(r.StartKey, key, r.RegionEpoch.Version+1)
			right := &metapb.Region{Id: r.Id, StartKey: key, EndKey: r.EndKey,
				RegionEpoch: &metapb.RegionEpoch{ConfVer: 1, Version: r.RegionEpoch.Version + 1}, Peers: r.Peers}
			out := append([]*metapb.Region{}, p.regions[:i]...)
			out = append(out, left, right)
			out = append(out, p.regions[i+1:]...)
			p.regions = out
			return
		}
	}
}

// merge merges region i into region i+1 (the target keeps its id, the source id vanishes).
func (p *zzPD) merge(i int) {
	if i+1 >= len(p.regions) {
		return
	}
	src, dst := p.regions[i], p.regions[i+1]
	ver := src.RegionEpoch.Version
	if dst.RegionEpoch.Version > ver {
		ver = dst.RegionEpoch.Version
	}
	m := &metapb.Region{Id: dst.Id, StartKey: src.StartKey, EndKey: dst.EndKey,
		RegionEpoch: &metapb.RegionEpoch{ConfVer: 1, Version: ver + 1}, Peers: dst.Peers}
	out := append([]*metapb.Region{}, p.regions[:i]...)
	out = append(out, m)
	out = append(out, p.regions[i+2:]...)
	p.regions = out
}

// ---------------------------------------------------------------- oracle

// zzOracle is a fixed clock: "now" is nowMs (physical milliseconds).
type zzOracle struct {
	oracle.Oracle
	nowMs int64
}

func (o *zzOracle) now() uint64 { return oracle.ComposeTS(o.nowMs, 0) }
func (o *zzOracle) GetTimestamp(context.Context, *oracle.Option) (uint64, error) {
	return o.now(), nil
}
func (o *zzOracle) GetLowResolutionTimestamp(context.Context, *oracle.Option) (uint64, error) {
	return o.now(), nil
}
func (o *zzOracle) IsExpired(lockTS, ttl uint64, _ *oracle.Option) bool {
	return o.nowMs >= oracle.ExtractPhysical(lockTS)+int64(ttl)
}
func (o *zzOracle) UntilExpired(lockTS, ttl uint64, _ *oracle.Option) int64 {
	return oracle.ExtractPhysical(lockTS) + int64(ttl) - o.nowMs
}
func (o *zzOracle) ValidateReadTS(context.Context, uint64, bool, *oracle.Option) error { return nil }
func (o *zzOracle) Close()                                                             {}

// ---------------------------------------------------------------- MVCC model

// Ghost status of the one foreign transaction of the model.
const (
	zzTxnCommitted  = iota // finished: primary committed at commitTS (<= or > snapshot ts)
	zzTxnRolledBack        // finished: rolled back
	zzTxnLive              // pending, TTL not expired: answers "alive" `waits` more times, then finishes as `final`
	zzTxnExpired           // pending, TTL expired: the first CheckTxnStatus rolls it back
	zzTxnLivePushed        // pending large transaction: CheckTxnStatus pushes min_commit_ts beyond the reader
)

type zzTxn struct {
	startTS  uint64
	primary  []byte
	status   int
	commitTS uint64 // if (finally) committed
	final    int    // for zzTxnLive: zzTxnCommitted or zzTxnRolledBack
	waits    int    // for zzTxnLive: remaining "still alive" answers
	ttl      uint64
	checks   int // ghost: CheckTxnStatus requests answered
}

// Lock kinds: a blocking prewrite lock of the foreign transaction, or a lock the store
// itself never reports to a reader (TiKV semantics): start ts after the snapshot, or pessimistic.
const (
	zzNoLock = iota
	zzLockPut
	zzLockDel
	zzLockLater
	zzLockPessimistic
)

type zzRow struct {
	key      []byte
	val      []byte // newest committed value with commit ts <= snapshot ts; empty = none
	commitTS uint64
	lock     int
	lockVal  []byte // for zzLockPut
	// a newer committed version, invisible at the snapshot ts (newTS > ts, 0 = none); newVal empty = delete
	newVal []byte
	newTS  uint64
}

// zzStore is the TiKV stand-in; it implements client.Client.
type zzStore struct {
	mu   sync.Mutex
	pd   *zzPD
	ts   uint64 // the snapshot ts the content is described at
	rows []*zzRow
	txn  *zzTxn
	// respLevel: report the first lock met as a response-level error (pairs incomplete)
	// instead of per-pair errors.
	respLevel bool
	// txnSize is reported in the lock info: below the client's threshold (16) locks are resolved
	// one key at a time ("lite"), above it region by region.
	txnSize uint64

	// fault script: before answering the RPC number faultAt[i] (1-based, data RPCs only)
	// apply topology event faultEv[i].
	faultAt []int
	faultEv []func()
	rpcs    int  // data RPCs (Get/BatchGet/Scan) received
	oneShot bool // answer the next data RPC with a bare EpochNotMatch (no current regions)
	faults  int  // region errors actually returned to data RPCs

	// ghost observations
	misrouted      int    // requests whose key was outside the addressed region
	sleptAtBlocked []bool // per lock-blocked answer given while the client knew the transaction alive: had it waited since it was told?
	blockedAnswers int
	aliveKnown     bool  // the most recent CheckTxnStatus answer was "still alive, wait"
	aliveToldAt    int64 // zzSleptNs() at that answer
	badResolve     bool  // a ResolveLock request contradicted the transaction's true outcome
	scanLimitBad   bool
}

func (s *zzStore) Close() error                                { return nil }
func (s *zzStore) CloseAddr(addr string) error                 { return nil }
func (s *zzStore) SetEventListener(client.ClientEventListener) {}
func (s *zzStore) SendRequestAsync(ctx context.Context, addr string, req *tikvrpc.Request, cb async.Callback[*tikvrpc.Response]) {
	resp, err := s.SendRequest(ctx, addr, req, 0)
	cb.Invoke(resp, err)
}

// truth returns the value of row r at the snapshot ts according to the ghost status.
func (s *zzStore) truth(r *zzRow) []byte {
	if r.lock == zzLockPut || r.lock == zzLockDel {
		t := s.txn
		committed := t.status == zzTxnCommitted || (t.status == zzTxnLive && t.final == zzTxnCommitted)
		if committed && t.commitTS <= s.ts {
			if r.lock == zzLockPut {
				return r.lockVal
			}
			return nil
		}
	}
	return r.val
}

func (s *zzStore) regionOf(ctx *kvrpcpb.Context) (*metapb.Region, *errorpb.Error) {
	for _, r := range s.pd.regions {
		if r.Id == ctx.RegionId {
			e := ctx.RegionEpoch
			if e == nil || e.Version != r.RegionEpoch.Version || e.ConfVer != r.RegionEpoch.ConfVer {
				var cur []*metapb.Region
				for _, o := range s.pd.regions {
					cur = append(cur, o)
				}
				return nil, &errorpb.Error{Message: "epoch", EpochNotMatch: &errorpb.EpochNotMatch{CurrentRegions: cur}}
			}
			return r, nil
		}
	}
	return nil, &errorpb.Error{Message: "notfound", RegionNotFound: &errorpb.RegionNotFound{RegionId: ctx.RegionId}}
}

func zzHas(set []uint64, v uint64) bool {
	for _, x := range set {
		if x == v {
			return true
		}
	}
	return false
}

// read evaluates one row for a reader at version `ver` with the given bypass/access
// lock sets: it returns the visible value (empty = none) or the blocking lock.
func (s *zzStore) read(r *zzRow, ver uint64, ctx *kvrpcpb.Context) ([]byte, uint64, *kvrpcpb.KeyError) {
	if r.lock == zzLockPut || r.lock == zzLockDel {
		t := s.txn
		if t.startTS <= ver && !zzHas(ctx.ResolvedLocks, t.startTS) {
			if zzHas(ctx.CommittedLocks, t.startTS) {
				if r.lock == zzLockPut {
					return r.lockVal, t.commitTS, nil
				}
				return nil, 0, nil
			}
			op := kvrpcpb.Op_Put
			if r.lock == zzLockDel {
				op = kvrpcpb.Op_Del
			}
			s.noteBlocked()
			return nil, 0, &kvrpcpb.KeyError{Locked: &kvrpcpb.LockInfo{
				PrimaryLock: t.primary, LockVersion: t.startTS, Key: r.key, LockTtl: t.ttl,
				TxnSize: s.txnSize, LockType: op}}
		}
	}
	if r.newTS != 0 && ver >= r.newTS {
		return r.newVal, r.newTS, nil
	}
	return r.val, r.commitTS, nil
}

func (s *zzStore) noteBlocked() {
	if s.aliveKnown {
		s.sleptAtBlocked = append(s.sleptAtBlocked, !zzInterp() || zzSleptNs() > s.aliveToldAt)
	}
	s.blockedAnswers++
}

func (s *zzStore) SendRequest(ctx context.Context, addr string, req *tikvrpc.Request, timeout time.Duration) (*tikvrpc.Response, error) {
	s.mu.Lock()
	defer s.mu.Unlock()
	switch req.Type {
	case tikvrpc.CmdGet, tikvrpc.CmdBatchGet, tikvrpc.CmdScan:
		s.rpcs++
		for i, at := range s.faultAt {
			if at == s.rpcs {
				s.faultEv[i]()
			}
		}
	}
	region, rerr := s.regionOf(&req.Context)
	switch req.Type {
	case tikvrpc.CmdGet, tikvrpc.CmdBatchGet, tikvrpc.CmdScan:
		if rerr == nil && s.oneShot {
			s.oneShot = false
			rerr = &errorpb.Error{Message: "epoch", EpochNotMatch: &errorpb.EpochNotMatch{}}
		}
		if rerr != nil {
			s.faults++
		}
	}
	switch req.Type {
	case tikvrpc.CmdGet:
		r := req.Get()
		resp := &kvrpcpb.GetResponse{}
		if rerr == nil && !zzRegionContains(region, r.Key) {
			s.misrouted++
			rerr = &errorpb.Error{Message: "knir", KeyNotInRegion: &errorpb.KeyNotInRegion{Key: r.Key, RegionId: region.Id}}
		}
		if rerr != nil {
			resp.RegionError = rerr
			return &tikvrpc.Response{Resp: resp}, nil
		}
		resp.NotFound = true
		for _, row := range s.rows {
			if bytes.Equal(row.key, r.Key) {
				v, cts, kerr := s.read(row, r.Version, &req.Context)
				if kerr != nil {
					resp.Error = kerr
					resp.NotFound = false
				} else if len(v) > 0 {
					resp.Value = v
					resp.NotFound = false
					if r.NeedCommitTs {
						resp.CommitTs = cts
					}
				}
			}
		}
		return &tikvrpc.Response{Resp: resp}, nil

	case tikvrpc.CmdBatchGet:
		r := req.BatchGet()
		resp := &kvrpcpb.BatchGetResponse{}
		if rerr == nil {
			for _, k := range r.Keys {
				if !zzRegionContains(region, k) {
					s.misrouted++
					rerr = &errorpb.Error{Message: "knir", KeyNotInRegion: &errorpb.KeyNotInRegion{Key: k, RegionId: region.Id}}
					break
				}
			}
		}
		if rerr != nil {
			resp.RegionError = rerr
			return &tikvrpc.Response{Resp: resp}, nil
		}
		for _, k := range r.Keys {
			for _, row := range s.rows {
				if !bytes.Equal(row.key, k) {
					continue
				}
				v, cts, kerr := s.read(row, r.Version, &req.Context)
				if kerr != nil {
					if s.respLevel {
						resp.Error = kerr
						resp.Pairs = nil
						return &tikvrpc.Response{Resp: resp}, nil
					}
					resp.Pairs = append(resp.Pairs, &kvrpcpb.KvPair{Error: kerr})
				} else if len(v) > 0 {
					p := &kvrpcpb.KvPair{Key: row.key, Value: v}
					if r.NeedCommitTs {
						p.CommitTs = cts
					}
					resp.Pairs = append(resp.Pairs, p)
				}
			}
		}
		return &tikvrpc.Response{Resp: resp}, nil

	case tikvrpc.CmdScan:
		r := req.Scan()
		resp := &kvrpcpb.ScanResponse{}
		if rerr != nil {
			resp.RegionError = rerr
			return &tikvrpc.Response{Resp: resp}, nil
		}
		if r.Limit < 2 {
			s.scanLimitBad = true
		}
		// effective range = request range clamped to the region
		var lo, hi []byte // [lo, hi), empty hi = unbounded
		if !r.Reverse {
			lo, hi = r.StartKey, r.EndKey
		} else {
			lo, hi = r.EndKey, r.StartKey
		}
		if bytes.Compare(lo, region.StartKey) < 0 {
			lo = region.StartKey
		}
		if len(region.EndKey) > 0 && (len(hi) == 0 || bytes.Compare(hi, region.EndKey) > 0) {
			hi = region.EndKey
		}
		n := len(s.rows)
		for j := 0; j < n && uint32(len(resp.Pairs)) < r.Limit; j++ {
			row := s.rows[j]
			if r.Reverse {
				row = s.rows[n-1-j]
			}
			if bytes.Compare(row.key, lo) < 0 || (len(hi) > 0 && bytes.Compare(row.key, hi) >= 0) {
				continue
			}
			v, _, kerr := s.read(row, r.Version, &req.Context)
			if kerr != nil {
				if s.respLevel {
					resp.Error = kerr
					resp.Pairs = nil
					return &tikvrpc.Response{Resp: resp}, nil
				}
				resp.Pairs = append(resp.Pairs, &kvrpcpb.KvPair{Error: kerr})
			} else if len(v) > 0 {
				p := &kvrpcpb.KvPair{Key: row.key}
				if !r.KeyOnly {
					p.Value = v
				}
				resp.Pairs = append(resp.Pairs, p)
			}
		}
		return &tikvrpc.Response{Resp: resp}, nil

	case tikvrpc.CmdCheckTxnStatus:
		r := req.CheckTxnStatus()
		resp := &kvrpcpb.CheckTxnStatusResponse{}
		if rerr == nil && !zzRegionContains(region, r.PrimaryKey) {
			s.misrouted++
			rerr = &errorpb.Error{Message: "knir", KeyNotInRegion: &errorpb.KeyNotInRegion{Key: r.PrimaryKey, RegionId: region.Id}}
		}
		if rerr != nil {
			resp.RegionError = rerr
			return &tikvrpc.Response{Resp: resp}, nil
		}
		t := s.txn
		if t == nil || r.LockTs != t.startTS || !bytes.Equal(r.PrimaryKey, t.primary) {
			// not a transaction of the model: the client invented it
			s.badResolve = true
			resp.Error = &kvrpcpb.KeyError{TxnNotFound: &kvrpcpb.TxnNotFound{StartTs: r.LockTs, PrimaryKey: r.PrimaryKey}}
			return &tikvrpc.Response{Resp: resp}, nil
		}
		t.checks++
		s.aliveKnown = false
		if t.status == zzTxnLive {
			if t.waits > 0 {
				t.waits--
				resp.LockTtl = t.ttl
				resp.Action = kvrpcpb.Action_NoAction
				s.aliveKnown, s.aliveToldAt = true, zzSleptNs()
				return &tikvrpc.Response{Resp: resp}, nil
			}
			s.finish(t.final)
		}
		switch t.status {
		case zzTxnExpired:
			if oracle.ExtractPhysical(t.startTS)+int64(t.ttl) < oracle.ExtractPhysical(r.CurrentTs) {
				s.finish(zzTxnRolledBack)
				resp.Action = kvrpcpb.Action_TTLExpireRollback
			} else {
				resp.LockTtl = t.ttl
			}
		case zzTxnLivePushed:
			resp.LockTtl = t.ttl
			if r.CallerStartTs != 0 && r.CallerStartTs != ^uint64(0) {
				resp.Action = kvrpcpb.Action_MinCommitTSPushed
			}
		case zzTxnCommitted:
			resp.CommitVersion = t.commitTS
		case zzTxnRolledBack:
			resp.Action = kvrpcpb.Action_NoAction
		}
		return &tikvrpc.Response{Resp: resp}, nil

	case tikvrpc.CmdResolveLock:
		r := req.ResolveLock()
		resp := &kvrpcpb.ResolveLockResponse{}
		if rerr != nil {
			resp.RegionError = rerr
			return &tikvrpc.Response{Resp: resp}, nil
		}
		t := s.txn
		if t == nil || r.StartVersion != t.startTS {
			return &tikvrpc.Response{Resp: resp}, nil
		}
		// the request must carry the true outcome of the transaction
		if r.CommitVersion != 0 {
			if t.status != zzTxnCommitted || r.CommitVersion != t.commitTS {
				s.badResolve = true
			}
		} else if t.status != zzTxnRolledBack {
			s.badResolve = true
		}
		for _, row := range s.rows {
			if row.lock != zzLockPut && row.lock != zzLockDel {
				continue
			}
			if !zzRegionContains(region, row.key) {
				continue
			}
			if len(r.Keys) > 0 {
				in := false
				for _, k := range r.Keys {
					if bytes.Equal(k, row.key) {
						in = true
					}
				}
				if !in {
					continue
				}
			}
			s.applyOutcome(row)
		}
		return &tikvrpc.Response{Resp: resp}, nil
	}
	panic("zzStore: unexpected command")
}

// finish moves a pending transaction to its final state; its primary lock (if the primary
// is a row of the model) is resolved with it, as CheckTxnStatus / the owner's commit do.
func (s *zzStore) finish(final int) {
	t := s.txn
	t.status = final
	for _, row := range s.rows {
		if bytes.Equal(row.key, t.primary) {
			s.applyOutcome(row)
		}
	}
}

func (s *zzStore) applyOutcome(row *zzRow) { s.applyOutcomeAt(row, s.ts) }

// applyOutcomeAt resolves row's lock with the transaction's outcome as seen by a reader at ts.
func (s *zzStore) applyOutcomeAt(row *zzRow, ts uint64) {
	t := s.txn
	if row.lock != zzLockPut && row.lock != zzLockDel {
		return
	}
	if t.status == zzTxnCommitted && t.commitTS <= ts {
		if row.lock == zzLockPut {
			row.val, row.commitTS = row.lockVal, t.commitTS
		} else {
			row.val, row.commitTS = nil, 0
		}
	}
	row.lock = zzNoLock
}

// zzFaults draws n topology events, each applied just before the data RPC number 1..maxAt:
// a split at a symbolic key, a merge of the first two regions, or a bare EpochNotMatch answer.
func zzFaults(st *zzStore, n, maxAt int) {
	for i := 0; i < n; i++ {
		at := 1 + zzChoice("faultat", maxAt)
		var ev func()
		switch zzChoice("faultkind", 3) {
		case 0:
			sk := zzBytes("splitkey", 2)
			zzAssume(len(sk) > 0)
			ev = func() { st.pd.split(sk) }
		case 1:
			ev = func() { st.pd.merge(0) }
		default:
			ev = func() { st.oneShot = true }
		}
		st.faultAt = append(st.faultAt, at)
		st.faultEv = append(st.faultEv, ev)
	}
}

// ---------------------------------------------------------------- kvstore

type zzKVStore struct {
	cache    *locate.RegionCache
	cli      *zzStore
	orc      *zzOracle
	resolver *txnlock.LockResolver
	gos      int
	// the transaction safe point the store has learnt (0 = none): reads below it are not visible
	safePoint  uint64
	visChecked int
}

func zzNewKVStore(st *zzStore) *zzKVStore {
	// region-cache TTL jitter, replica choice and back-off jitter are not the subject here
	zzConcreteRand()
	kvs := &zzKVStore{cli: st, orc: &zzOracle{nowMs: 1 << 20}}
	kvs.cache = locate.NewRegionCache(st.pd)
	kvs.resolver = txnlock.NewLockResolver(kvs)
	return kvs
}

func (k *zzKVStore) close() {
	k.resolver.Close()
	k.cache.Close()
}

var zzErrAbortedByGC = errors.New("zz: start ts is below the transaction safe point")

func (k *zzKVStore) CheckVisibility(startTime uint64) error {
	k.visChecked++
	if startTime < k.safePoint {
		return zzErrAbortedByGC
	}
	return nil
}
func (k *zzKVStore) GetRegionCache() *locate.RegionCache    { return k.cache }
func (k *zzKVStore) GetLockResolver() *txnlock.LockResolver { return k.resolver }
func (k *zzKVStore) GetTiKVClient() client.Client           { return k.cli }
func (k *zzKVStore) GetOracle() oracle.Oracle               { return k.orc }
func (k *zzKVStore) Go(f func()) error                      { k.gos++; go f(); return nil }
func (k *zzKVStore) SendReq(bo *retry.Backoffer, req *tikvrpc.Request, regionID locate.RegionVerID, timeout time.Duration) (*tikvrpc.Response, error) {
	sender := locate.NewRegionRequestSender(k.cache, k.cli, k.orc)
	resp, _, err := sender.SendReq(bo, req, regionID, timeout)
	return resp, err
}

// ---------------------------------------------------------------- model helpers

// zzSortedKeys draws n strictly increasing non-empty keys of at most maxLen bytes.
func zzSortedKeys(n, maxLen int) [][]byte {
	keys := make([][]byte, n)
	for i := 0; i < n; i++ {
		keys[i] = zzBytes("key", maxLen)
		zzAssume(len(keys[i]) > 0)
		if i > 0 {
			zzAssume(bytes.Compare(keys[i-1], keys[i]) < 0)
		}
	}
	return keys
}

// zzSplits draws n strictly increasing non-empty split keys.
func zzSplits(n, maxLen int) [][]byte {
	sp := make([][]byte, n)
	for i := 0; i < n; i++ {
		sp[i] = zzBytes("split", maxLen)
		zzAssume(len(sp[i]) > 0)
		if i > 0 {
			zzAssume(bytes.Compare(sp[i-1], sp[i]) < 0)
		}
	}
	return sp
}

type zzPair struct{ k, v []byte }

// modelScan returns the pairs of the truth in [lo, hi) (empty hi = unbounded), ascending.
func (s *zzStore) modelScan(lo, hi []byte) []zzPair {
	var out []zzPair
	for _, r := range s.rows {
		v := s.truth(r)
		if len(v) == 0 {
			continue
		}
		if bytes.Compare(r.key, lo) < 0 {
			continue
		}
		if len(hi) > 0 && bytes.Compare(r.key, hi) >= 0 {
			continue
		}
		out = append(out, zzPair{r.key, v})
	}
	return out
}
