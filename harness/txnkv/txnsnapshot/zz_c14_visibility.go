package txnsnapshot

import (
	"context"

	tikverr "github.com/tikv/client-go/v2/error"
	"github.com/tikv/client-go/v2/internal/unionstore"
)

// ZZ_C14_read_below_safepoint_refused (C14, last sentence): a snapshot read at a timestamp below the
// transaction safe point the store has learnt is refused instead of being served - by every access
// path (get, batch get, forward and reverse scan), whether the addressed range holds data or not
// (an empty answer is exactly what a store returns once GC has collected the versions), on every
// layout; at or above the safe point the read is served.
func ZZ_C14_read_below_safepoint_refused() {
	nrows := zzChoice("rows", 3)
	st := zzPlainStore(nrows, zzParam("vis_splits", 1))
	kvs := zzNewKVStore(st)
	defer kvs.close()
	below := zzBool("below")
	if below {
		kvs.safePoint = st.ts + 1
	} else {
		kvs.safePoint = st.ts
	}
	snap := NewTiKVSnapshot(kvs, st.ts, 0)
	ctx := context.Background()
	q := zzBytes("q", 1)
	var err error
	switch zzChoice("path", 4) {
	case 0:
		_, err = snap.Get(ctx, q)
		if !below && tikverr.IsErrNotFound(err) {
			err = nil // not-found is a served answer
		}
	case 1:
		_, err = snap.BatchGet(ctx, [][]byte{q, []byte("zz")})
	case 2:
		var it unionstore.Iterator
		it, err = snap.Iter(q, nil)
		for err == nil && it.Valid() {
			err = it.Next()
		}
	default:
		var it unionstore.Iterator
		it, err = snap.IterReverse(nil, q)
		for err == nil && it.Valid() {
			err = it.Next()
		}
	}
	if below {
		zzAssert(err == zzErrAbortedByGC, "visibility.read-below-safe-point-refused")
	} else {
		zzAssert(err == nil, "visibility.read-at-safe-point-served")
	}
	zzAssert(kvs.visChecked > 0, "visibility.checked-after-the-read")
}
