package txnsnapshot

import (
	"bytes"
)

// zzPlainStore: n committed rows with symbolic strictly increasing keys and one-byte symbolic
// values, nsplit symbolic splits. An absent key is simply a key that is no row.
// Key lengths: with zzParam("freelen")==0 the rows' lengths follow the fixed profile 1,2,1,2
// (so that k, k+"\x00" adjacency and prefix pairs are possible); otherwise every length 1..2.
func zzPlainStore(n, nsplit int) *zzStore {
	splits := zzSplits(nsplit, 2)
	st := &zzStore{pd: zzLayout(splits), ts: 100}
	free := zzParam("freelen", 0) != 0
	var prev []byte
	for i := 0; i < n; i++ {
		var k []byte
		if free {
			k = zzBytes("key", 2)
			zzAssume(len(k) > 0)
		} else {
			k = zzBytesN("key", 1+i%2)
		}
		if i > 0 {
			zzAssume(bytes.Compare(prev, k) < 0)
		}
		prev = k
		st.rows = append(st.rows, &zzRow{key: k, val: zzBytesN("val", 1), commitTS: 50})
	}
	return st
}

// zzDrain runs a scanner to its end and returns copies of what it yielded.
func zzDrain(snap *KVSnapshot, lo, hi []byte, reverse bool) ([]zzPair, error) {
	var sc *Scanner
	var err error
	if reverse {
		sc, err = newScanner(snap, lo, hi, snap.scanBatchSize, true)
	} else {
		sc, err = newScanner(snap, lo, hi, snap.scanBatchSize, false)
	}
	if err != nil {
		return nil, err
	}
	var out []zzPair
	for sc.Valid() {
		out = append(out, zzPair{append([]byte{}, sc.Key()...), append([]byte{}, sc.Value()...)})
		if err = sc.Next(); err != nil {
			return out, err
		}
	}
	return out, nil
}

// zzSamePairs: got equals want (in the given direction); with keyOnly the values must be empty.
func zzSamePairs(got, want []zzPair, reverse, keyOnly bool) bool {
	if len(got) != len(want) {
		return false
	}
	ok := true
	for i := range got {
		w := want[i]
		if reverse {
			w = want[len(want)-1-i]
		}
		ok = zzAnd(ok, bytes.Equal(got[i].k, w.k))
		if keyOnly {
			ok = zzAnd(ok, len(got[i].v) == 0)
		} else {
			ok = zzAnd(ok, bytes.Equal(got[i].v, w.v))
		}
	}
	return ok
}

// Bound modes for the scan harnesses.
const (
	zzBoundEmpty       = iota // unbounded end
	zzBoundSym                // every key of 0..2 bytes
	zzBoundSymNonEmpty        // every key of 1..2 bytes
	zzBoundTop                // ff ff ff: above every key of the model, not the end of the key space
)

func zzBound(mode int) []byte {
	switch mode {
	case zzBoundEmpty:
		return nil
	case zzBoundTop:
		return []byte{0xff, 0xff, 0xff}
	case zzBoundSymNonEmpty:
		b := zzBytes("bound", 2)
		zzAssume(len(b) > 0)
		return b
	}
	return zzBytes("bound", 2)
}

// zzScanCase runs one scan (forward or reverse) over a plain store and compares it with the model.
func zzScanCase(reverse bool, rows, splits, loMode, hiMode, batches int, symKeyOnly bool) (noerr, same, wellformed bool, hi []byte, st *zzStore) {
	return zzScanCaseF(reverse, rows, splits, loMode, hiMode, batches, symKeyOnly, 0)
}

// zzScanCaseF: zzScanCase with nfaults topology events injected among the first data RPCs.
func zzScanCaseF(reverse bool, rows, splits, loMode, hiMode, batches int, symKeyOnly bool, nfaults int) (noerr, same, wellformed bool, hi []byte, st *zzStore) {
	st = zzPlainStore(rows, splits)
	zzFaults(st, nfaults, 3)
	kvs := zzNewKVStore(st)
	defer kvs.close()
	snap := NewTiKVSnapshot(kvs, st.ts, 0)
	snap.SetScanBatchSize(2 + zzChoice("batch", batches))
	keyOnly := false
	if symKeyOnly {
		keyOnly = zzBool("keyonly")
	}
	snap.SetKeyOnly(keyOnly)
	lo := zzBound(loMode)
	hi = zzBound(hiMode)
	zzAssume(len(hi) == 0 || bytes.Compare(lo, hi) <= 0)
	got, err := zzDrain(snap, lo, hi, reverse)
	noerr = err == nil
	same = zzSamePairs(got, st.modelScan(lo, hi), reverse, keyOnly)
	wellformed = st.misrouted == 0 && !st.scanLimitBad
	return
}

// ZZ_C05_scan_fwd_lo: forward scan, 3 rows, 3 regions (symbolic splits), symbolic lower bound,
// unbounded above, batch size 2: equals the model scan.
func ZZ_C05_scan_fwd_lo() {
	noerr, same, wf, _, _ := zzScanCase(false, 3, 2, zzBoundSym, zzBoundEmpty, 1, false)
	zzAssert(noerr, "scan.fwd-lo.noerr")
	zzAssert(same, "scan.fwd-lo.equals-model")
	zzAssert(wf, "scan.fwd-lo.requests-wellformed")
}

// ZZ_C05_scan_fwd_hi: forward scan from the start of the key space to a symbolic upper bound.
func ZZ_C05_scan_fwd_hi() {
	noerr, same, wf, _, _ := zzScanCase(false, 3, 2, zzBoundEmpty, zzBoundSym, 1, false)
	zzAssert(noerr, "scan.fwd-hi.noerr")
	zzAssert(same, "scan.fwd-hi.equals-model")
	zzAssert(wf, "scan.fwd-hi.requests-wellformed")
}

// ZZ_C05_scan_rev_hi: reverse scan from a symbolic non-empty upper bound down to the start of the
// key space, 3 rows, 3 regions: the mirror image of the model scan.
func ZZ_C05_scan_rev_hi() {
	noerr, same, wf, _, _ := zzScanCase(true, 3, 2, zzBoundEmpty, zzBoundSymNonEmpty, 1, false)
	zzAssert(noerr, "scan.rev-hi.noerr")
	zzAssert(same, "scan.rev-hi.equals-mirror")
	zzAssert(wf, "scan.rev-hi.requests-wellformed")
}

// ZZ_C05_scan_rev_lo: reverse scan from above every key (ff ff ff) down to a symbolic lower bound.
func ZZ_C05_scan_rev_lo() {
	noerr, same, wf, _, _ := zzScanCase(true, 3, 2, zzBoundSym, zzBoundTop, 1, false)
	zzAssert(noerr, "scan.rev-lo.noerr")
	zzAssert(same, "scan.rev-lo.equals-mirror")
	zzAssert(wf, "scan.rev-lo.requests-wellformed")
}

// ZZ_C05_scan_rev_from_end: reverse scan whose upper bound is empty (end of the key space) over
// two regions. EXPECTED FINDING (DESIGN section 5 item 5): LocateEndKey("") yields the first region,
// so the rows of the last region are missing.
func ZZ_C05_scan_rev_from_end() {
	zzNote("upper_bound_empty", true)
	noerr, same, _, _, _ := zzScanCase(true, 2, 1, zzBoundEmpty, zzBoundEmpty, 1, false)
	zzAssert(noerr, "scan.rev-from-end.noerr")
	zzAssert(same, "scan.reverse-from-keyspace-end")
}

// ZZ_C05_scan_fwd: forward scan, symbolic rows / layout / both bounds (lo <= hi, or hi empty),
// batch size 2..3, key-only on/off: equals the model scan.
func ZZ_C05_scan_fwd() {
	noerr, same, wf, _, _ := zzScanCase(false, zzParam("rows", 3), zzParam("splits", 1), zzBoundSym, zzBoundSym, 2, true)
	zzAssert(noerr, "scan.fwd.noerr")
	zzAssert(same, "scan.fwd.equals-model")
	zzAssert(wf, "scan.fwd.requests-wellformed")
}

// ZZ_C05_scan_rev: reverse scan, symbolic rows / layout / both bounds with a non-empty upper bound,
// batch size 2..3, key-only on/off: the mirror image of the model scan.
func ZZ_C05_scan_rev() {
	noerr, same, wf, _, _ := zzScanCase(true, zzParam("rows", 3), zzParam("splits", 1), zzBoundSym, zzBoundSymNonEmpty, 2, true)
	zzAssert(noerr, "scan.rev.noerr")
	zzAssert(same, "scan.rev.equals-mirror")
	zzAssert(wf, "scan.rev.requests-wellformed")
}

// ZZ_C05_scan_fault_fwd: a region split / merge / bare epoch error in the middle of a forward scan
// (before data RPC 1..3) changes nothing: the scan still equals the model.
func ZZ_C05_scan_fault_fwd() {
	noerr, same, _, _, st := zzScanCaseF(false, 3, 1, zzBoundEmpty, zzBoundEmpty, 1, false, zzParam("faults", 1))
	zzAssert(noerr, "scan.fault-fwd.noerr")
	zzAssert(same, "scan.fault-fwd.equals-model")
	if st.faults > 0 {
		zzAssert(same, "scan.fault-fwd.equals-model-after-region-error")
	}
}

// ZZ_C05_scan_fault_rev: the same for a reverse scan from above every key.
func ZZ_C05_scan_fault_rev() {
	noerr, same, _, _, st := zzScanCaseF(true, 3, 1, zzBoundEmpty, zzBoundTop, 1, false, zzParam("faults", 1))
	zzAssert(noerr, "scan.fault-rev.noerr")
	zzAssert(same, "scan.fault-rev.equals-mirror")
	if st.faults > 0 {
		zzAssert(same, "scan.fault-rev.equals-mirror-after-region-error")
	}
}
