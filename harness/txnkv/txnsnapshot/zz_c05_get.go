package txnsnapshot

import (
	"bytes"
	"context"
	"math"

	"github.com/tikv/client-go/v2/config"
	tikverr "github.com/tikv/client-go/v2/error"
	"github.com/tikv/client-go/v2/internal/locate"
	"github.com/tikv/client-go/v2/kv"
)

// zzModelGet: the model's value of key k at the snapshot ts (empty = absent).
func (s *zzStore) modelGet(k []byte) []byte {
	var want []byte
	for _, r := range s.rows {
		if bytes.Equal(r.key, k) {
			want = s.truth(r)
		}
	}
	return want
}

// zzGetIs: Get(k) answered want (absent <=> ErrNotExist).
func zzGetIs(snap *KVSnapshot, k, want []byte) bool {
	e, err := snap.Get(context.Background(), k)
	if len(want) == 0 {
		return tikverr.IsErrNotFound(err)
	}
	return zzAnd(err == nil, bytes.Equal(e.Value, want))
}

// zzMapIs: a BatchGet result holds exactly the model's present keys among keys with the model's
// values; distinct is the number of distinct present keys among keys.
func zzMapIs(st *zzStore, m map[string]kv.ValueEntry, keys [][]byte, distinct int) bool {
	ok := true
	for _, k := range keys {
		want := st.modelGet(k)
		e, in := m[string(k)]
		if len(want) == 0 {
			ok = zzAnd(ok, !in)
		} else {
			ok = zzAnd(ok, in)
			ok = zzAnd(ok, bytes.Equal(e.Value, want))
		}
	}
	return zzAnd(ok, len(m) == distinct)
}

// zzExtraKey: a requested key besides the rows' keys: either a duplicate of a row key or a key
// (0..2 bytes) that is no row.
func zzExtraKey(st *zzStore) []byte {
	if zzBool("dup") {
		return st.rows[zzChoice("dupof", len(st.rows))].key
	}
	x := zzBytes("x", 2)
	for _, r := range st.rows {
		zzAssume(!bytes.Equal(r.key, x))
	}
	return x
}

// zzFixedStore: rows "a", "b", "b\x00" (symbolic values), regions split at "b"; "c" is absent.
func zzFixedStore() *zzStore {
	st := &zzStore{pd: zzLayout([][]byte{[]byte("b")}), ts: 100}
	for _, k := range []string{"a", "b", "b\x00"} {
		st.rows = append(st.rows, &zzRow{key: []byte(k), val: zzBytesN("val", 1), commitTS: 50})
	}
	return st
}

// ZZ_C05_batchget: BatchGet of all rows plus an arbitrary key over a symbolic layout equals the model,
// equals the per-key Get of a cold snapshot, and a second (warm) BatchGet / Get on the same snapshot
// gives the same answers without any RPC.
func ZZ_C05_batchget() {
	st := zzPlainStore(3, zzParam("bg_splits", 1))
	nrows := 3
	kvs := zzNewKVStore(st)
	defer kvs.close()
	snap := NewTiKVSnapshot(kvs, st.ts, 0)
	x := zzExtraKey(st)
	keys := [][]byte{st.rows[1].key, x, st.rows[0].key, st.rows[2].key}
	m, err := snap.BatchGet(context.Background(), keys)
	zzAssert(err == nil, "batchget.noerr")
	zzAssert(zzMapIs(st, m, keys, nrows), "batchget.equals-model")

	cold := NewTiKVSnapshot(kvs, st.ts, 0)
	same := true
	for _, k := range keys {
		same = zzAnd(same, zzGetIs(cold, k, st.modelGet(k)))
	}
	zzAssert(same, "batchget.equals-cold-get")

	n := st.rpcs
	m2, err2 := snap.BatchGet(context.Background(), keys)
	zzAssert(err2 == nil, "batchget.warm-noerr")
	zzAssert(zzMapIs(st, m2, keys, nrows), "batchget.warm-equals-model")
	warm := true
	for _, k := range keys {
		warm = zzAnd(warm, zzGetIs(snap, k, st.modelGet(k)))
	}
	zzAssert(warm, "batchget.warm-get-equals-model")
	zzAssert(st.rpcs == n, "batchget.warm-no-rpc")
	zzAssert(st.misrouted == 0, "batchget.requests-wellformed")
}

// ZZ_C05_cache_ts: answers cached for the old timestamp are not served after SetSnapshotTS:
// every row has a newer version (symbolic value or delete) committed between the two timestamps.
func ZZ_C05_cache_ts() {
	st := zzFixedStore()
	nrows := 3
	for _, r := range st.rows {
		r.newTS = 150
		if zzBool("newdel") {
			r.newVal = nil
		} else {
			r.newVal = zzBytesN("newval", 1)
		}
	}
	kvs := zzNewKVStore(st)
	defer kvs.close()
	snap := NewTiKVSnapshot(kvs, st.ts, 0)
	keys := [][]byte{[]byte("b"), []byte("c"), []byte("a"), []byte("b\x00")}
	viaBatch := zzBool("viabatch")
	if viaBatch {
		m, err := snap.BatchGet(context.Background(), keys)
		zzAssert(err == nil && zzMapIs(st, m, keys, nrows), "cache-ts.old-batchget")
	} else {
		ok := true
		for _, k := range keys {
			ok = zzAnd(ok, zzGetIs(snap, k, st.modelGet(k)))
		}
		zzAssert(ok, "cache-ts.old-get")
	}
	zzAssert(snap.SnapCacheSize() > 0, "cache-ts.cache-filled")
	// move the snapshot: the model's truth is now the newer version
	snap.SetSnapshotTS(200)
	st.ts = 200
	nrows = 0
	for _, r := range st.rows {
		r.val, r.commitTS, r.newTS = r.newVal, 150, 0
		if len(r.val) > 0 {
			nrows++
		}
	}
	if zzBool("batchafter") {
		m, err := snap.BatchGet(context.Background(), keys)
		zzAssert(err == nil && zzMapIs(st, m, keys, nrows), "cache-ts.new-batchget")
	} else {
		ok := true
		for _, k := range keys {
			ok = zzAnd(ok, zzGetIs(snap, k, st.modelGet(k)))
		}
		zzAssert(ok, "cache-ts.new-get")
	}
}

// ZZ_C05_maxts_nocache: a snapshot at the max timestamp always reads the latest data: nothing is
// cached, every Get / BatchGet goes to the store, and a change between two reads is seen.
func ZZ_C05_maxts_nocache() {
	st := zzFixedStore()
	nrows := 3
	st.ts = math.MaxUint64
	kvs := zzNewKVStore(st)
	defer kvs.close()
	snap := NewTiKVSnapshot(kvs, math.MaxUint64, 0)
	keys := [][]byte{st.rows[0].key, st.rows[1].key, []byte("c"), st.rows[2].key}
	zzAssert(zzGetIs(snap, keys[0], st.modelGet(keys[0])), "maxts.get")
	m, err := snap.BatchGet(context.Background(), keys)
	zzAssert(err == nil && zzMapIs(st, m, keys, nrows), "maxts.batchget")
	zzAssert(snap.SnapCacheSize() == 0, "maxts.nothing-cached")
	// the store moves on
	st.rows[0].val = zzBytesN("later", 1)
	if zzBool("del1") {
		st.rows[1].val = nil
		nrows = 2
	}
	n := st.rpcs
	zzAssert(zzGetIs(snap, keys[0], st.modelGet(keys[0])), "maxts.get-sees-latest")
	m, err = snap.BatchGet(context.Background(), keys)
	zzAssert(err == nil && zzMapIs(st, m, keys, nrows), "maxts.batchget-sees-latest")
	zzAssert(st.rpcs > n+1, "maxts.reads-go-to-store")
}

// ZZ_C05_batchget_fault: a region split / merge / bare epoch error in the middle of a BatchGet
// (before data RPC 1..3) changes nothing.
func ZZ_C05_batchget_fault() {
	st := zzPlainStore(3, 1)
	zzFaults(st, zzParam("faults", 1), 3)
	kvs := zzNewKVStore(st)
	defer kvs.close()
	snap := NewTiKVSnapshot(kvs, st.ts, 0)
	keys := [][]byte{st.rows[1].key, st.rows[0].key, st.rows[2].key}
	m, err := snap.BatchGet(context.Background(), keys)
	zzAssert(err == nil, "batchget.fault.noerr")
	same := zzMapIs(st, m, keys, 3)
	zzAssert(same, "batchget.fault.equals-model")
	if st.faults > 0 {
		zzAssert(same, "batchget.fault.equals-model-after-region-error")
	}
}

// ZZ_C05_batchget_async: the async batch-get path (config EnableAsyncBatchGet) gives the same answers,
// also with a topology event in the middle.
func ZZ_C05_batchget_async() {
	restore := config.UpdateGlobal(func(c *config.Config) { c.EnableAsyncBatchGet = true })
	defer restore()
	st := zzPlainStore(3, 1)
	zzFaults(st, zzChoice("nfaults", 2), 3)
	kvs := zzNewKVStore(st)
	defer kvs.close()
	snap := NewTiKVSnapshot(kvs, st.ts, 0)
	keys := [][]byte{st.rows[1].key, st.rows[0].key, st.rows[2].key}
	m, err := snap.BatchGet(context.Background(), keys)
	zzAssert(err == nil, "batchget.async.noerr")
	zzAssert(zzMapIs(st, m, keys, 3), "batchget.async.equals-model")
}

// ZZ_C05_commit_ts: the commit timestamp is reported exactly when asked for, whatever the cache
// holds from earlier calls with the other setting (Get and BatchGet, both orders).
func ZZ_C05_commit_ts() {
	st := zzFixedStore()
	kvs := zzNewKVStore(st)
	defer kvs.close()
	snap := NewTiKVSnapshot(kvs, st.ts, 0)
	ctx := context.Background()
	first := zzBool("firstwith")
	k := []byte("b")
	keys := [][]byte{[]byte("a"), k, []byte("c")}
	want := st.modelGet(k)
	for round := 0; round < 2; round++ {
		with := first == (round == 0)
		var e kv.ValueEntry
		var err error
		var m map[string]kv.ValueEntry
		if with {
			e, err = snap.Get(ctx, k, kv.WithReturnCommitTS())
			zzAssert(err == nil && bytes.Equal(e.Value, want), "commit-ts.get-with.value")
			zzAssert(e.CommitTS == 50, "commit-ts.get-with.ts")
			m, err = snap.BatchGet(ctx, keys, kv.WithReturnCommitTS())
			zzAssert(err == nil && len(m) == 2, "commit-ts.batchget-with.ok")
			zzAssert(m["a"].CommitTS == 50 && m["b"].CommitTS == 50, "commit-ts.batchget-with.ts")
		} else {
			e, err = snap.Get(ctx, k)
			zzAssert(err == nil && bytes.Equal(e.Value, want), "commit-ts.get-without.value")
			zzAssert(e.CommitTS == 0, "commit-ts.get-without.ts")
			m, err = snap.BatchGet(ctx, keys)
			zzAssert(err == nil && len(m) == 2, "commit-ts.batchget-without.ok")
			zzAssert(m["a"].CommitTS == 0 && m["b"].CommitTS == 0, "commit-ts.batchget-without.ts")
		}
		zzAssert(bytes.Equal(m["a"].Value, st.modelGet([]byte("a"))) && bytes.Equal(m["b"].Value, want), "commit-ts.batchget.values")
	}
}

// ZZ_C05_batch_split: appendBatchKeysBySize partitions the keys of a region into consecutive batches,
// in order, none empty, each within the size limit (limit 1..3, up to 4 keys).
func ZZ_C05_batch_split() {
	n := zzChoice("n", 5)
	limit := 1 + zzChoice("limit", 3)
	keys := make([][]byte, n)
	for i := range keys {
		keys[i] = zzBytesN("k", 1)
	}
	id := locate.NewRegionVerID(7, 1, 1)
	bs := appendBatchKeysBySize(nil, id, keys, func([]byte) int { return 1 }, limit)
	ok := true
	pos := 0
	for _, b := range bs {
		ok = ok && b.region == id && len(b.keys) >= 1 && len(b.keys) <= limit
		for _, k := range b.keys {
			ok = ok && pos < n && &k[0] == &keys[pos][0]
			pos++
		}
	}
	zzAssert(ok && pos == n, "batch-split.partition-in-order")
	zzAssert(len(bs) == (n+limit-1)/limit, "batch-split.count")
}

// ZZ_C05_cache_ts_back: the same with the timestamp moved backwards: the snapshot first reads (and
// caches) the newer versions at ts 200, then is set to ts 100 where the older versions are the truth.
func ZZ_C05_cache_ts_back() {
	st := zzFixedStore() // rows committed at 50; the store answers by request version
	newer := &zzStore{ts: 200}
	nNew := 0
	for _, r := range st.rows {
		r.newTS = 150
		if zzBool("newdel") {
			r.newVal = nil
		} else {
			r.newVal = zzBytesN("newval", 1)
			nNew++
		}
		newer.rows = append(newer.rows, &zzRow{key: r.key, val: r.newVal}) // the model's truth at 200
	}
	kvs := zzNewKVStore(st)
	defer kvs.close()
	snap := NewTiKVSnapshot(kvs, 200, 0)
	keys := [][]byte{[]byte("b"), []byte("c"), []byte("a"), []byte("b\x00")}
	if zzBool("viabatch") {
		m, err := snap.BatchGet(context.Background(), keys)
		zzAssert(err == nil && zzMapIs(newer, m, keys, nNew), "cache-ts-back.new-batchget")
	} else {
		ok := true
		for _, k := range keys {
			ok = zzAnd(ok, zzGetIs(snap, k, newer.modelGet(k)))
		}
		zzAssert(ok, "cache-ts-back.new-get")
	}
	zzAssert(snap.SnapCacheSize() > 0, "cache-ts-back.cache-filled")
	// move the snapshot backwards: the older versions are the truth again
	snap.SetSnapshotTS(100)
	if zzBool("batchafter") {
		m, err := snap.BatchGet(context.Background(), keys)
		zzAssert(err == nil && zzMapIs(st, m, keys, 3), "cache-ts-back.old-batchget")
	} else {
		ok := true
		for _, k := range keys {
			ok = zzAnd(ok, zzGetIs(snap, k, st.modelGet(k)))
		}
		zzAssert(ok, "cache-ts-back.old-get")
	}
}
