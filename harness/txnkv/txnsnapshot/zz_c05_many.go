package txnsnapshot

import (
	"context"
)

// ZZ_C05_batchget_many: one BatchGet of more keys than one request may carry (batchGetSize, taken
// from the code), so that a single region yields several batches: with all keys in one region, or
// with a split inside the first / the second batch. Rows (symbolic values) sit at the first key, at
// the last key of the first batch, at the first key of the second batch and at the last key. The
// answer equals the model, and the warm snapshot answers the same per key.
func ZZ_C05_batchget_many() {
	n := batchGetSize + 2
	keys := make([][]byte, n)
	for i := range keys {
		keys[i] = []byte{'k', byte(i >> 8), byte(i)}
	}
	var splits [][]byte
	switch zzChoice("layout", 3) {
	case 1:
		splits = [][]byte{keys[3]}
	case 2:
		splits = [][]byte{keys[batchGetSize+1]}
	}
	st := &zzStore{pd: zzLayout(splits), ts: 100}
	at := []int{0, batchGetSize - 1, batchGetSize, n - 1}
	for _, i := range at {
		st.rows = append(st.rows, &zzRow{key: keys[i], val: zzBytesN("val", 1), commitTS: 50})
	}
	kvs := zzNewKVStore(st)
	defer kvs.close()
	snap := NewTiKVSnapshot(kvs, st.ts, 0)
	m, err := snap.BatchGet(context.Background(), keys)
	zzAssert(err == nil, "many.noerr")
	ok := len(m) == len(at)
	for _, r := range st.rows {
		e, in := m[string(r.key)]
		ok = zzAnd(ok, in)
		ok = zzAnd(ok, string(e.Value) == string(r.val))
	}
	zzAssert(ok, "many.equals-model")
	warm := true
	for _, r := range st.rows {
		warm = zzAnd(warm, zzGetIs(snap, r.key, st.modelGet(r.key)))
	}
	zzAssert(warm, "many.warm-get-equals-model")
	zzAssert(st.misrouted == 0, "many.requests-wellformed")
}
