package kv

// C08 (b) — the key-flag algebra. zzAllFlagsOps / zzAllFlagBits are generated from the current
// kv/keyflags.go by gen/c08_flagsops.py; the specification below is written from the doc comments
// of the ops. An op without a specification fails "flags.op-has-spec": a newly added FlagsOp has
// to be given one here before the check passes again.

type zzFlagSpec struct {
	set, clr KeyFlags // bits the op turns on / off; every other bit is framed
	inverse  string   // the op documented as reverting this one ("" if none)
}

var zzFlagSpecs = map[string]zzFlagSpec{
	"SetPresumeKeyNotExists":           {set: flagPresumeKNE | flagNeedCheckExists, inverse: "DelPresumeKeyNotExists"},
	"DelPresumeKeyNotExists":           {clr: flagPresumeKNE | flagNeedCheckExists},
	"SetKeyLocked":                     {set: flagKeyLocked, inverse: "DelKeyLocked"},
	"DelKeyLocked":                     {clr: flagKeyLocked},
	"SetNeedLocked":                    {set: flagNeedLocked, inverse: "DelNeedLocked"},
	"DelNeedLocked":                    {clr: flagNeedLocked},
	"SetKeyLockedValueExists":          {set: flagKeyLockedValExist, clr: flagNeedConstraintCheckInPrewrite},
	"SetKeyLockedValueNotExists":       {clr: flagKeyLockedValExist | flagNeedConstraintCheckInPrewrite},
	"DelNeedCheckExists":               {clr: flagNeedCheckExists},
	"SetPrewriteOnly":                  {set: flagPrewriteOnly},
	"SetIgnoredIn2PC":                  {set: flagIgnoredIn2PC},
	"SetReadable":                      {set: flagReadable},
	"SetNewlyInserted":                 {set: flagNewlyInserted},
	"SetAssertExist":                   {set: flagAssertExist, clr: flagAssertNotExist},
	"SetAssertNotExist":                {set: flagAssertNotExist, clr: flagAssertExist},
	"SetAssertUnknown":                 {set: flagAssertExist | flagAssertNotExist},
	"SetAssertNone":                    {clr: flagAssertExist | flagAssertNotExist},
	"SetNeedConstraintCheckInPrewrite": {set: flagNeedConstraintCheckInPrewrite, inverse: "DelNeedConstraintCheckInPrewrite"},
	"DelNeedConstraintCheckInPrewrite": {clr: flagNeedConstraintCheckInPrewrite},
	"SetPreviousPresumeKNE":            {set: flagPreviousPresumeKNE},
	"SetKeyLockedInShareMode":          {set: flagKeyLockedInShareMode, inverse: "SetKeyLockedInExclusiveMode"},
	"SetKeyLockedInExclusiveMode":      {clr: flagKeyLockedInShareMode},
}

func zzKnownBits() KeyFlags {
	var m KeyFlags
	for _, b := range zzAllFlagBits {
		m |= b.bit
	}
	return m
}

func zzOpByName(name string) (FlagsOp, bool) {
	for _, o := range zzAllFlagsOps {
		if o.name == name {
			return o.op, true
		}
	}
	return 0, false
}

// ZZ_C08_flags_op: every op on an arbitrary 16-bit flag word.
func ZZ_C08_flags_op() {
	f := KeyFlags(zzU16("flags"))
	o := zzAllFlagsOps[zzChoice("op", len(zzAllFlagsOps))]
	got := ApplyFlagsOps(f, o.op)
	known := zzKnownBits()

	// generic laws (hold for any op, also one that has no specification yet)
	zzAssert(ApplyFlagsOps(got, o.op) == got, "flags.idempotent")
	zzAssert(ApplyFlagsOps(f, o.op, o.op) == got, "flags.idempotent-variadic")
	zzAssert(got&^known == f&^known, "flags.unnamed-bits-untouched")
	zzAssert(f&(1<<15) != 0 || got&(1<<15) == 0, "flags.bit15-never-produced")
	zzAssert(ApplyFlagsOps(f) == f, "flags.no-op-list-is-identity")

	spec, ok := zzFlagSpecs[o.name]
	zzAssert(ok, "flags.op-has-spec")
	zzAssert(spec.set&spec.clr == 0 && (spec.set|spec.clr)&^known == 0 && spec.set|spec.clr != 0, "flags.spec-well-formed")
	touched := spec.set | spec.clr
	zzAssert(got&^touched == f&^touched, "flags.frame-only-documented-bits-change")
	zzAssert(got&spec.set == spec.set, "flags.documented-bits-set")
	zzAssert(got&spec.clr == 0, "flags.documented-bits-cleared")
	if spec.inverse != "" {
		inv, ok := zzOpByName(spec.inverse)
		zzAssert(ok, "flags.inverse-op-exists")
		back := ApplyFlagsOps(got, inv)
		zzAssert(back&spec.set == 0, "flags.inverse-clears-what-was-set")
		zzAssert(back&^spec.set == f&^spec.set, "flags.inverse-touches-nothing-else")
		// and the other way round: set after del
		zzAssert(ApplyFlagsOps(ApplyFlagsOps(f, inv), o.op) == got, "flags.set-after-del-equals-set")
	}
}

// ZZ_C08_flags_seq: a list of ops is the left fold of the single ops.
func ZZ_C08_flags_seq() {
	f := KeyFlags(zzU16("flags"))
	a := zzAllFlagsOps[zzChoice("a", len(zzAllFlagsOps))]
	b := zzAllFlagsOps[zzChoice("b", len(zzAllFlagsOps))]
	zzAssert(ApplyFlagsOps(f, a.op, b.op) == ApplyFlagsOps(ApplyFlagsOps(f, a.op), b.op), "flags.list-is-fold")
	sa, sb := zzFlagSpecs[a.name], zzFlagSpecs[b.name]
	if (sa.set|sa.clr)&(sb.set|sb.clr) == 0 {
		zzAssert(ApplyFlagsOps(f, a.op, b.op) == ApplyFlagsOps(f, b.op, a.op), "flags.disjoint-ops-commute")
	}
}

// ZZ_C08_flags_unknown_op: a value that is not one of the constants (two op bits at once, or a
// bit above the last constant) changes nothing.
func ZZ_C08_flags_unknown_op() {
	f := KeyFlags(zzU16("flags"))
	op := FlagsOp(zzU32("op"))
	isConst := false
	for _, o := range zzAllFlagsOps {
		isConst = zzOr(isConst, op == o.op)
	}
	zzAssume(!isConst)
	zzAssert(ApplyFlagsOps(f, op) == f, "flags.non-constant-op-is-identity")
}

// ZZ_C08_flags_observers: the Has* readers against the bits, the assertion state is exactly one
// of four, AndPersistent keeps exactly the persistent bits.
func ZZ_C08_flags_observers() {
	f := KeyFlags(zzU16("flags"))
	n := 0
	if f.HasAssertExist() {
		n++
	}
	if f.HasAssertNotExist() {
		n++
	}
	if f.HasAssertUnknown() {
		n++
	}
	if !f.HasAssertionFlags() {
		n++
	}
	zzAssert(n == 1, "flags.assertion-state-exactly-one-of-four")
	zzAssert(ApplyFlagsOps(f, SetAssertExist).HasAssertExist(), "flags.set-assert-exist-observed")
	zzAssert(ApplyFlagsOps(f, SetAssertNotExist).HasAssertNotExist(), "flags.set-assert-not-exist-observed")
	zzAssert(ApplyFlagsOps(f, SetAssertUnknown).HasAssertUnknown(), "flags.set-assert-unknown-observed")
	zzAssert(!ApplyFlagsOps(f, SetAssertNone).HasAssertionFlags(), "flags.set-assert-none-observed")

	p := f.AndPersistent()
	want := f & (flagKeyLocked | flagKeyLockedValExist | flagNeedConstraintCheckInPrewrite | flagKeyLockedInShareMode)
	zzAssert(p == want, "flags.persistent-is-the-four-lock-bits")
	zzAssert(p.AndPersistent() == p && p&^f == 0, "flags.persistent-idempotent-subset")
	zzAssert(p.HasLocked() == f.HasLocked() && p.HasLockedValueExists() == f.HasLockedValueExists() &&
		p.HasNeedConstraintCheckInPrewrite() == f.HasNeedConstraintCheckInPrewrite() &&
		p.HasLockedInShareMode() == f.HasLockedInShareMode(), "flags.persistent-keeps-lock-observers")
	zzAssert(!p.HasPresumeKeyNotExists() && !p.HasNeedLocked() && !p.HasNeedCheckExists() && !p.HasPrewriteOnly() &&
		!p.HasIgnoredIn2PC() && !p.HasReadable() && !p.HasNewlyInserted() && !p.HasAssertionFlags(), "flags.persistent-drops-the-rest")
	zzAssert(p&(1<<15) == 0, "flags.persistent-never-bit15")

	// each observer reads the bit its setter writes
	zzAssert(ApplyFlagsOps(f, SetPresumeKeyNotExists).HasPresumeKeyNotExists() && ApplyFlagsOps(f, SetPresumeKeyNotExists).HasNeedCheckExists(), "flags.presume-kne-implies-need-check")
	g := ApplyFlagsOps(f, DelPresumeKeyNotExists)
	zzAssert(g.HasPresumeKeyNotExists() == (f&flagPreviousPresumeKNE != 0) && !g.HasNeedCheckExists(), "flags.del-presume-kne-observed")
	zzAssert(ApplyFlagsOps(f, SetPreviousPresumeKNE).HasPresumeKeyNotExists(), "flags.previous-presume-kne-observed")
	zzAssert(ApplyFlagsOps(f, SetKeyLocked).HasLocked() && !ApplyFlagsOps(f, DelKeyLocked).HasLocked(), "flags.locked-observed")
	zzAssert(ApplyFlagsOps(f, SetNeedLocked).HasNeedLocked() && !ApplyFlagsOps(f, DelNeedLocked).HasNeedLocked(), "flags.need-locked-observed")
	zzAssert(ApplyFlagsOps(f, SetKeyLockedValueExists).HasLockedValueExists() && !ApplyFlagsOps(f, SetKeyLockedValueNotExists).HasLockedValueExists(), "flags.locked-value-exists-observed")
	zzAssert(!ApplyFlagsOps(f, SetKeyLockedValueExists).HasNeedConstraintCheckInPrewrite() && !ApplyFlagsOps(f, SetKeyLockedValueNotExists).HasNeedConstraintCheckInPrewrite(), "flags.locking-removes-postponed-constraint-check")
	zzAssert(!ApplyFlagsOps(f, DelNeedCheckExists).HasNeedCheckExists(), "flags.del-need-check-observed")
	zzAssert(ApplyFlagsOps(f, SetPrewriteOnly).HasPrewriteOnly() && ApplyFlagsOps(f, SetIgnoredIn2PC).HasIgnoredIn2PC() &&
		ApplyFlagsOps(f, SetReadable).HasReadable() && ApplyFlagsOps(f, SetNewlyInserted).HasNewlyInserted(), "flags.one-way-setters-observed")
	zzAssert(ApplyFlagsOps(f, SetNeedConstraintCheckInPrewrite).HasNeedConstraintCheckInPrewrite() && !ApplyFlagsOps(f, DelNeedConstraintCheckInPrewrite).HasNeedConstraintCheckInPrewrite(), "flags.constraint-check-observed")
	zzAssert(ApplyFlagsOps(f, SetKeyLockedInShareMode).HasLockedInShareMode() && !ApplyFlagsOps(f, SetKeyLockedInExclusiveMode).HasLockedInShareMode(), "flags.share-mode-observed")
}
