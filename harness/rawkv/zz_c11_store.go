package rawkv

import (
	"bytes"
	"context"
	"sync"
	"time"

	"github.com/pingcap/kvproto/pkg/errorpb"
	"github.com/pingcap/kvproto/pkg/kvrpcpb"
	"github.com/pingcap/kvproto/pkg/metapb"
	"github.com/tikv/client-go/v2/internal/client"
	"github.com/tikv/client-go/v2/internal/locate"
	"github.com/tikv/client-go/v2/tikvrpc"
)

// ---------------------------------------------------------------------------
// Ground truth: one ordered map. Representation: a list of slots (key, value,
// live flag). The initial content occupies the first slots in strictly
// increasing key order; every put appends a slot. Invariant: at most one live
// slot per key. Point operations are written without branches on symbolic data
// (live flags and values become ite-terms), so the stub itself does not
// multiply paths; only the scans, whose answer has a data-dependent length,
// branch.

type zzPair struct{ k, v []byte }

type zzSlot struct {
	k, v []byte
	live bool
}

type zzMap struct {
	s      []zzSlot
	sorted bool // slots are in strictly increasing key order (no put happened)
}

func (m *zzMap) clone() *zzMap {
	c := &zzMap{s: make([]zzSlot, len(m.s)), sorted: m.sorted}
	copy(c.s, m.s)
	return c
}

func zzByteIte(c bool, a, b byte) byte { return byte(zzIte64(c, uint64(a), uint64(b))) }

// get returns the value stored under k (one byte, or the odd-length value of a
// slot whose value is not one byte long) and whether k is present.
func (m *zzMap) get(k []byte) ([]byte, bool) {
	for _, s := range m.s {
		if len(s.v) != 1 {
			if zzAnd(s.live, bytes.Equal(s.k, k)) {
				return s.v, true
			}
		}
	}
	var b byte
	found := false
	for _, s := range m.s {
		if len(s.v) == 1 {
			hit := zzAnd(s.live, bytes.Equal(s.k, k))
			b = zzByteIte(hit, s.v[0], b)
			found = zzOr(found, hit)
		}
	}
	return []byte{b}, found
}

func (m *zzMap) put(k, v []byte) {
	any := false
	for i := range m.s {
		s := &m.s[i]
		hit := zzAnd(s.live, bytes.Equal(s.k, k))
		any = zzOr(any, hit)
		if len(s.v) == len(v) {
			nv := make([]byte, len(v))
			for j := range v {
				nv[j] = zzByteIte(hit, v[j], s.v[j])
			}
			s.v = nv
		} else if hit {
			s.v = v
		}
	}
	m.s = append(m.s, zzSlot{k: k, v: v, live: !any})
	m.sorted = false
}

// putIf: put(k, v) when c holds, nothing otherwise (no branch on c; one-byte values).
func (m *zzMap) putIf(c bool, k, v []byte) {
	any := false
	for i := range m.s {
		s := &m.s[i]
		hit := zzAnd(c, zzAnd(s.live, bytes.Equal(s.k, k)))
		any = zzOr(any, hit)
		if len(s.v) == len(v) {
			nv := make([]byte, len(v))
			for j := range v {
				nv[j] = zzByteIte(hit, v[j], s.v[j])
			}
			s.v = nv
		} else if hit {
			s.v = v
		}
	}
	m.s = append(m.s, zzSlot{k: k, v: v, live: zzAnd(c, !any)})
	m.sorted = false
}

func (m *zzMap) del(k []byte) {
	for i := range m.s {
		s := &m.s[i]
		s.live = zzAnd(s.live, !bytes.Equal(s.k, k))
	}
}

// zzInRange: lo <= k < hi, empty hi = +inf (no branch on key contents).
func zzInRange(k, lo, hi []byte) bool {
	ge := bytes.Compare(k, lo) >= 0
	if len(hi) == 0 {
		return ge
	}
	return zzAnd(ge, bytes.Compare(k, hi) < 0)
}

// scan returns the first limit pairs of [lo,hi) ascending (empty hi = +inf).
func (m *zzMap) scan(lo, hi []byte, limit int) []zzPair {
	if !m.sorted {
		panic("zzMap.scan on an unsorted map")
	}
	var out []zzPair
	for _, s := range m.s {
		if len(out) >= limit {
			break
		}
		if zzAnd(s.live, zzInRange(s.k, lo, hi)) {
			out = append(out, zzPair{s.k, s.v})
		}
	}
	return out
}

// rscan returns the first limit pairs of [lo,hi) descending (empty hi = +inf).
func (m *zzMap) rscan(hi, lo []byte, limit int) []zzPair {
	if !m.sorted {
		panic("zzMap.rscan on an unsorted map")
	}
	var out []zzPair
	for i := len(m.s) - 1; i >= 0; i-- {
		if len(out) >= limit {
			break
		}
		s := m.s[i]
		if zzAnd(s.live, zzInRange(s.k, lo, hi)) {
			out = append(out, zzPair{s.k, s.v})
		}
	}
	return out
}

func (m *zzMap) delRange(lo, hi []byte) {
	for i := range m.s {
		s := &m.s[i]
		s.live = zzAnd(s.live, !zzInRange(s.k, lo, hi))
	}
}

// zzDigest is the per-pair digest the stub "checksums" with: injective on keys
// of <= 2 bytes and values of <= 1 byte, so a xor over a set of pairs differs
// whenever the sets differ in one element.
func zzDigest(k, v []byte) uint64 {
	d := uint64(len(k))<<40 | uint64(len(v))<<32
	for i, b := range k {
		d |= uint64(b) << (8 * uint(i))
	}
	for i, b := range v {
		d |= uint64(b) << (16 + 8*uint(i))
	}
	return d | 1<<63
}

func (m *zzMap) checksum(lo, hi []byte) (x, n, sz uint64) {
	for _, s := range m.s {
		in := zzAnd(s.live, zzInRange(s.k, lo, hi))
		x ^= zzIte64(in, zzDigest(s.k, s.v), 0)
		n += zzIte64(in, 1, 0)
		sz += zzIte64(in, uint64(len(s.k)+len(s.v)), 0)
	}
	return
}

// checksumF: same as checksum, branching per key (concrete counts).
func (m *zzMap) checksumF(lo, hi []byte) (x, n, sz uint64) {
	for _, s := range m.s {
		if zzAnd(s.live, zzInRange(s.k, lo, hi)) {
			x ^= zzDigest(s.k, s.v)
			n++
			sz += uint64(len(s.k) + len(s.v))
		}
	}
	return
}

// zzMapEqual: the two maps hold the same pairs. Every key that can be present
// in either map is the key of one of their slots, so it is enough to compare
// the lookups of those keys.
func zzMapEqual(a, b *zzMap) bool {
	ok := true
	if a.sorted && b.sorted && len(a.s) == len(b.s) {
		// no put happened on either side: same slots, same keys
		for i := range a.s {
			ok = zzAnd(ok, a.s[i].live == b.s[i].live)
			ok = zzAnd(ok, bytes.Equal(a.s[i].v, b.s[i].v))
		}
		return ok
	}
	var seen [][]byte
	probe := func(k []byte) {
		// the same key object (initial content, or a request key stored by
		// both sides) needs one probe only
		for _, p := range seen {
			if len(p) == len(k) && (len(k) == 0 || &p[0] == &k[0]) {
				return
			}
		}
		seen = append(seen, k)
		va, fa := a.getNB(k)
		vb, fb := b.getNB(k)
		ok = zzAnd(ok, fa == fb)
		ok = zzAnd(ok, zzImplies(fa, zzAnd(va.n == vb.n, va.b == vb.b)))
	}
	for _, s := range a.s {
		probe(s.k)
	}
	for _, s := range b.s {
		probe(s.k)
	}
	return ok
}

type zzVal struct {
	n uint64 // length (0 or 1)
	b byte   // the byte, 0 when empty
}

// getNB: branch-free lookup (value as length + byte).
func (m *zzMap) getNB(k []byte) (zzVal, bool) {
	var v zzVal
	found := false
	for _, s := range m.s {
		hit := zzAnd(s.live, bytes.Equal(s.k, k))
		var b byte
		if len(s.v) > 0 {
			b = s.v[0]
		}
		v.n = zzIte64(hit, uint64(len(s.v)), v.n)
		v.b = zzByteIte(hit, b, v.b)
		found = zzOr(found, hit)
	}
	return v, found
}

// ---------------------------------------------------------------------------
// Store stub behind client.Client: answers raw requests from the map, per
// region, the way TiKV does (request context checked against the current
// layout; range requests clipped to the region of the context).

const zzMaxReqs = 12

type zzStore struct {
	client.Client
	pd *zzPD
	m  *zzMap

	// topology change (at most one per world): the request selected by
	// bumpReq (ordinal of the request, 1-based) or bumpRegion (first request
	// whose context names that region id) switches the layout to nextSplits
	// with a higher epoch before the request is examined; the request then
	// fails with EpochNotMatch because its context is stale. The selection is
	// drawn up front in the harness goroutine (requests of a batch call are
	// sent from several goroutines).
	mu         sync.Mutex
	bumpReq    int
	bumpRegion uint64
	nextSplits [][]byte
	withCur    bool // EpochNotMatch carries the current regions
	bumped     bool

	reqs      int
	regErrs   int
	outside   bool // ghost: a request with a current context named a key outside that region
	wrongAddr bool // ghost: request sent to a store that does not host the leader peer
}

func (s *zzStore) Close() error                                  { return nil }
func (s *zzStore) CloseAddr(addr string) error                   { return nil }
func (s *zzStore) SetEventListener(l client.ClientEventListener) {}
func (s *zzStore) CloseAddrVer(addr string, ver uint64) error    { return nil }

func (s *zzStore) findRegion(c *kvrpcpb.Context) *metapb.Region {
	for _, r := range s.pd.regions {
		if r.Id == c.RegionId {
			e := c.RegionEpoch
			if e != nil && e.Version == r.RegionEpoch.Version && e.ConfVer == r.RegionEpoch.ConfVer {
				return r
			}
			return nil
		}
	}
	return nil
}

func (s *zzStore) keyIn(r *metapb.Region, k []byte) {
	in := bytes.Compare(r.StartKey, k) <= 0
	if len(r.EndKey) != 0 {
		in = zzAnd(in, bytes.Compare(k, r.EndKey) < 0)
	}
	s.outside = zzOr(s.outside, !in)
}

func (s *zzStore) SendRequest(ctx context.Context, addr string, req *tikvrpc.Request, timeout time.Duration) (*tikvrpc.Response, error) {
	s.mu.Lock()
	defer s.mu.Unlock()
	s.reqs++
	if s.reqs > zzMaxReqs {
		// A correct call needs at most one request per region of the old and
		// of the new layout plus the one that met the change.
		panic("zzStore: request budget exceeded: the call does not make progress")
	}
	if !s.bumped && ((s.bumpReq != 0 && s.reqs == s.bumpReq) || (s.bumpRegion != 0 && req.Context.RegionId == s.bumpRegion)) {
		s.bumped = true
		s.pd.setLayout(s.nextSplits, 10, 2)
	}
	r := s.findRegion(&req.Context)
	if r == nil {
		s.regErrs++
		e := &errorpb.Error{Message: "epoch not match", EpochNotMatch: &errorpb.EpochNotMatch{}}
		if s.withCur {
			e.EpochNotMatch.CurrentRegions = s.pd.regions
		}
		return tikvrpc.GenRegionErrorResp(req, e)
	}
	if addr != "s1" || req.Context.Peer == nil || req.Context.Peer.StoreId != 1 {
		s.wrongAddr = true
	}
	resp := &tikvrpc.Response{}
	switch req.Type {
	case tikvrpc.CmdRawGet:
		q := req.RawGet()
		s.keyIn(r, q.Key)
		v, ok := s.m.get(q.Key)
		resp.Resp = &kvrpcpb.RawGetResponse{NotFound: !ok, Value: zzWire(v)}
	case tikvrpc.CmdRawBatchGet:
		q := req.RawBatchGet()
		out := &kvrpcpb.RawBatchGetResponse{}
		for _, k := range q.Keys {
			s.keyIn(r, k)
			// TiKV returns only the pairs that exist.
			if v, ok := s.m.get(k); ok {
				out.Pairs = append(out.Pairs, &kvrpcpb.KvPair{Key: k, Value: zzWire(v)})
			}
		}
		resp.Resp = out
	case tikvrpc.CmdRawPut:
		q := req.RawPut()
		s.keyIn(r, q.Key)
		s.m.put(q.Key, q.Value)
		resp.Resp = &kvrpcpb.RawPutResponse{}
	case tikvrpc.CmdRawBatchPut:
		q := req.RawBatchPut()
		for _, p := range q.Pairs {
			s.keyIn(r, p.Key)
			s.m.put(p.Key, p.Value)
		}
		resp.Resp = &kvrpcpb.RawBatchPutResponse{}
	case tikvrpc.CmdRawDelete:
		q := req.RawDelete()
		s.keyIn(r, q.Key)
		s.m.del(q.Key)
		resp.Resp = &kvrpcpb.RawDeleteResponse{}
	case tikvrpc.CmdRawBatchDelete:
		q := req.RawBatchDelete()
		for _, k := range q.Keys {
			s.keyIn(r, k)
			s.m.del(k)
		}
		resp.Resp = &kvrpcpb.RawBatchDeleteResponse{}
	case tikvrpc.CmdRawDeleteRange:
		q := req.RawDeleteRange()
		// TiKV rejects a delete-range that is not inside the region.
		s.keyIn(r, q.StartKey)
		if len(q.EndKey) == 0 {
			if len(r.EndKey) != 0 {
				s.outside = true
			}
		} else if len(r.EndKey) != 0 {
			s.outside = zzOr(s.outside, bytes.Compare(q.EndKey, r.EndKey) > 0)
		}
		s.m.delRange(q.StartKey, q.EndKey)
		resp.Resp = &kvrpcpb.RawDeleteRangeResponse{}
	case tikvrpc.CmdRawScan:
		q := req.RawScan()
		var ps []zzPair
		if q.Reverse {
			// upper bound q.StartKey (exclusive), lower bound max(q.EndKey, region start)
			lo := r.StartKey
			if bytes.Compare(q.EndKey, lo) > 0 {
				lo = q.EndKey
			}
			hi := q.StartKey
			if len(r.EndKey) != 0 && (len(hi) == 0 || bytes.Compare(r.EndKey, hi) < 0) {
				hi = r.EndKey
			}
			ps = s.m.rscan(hi, lo, int(q.Limit))
		} else {
			lo := q.StartKey
			if bytes.Compare(r.StartKey, lo) > 0 {
				lo = r.StartKey
			}
			hi := r.EndKey
			if len(q.EndKey) > 0 && (len(hi) == 0 || bytes.Compare(q.EndKey, hi) < 0) {
				hi = q.EndKey
			}
			ps = s.m.scan(lo, hi, int(q.Limit))
		}
		out := &kvrpcpb.RawScanResponse{}
		for _, p := range ps {
			kv := &kvrpcpb.KvPair{Key: p.k}
			if !q.KeyOnly {
				kv.Value = zzWire(p.v)
			}
			out.Kvs = append(out.Kvs, kv)
		}
		resp.Resp = out
	case tikvrpc.CmdRawChecksum:
		q := req.RawChecksum()
		out := &kvrpcpb.RawChecksumResponse{}
		for _, kr := range q.Ranges {
			lo := kr.StartKey
			if bytes.Compare(r.StartKey, lo) > 0 {
				lo = r.StartKey
			}
			hi := r.EndKey
			if len(kr.EndKey) > 0 && (len(hi) == 0 || bytes.Compare(kr.EndKey, hi) < 0) {
				hi = kr.EndKey
			}
			x, n, sz := s.m.checksumF(lo, hi)
			out.Checksum ^= x
			out.TotalKvs += n
			out.TotalBytes += sz
		}
		resp.Resp = out
	case tikvrpc.CmdRawCompareAndSwap:
		q := req.RawCompareAndSwap()
		s.keyIn(r, q.Key)
		old, ok := s.m.get(q.Key)
		out := &kvrpcpb.RawCASResponse{PreviousNotExist: !ok, PreviousValue: zzWire(old)}
		if q.PreviousNotExist {
			out.Succeed = !ok
		} else {
			out.Succeed = zzAnd(ok, bytes.Equal(old, q.PreviousValue))
		}
		s.m.putIf(out.Succeed, q.Key, q.Value)
		resp.Resp = out
	default:
		panic("zzStore: unexpected command")
	}
	return resp, nil
}

// zzWire: gRPC delivers an empty byte string as nil.
func zzWire(v []byte) []byte {
	if len(v) == 0 {
		return nil
	}
	return v
}

// ---------------------------------------------------------------------------
// World construction.

type zzWorld struct {
	pd    *zzPD
	store *zzStore
	cli   *Client
	model *zzMap // copy of the initial content, for the reference operation
}

// Key lengths. With parameter lens=1 every key drawn by zzKey takes every length
// 0..2 and every key drawn by zzKeyNE every length 1..2. With lens=0 zzKey
// draws the empty key or a 2-byte key and zzKeyNE a 2-byte key: the code under
// test and the stub distinguish only empty from non-empty keys and otherwise
// compare keys bytewise, and the order type of a 1-byte key among other keys
// is that of a 2-byte key except for the prefix adjacency ("a" < "a\x00" with
// nothing in between), which only lens=1 covers.
func zzKey(name string) []byte {
	if zzParam("lens", 0) == 1 {
		return zzBytes(name, 2)
	}
	return zzBytesN(name, 2*zzChoice(name+".nonempty", 2))
}

func zzKeyNE(name string) []byte {
	if zzParam("lens", 0) == 1 {
		k := zzBytes(name, 2)
		zzAssume(len(k) > 0)
		return k
	}
	return zzBytesN(name, 2)
}

// zzOrdered assumes the keys strictly increasing.
func zzOrdered(ks [][]byte) {
	for i := 1; i < len(ks); i++ {
		zzAssume(bytes.Compare(ks[i-1], ks[i]) < 0)
	}
}

// zzNewWorld builds: a symbolic sorted content of nkeys pairs (keys <= 2 bytes,
// one-byte values; with emptyVal the first value may be empty), a layout of
// nreg regions at symbolic split keys, a real RegionCache over the harness PD
// and a rawkv.Client over the store stub.
func zzNewWorld(nkeys, nreg int, emptyVal bool) *zzWorld {
	w := &zzWorld{}
	// The region-cache TTL jitter is math/rand; no TTL can expire within the
	// virtual time of one call, so the jitter is switched off to keep the
	// cache's TTL bookkeeping concrete (600 s is the package default base).
	locate.SetRegionCacheTTLWithJitter(600, 0)
	var sp [][]byte
	if nreg >= 2 {
		sp = append(sp, zzKeyNE("s0"))
	}
	if nreg >= 3 {
		sp = append(sp, zzKeyNE("s1"))
	}
	zzOrdered(sp)
	w.pd = zzNewPD(sp)
	m := &zzMap{sorted: true}
	if nkeys >= 1 {
		p := zzSlot{k: zzKey("k0"), live: true}
		if emptyVal {
			p.v = zzBytes("v0", 1)
		} else {
			p.v = zzBytesN("v0", 1)
		}
		m.s = append(m.s, p)
	}
	if nkeys >= 2 {
		m.s = append(m.s, zzSlot{zzKeyNE("k1"), zzBytesN("v1", 1), true})
	}
	if nkeys >= 3 {
		m.s = append(m.s, zzSlot{zzKeyNE("k2"), zzBytesN("v2", 1), true})
	}
	if nkeys >= 4 {
		m.s = append(m.s, zzSlot{zzKeyNE("k3"), zzBytesN("v3", 1), true})
	}
	for i := 1; i < len(m.s); i++ {
		zzAssume(bytes.Compare(m.s[i-1].k, m.s[i].k) < 0)
	}
	w.model = m.clone()
	w.store = &zzStore{pd: w.pd, m: m}
	w.cli = &Client{
		apiVersion:  kvrpcpb.APIVersion_V1,
		clusterID:   1,
		regionCache: locate.NewRegionCache(w.pd),
		pdClient:    w.pd,
		rpcClient:   w.store,
	}
	return w
}

// armBump allows one topology change during the following calls: the layout
// becomes nreg2 regions at fresh symbolic splits, all epochs grow. at: ordinal
// of the request that meets the change (sequential calls); region: id of the
// region whose first request meets it (batch calls). Both 0 = no change.
// withCur: the EpochNotMatch error carries the new regions.
func (w *zzWorld) armBump(nreg2 int, at int, region uint64, withCur bool) {
	if at == 0 && region == 0 {
		return
	}
	var sp [][]byte
	if nreg2 >= 2 {
		sp = append(sp, zzKeyNE("t0"))
	}
	if nreg2 >= 3 {
		sp = append(sp, zzKeyNE("t1"))
	}
	zzOrdered(sp)
	w.store.nextSplits = sp
	w.store.bumpReq = at
	w.store.bumpRegion = region
	w.store.withCur = withCur
}

// zzSeqVariant: one choice enumerating the configurations of a sequential call
// instead of their product: 0 no topology change; 1..2*maxAt: change met by
// request number (v+1)/2, error without (odd) / with (even) the current regions.
func (w *zzWorld) seqVariant(v int) {
	if v == 0 {
		return
	}
	w.armBump(zzParam("nreg2", 2), (v+1)/2, 0, v%2 == 0)
}

// batchVariant: 0 no change; 1..2*nreg: change met by the first request to
// region (v-1)/2, without / with current regions. With parameter bhalf=1 only
// the odd/even alternation is explored: region r without (r even) or with (r
// odd) current regions.
func (w *zzWorld) batchVariant(v int) {
	if v == 0 {
		return
	}
	if zzParam("bhalf", 0) == 1 {
		r := v - 1
		w.armBump(zzParam("nreg2", 2), 0, uint64(10+r), r%2 == 1)
		return
	}
	w.armBump(zzParam("nreg2", 2), 0, uint64(10+(v-1)/2), v%2 == 0)
}

// zzBatchVariants: number of batchVariant choices for nreg regions.
func zzBatchVariants(nreg int) int {
	if zzParam("bhalf", 0) == 1 {
		return 1 + nreg
	}
	return 1 + 2*nreg
}

func (w *zzWorld) close() { w.cli.regionCache.Close() }

// common asserts the ghost conditions every call must respect.
func (w *zzWorld) common() {
	zzAssert(!w.store.outside, "store.request-inside-region-of-context")
	zzAssert(!w.store.wrongAddr, "store.request-to-leader-store")
}
