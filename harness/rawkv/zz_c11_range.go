package rawkv

import (
	"bytes"
	"context"
)

func zzPairsMatch(keys, vals [][]byte, want []zzPair, keyOnly bool) bool {
	if len(keys) != len(want) || len(vals) != len(want) {
		return false
	}
	ok := true
	for i := range want {
		ok = zzAnd(ok, bytes.Equal(keys[i], want[i].k))
		if keyOnly {
			ok = zzAnd(ok, len(vals[i]) == 0)
		} else {
			ok = zzAnd(ok, bytes.Equal(vals[i], want[i].v))
		}
	}
	return ok
}

// rangeVariant: 0 plain, 1 key-only (scans), 2.. topology change met by the
// first / second request, without / with current regions (all four with
// parameter rvariants=6; with rvariants=4 only first/without and second/with).
func (w *zzWorld) rangeVariant(v int) (keyOnly bool) {
	if v == 1 {
		return true
	}
	if v >= 2 {
		if zzParam("rvariants", 6) == 4 {
			w.seqVariant(3*(v-2) + 1) // 2 -> 1 (request 1, without), 3 -> 4 (request 2, with)
		} else {
			w.seqVariant(v - 1)
		}
	}
	return false
}

// ZZ_C11_scan: Scan(start, end, limit) = the first limit pairs of [start,end) in
// ascending order, across region borders, with an optional topology change met
// by the first or the second request.
func ZZ_C11_scan() {
	w := zzNewWorld(zzParam("rkeys", 3), zzParam("rreg", 2), false)
	defer w.close()
	keyOnly := w.rangeVariant(zzChoice("variant", zzParam("rvariants", 6)))
	start := zzKey("start")
	end := zzKey("end")
	limit := zzChoice("limit", zzParam("maxlimit", 3)+1)
	var opts []RawOption
	if keyOnly {
		opts = append(opts, ScanKeyOnly())
	}
	keys, vals, err := w.cli.Scan(context.Background(), start, end, limit, opts...)
	zzAssert(err == nil, "scan.no-error")
	want := w.model.scan(start, end, limit)
	zzAssert(len(keys) == len(want), "scan.count")
	zzAssert(zzPairsMatch(keys, vals, want, keyOnly), "scan.first-limit-pairs-in-order")
	zzAssert(zzMapEqual(w.store.m, w.model), "scan.store-unchanged")
	w.common()
}

// ZZ_C11_reverse_scan: ReverseScan(start, end, limit) = the first limit pairs of
// [end,start) in descending order. start is non-empty (the API documents that
// scanning from "" is not supported).
func ZZ_C11_reverse_scan() {
	w := zzNewWorld(zzParam("rkeys", 3), zzParam("rreg", 2), false)
	defer w.close()
	keyOnly := w.rangeVariant(zzChoice("variant", zzParam("rvariants", 6)))
	start := zzKeyNE("start")
	end := zzKey("end")
	limit := zzChoice("limit", zzParam("maxlimit", 3)+1)
	var opts []RawOption
	if keyOnly {
		opts = append(opts, ScanKeyOnly())
	}
	keys, vals, err := w.cli.ReverseScan(context.Background(), start, end, limit, opts...)
	zzAssert(err == nil, "rscan.no-error")
	want := w.model.rscan(start, end, limit)
	zzAssert(len(keys) == len(want), "rscan.count")
	zzAssert(zzPairsMatch(keys, vals, want, keyOnly), "rscan.first-limit-pairs-in-order")
	zzAssert(zzMapEqual(w.store.m, w.model), "rscan.store-unchanged")
	w.common()
}

// ZZ_C11_delete_range: DeleteRange(start, end) removes exactly the keys of
// [start,end) (empty end = unbounded) and every request stays inside the region
// it is addressed to.
func ZZ_C11_delete_range() {
	w := zzNewWorld(zzParam("dkeys", 3), zzParam("rreg", 2), false)
	defer w.close()
	w.seqVariant(zzChoice("variant", 5))
	start := zzKey("start")
	end := zzKey("end")
	err := w.cli.DeleteRange(context.Background(), start, end)
	zzAssert(err == nil, "delrange.no-error")
	w.model.delRange(start, end)
	zzAssert(zzMapEqual(w.store.m, w.model), "delrange.store-equals-model")
	w.common()
}

// ZZ_C11_checksum: Checksum(start, end) = xor of the pair digests, number of
// pairs and total bytes of [start,end).
func ZZ_C11_checksum() {
	w := zzNewWorld(zzParam("ckeys", 2), zzParam("rreg", 2), false)
	defer w.close()
	w.seqVariant(zzChoice("variant", 5))
	start := zzKey("start")
	end := zzKey("end")
	got, err := w.cli.Checksum(context.Background(), start, end)
	zzAssert(err == nil, "checksum.no-error")
	x, n, sz := w.model.checksumF(start, end)
	zzAssert(got.TotalKvs == n, "checksum.total-kvs")
	zzAssert(got.TotalBytes == sz, "checksum.total-bytes")
	zzAssert(got.Crc64Xor == x, "checksum.xor")
	zzAssert(zzMapEqual(w.store.m, w.model), "checksum.store-unchanged")
	w.common()
}
