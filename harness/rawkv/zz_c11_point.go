package rawkv

import (
	"bytes"
	"context"
)

// ZZ_C11_get: Get(key) = lookup in the ordered map, for every layout and with an
// optional topology change met by the request. Includes the stored empty value
// (must come back non-nil) vs. the absent key (nil).
func ZZ_C11_get() {
	w := zzNewWorld(zzParam("nkeys", 2), zzParam("nreg", 2), true)
	defer w.close()
	w.seqVariant(zzChoice("variant", 3))
	key := zzKey("key")
	got, err := w.cli.Get(context.Background(), key)
	zzAssert(err == nil, "get.no-error")
	want, ok := w.model.get(key)
	zzAssert((got != nil) == ok, "get.non-nil-iff-present")
	zzAssert(zzImplies(ok, bytes.Equal(got, want)), "get.value")
	zzAssert(zzMapEqual(w.store.m, w.model), "get.store-unchanged")
	zzAssert(w.store.reqs-w.store.regErrs == 1, "get.one-served-request")
	w.common()
}

// ZZ_C11_put_delete: Put / Delete change exactly the one key.
func ZZ_C11_put_delete() {
	w := zzNewWorld(zzParam("nkeys", 2), zzParam("nreg", 2), false)
	defer w.close()
	w.seqVariant(zzChoice("variant", 3))
	key := zzKey("key")
	ctx := context.Background()
	if zzChoice("op", 2) == 0 {
		val := zzBytesN("val", 1)
		err := w.cli.Put(ctx, key, val)
		zzAssert(err == nil, "put.no-error")
		w.model.put(key, val)
		zzAssert(zzMapEqual(w.store.m, w.model), "put.store-equals-model")
	} else {
		err := w.cli.Delete(ctx, key)
		zzAssert(err == nil, "delete.no-error")
		w.model.del(key)
		zzAssert(zzMapEqual(w.store.m, w.model), "delete.store-equals-model")
	}
	zzAssert(w.store.reqs-w.store.regErrs == 1, "putdel.one-served-request")
	w.common()
}

// ZZ_C11_cas: CompareAndSwap returns the previous value and swaps iff it matched.
func ZZ_C11_cas() {
	w := zzNewWorld(zzParam("nkeys", 2), zzParam("nreg", 2), false)
	defer w.close()
	w.seqVariant(zzChoice("variant", 3))
	w.cli.SetAtomicForCAS(true)
	key := zzKey("key")
	var prev []byte
	if zzChoice("prev.some", 2) == 1 {
		prev = zzBytesN("prev", 1)
	}
	nv := zzBytesN("new", 1)
	old, swapped, err := w.cli.CompareAndSwap(context.Background(), key, prev, nv)
	zzAssert(err == nil, "cas.no-error")
	cur, ok := w.model.get(key)
	zzAssert((old != nil) == ok, "cas.previous-non-nil-iff-present")
	zzAssert(zzImplies(ok, bytes.Equal(old, cur)), "cas.previous-value")
	var wantSwap bool
	if prev == nil {
		wantSwap = !ok
	} else {
		wantSwap = zzAnd(ok, bytes.Equal(cur, prev))
	}
	zzAssert(swapped == wantSwap, "cas.swapped-iff-matched")
	w.model.putIf(wantSwap, key, nv)
	zzAssert(zzMapEqual(w.store.m, w.model), "cas.store-equals-model")
	zzAssert(w.store.reqs-w.store.regErrs == 1, "cas.one-served-request")
	w.common()
}
