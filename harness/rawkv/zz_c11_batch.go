package rawkv

import (
	"bytes"
	"context"
)

func zzBatchKeys(n int) [][]byte {
	keys := [][]byte{zzKey("q0"), zzKeyNE("q1")}
	if n >= 3 {
		keys = append(keys, zzKeyNE("q2"))
	}
	return keys
}

// ZZ_C11_batch_get: BatchGet returns, at position i, the value of keys[i] in the
// ordered map (nil when absent), duplicates included, whatever regions the keys
// fall into and when one region's batch meets a topology change.
func ZZ_C11_batch_get() {
	nreg := zzParam("gnreg", 2)
	w := zzNewWorld(zzParam("gkeys", 2), nreg, true)
	defer w.close()
	w.batchVariant(zzChoice("variant", zzBatchVariants(nreg)))
	keys := zzBatchKeys(zzParam("gbatch", 2))
	vals, err := w.cli.BatchGet(context.Background(), keys)
	zzAssert(err == nil, "batchget.no-error")
	zzAssert(len(vals) == len(keys), "batchget.length")
	for i, k := range keys {
		want, ok := w.model.get(k)
		zzAssert((vals[i] != nil) == ok, "batchget.non-nil-iff-present")
		zzAssert(zzImplies(ok, bytes.Equal(vals[i], want)), "batchget.value-aligned")
	}
	zzAssert(zzMapEqual(w.store.m, w.model), "batchget.store-unchanged")
	w.common()
}

// ZZ_C11_batch_put: BatchPut = the puts applied in order (a duplicated key keeps
// the last value).
func ZZ_C11_batch_put() {
	nreg := zzParam("nreg", 2)
	w := zzNewWorld(zzParam("bkeys", 2), nreg, false)
	defer w.close()
	w.batchVariant(zzChoice("variant", zzBatchVariants(nreg)))
	keys := zzBatchKeys(zzParam("nbatch", 2))
	vals := [][]byte{zzBytesN("w0", 1), zzBytesN("w1", 1)}
	if len(keys) >= 3 {
		vals = append(vals, zzBytesN("w2", 1))
	}
	err := w.cli.BatchPut(context.Background(), keys, vals)
	zzAssert(err == nil, "batchput.no-error")
	for i := range keys {
		w.model.put(keys[i], vals[i])
	}
	zzAssert(zzMapEqual(w.store.m, w.model), "batchput.store-equals-model")
	w.common()
}

// ZZ_C11_batch_delete: BatchDelete removes exactly the named keys.
func ZZ_C11_batch_delete() {
	nreg := zzParam("nreg", 2)
	w := zzNewWorld(zzParam("bkeys", 2), nreg, false)
	defer w.close()
	w.batchVariant(zzChoice("variant", zzBatchVariants(nreg)))
	keys := zzBatchKeys(zzParam("nbatch", 2))
	err := w.cli.BatchDelete(context.Background(), keys)
	zzAssert(err == nil, "batchdelete.no-error")
	for i := range keys {
		w.model.del(keys[i])
	}
	zzAssert(zzMapEqual(w.store.m, w.model), "batchdelete.store-equals-model")
	w.common()
}
