package codec

import (
	"bytes"
	"encoding/binary"
)

// C19 — memcomparable byte strings and the plain varints.

// ZZ_C19_bytes_roundtrip: DecodeBytes(EncodeBytes(pre, d)[len(pre):] ‖ suf) = (suf, d).
func ZZ_C19_bytes_roundtrip() {
	maxlen := zzParam("maxlen", 9)
	pre := zzBytes("pre", 2)
	d := zzBytes("d", maxlen)
	suf := zzBytes("suf", 2)
	enc := EncodeBytes(pre, d)
	zzAssert(bytes.Equal(enc[:len(pre)], pre), "bytes.prefix-kept")
	zzAssert(len(enc) == len(pre)+(len(d)/8+1)*9, "bytes.len")
	rest, got, err := DecodeBytes(zzCat(enc[len(pre):], suf), nil)
	zzAssert(err == nil, "bytes.err")
	zzAssert(bytes.Equal(got, d), "bytes.value")
	zzAssert(bytes.Equal(rest, suf), "bytes.rest")
	// decoding with a caller-supplied scratch buffer gives the same answer
	scratch := make([]byte, 3, 5)
	rest2, got2, err2 := DecodeBytes(zzCat(enc[len(pre):], suf), scratch)
	zzAssert(err2 == nil, "bytes.buf.err")
	zzAssert(bytes.Equal(got2, d), "bytes.buf.value")
	zzAssert(bytes.Equal(rest2, suf), "bytes.buf.rest")
}

// ZZ_C19_bytes_order: sign(Compare(Enc(a),Enc(b))) == sign(Compare(a,b)); and
// no encoding is a proper prefix of another.
func ZZ_C19_bytes_order() {
	maxlen := zzParam("maxlen", 9)
	a := zzBytes("a", maxlen)
	b := zzBytes("b", maxlen)
	ea, eb := EncodeBytes(nil, a), EncodeBytes(nil, b)
	zzAssert(zzSign(bytes.Compare(ea, eb)) == zzSign(bytes.Compare(a, b)), "bytes.order")
	if len(ea) < len(eb) {
		zzAssert(!bytes.Equal(ea, eb[:len(ea)]), "bytes.prefix-free")
	}
}

// ZZ_C19_bytes_desc: the descending form (bitwise complement of EncodeBytes)
// decodes with decodeBytes(reverse=true) and reverses the order.
func ZZ_C19_bytes_desc() {
	maxlen := zzParam("maxlen", 9)
	a := zzBytes("a", maxlen)
	suf := zzBytes("suf", 2)
	ea := EncodeBytes(nil, a)
	da := make([]byte, len(ea))
	for i := range ea {
		da[i] = ^ea[i]
	}
	rest, got, err := decodeBytes(zzCat(da, suf), nil, true)
	zzAssert(err == nil, "desc.err")
	zzAssert(bytes.Equal(got, a), "desc.value")
	zzAssert(bytes.Equal(rest, suf), "desc.rest")
}

// ZZ_C19_reverse: fastReverseBytes == safeReverseBytes == bytewise complement.
func ZZ_C19_reverse() {
	maxlen := zzParam("maxlen", 9)
	a := zzBytes("a", maxlen+8)
	x := append([]byte(nil), a...)
	y := append([]byte(nil), a...)
	fastReverseBytes(x)
	safeReverseBytes(y)
	zzAssert(bytes.Equal(x, y), "reverse.fast-eq-safe")
	for i := range a {
		zzAssert(y[i] == ^a[i], "reverse.complement")
	}
	z := append([]byte(nil), a...)
	reverseBytes(z)
	zzAssert(bytes.Equal(z, y), "reverse.dispatch")
}

// ZZ_C19_bytes_decode_arbitrary: an arbitrary buffer never panics the
// decoder, and an accepted buffer is exactly EncodeBytes(value) ‖ rest.
func ZZ_C19_bytes_decode_arbitrary() {
	maxlen := zzParam("maxlen", 9)
	buf := zzBytes("buf", maxlen+10)
	in := append([]byte(nil), buf...)
	rest, got, err := DecodeBytes(in, nil)
	zzAssert(bytes.Equal(in, buf), "arb.input-unmodified")
	if err != nil {
		return
	}
	re := EncodeBytes(nil, got)
	zzAssert(len(re)+len(rest) == len(buf), "arb.len")
	zzAssert(bytes.Equal(zzCat(re, rest), buf), "arb.strict")
}

// ZZ_C19_varint: plain (not memcomparable) varints: round trip, remainder,
// arbitrary-buffer safety.
func ZZ_C19_varint() {
	suf := zzBytes("suf", 2)
	switch zzChoice("form", 2) {
	case 0:
		v := zzI64("v")
		enc := EncodeVarint(nil, v)
		zzAssert(len(enc) >= 1 && len(enc) <= binary.MaxVarintLen64, "varint.len")
		rest, got, err := DecodeVarint(zzCat(enc, suf))
		zzAssert(err == nil, "varint.err")
		zzAssert(got == v, "varint.value")
		zzAssert(bytes.Equal(rest, suf), "varint.rest")
	case 1:
		u := zzU64("u")
		enc := EncodeUvarint(nil, u)
		rest, got, err := DecodeUvarint(zzCat(enc, suf))
		zzAssert(err == nil, "uvarint.err")
		zzAssert(got == u, "uvarint.value")
		zzAssert(bytes.Equal(rest, suf), "uvarint.rest")
	}
}

// ZZ_C19_varint_prefixfree: two different values never encode to strings one
// of which is a prefix of the other (so concatenated fields parse uniquely).
func ZZ_C19_varint_prefixfree() {
	a, b := zzU64("a"), zzU64("b")
	zzAssume(a != b)
	ea, eb := EncodeUvarint(nil, a), EncodeUvarint(nil, b)
	n := len(ea)
	if len(eb) < n {
		n = len(eb)
	}
	zzAssert(!bytes.Equal(ea[:n], eb[:n]), "uvarint.prefix-free")
}

// ZZ_C19_cmpvarint_order: comparable varints order like the integers and are
// prefix-free.
func ZZ_C19_cmpvarint_order() {
	if zzChoice("form", 2) == 0 {
		a, b := zzI64("a"), zzI64("b")
		ea, eb := EncodeComparableVarint(nil, a), EncodeComparableVarint(nil, b)
		c := bytes.Compare(ea, eb)
		zzAssert((c < 0) == (a < b), "cvarint.lt")
		zzAssert((c == 0) == (a == b), "cvarint.eq")
		if a != b {
			n := len(ea)
			if len(eb) < n {
				n = len(eb)
			}
			zzAssert(!bytes.Equal(ea[:n], eb[:n]), "cvarint.prefix-free")
		}
	} else {
		a, b := zzU64("a"), zzU64("b")
		ea, eb := EncodeComparableUvarint(nil, a), EncodeComparableUvarint(nil, b)
		c := bytes.Compare(ea, eb)
		zzAssert((c < 0) == (a < b), "cuvarint.lt")
		zzAssert((c == 0) == (a == b), "cuvarint.eq")
		if a != b {
			n := len(ea)
			if len(eb) < n {
				n = len(eb)
			}
			zzAssert(!bytes.Equal(ea[:n], eb[:n]), "cuvarint.prefix-free")
		}
	}
}

// ZZ_C19_number_decode_arbitrary: every number decoder on an arbitrary
// buffer: no panic; when it accepts, the remainder is a suffix of the input
// and re-encoding the value reproduces the consumed bytes where the encoding
// is canonical (fixed width, comparable varints).
func ZZ_C19_number_decode_arbitrary() {
	buf := zzBytes("buf", 11)
	in := append([]byte(nil), buf...)
	switch zzChoice("dec", 8) {
	case 0:
		rest, v, err := DecodeInt(in)
		if err == nil {
			zzAssert(bytes.Equal(zzCat(EncodeInt(nil, v), rest), buf), "arb.int")
		} else {
			zzAssert(len(buf) < 8, "arb.int.reject")
		}
	case 1:
		rest, v, err := DecodeIntDesc(in)
		if err == nil {
			zzAssert(bytes.Equal(zzCat(EncodeIntDesc(nil, v), rest), buf), "arb.intdesc")
		} else {
			zzAssert(len(buf) < 8, "arb.intdesc.reject")
		}
	case 2:
		rest, v, err := DecodeUint(in)
		if err == nil {
			zzAssert(bytes.Equal(zzCat(EncodeUint(nil, v), rest), buf), "arb.uint")
		} else {
			zzAssert(len(buf) < 8, "arb.uint.reject")
		}
	case 3:
		rest, v, err := DecodeUintDesc(in)
		if err == nil {
			zzAssert(bytes.Equal(zzCat(EncodeUintDesc(nil, v), rest), buf), "arb.uintdesc")
		} else {
			zzAssert(len(buf) < 8, "arb.uintdesc.reject")
		}
	case 4:
		rest, v, err := DecodeComparableUvarint(in)
		if err == nil {
			// the decoder accepts non-minimal encodings (e.g. f8 00); the
			// claim is: consumed length is what the tag dictates and the
			// value is the big-endian payload
			consumed := len(buf) - len(rest)
			zzAssert(consumed >= 1 && bytes.Equal(rest, buf[consumed:]), "arb.cuvarint.rest")
			if buf[0] <= positiveTagStart {
				zzAssert(consumed == 1 && v == uint64(buf[0])-negativeTagEnd, "arb.cuvarint.single")
			} else {
				zzAssert(consumed == 1+int(buf[0])-positiveTagStart, "arb.cuvarint.taglen")
			}
		}
	case 5:
		rest, v, err := DecodeComparableVarint(in)
		if err == nil {
			consumed := len(buf) - len(rest)
			zzAssert(consumed >= 1 && bytes.Equal(rest, buf[consumed:]), "arb.cvarint.rest")
			if buf[0] >= negativeTagEnd && buf[0] <= positiveTagStart {
				zzAssert(consumed == 1 && v == int64(buf[0])-negativeTagEnd, "arb.cvarint.single")
			} else if buf[0] < negativeTagEnd {
				zzAssert(consumed == 1+negativeTagEnd-int(buf[0]), "arb.cvarint.neglen")
				zzAssert(v < 0, "arb.cvarint.negsign")
			} else {
				zzAssert(consumed == 1+int(buf[0])-positiveTagStart, "arb.cvarint.poslen")
				zzAssert(v >= 0, "arb.cvarint.possign")
			}
		}
	case 6:
		rest, _, err := DecodeVarint(in)
		if err == nil {
			consumed := len(buf) - len(rest)
			zzAssert(consumed >= 1 && consumed <= binary.MaxVarintLen64 && bytes.Equal(rest, buf[consumed:]), "arb.varint.rest")
		}
	case 7:
		rest, _, err := DecodeUvarint(in)
		if err == nil {
			consumed := len(buf) - len(rest)
			zzAssert(consumed >= 1 && consumed <= binary.MaxVarintLen64 && bytes.Equal(rest, buf[consumed:]), "arb.uvarint.rest")
		}
	}
	zzAssert(bytes.Equal(in, buf), "arb.num.input-unmodified")
}

// ZZ_C19_bytes_dirty_dst: the encoding does not depend on what the destination
// buffer's spare capacity held before (callers reuse buffers:
// buf = EncodeBytes(buf[:0], key)).
func ZZ_C19_bytes_dirty_dst() {
	maxlen := zzParam("maxlen", 9)
	d := zzBytes("d", maxlen)
	plen := zzChoice("plen", 3)
	need := plen + (len(d)/8+1)*9
	// a destination with arbitrary previous content and enough (or one byte too little) room
	room := need + zzChoice("slack", 3) - 1
	dirty := zzBytesN("dirty", room)
	dst := dirty[:plen]
	pre := append([]byte(nil), dst...)
	enc := EncodeBytes(dst, d)
	clean := EncodeBytes(nil, d)
	zzAssert(len(enc) == plen+len(clean), "dirty.len")
	zzAssert(bytes.Equal(enc[:plen], pre), "dirty.prefix-kept")
	zzAssert(bytes.Equal(enc[plen:], clean), "dirty.same-encoding-as-into-nil")
	rest, got, err := DecodeBytes(enc[plen:], nil)
	zzAssert(err == nil && len(rest) == 0 && bytes.Equal(got, d), "dirty.decodes")
	// number encoders append after the prefix and are equally independent of old content
	v := zzU64("v")
	e1 := EncodeUintDesc(dirty[:plen], v)
	zzAssert(bytes.Equal(e1[plen:], EncodeUintDesc(nil, v)), "dirty.uint")
	e2 := EncodeComparableVarint(dirty[:plen], int64(v))
	zzAssert(bytes.Equal(e2[plen:], EncodeComparableVarint(nil, int64(v))), "dirty.cvarint")
	e3 := EncodeVarint(dirty[:plen], int64(v))
	zzAssert(bytes.Equal(e3[plen:], EncodeVarint(nil, int64(v))), "dirty.varint")
}
