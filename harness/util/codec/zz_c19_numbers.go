package codec

import "bytes"

// C19 — number codecs: round trip (R), order (O), prefix-freeness (P),
// arbitrary-buffer decoding (M). See DESIGN.md §3 C19.

func zzSign(c int) int {
	if c < 0 {
		return -1
	}
	if c > 0 {
		return 1
	}
	return 0
}

func zzCat(a, b []byte) []byte {
	out := make([]byte, 0, len(a)+len(b))
	out = append(out, a...)
	return append(out, b...)
}

// ZZ_C19_int_roundtrip: DecodeInt(prefix? no: Encode(b, v) ‖ suffix) for Int/IntDesc/Uint/UintDesc.
func ZZ_C19_fixed_roundtrip() {
	pre := zzBytes("pre", 2)
	suf := zzBytes("suf", 2)
	v := zzI64("v")
	u := zzU64("u")
	switch zzChoice("form", 4) {
	case 0:
		enc := EncodeInt(pre, v)
		zzAssert(len(enc) == len(pre)+8, "int.len")
		zzAssert(bytes.Equal(enc[:len(pre)], pre), "int.prefix-kept")
		rest, got, err := DecodeInt(zzCat(enc[len(pre):], suf))
		zzAssert(err == nil, "int.err")
		zzAssert(got == v, "int.value")
		zzAssert(bytes.Equal(rest, suf), "int.rest")
	case 1:
		enc := EncodeIntDesc(pre, v)
		rest, got, err := DecodeIntDesc(zzCat(enc[len(pre):], suf))
		zzAssert(err == nil, "intdesc.err")
		zzAssert(got == v, "intdesc.value")
		zzAssert(bytes.Equal(rest, suf), "intdesc.rest")
	case 2:
		enc := EncodeUint(pre, u)
		rest, got, err := DecodeUint(zzCat(enc[len(pre):], suf))
		zzAssert(err == nil, "uint.err")
		zzAssert(got == u, "uint.value")
		zzAssert(bytes.Equal(rest, suf), "uint.rest")
	case 3:
		enc := EncodeUintDesc(pre, u)
		rest, got, err := DecodeUintDesc(zzCat(enc[len(pre):], suf))
		zzAssert(err == nil, "uintdesc.err")
		zzAssert(got == u, "uintdesc.value")
		zzAssert(bytes.Equal(rest, suf), "uintdesc.rest")
	}
}

// ZZ_C19_fixed_order: byte order of the encodings equals numeric order.
func ZZ_C19_fixed_order() {
	a, b := zzI64("a"), zzI64("b")
	ua, ub := zzU64("ua"), zzU64("ub")
	switch zzChoice("form", 4) {
	case 0:
		c := bytes.Compare(EncodeInt(nil, a), EncodeInt(nil, b))
		zzAssert((c < 0) == (a < b), "int.lt")
		zzAssert((c == 0) == (a == b), "int.eq")
	case 1:
		c := bytes.Compare(EncodeIntDesc(nil, a), EncodeIntDesc(nil, b))
		zzAssert((c < 0) == (a > b), "intdesc.lt")
		zzAssert((c == 0) == (a == b), "intdesc.eq")
	case 2:
		c := bytes.Compare(EncodeUint(nil, ua), EncodeUint(nil, ub))
		zzAssert((c < 0) == (ua < ub), "uint.lt")
		zzAssert((c == 0) == (ua == ub), "uint.eq")
	case 3:
		c := bytes.Compare(EncodeUintDesc(nil, ua), EncodeUintDesc(nil, ub))
		zzAssert((c < 0) == (ua > ub), "uintdesc.lt")
		zzAssert((c == 0) == (ua == ub), "uintdesc.eq")
	}
}

// ZZ_C19_cmpvarint_roundtrip: comparable (u)varint round trip with suffix.
func ZZ_C19_cmpvarint_roundtrip() {
	suf := zzBytes("suf", 2)
	if zzChoice("form", 2) == 0 {
		v := zzI64("v")
		enc := EncodeComparableVarint(nil, v)
		rest, got, err := DecodeComparableVarint(zzCat(enc, suf))
		zzAssert(err == nil, "cvarint.err")
		zzAssert(got == v, "cvarint.value")
		zzAssert(bytes.Equal(rest, suf), "cvarint.rest")
	} else {
		u := zzU64("u")
		enc := EncodeComparableUvarint(nil, u)
		rest, got, err := DecodeComparableUvarint(zzCat(enc, suf))
		zzAssert(err == nil, "cuvarint.err")
		zzAssert(got == u, "cuvarint.value")
		zzAssert(bytes.Equal(rest, suf), "cuvarint.rest")
	}
}
