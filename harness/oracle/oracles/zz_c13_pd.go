package oracles

import (
	"context"
	"math"
	"runtime"
	"strings"
	"sync/atomic"
	"time"

	"github.com/pkg/errors"
	"github.com/tikv/client-go/v2/oracle"
	pd "github.com/tikv/pd/client"
	"github.com/tikv/pd/client/clients/tso"
	"github.com/tikv/pd/client/pkg/caller"
)

// C13 — pdOracle / localOracle. See DESIGN.md §3 C13 (T2..T4, T6).
//
// zzTSO is the harness PD: every allocation returns a symbolic (physical,
// logical) pair that is lexicographically greater than the previous one, within
// the TSO range (0 <= logical < 2^18, 0 < physical < 2^45). Nothing else is
// assumed about PD. The ghost `max` is the largest timestamp allocated so far.

const (
	zzMaxPhysical = int64(1) << 45
	zzMaxLogical  = int64(1) << 18
)

type zzTSO struct {
	pd.Client
	phys, logi int64
	max        uint64 // ghost: ComposeTS of the last allocation; 0 = none yet
	allocs     int
	// latency > 0: GetTS sleeps (virtual time) between allocation and return
	// or between request and allocation (allocLate).
	latency   time.Duration
	allocLate bool
	// failAt: the allocation with this index fails (-1: never)
	failAt int
	calls  int
	parked atomic.Int32 // GetTS calls that reached their (virtual) network delay
	// gate (native replay only): the network delay is "until the harness closes
	// gate" instead of a sleep, so that the replay does not depend on real time.
	gate chan struct{}
	// stopped: the call under test is over; background goroutines still inside
	// PD (discarded by the engine at harness return) must not draw any more.
	stopped atomic.Bool
}

func (p *zzTSO) delay() {
	p.parked.Add(1)
	if p.gate != nil {
		<-p.gate
		return
	}
	time.Sleep(p.latency)
}

// zzParkedIn reports (natively) whether the goroutine whose stack contains the
// frame `frame` is blocked in a select inside function `in`.
func zzParkedIn(frame, in string) bool {
	buf := make([]byte, 1<<20)
	buf = buf[:runtime.Stack(buf, true)]
	for _, g := range strings.Split(string(buf), "\n\n") {
		if strings.Contains(g, frame) && strings.Contains(g, in) {
			head, _, _ := strings.Cut(g, "\n")
			return strings.Contains(head, "[select")
		}
	}
	return false
}

var zzErrPD = errors.New("zz: pd unavailable")

func zzNewTSO() *zzTSO { return &zzTSO{failAt: -1} }

func (p *zzTSO) WithCallerComponent(caller.Component) pd.Client { return p }
func (p *zzTSO) Close()                                         {}

// alloc draws the next timestamp.
func (p *zzTSO) alloc() (int64, int64) {
	if p.stopped.Load() {
		return p.phys, p.logi
	}
	np, nl := zzI64("pd.physical"), zzI64("pd.logical")
	zzAssume(np > 0 && np < zzMaxPhysical)
	zzAssume(nl >= 0 && nl < zzMaxLogical)
	zzAssume(zzOr(np > p.phys, zzAnd(np == p.phys, nl > p.logi)))
	p.phys, p.logi = np, nl
	p.max = uint64(np)<<18 + uint64(nl) // == oracle.ComposeTS on this range (T1)
	p.allocs++
	return np, nl
}

func (p *zzTSO) GetTS(ctx context.Context) (int64, int64, error) {
	idx := p.calls
	p.calls++
	if idx == p.failAt {
		return 0, 0, zzErrPD
	}
	if p.latency > 0 && p.allocLate {
		p.delay()
	}
	ph, lo := p.alloc()
	if p.latency > 0 && !p.allocLate {
		p.delay()
	}
	return ph, lo, nil
}

// zzTSFuture: the allocation happens either when the request is sent
// (GetTSAsync) or when the response is awaited (Wait) — both are legal PD
// behaviours; responses of futures may therefore be consumed out of order.
type zzTSFuture struct {
	p          *zzTSO
	done       bool
	phys, logi int64
	err        error
}

func (f *zzTSFuture) Wait() (int64, int64, error) {
	if !f.done {
		f.done = true
		f.phys, f.logi = f.p.alloc()
	}
	return f.phys, f.logi, f.err
}

func (p *zzTSO) GetTSAsync(ctx context.Context) tso.TSFuture {
	idx := p.calls
	p.calls++
	f := &zzTSFuture{p: p}
	if idx == p.failAt {
		f.done, f.err = true, zzErrPD
		return f
	}
	if zzBool("pd.async.alloc-at-request") {
		f.done = true
		f.phys, f.logi = p.alloc()
	}
	return f
}

func zzNewOracle(p *zzTSO) *pdOracle {
	o := &pdOracle{c: p, quit: make(chan struct{})}
	o.adaptiveUpdateIntervalState.shrinkIntervalCh = make(chan time.Duration, 1)
	o.lastTSUpdateInterval.Store(int64(2 * time.Second))
	o.adaptiveLastTSUpdateInterval.Store(int64(2 * time.Second))
	return o
}

var zzGlobal = &oracle.Option{TxnScope: oracle.GlobalTxnScope}

// zzScope: the global scope under both of its spellings, or an unknown scope.
func zzScope(name string) (opt *oracle.Option, known bool) {
	switch zzChoice(name, 3) {
	case 0:
		return &oracle.Option{TxnScope: oracle.GlobalTxnScope}, true
	case 1:
		return &oracle.Option{TxnScope: ""}, true
	}
	return &oracle.Option{TxnScope: "zz-unknown"}, false
}

// ZZ_C13_expiry_consistent — T2: IsExpired(lock, ttl) <=> UntilExpired(lock, ttl) <= 0
// for every cached last ts, lock ts (< 2^63) and ttl (< 2^40), incl. the
// unknown-scope case.
func ZZ_C13_expiry_consistent() {
	o := zzNewOracle(zzNewTSO())
	last := zzU64("last")
	zzAssume(last < 1<<63)
	o.setLastTS(last, oracle.GlobalTxnScope)
	lock, ttl := zzU64("lockTS"), zzU64("ttl")
	zzAssume(lock < 1<<63)
	zzAssume(ttl < 1<<40)
	opt, known := zzScope("scope")
	exp := o.IsExpired(lock, ttl, opt)
	left := o.UntilExpired(lock, ttl, opt)
	zzAssert(exp == (left <= 0), "expiry.consistent")
	if known {
		// and both mean: the cached physical time has reached lock physical + ttl
		zzAssert(exp == (last>>18 >= lock>>18+ttl), "expiry.meaning")
	} else {
		zzAssert(exp && left == 0, "expiry.unknown-scope")
	}
}

// zzLastOf reads the published low-resolution ts of the global scope.
func zzLastOf(o *pdOracle) uint64 {
	ts, ok := o.getLastTS(oracle.GlobalTxnScope)
	if !ok {
		return 0
	}
	return ts
}

// ZZ_C13_lowres_sequence — the cached (low-resolution) timestamp never
// decreases, never exceeds the largest timestamp PD has allocated, and is at
// least every timestamp a completed GetTimestamp / future.Wait has returned;
// timestamps returned by consecutive completed calls strictly increase. k
// operations, each one of: GetTimestamp, GetTimestampAsync (request only), Wait
// on the oldest / newest outstanding future (responses consumed out of order),
// a failing PD call.
func ZZ_C13_lowres_sequence() {
	p := zzNewTSO()
	o := zzNewOracle(p)
	k := zzParam("k", 3)
	p.failAt = zzChoice("failAt", k+1) - 1
	ctx := context.Background()
	var outstanding []oracle.Future
	var created []uint64 // p.max when the future was requested
	maxReturned := uint64(0)
	prevLow := uint64(0)
	for i := 0; i < k; i++ {
		var ts uint64
		var err error
		maxBefore := p.max
		op := zzChoice("op", 4)
		switch {
		case op == 0:
			ts, err = o.GetTimestamp(ctx, zzGlobal)
			if err != nil {
				zzAssert(ts == 0 && errors.Is(err, zzErrPD), "seq.error-passes-through")
			}
		case op == 1:
			created = append(created, p.max)
			outstanding = append(outstanding, o.GetTimestampAsync(ctx, zzGlobal))
			continue
		case len(outstanding) == 0:
			zzAssume(false)
		default:
			j := 0
			if op == 3 {
				j = len(outstanding) - 1
			}
			f := outstanding[j]
			maxBefore = created[j]
			outstanding = append(outstanding[:j:j], outstanding[j+1:]...)
			created = append(created[:j:j], created[j+1:]...)
			ts, err = f.Wait()
		}
		if err == nil {
			// a call gets a ts newer than everything PD allocated before the call
			// was issued; hence consecutive completed GetTimestamp calls strictly
			// increase (a future requested earlier may carry an older allocation)
			zzAssert(ts > maxBefore, "seq.newer-than-allocations-before-request")
			if op == 0 {
				zzAssert(ts > maxReturned, "seq.strictly-increasing")
			}
			zzAssert(ts <= p.max, "seq.returned-was-allocated")
			if ts > maxReturned {
				maxReturned = ts
			}
			zzAssert(zzLastOf(o) >= ts, "seq.lowres-covers-returned")
		}
		low := zzLastOf(o)
		zzAssert(low >= prevLow, "seq.lowres-never-decreases")
		zzAssert(low <= p.max, "seq.lowres-not-ahead-of-pd")
		prevLow = low
		if low != 0 {
			lr, lerr := o.GetLowResolutionTimestamp(ctx, zzGlobal)
			zzAssert(lerr == nil && lr == low, "seq.lowres-api")
			lf, lferr := o.GetLowResolutionTimestampAsync(ctx, &oracle.Option{TxnScope: ""}).Wait()
			zzAssert(lferr == nil && lf == low, "seq.lowres-async-api")
		}
	}
}

// ZZ_C13_setlast_interference — T3: setLastTS's publish loop under concurrent
// publishers. atomic.Pointer[lastTSO].CompareAndSwap is replaced (function seam)
// by: first let 0..1 foreign setLastTS outcomes land (a foreign publisher
// stores a strictly larger tso, itself some allocated timestamp), then perform
// the real compare-and-swap. At most k interferences per run.
func ZZ_C13_setlast_interference() {
	p := zzNewTSO()
	o := zzNewOracle(p)
	k := zzParam("k", 2)
	// the published value before our call: nothing, or some allocated ts
	maxAlloc := zzU64("maxAllocated")
	zzAssume(maxAlloc < 1<<63)
	var before uint64
	if zzBool("initialised") {
		before = zzU64("before")
		zzAssume(before <= maxAlloc)
		o.setLastTS(before, oracle.GlobalTxnScope)
	}
	ts := zzU64("ts")
	zzAssume(ts <= maxAlloc)
	interfered := 0
	casCalls := 0
	maxForeign := uint64(0)
	zzStub("(*sync/atomic.Pointer[github.com/tikv/client-go/v2/oracle/oracles.lastTSO]).CompareAndSwap",
		func(ptr *atomic.Pointer[lastTSO], old, new *lastTSO) bool {
			casCalls++
			if interfered < k && zzBool("interfere") {
				interfered++
				cur := ptr.Load()
				f := zzU64("foreign")
				zzAssume(f > cur.tso && f <= maxAlloc)
				if f > maxForeign {
					maxForeign = f
				}
				ptr.Store(&lastTSO{tso: f, arrival: time.Now()})
			}
			if ptr.Load() == old {
				ptr.Store(new)
				return true
			}
			return false
		})
	o.setLastTS(ts, oracle.GlobalTxnScope)
	zzUnstub("(*sync/atomic.Pointer[github.com/tikv/client-go/v2/oracle/oracles.lastTSO]).CompareAndSwap")
	after := zzLastOf(o)
	zzAssert(after >= ts, "setlast.covers-own-ts")
	zzAssert(after >= before, "setlast.never-decreases")
	zzAssert(after >= maxForeign, "setlast.keeps-foreign-maximum")
	zzAssert(after <= maxAlloc, "setlast.not-ahead-of-pd")
	zzAssert(after == ts || after == before || after == maxForeign, "setlast.is-a-published-value")
	zzAssert(casCalls <= interfered+1, "setlast.retries-only-after-interference")
}

// ZZ_C13_validate_read_ts — T4. Ghost PD frontier P0 = largest allocation when
// ValidateReadTS is called, Pend = when it returns. Environment, all chosen by
// the harness: the cached low-resolution ts (absent / any allocated ts), an
// in-flight validation by another goroutine whose PD response is delayed (so
// that the single flight is joined and yields a ts allocated *before* P0),
// PD's allocation point inside GetTS (at request / at response), further
// allocations by others before the call. Real singleflight, real goroutines.
//   readTS <= P0                      => nil
//   readTS >  Pend (and < MaxInt64)   => ErrFutureTSRead
//   MaxInt64 <= readTS < MaxUint64    => error;  MaxUint64: error iff stale read
func ZZ_C13_validate_read_ts() {
	EnableTSValidation.Store(true)
	defer EnableTSValidation.Store(false)
	p := zzNewTSO()
	o := zzNewOracle(p)
	ctx := context.Background()

	if zzBool("cached") {
		_, err := o.GetTimestamp(ctx, zzGlobal)
		zzAssert(err == nil, "validate.setup")
	}
	inflight := zzBool("inflight")
	var otherDone atomic.Bool
	if inflight {
		p.latency = time.Millisecond
		if !zzInterp() {
			p.gate = make(chan struct{})
		}
		p.allocLate = zzBool("allocLate")
		// the other caller validates a legal read ts (one PD has already
		// allocated), so it needs at most one PD fetch and no retry: after the
		// shared flight it does not touch PD again (keeps native replays
		// deterministic: no PD draws race with the call under test)
		for i := zzChoice("others.before", 2); i > 0; i-- {
			p.alloc()
		}
		otherRead := zzU64("other.readTS")
		zzAssume(otherRead <= p.max)
		go func() {
			_ = o.ValidateReadTS(ctx, otherRead, false, zzGlobal)
			otherDone.Store(true)
		}()
		zzRunAll() // the other validation is now waiting for PD (or returned from the cache)
		if !zzInterp() {
			for i := 0; i < 20000 && !otherDone.Load() && p.parked.Load() == 0; i++ {
				time.Sleep(50 * time.Microsecond)
			}
		}
	}
	// others obtain timestamps directly from PD (not through this oracle)
	for i := zzChoice("others", 3); i > 0; i-- {
		p.alloc()
	}
	p0 := p.max
	readTS := zzU64("readTS")
	stale := false
	var mainDone atomic.Bool
	if p.gate != nil {
		// native replay: PD answers once the call under test is blocked on the
		// single flight (what the engine's virtual sleep amounts to) or is over
		go func() {
			for !mainDone.Load() && !zzParkedIn("oracles.ZZ_C13_validate_read_ts(", "getCurrentTSForValidation") {
				time.Sleep(50 * time.Microsecond)
			}
			close(p.gate)
		}()
	}
	err := o.ValidateReadTS(ctx, readTS, stale, zzGlobal)
	pend := p.max
	p.stopped.Store(true)
	mainDone.Store(true)

	switch {
	case readTS == math.MaxUint64:
		zzAssert(err == nil, "validate.max-uint64-latest-read")
	case readTS >= math.MaxInt64:
		zzAssert(err != nil, "validate.rejects-maxint64-range")
	default:
		if readTS <= p0 {
			zzAssert(err == nil, "validate.accepts-issued")
		}
		if readTS > pend {
			zzAssert(err != nil, "validate.rejects-future")
			var fut oracle.ErrFutureTSRead
			zzAssert(errors.As(err, &fut) && fut.ReadTS == readTS && fut.CurrentTS <= pend, "validate.future-error-shape")
		}
		if err == nil {
			zzAssert(readTS <= pend, "validate.accepted-was-issued-by-end")
		}
	}
	zzAssert(zzLastOf(o) <= p.max, "validate.lowres-not-ahead-of-pd")
	if inflight && !zzInterp() {
		// native replay: let the other validation finish before the next vector starts
		for i := 0; i < 40000 && !otherDone.Load(); i++ {
			time.Sleep(50 * time.Microsecond)
		}
	}
}

// ZZ_C13_validate_special — the validation switch and the stale-read special
// cases that do not need PD.
func ZZ_C13_validate_special() {
	p := zzNewTSO()
	o := zzNewOracle(p)
	ctx := context.Background()
	readTS := zzU64("readTS")
	stale := zzBool("stale")
	EnableTSValidation.Store(false)
	zzAssert(o.ValidateReadTS(ctx, readTS, stale, zzGlobal) == nil, "validate.disabled-accepts")
	zzAssert(p.calls == 0, "validate.disabled-no-pd")
	EnableTSValidation.Store(true)
	defer EnableTSValidation.Store(false)
	zzAssume(readTS >= math.MaxInt64)
	err := o.ValidateReadTS(ctx, readTS, stale, zzGlobal)
	if readTS == math.MaxUint64 {
		zzAssert((err != nil) == stale, "validate.max-uint64-iff-stale")
		if err != nil {
			_, ok := err.(oracle.ErrLatestStaleRead)
			zzAssert(ok, "validate.latest-stale-error")
		}
	} else {
		zzAssert(err != nil, "validate.maxint64-range-rejected")
	}
	zzAssert(p.calls == 0, "validate.special-no-pd")
}

// zzClockTable: offsets (ns) of consecutive clock readings: same instant,
// same millisecond, next millisecond boundary, later.
var zzClockTable = []int64{0, 1, 999_999, 1_000_000, 2_500_000}

// ZZ_C13_local_oracle — T6: localOracle.GetTimestamp is strictly increasing for
// a non-decreasing clock (clock steps from a boundary table; fewer than 2^18
// calls per millisecond).
func ZZ_C13_local_oracle() {
	l := NewLocalOracle().(*localOracle)
	base := time.Unix(1_700_000_000, []int64{0, 999_999, 1_000_000}[zzChoice("start.ns", 3)])
	l.hook = &struct{ currentTime time.Time }{base}
	ctx := context.Background()
	k := zzParam("k", 3) + 1
	async := zzBool("async")
	var prev uint64
	for i := 0; i < k; i++ {
		if i > 0 {
			l.hook.currentTime = l.hook.currentTime.Add(time.Duration(zzClockTable[zzChoice("step.ns", len(zzClockTable))]))
		}
		var ts uint64
		var err error
		if async {
			ts, err = l.GetTimestampAsync(ctx, zzGlobal).Wait()
		} else {
			ts, err = l.GetTimestamp(ctx, zzGlobal)
		}
		zzAssert(err == nil, "local.no-error")
		if i > 0 {
			zzAssert(ts > prev, "local.strictly-increasing")
		}
		zzAssert(oracle.ExtractPhysical(ts) == oracle.GetPhysical(l.hook.currentTime), "local.physical-is-clock")
		prev = ts
	}
}

// ZZ_C13_local_expiry — localOracle: IsExpired <=> UntilExpired <= 0 against
// the hooked clock (clock and lock physical time from boundary tables around
// the expiry instant, logical part symbolic).
func ZZ_C13_local_expiry() {
	l := NewLocalOracle().(*localOracle)
	now := time.Unix(1_700_000_000, []int64{0, 1, 999_999, 1_000_000, 5_000_000}[zzChoice("now.ns", 5)])
	l.hook = &struct{ currentTime time.Time }{now}
	lockPhys := int64(1_700_000_000_000) + []int64{-5, -1, 0, 1, 5}[zzChoice("lock.offset", 5)]
	lockTS := oracle.ComposeTS(lockPhys, int64(zzU32("lock.logical")&0x3ffff))
	ttl := []uint64{0, 1, 2, 4, 6, 1000}[zzChoice("ttl", 6)]
	exp := l.IsExpired(lockTS, ttl, zzGlobal)
	left := l.UntilExpired(lockTS, ttl, zzGlobal)
	zzAssert(exp == (left <= 0), "local.expiry-consistent")
}

// ZZ_C13_new_oracle — NewPdOracle primes the cache with its first timestamp (or
// fails and returns no oracle), and the background updateTS goroutine refreshes
// the cache on its ticker: after each tick the cached ts is the newest
// allocation, never above PD's frontier, never decreasing. Virtual time.
func ZZ_C13_new_oracle() {
	p := zzNewTSO()
	p.failAt = zzChoice("failAt", 3) - 1 // never / constructor's fetch / first tick's fetch
	ora, err := NewPdOracle(p, &PDOracleOptions{UpdateInterval: 2 * time.Second})
	if p.failAt == 0 {
		zzAssert(err != nil && ora == nil, "new.error-no-oracle")
		_, err0 := NewPdOracle(p, &PDOracleOptions{UpdateInterval: 0})
		zzAssert(err0 != nil, "new.rejects-zero-interval")
		return
	}
	zzAssert(err == nil, "new.ok")
	o := ora.(*pdOracle)
	defer o.Close()
	first := p.max
	zzRunAll() // let updateTS start and create its ticker
	zzAssert(zzLastOf(o) == first, "new.cache-primed-with-first")
	// somebody else takes timestamps from PD meanwhile
	p.alloc()
	zzAssert(zzLastOf(o) == first, "new.cache-unchanged-without-fetch")
	prev := first
	for tick := 0; tick < 2; tick++ {
		if zzInterp() {
			zzAdvance(int64(2 * time.Second))
			zzRunAll()
		} else {
			return // native replay: real tickers are not driven
		}
		low := zzLastOf(o)
		zzAssert(low >= prev, "new.tick-never-decreases")
		zzAssert(low <= p.max, "new.tick-not-ahead-of-pd")
		if !(tick == 0 && p.failAt == 1) {
			zzAssert(low == p.max && low > prev, "new.tick-refreshes-cache")
		}
		prev = low
	}
}
