package oracles

import (
	"sync"
	"sync/atomic"
	"time"

	"github.com/tikv/client-go/v2/oracle"
)

// ZZ_C13_setlast_first_publication — T3 for the first publication of a scope:
// between our miss in lastTSMap.Load and our own publication another caller
// publishes the scope's first (possibly larger) timestamp. The seam replaces
// (*sync.Map).Load: it performs the real lookup and, when that missed, lets the
// foreign publisher land before returning the miss.
func ZZ_C13_setlast_first_publication() {
	p := zzNewTSO()
	o := zzNewOracle(p)
	maxAlloc := zzU64("maxAllocated")
	zzAssume(maxAlloc < 1<<63)
	ts := zzU64("ts")
	zzAssume(ts <= maxAlloc)
	scope := "zz-fresh-scope"
	const loadName = "(*sync.Map).Load"
	interfered := false
	var foreign uint64
	var stub func(m *sync.Map, key any) (any, bool)
	stub = func(m *sync.Map, key any) (any, bool) {
		zzUnstub(loadName)
		v, ok := m.Load(key)
		if !ok && !interfered && m == &o.lastTSMap && zzBool("interfere") {
			interfered = true
			foreign = zzU64("foreign")
			zzAssume(foreign <= maxAlloc)
			ptr := &atomic.Pointer[lastTSO]{}
			ptr.Store(&lastTSO{tso: foreign, arrival: time.Now()})
			m.Store(key, ptr)
		}
		zzStub(loadName, stub)
		return v, ok
	}
	zzStub(loadName, stub)
	o.setLastTS(ts, scope)
	zzUnstub(loadName)
	after, ok := o.getLastTS(scope)
	zzAssert(ok, "firstpub.published")
	zzAssert(after >= ts, "firstpub.covers-own-ts")
	if interfered {
		zzAssert(after >= foreign, "firstpub.keeps-foreign-first-publication")
	}
	zzAssert(after == ts || (interfered && after == foreign), "firstpub.is-a-published-value")
	_ = oracle.GlobalTxnScope
}
