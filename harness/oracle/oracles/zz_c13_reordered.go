package oracles

import (
	"context"
	"math"
	"time"
)

// ZZ_C13_validate_reordered: read-ts validation under reordered PD responses. A validation fetch S is
// in flight with a slow response; a concurrent GetTimestamp G through the same oracle is allocated
// later but answered earlier; PD then issues r to another client, and ValidateReadTS(r) joins S. When
// S comes back with its stale timestamp the cached timestamp has already moved to g (s < g < r). The
// read ts was issued by PD before the call, so the validation must accept it (it takes a fresh look at
// PD); all timestamps are symbolic (any PD allocations in that order).
func ZZ_C13_validate_reordered() {
	zzEngineOnly() // response order is made with virtual latencies
	EnableTSValidation.Store(true)
	defer EnableTSValidation.Store(false)
	p := zzNewTSO()
	o := zzNewOracle(p)
	ctx := context.Background()
	if zzBool("cached") {
		_, err := o.GetTimestamp(ctx, zzGlobal)
		zzAssert(err == nil, "reordered.setup")
	}
	// another client obtains a timestamp directly and validates it through this oracle: fetch S
	ph, lo := p.alloc()
	otherRead := uint64(ph)<<18 + uint64(lo)
	p.latency = 3 * time.Millisecond
	go func() { _ = o.ValidateReadTS(ctx, otherRead, false, zzGlobal) }()
	zzRunAll() // S has allocated its (soon stale) timestamp and waits for the network
	// G: allocated after S, answered before it
	p.latency = time.Millisecond
	go func() { _, _ = o.GetTimestamp(ctx, zzGlobal) }()
	zzRunAll()
	// PD issues r to yet another client
	ph, lo = p.alloc()
	r := uint64(ph)<<18 + uint64(lo)
	zzAssume(r < math.MaxInt64) // values from MaxInt64 on are refused as such (ZZ_C13_validate_special)
	p.latency = 0
	err := o.ValidateReadTS(ctx, r, false, zzGlobal)
	zzAssert(err == nil, "reordered.accepts-a-timestamp-pd-issued-before-the-call")
	// and a timestamp beyond everything PD has issued is still rejected
	beyond := p.max + 1 + zzU64("beyond")%1024
	err = o.ValidateReadTS(ctx, beyond, false, zzGlobal)
	if beyond > p.max {
		zzAssert(err != nil, "reordered.rejects-beyond-issued")
	}
}
