package oracle

import "time"

// C13 / T1 — timestamp arithmetic. See DESIGN.md §3 C13.
//
// TSO range assumption (DESIGN §3 conventions): 0 <= logical < 2^18,
// 0 <= physical < 2^45 (milliseconds: the next ~1000 years), hence ts < 2^63.

const (
	zzMaxPhysical = int64(1) << 45
	zzMaxLogical  = int64(1) << 18
)

func zzTSParts(pn, ln string) (int64, int64) {
	p, l := zzI64(pn), zzI64(ln)
	zzAssume(p >= 0 && p < zzMaxPhysical)
	zzAssume(l >= 0 && l < zzMaxLogical)
	return p, l
}

// ZZ_C13_compose_roundtrip — Extract∘Compose = id on the TSO range.
func ZZ_C13_compose_roundtrip() {
	p, l := zzTSParts("physical", "logical")
	ts := ComposeTS(p, l)
	zzAssert(ExtractPhysical(ts) == p, "compose.extract-physical")
	zzAssert(ExtractLogical(ts) == l, "compose.extract-logical")
	zzAssert(ts < 1<<63, "compose.below-2^63")
	// and the other way round for every 64-bit ts below 2^63
	ts2 := zzU64("ts")
	zzAssume(ts2 < 1<<63)
	zzAssert(ComposeTS(ExtractPhysical(ts2), ExtractLogical(ts2)) == ts2, "compose.compose-extract")
}

// ZZ_C13_compose_monotone — ComposeTS is strictly monotone in the
// lexicographic order of (physical, logical), and conversely.
func ZZ_C13_compose_monotone() {
	p1, l1 := zzTSParts("p1", "l1")
	p2, l2 := zzTSParts("p2", "l2")
	lexLess := zzOr(p1 < p2, zzAnd(p1 == p2, l1 < l2))
	a, b := ComposeTS(p1, l1), ComposeTS(p2, l2)
	zzAssert(lexLess == (a < b), "compose.strictly-monotone")
	zzAssert(zzAnd(p1 == p2, l1 == l2) == (a == b), "compose.injective")
}

// zzPhysicalTable: physical milliseconds at the boundaries of the second /
// millisecond conversions of GetTimeFromTS (ms/1e3, ms%1e3) and of the range
// in which time.Time.UnixNano is defined (before year 2262, i.e. < 2^63 ns;
// 2^43 ms is year 2248).
var zzPhysicalTable = []int64{0, 1, 999, 1000, 1001, 1_699_999_999_999, 1_700_000_000_000,
	1_700_000_000_999, 1<<41 - 1, 1<<43 - 1}

// ZZ_C13_time_conversions — GetTimeFromTS / GoTimeToTS / GetPhysical agree
// with ExtractPhysical. The physical part comes from a boundary table (time
// unit conversions multiply/divide by 10^3..10^6; done on concrete operands),
// the logical part and the sub-millisecond remainder are symbolic.
func ZZ_C13_time_conversions() {
	p := zzPhysicalTable[zzChoice("physical", len(zzPhysicalTable))]
	l := zzI64("logical")
	zzAssume(l >= 0 && l < zzMaxLogical)
	ts := ComposeTS(p, l)
	t := GetTimeFromTS(ts)
	zzAssert(GetPhysical(t) == p, "conv.time-of-ts-has-physical")
	zzAssert(GoTimeToTS(t) == ComposeTS(p, 0), "conv.ts-of-time-drops-logical")
	zzAssert(GoTimeToTS(t) <= ts, "conv.ts-of-time-not-above")
	// a later wall clock never gives a smaller ts (sub-ms remainder from a table)
	rem := []int64{0, 1, 999_999, 1_000_000, 1_000_001}[zzChoice("advance", 5)]
	t2 := t.Add(time.Duration(rem))
	zzAssert(GoTimeToTS(t2) >= GoTimeToTS(t), "conv.go-time-monotone")
	if rem >= 1_000_000 {
		zzAssert(GoTimeToTS(t2) > ts, "conv.next-ms-above-any-logical")
	} else {
		zzAssert(GoTimeToTS(t2) == GoTimeToTS(t), "conv.same-ms-same-ts")
	}
	// lower limit: subtracting a span of whole milliseconds
	span := []int64{0, 1, 1000, 3_600_000}[zzChoice("span", 4)]
	if p >= span {
		zzAssert(GoTimeToLowerLimitStartTS(t, span) == ComposeTS(p-span, 0), "conv.lower-limit")
	}
}
