#!/usr/bin/env python3
"""seed_prompt.py <ID> <n>  — create a scratch worktree and print the prompt for a seeding sub-agent."""
import json, sys, subprocess, os
pid, n = sys.argv[1], sys.argv[2]
avoid = sys.argv[3] if len(sys.argv) > 3 else ""
wt = "/tmp/seed-%s-%s" % (pid, n)
out = wt + "-out"
if not os.path.exists(wt):
    subprocess.check_call(["git", "-C", "/repo", "worktree", "add", "--detach", wt, "HEAD", "-q"])
os.makedirs(out, exist_ok=True)
p = [json.loads(l) for l in open("/verif/properties.jsonl") if json.loads(l)["id"] == pid][0]
anch = p["anchors"]
text = "Title: %s\nStatement: %s\nQuantified over: %s — %s\nWhy the existing tests cannot settle it: %s\nWhere it is anchored in the code: files %s; mechanisms: %s" % (
    p["title"], p["statement"], ", ".join(p["quantifier"]["over"]), p["quantifier"]["text"], p["why_tests_cant"],
    ", ".join(anch["files"]), "; ".join("%s (%s)" % (m["name"], m.get("where", "")) for m in anch["mechanism"]))
print(f"""You are helping to evaluate a verification effort for the Go library tikv/client-go (a transactional and raw client for TiKV). You do not know anything about how the verifiers work and must not look for them: do not read or use anything under /verif or /root/.vp, and do not touch /repo.

Your own scratch git worktree of the library is at {wt} (work only there). Build/test environment is offline: always run go with `GOFLAGS=-mod=mod GOPROXY=off` (e.g. `cd {wt} && GOFLAGS=-mod=mod GOPROXY=off go build ./... && GOFLAGS=-mod=mod GOPROXY=off go test -vet=off -count=1 ./<pkg>/`).

This semantic property of the library is supposed to hold:

{text}

{("An earlier volunteer already changed this, so pick a DIFFERENT part of the property and a different function: " + avoid + chr(10) + chr(10)) if avoid else ""}Task: make ONE small change to the library's non-test source in your worktree that BREAKS this property, such that (1) the library still compiles (`go build ./...`), (2) the existing tests of the packages you touched and of the packages that depend closely on them still pass (run them; the package github.com/tikv/client-go/v2/tikv has one test that always fails on the unchanged tree — TestKV/TestErrorHalfwayInNewKVStore panics — ignore that package's result), and (3) the breakage needs something specific to manifest — a particular interleaving, a crash or fault at a particular point, a multi-step sequence of operations, an unusual input (boundary value, empty key, particular flag combination), or two cooperating sites that each look fine alone — NOT something that ordinary use would expose at once. Make it look like a plausible mistake or an 'optimisation' a developer could really commit. Then write a demonstration: a Go test file (in the package's directory, name it zz_seed_demo_test.go) or a small program that FAILS with your change and PASSES on the unchanged code (verify both: use `git stash` or `git diff > p.diff; git checkout -- .; ...; git apply p.diff`).

Deliver in {out}/ : patch.diff (`git diff` of the library change only, without the demo), the demo file(s), and README.md stating: which property it breaks and why, exactly what it needs in order to manifest, the commands you ran (build, existing tests, demo with and without the change) and their results. Leave the worktree with the change applied. Keep it to one focused change; do not weaken or edit existing tests. Your final message should summarise the change in 5 lines.""")
