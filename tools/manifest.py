#!/usr/bin/env python3
"""Regenerate /verif/MANIFEST.json from the claims table below."""
import json, os
V = "/verif"
props = [json.loads(l) for l in open(V + "/properties.jsonl")]
TECH = "bounded symbolic execution of the real go/ssa (gosx) + z3 SMT (QF_BV) deciding every assertion over all values on each path; counterexamples replayed against the native build (go test -overlay)"
NOTE_COMMON = "Trusted: go/ssa, the gosx interpreter and its intrinsic models (cross-validated against the native build on solver-chosen vectors every run), z3 4.8.12. Bounded: nothing is claimed outside the bounds listed in the evidence file. "
CLAIMS = {
 "C19": ("Every codec function is executed symbolically from its SSA; round-trip, order, prefix-freeness, strict-decoding and no-panic assertions are decided by z3 for all 64-bit integers and all byte strings up to the stated length.",
         "Byte strings <= 9 (quick) / 17 (thorough) bytes; prefixes/suffixes <= 2 bytes."),
 "C20": ("One inductive back-off step from an arbitrary accounting state (all budgets, totals, per-call maxima as 64-bit symbols, every *Config variable generated from source, attempts 0..14), k-step sequences with resets, clone/fork/merge algebra, cancellation and kill; sleeping is virtual and tied to the accounting by a ghost total.",
         "time.After/Sleep virtual; rand.Intn arbitrary in range; expo() evaluated on concrete arguments; BackOffWeight from a boundary set in the overflow lemma (a symbolic 64-bit divisor is undecided by all solvers here)."),
}
NA = {
 "C01": "whole-system histories x schedules with the store in the loop: no unit decomposition preserves the statement and the whole-program concurrent run is outside what a symbolic interpreter + SMT can encode (DESIGN.md §4); client-local obligations are decided under C03/C04/C05/C12/C13",
 "C02": "crash point x recovery by other clients against surviving store state: needs client + store + second client as one symbolic run (DESIGN.md §4); local obligations under C03/C04/C12",
}
PENDING = "check not built yet in this session (breadth-first build order, DESIGN.md §6); it will be claimed once its harnesses run clean on the unchanged tree"
m = {
 "version": 1,
 "setup_cmd": "cd /verif/engine && env GOFLAGS=-mod=mod GOPROXY=off GOTOOLCHAIN=local GOSUMDB=off PATH=/opt/veriftools/go1.26.8/bin:$PATH go build -o /verif/bin/gosx .",
 "hooks": {"guard": "verif", "enable": "none needed: harnesses are injected as overlay files (go/packages Overlay for the engine, go test -overlay for native replay); the checks never edit /repo",
           "baseline_off_cmd": "cd /repo && go test -mod=mod -vet=off -count=1 -timeout 25m ./... ; cd /repo/integration_tests && go test -mod=mod -vet=off -count=1 -timeout 25m ./...",
           "source_commits": [], "add_only": True},
 "engines": [{"name": "gosx", "path": "/verif/engine", "serves_properties": sorted(CLAIMS),
              "kind_free_text": "own symbolic interpreter over go/ssa (KLEE-style: concrete heap, bit-vector scalars, fork by re-execution with a decision prefix, 16 workers each with one z3 -in) ; harnesses are in-package overlay files under /verif/harness"}],
 "checks": [], "not_applicable": [],
 "notes": "All checks: ./check <id> [--tier quick|thorough]; exit 0 pass, 1 reproduced violation not listed in known_findings.jsonl, 2 broken check (bound insufficient, unreached assertion site, engine/native mismatch, solver unknown). Fixes made to /repo: see known_findings.jsonl ('fixed:' lines).",
}
for p in props:
    pid = p["id"]
    if pid in CLAIMS:
        text, note = CLAIMS[pid]
        m["checks"].append({
            "property_id": pid, "quick_cmd": "./check %s --tier quick" % pid, "thorough_cmd": "./check %s --tier thorough" % pid,
            "evidence_file": "/verif/evidence/%s.json" % pid, "replay_cmd_template": "./check %s --replay {path}" % pid, "engine": "gosx",
            "level_claimed": {"category": "model_checking", "text": text + " Bounded symbolic model checking, not a proof.", "design_ref": "DESIGN.md §3 " + pid},
            "level_note": NOTE_COMMON + note, "technique": TECH})
    else:
        m["not_applicable"].append({"property_id": pid, "reason": NA.get(pid, PENDING)})
json.dump(m, open(V + "/MANIFEST.json", "w"), indent=1)
print("claimed:", sorted(CLAIMS), "na:", [x["property_id"] for x in m["not_applicable"]])
