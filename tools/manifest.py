#!/usr/bin/env python3
"""Regenerate /verif/MANIFEST.json from the claims table below."""
import json, os
V = "/verif"
props = [json.loads(l) for l in open(V + "/properties.jsonl")]
TECH = "bounded symbolic execution of the real go/ssa (gosx) + z3 SMT (QF_BV) deciding every assertion over all values on each path; counterexamples replayed against the native build (go test -overlay)"
NOTE_COMMON = "Trusted: go/ssa, the gosx interpreter and its intrinsic models (cross-validated against the native build on solver-chosen vectors every run), z3 4.8.12. Bounded: nothing is claimed outside the bounds listed in the evidence file. "
CLAIMS = {
 "C03": ("The real KVTxn.Commit (2PC, async commit, 1PC; real batching, RegionRequestSender, replica selector and region cache) is executed symbolically against a harness store; a fault script chosen per RPC (request lost, response lost, region errors incl. UndeterminedResult, CommitTsExpired, a foreign resolver rolling the primary back) and symbolic timestamps quantify over lost messages and resolver races; assertions: nil => durably committed, definite error => not committed, undetermined only after an unanswered commit-point request, fault-free => success.",
         "Store = harness MVCC model behind client.Client; <= 1 (quick) / 3 (thorough) faults per commit; 3 keys over 2 regions; one batch in flight (CommitterConcurrency 1)."),
 "C04": ("Request-stream rules checked as a monitor over every RPC the real client emits in the C03 scenarios (prewrite-before-commit, primary first, no rollback after a possibly applied primary commit, commit-ts and min-commit-ts inequalities over symbolic timestamps, primary/secondaries/1PC shape, mutations = buffer), plus the mutation table (every flag combination through initKeysAndMutations/buildPrewriteRequest), the TTL manager on a virtual clock with symbolic oracle jumps, and the lock-resolver rules (real LockResolver over a harness storage).",
         "Same store model as C03; TTL manager harness is replayed by the interpreter (virtual time); the truncated tail of the statement ('pessimistic-che...') is read as the pessimistic-action column of the mutation table."),
 "C06": ("The real pessimistic-locking, aggressive-locking, Rollback/Commit and background clean-up code runs against the harness store; lock outcomes per request (ok, write conflict, key exists, deadlock, locked-with-conflict with a symbolic conflict ts) and call sequences are forked, clean-up requests may meet retryable region errors; after the transaction ended and background work drained no lock of it remains.",
         "No message is lost (as the property states); <= 2 LockKeys calls / one aggressive-locking round; key sets over 2 regions. Mostly forked choices; the solver decides the timestamp-dependent branches."),
 "C15": ("Kernel harnesses over a symbolic 24-bit keyspace id and symbolic keys (bounds, round trip, order, isolation, disjointness, range encode/decode, region keys through the memcomparable codec, bucket keys, region/key error decoding) and a catalogue generated from the current source for every tikvrpc.CmdType (EncodeRequest encodes every key-bearing member and leaves the caller's request unmodified, DecodeResponse strips every key-bearing member, AttachContext / region-error / batch-command round trips).",
         "Keys <= 2 bytes (region keys <= 9); repeated members get 2 elements; allow-listed opaque members are listed with reasons in props/C15.allow.json; streaming responses are outside."),
 "C16": ("The real pipelined KVTxn (PipelinedMemDB, flush goroutine, commitFlushedMutations, resolveFlushedLocks with the real range-task runner) runs against the harness store: every subset of 4 keys around a region border in <= 2/3 flush rounds then Commit or Rollback leaves no flushed lock and drives every flushed key to the single outcome; reads see the latest write at every tier, each mutation reaches exactly one flush, generations increase by one.",
         "Cooperative deterministic schedule, no faults, flush/resolve concurrency 1; flush errors and throttling are outside."),
 "C19": ("Every codec function is executed symbolically from its SSA; round-trip, order, prefix-freeness, strict-decoding and no-panic assertions are decided by z3 for all 64-bit integers and all byte strings up to the stated length; mvccEncode/mvccDecode included.",
         "Byte strings <= 9 (quick) / 17 (thorough) bytes; prefixes/suffixes <= 2 bytes."),
 "C20": ("One inductive back-off step from an arbitrary accounting state (all budgets, totals, per-call maxima as 64-bit symbols, every *Config variable generated from source, attempts 0..14), k-step sequences with resets, clone/fork/merge algebra, cancellation and kill; sleeping is virtual and tied to the accounting by a ghost total.",
         "time.After/Sleep virtual; rand.Intn arbitrary in range; expo() evaluated on concrete arguments; BackOffWeight from a boundary set in the overflow lemma (a symbolic 64-bit divisor is undecided by all solvers here)."),
 "C05": ("The real KVSnapshot (Get, BatchGet incl. the async path, Scanner forward/reverse, cache, SetSnapshotTS, lock classification through the real LockResolver, RegionRequestSender and RegionCache) runs against a harness store holding symbolic MVCC content at the snapshot ts over a symbolic region layout; results are compared with a model for symbolic bounds, batch sizes, key-only, topology events (split/merge/epoch errors) and every ghost status of a foreign lock.",
         "<= 3 rows with a 1,2,1 byte key-length profile, <= 3 regions, <= 2 topology events, one foreign transaction; replica-read variants outside. One known finding (reverse scan from the end of the key space)."),
 "C07": ("UnionIter over two strictly monotone symbolic key sequences (forward and reverse, tombstones, errors of either side), KVUnionStore.Get/Iter/IterReverse with symbolic bounds, and BufferBatchGetter.BatchGet (distinct and duplicated request keys) against the map model snapshot ⊕ buffer: monotone, sound, complete, inside bounds, buffer first, tombstones hide.",
         "<= 2 (quick) / 3 (thorough) entries per side, keys <= 2 bytes (bounds <= 1 byte); staging/checkpoint behaviour of the buffers is under C08."),
 "C08": ("Value log/arena (appends, checkpoints, revert, truncate at block boundaries), the key-flag algebra over every kv.FlagsOp generated from source, radix-node bitmap scans and prefix compare, size limits, iterator invalidation, and the REAL ART and RBT buffers against a map model on symbolic operation sequences (set/delete/flags/staging/release/cleanup/checkpoint/revert, iteration with symbolic bounds, fan-out pre-states up to 48 children).",
         "<= 2-3 keys of <= 2 bytes, <= 2 (quick) / 4 (thorough) operations; ART node arithmetic runs through the byte-view model of unsafe overlays; one known finding (checkpoint in-place swap)."),
 "C09": ("Containment predicates, gap check, rangesAfterKey, BatchLocateKeyRanges / LocateKeyRange coverage over a symbolic cache subset of a symbolic truth layout (also one generation stale), single-key lookups, GroupKeysByRegion, insert non-regression with 64-bit symbolic epochs over the real btree, OnRegionEpochNotMatch and UpdateLeader; PD is a harness pd.Client.",
         "<= 3 regions, <= 2 (quick) / 3 (thorough) ranges, keys <= 1-2 bytes; the liveness half (convergence to the leader) and store liveness probing are outside. One known finding (LocateEndKey of the empty key)."),
 "C10": ("Reduced claim: one-step lemmas of the replica selector over arbitrary selector states (a write never carries replica/stale read, the target was a candidate, attempt counters grow, onUpdateLeader is the only decrease), validateReadTS mapping, and the real SendReqCtx over fault scripts from a 15-event alphabet with a harness client: retry flag discipline, no fabricated success, sleep within budget.",
         "3 replicas; scripts <= 1 (quick) / 2-3 (thorough) events; selector step harnesses use function seams on isCandidate/calculateScore (composition argument in props); forwarding/proxy paths and slowness scores outside."),
 "C11": ("The real rawkv.Client (Get/Put/Delete/CAS, BatchGet/BatchPut/BatchDelete, Scan/ReverseScan, DeleteRange, Checksum) and the kvrpc batch splitters run over the real RegionRequestSender and RegionCache against a harness sorted-map store with symbolic keys, values and region layout and one optional topology change per call; results equal the same operation on the map (positional alignment, first `limit` pairs across borders, exactly [start,end) removed).",
         "<= 2-4 stored keys of <= 2 bytes, <= 2-3 regions, limit <= 2-3, one topology change per call; TTL/column families, leader changes and store failures outside."),
 "C14": ("ResolveLocksForRange over a harness RegionLockResolver and through the real resolver (scan, BatchResolveLocks) with symbolic lock populations, scan limit 2-3 and an injected split; BatchResolveLocks statuses; rangetask.Runner.RunOnRange tiling with 1-2 workers; DeleteRangeTask clipping; CheckVisibility against the cached safe point.",
         "<= 3-4 locks, <= 2-3 regions, one split/epoch bump; async-commit/txn-file/shared locks in BatchResolveLocks, KVStore.GC and the PD controller outside."),
 "C12": ("The real mock-TiKV MVCC code runs over a harness ordered map in place of goleveldb (function seams); 20 algebraic laws after symbolic command prefixes with symbolic, pairwise distinct 64-bit timestamps: idempotence, never commit and rollback, rejection after a final state, Get/Scan/ReverseScan/BatchGet/ScanLock vs an independent decode of the records, resolve, GC, heartbeat, min-commit-ts push, TiKV-defined pessimistic cases.",
         "2 keys, 2 transactions, prefixes <= 2 (quick) / 3 (thorough) commands on top of 6 base histories; the response-by-response reference model, rpc.go and the deadlock detector are outside; harnesses replay through the interpreter (function seams)."),
 "C13": ("ComposeTS/Extract algebra for all physical < 2^45 and logical < 2^18, expiry consistency for all 63-bit timestamps, setLastTS under compare-and-swap interference (function seam on atomic.Pointer.CompareAndSwap), low-resolution cache sequences with out-of-order futures, ValidateReadTS with the real singleflight and goroutines, the commit-wait loop, and the local oracle.",
         "k <= 3 (quick) / 5 (thorough) operations or interferences; physical times of the calendar conversions from a boundary table; GetStaleTimestamp and the adaptive update interval outside; T4 explores one cooperative schedule."),
 "C17": ("Latches.acquire/release and LatchesScheduler.wakeup at method granularity, and the real scheduler with one goroutine per transaction, against a ghost holder/max-commit model: exclusion, no lost wake-up, staleness exact, release never panics; arrival/unlock/wake-up order forked, timestamps symbolic.",
         "3 transactions x <= 2 keys (quick); pool of 4 keys, 4 transactions and free-running goroutines under a preemption bound in thorough; timestamps symbolic over 8 spread bits (free 64-bit chains made z3 answer unknown); recycle outside."),
 "C18": ("Reduced claim: id allocation, dispatch by id, exactly-once completion, failRequestsByIDs/failPendingRequests, the builder and the priority queue, one batchRecvLoop iteration per scripted stream and sendBatchRequest's selects with forked readiness.",
         "<= 4 entries, <= 2 hosts. The property's quantifier over goroutine schedules, stream re-creation races and shutdown is OUTSIDE the claim (not addressable by this technique)."),
}
GREEN = ["C03", "C04", "C05", "C06", "C07", "C08", "C09", "C10", "C11", "C12", "C14", "C13", "C15", "C16", "C17", "C18", "C19", "C20"]
CLAIMS = {k: v for k, v in CLAIMS.items() if k in GREEN}
NA = {
 "C01": "whole-system histories x schedules with the store in the loop: no unit decomposition preserves the statement and the whole-program concurrent run is outside what a symbolic interpreter + SMT can encode (DESIGN.md §4); client-local obligations are decided under C03/C04/C05/C12/C13",
 "C02": "crash point x recovery by other clients against surviving store state: needs client + store + second client as one symbolic run (DESIGN.md §4); local obligations under C03/C04/C12",
}
PENDING = "check not built yet in this session (breadth-first build order, DESIGN.md §6); it will be claimed once its harnesses run clean on the unchanged tree"
m = {
 "version": 1,
 "setup_cmd": "cd /verif/engine && env GOFLAGS=-mod=mod GOPROXY=off GOTOOLCHAIN=local GOSUMDB=off PATH=/opt/veriftools/go1.26.8/bin:$PATH go build -o /verif/bin/gosx .",
 "hooks": {"guard": "verif", "enable": "none needed: harnesses are injected as overlay files (go/packages Overlay for the engine, go test -overlay for native replay); the checks never edit /repo",
           "baseline_off_cmd": "cd /repo && go test -mod=mod -vet=off -count=1 -timeout 25m ./... ; cd /repo/integration_tests && go test -mod=mod -vet=off -count=1 -timeout 25m ./...",
           "source_commits": [], "add_only": True},
 "engines": [{"name": "gosx", "path": "/verif/engine", "serves_properties": sorted(CLAIMS),
              "kind_free_text": "own symbolic interpreter over go/ssa (KLEE-style: concrete heap, bit-vector scalars, fork by re-execution with a decision prefix, 16 workers each with one z3 -in) ; harnesses are in-package overlay files under /verif/harness"}],
 "checks": [], "not_applicable": [],
 "notes": "All checks: ./check <id> [--tier quick|thorough]; exit 0 pass, 1 reproduced violation not listed in known_findings.jsonl, 2 broken check (bound insufficient, unreached assertion site, engine/native mismatch, solver unknown). Fixes made to /repo: see known_findings.jsonl ('fixed:' lines).",
}
for p in props:
    pid = p["id"]
    if pid in CLAIMS:
        text, note = CLAIMS[pid]
        m["checks"].append({
            "property_id": pid, "quick_cmd": "./check %s --tier quick" % pid, "thorough_cmd": "./check %s --tier thorough" % pid,
            "evidence_file": "/verif/evidence/%s.json" % pid, "replay_cmd_template": "./check %s --replay {path}" % pid, "engine": "gosx",
            "level_claimed": {"category": "model_checking", "text": text + " Bounded symbolic model checking, not a proof.", "design_ref": "DESIGN.md §3 " + pid},
            "level_note": NOTE_COMMON + note, "technique": TECH})
    else:
        m["not_applicable"].append({"property_id": pid, "reason": NA.get(pid, PENDING)})
json.dump(m, open(V + "/MANIFEST.json", "w"), indent=1)
print("claimed:", sorted(CLAIMS), "na:", [x["property_id"] for x in m["not_applicable"]])
