#!/usr/bin/env python3
"""seed_eval.py <ID> <n> [check ids...]

Confirm a seeded change produced by an independent sub-agent and run our checks against it:
  1. fresh scratch worktree of /repo HEAD
  2. demo passes on the unchanged code
  3. patch applies, library builds, existing tests of the touched packages pass
  4. demo fails with the patch
  5. ./check <ids> (default: the property's own check) with VERIF_REPO=<worktree>
  6. record everything under /verif/seeded/<ID>-<n>/ (patch.diff, demo files, README, meta.json)
The worktree is removed afterwards.
"""
import json, os, re, shutil, subprocess, sys, time

pid, n = sys.argv[1], sys.argv[2]
checks = sys.argv[3:] or [pid]
src_wt = "/tmp/seed-%s-%s" % (pid, n)
out = src_wt + "-out"
wt = "/tmp/eval-%s-%s" % (pid, n)
dst = "/verif/seeded/%s-%s" % (pid, n)
env = dict(os.environ, GOFLAGS="-mod=mod", GOPROXY="off")


def sh(cmd, cwd=None, timeout=3000, e=None):
    r = subprocess.run(cmd, shell=True, cwd=cwd, env=e or env, capture_output=True, text=True, timeout=timeout)
    return r.returncode, (r.stdout + r.stderr)


subprocess.run("git -C /repo worktree remove --force %s" % wt, shell=True, capture_output=True)
rc, o = sh("git -C /repo worktree add --detach %s HEAD -q" % wt)
assert rc == 0, o
meta = {"property": pid, "seed": n, "repo_head": sh("git -C /repo rev-parse --short HEAD")[1].strip(), "ran": []}
patch = os.path.join(out, "patch.diff")
reeval = not os.path.exists(src_wt)
if reeval:
    # re-evaluation of a kept seed: patch and demo files come from /verif/seeded/<ID>-<n>
    old = json.load(open(os.path.join(dst, "meta.json")))
    patch = os.path.join(dst, "patch.diff")
    src_wt = "/tmp/seedsrc-%s-%s" % (pid, n)
    shutil.rmtree(src_wt, ignore_errors=True)
    demos = []
    for d in old.get("demo_files", []):
        saved = os.path.join(dst, os.path.basename(os.path.dirname(d)) + "__" + os.path.basename(d))
        os.makedirs(os.path.join(src_wt, os.path.dirname(d)), exist_ok=True)
        shutil.copy(saved, os.path.join(src_wt, d))
        demos.append(d)
    meta["history"] = old.get("history", []) + [{"checks": old.get("checks"), "repo_head": old.get("repo_head")}]
else:
    # demo files: untracked files of the agent's worktree
    rc, o = sh("git status --porcelain", cwd=src_wt)
    demos = [l[3:].strip() for l in o.splitlines() if l.startswith("??") and l.strip().endswith(".go")]
touched = sorted(set(os.path.dirname(m) for m in re.findall(r"(?m)^\+\+\+ b/(\S+)", open(patch).read())))
if not demos and not reeval:
    # the agent delivered the demo only in the out directory: put it next to the change
    for root, _, files in os.walk(out):
        for fn in files:
            if fn.endswith("_test.go"):
                rel = os.path.relpath(root, out)
                target_dir = touched[0] if rel == "." else rel.replace("_", "/") if not os.path.isdir(os.path.join(src_wt, rel)) else rel
                os.makedirs(os.path.join(src_wt, target_dir), exist_ok=True)
                shutil.copy(os.path.join(root, fn), os.path.join(src_wt, target_dir, fn))
                demos.append(os.path.join(target_dir, fn))
pkgs_demo = sorted(set(os.path.dirname(d) for d in demos))
for d in demos:
    os.makedirs(os.path.dirname(os.path.join(wt, d)), exist_ok=True)
    shutil.copy(os.path.join(src_wt, d), os.path.join(wt, d))


def run_demo(tag):
    res = {}
    for p in pkgs_demo:
        if p.startswith("integration_tests"):
            # separate module: run from its own directory
            rel = p[len("integration_tests"):].lstrip("/") or "."
            rc2, o2 = sh("bash -c \"cd %s/integration_tests && go test -vet=off -count=1 -run 'Seed|ZZ|Demo' ./%s > /tmp/seed_demo.log 2>&1; echo EXIT=\\$?\"" % (wt, rel))
        else:
            rc2, o2 = sh("bash -c \"cd %s && go test -vet=off -count=1 -run 'Seed|ZZ|Demo' ./%s/ > /tmp/seed_demo.log 2>&1; echo EXIT=\\$?\"" % (wt, p))
        ok = "EXIT=0" in o2
        res[p] = ok
        meta["ran"].append({"step": "demo " + tag, "pkg": p, "passed": ok, "tail": open("/tmp/seed_demo.log").read()[-600:]})
    return res


r0 = run_demo("without the change")
rc, o = sh("git apply %s" % patch, cwd=wt)
meta["patch_applies"] = rc == 0
if rc != 0:
    print("PATCH DOES NOT APPLY", o)
rc, o = sh("go build ./...", cwd=wt)
meta["builds"] = rc == 0
tests = {}
for p in touched:
    if p.startswith("tikv") and not p.startswith("tikvrpc"):
        continue
    rc, o = sh("go test -vet=off -count=1 -skip 'Seed|Demo' ./%s/" % p, cwd=wt, timeout=3000)
    tests[p] = rc == 0
    meta["ran"].append({"step": "existing tests with the change", "pkg": p, "passed": rc == 0, "tail": o[-300:]})
meta["existing_tests_pass"] = all(tests.values())
r1 = run_demo("with the change")
meta["demo_passes_without"] = all(r0.values()) and bool(r0)
meta["demo_fails_with"] = (not all(r1.values())) and bool(r1)
# remove demo files before running our checks (they are not part of the change)
for d in demos:
    os.remove(os.path.join(wt, d))
meta["checks"] = {}
for c in checks:
    t0 = time.time()
    rc, o = sh("./check %s" % c, cwd="/verif", e=dict(os.environ, VERIF_REPO=wt), timeout=7200)
    lines = [l for l in o.splitlines() if l.startswith(("VIOLATION", "KNOWN-FINDING", "BROKEN-CHECK")) or l.startswith(c + " tier")]
    meta["checks"][c] = {"exit": rc, "wall_s": round(time.time() - t0, 1), "lines": lines[:12],
                         "labels": sorted(set(re.findall(r"violation (\S+) ", o)))[:12]}
    print(c, "exit", rc, lines[:6], meta["checks"][c]["labels"])
os.makedirs(dst, exist_ok=True)
if os.path.abspath(patch) != os.path.abspath(os.path.join(dst, "patch.diff")):
    shutil.copy(patch, os.path.join(dst, "patch.diff"))
for d in demos:
    target = os.path.join(dst, os.path.basename(os.path.dirname(d)) + "__" + os.path.basename(d))
    if os.path.abspath(os.path.join(src_wt, d)) != os.path.abspath(target):
        shutil.copy(os.path.join(src_wt, d), target)
if reeval:
    shutil.rmtree(src_wt, ignore_errors=True)
if os.path.exists(os.path.join(out, "README.md")):
    shutil.copy(os.path.join(out, "README.md"), os.path.join(dst, "README.md"))
meta["demo_files"] = demos
json.dump(meta, open(os.path.join(dst, "meta.json"), "w"), indent=1)
subprocess.run("git -C /repo worktree remove --force %s" % wt, shell=True, capture_output=True)
print(json.dumps({k: meta[k] for k in ("patch_applies", "builds", "existing_tests_pass", "demo_passes_without", "demo_fails_with")}))
