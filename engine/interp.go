// Portions derived from golang.org/x/tools/go/ssa/interp (BSD-style license,
// Copyright 2013 The Go Authors).

package main

// A symbolic interpreter for go/ssa: concrete heap, symbolic scalars, forking
// on symbolic branches by re-execution (see explore.go).

import (
	"fmt"
	"go/token"
	"go/types"
	"os"
	"runtime"
	"slices"
	"strings"
	"sync"

	"golang.org/x/tools/go/ssa"
)

type continuation int

const (
	kNext continuation = iota
	kReturn
	kJump
)

// fnInfo caches per-function data shared by all interpreters.
type fnInfo struct {
	idx    map[ssa.Value]int
	n      int
	ext    externalFn
	name   string
	policy int // polInterp, polStub, polUnsupported
	origin map[*ssa.IndexAddr]bool
}

const (
	polInterp = iota
	polStub
	polUnsupported
)

func isUnsafeBuiltin(n string) bool {
	switch strings.TrimPrefix(n, "unsafe.") {
	case "Add", "Slice", "String", "StringData", "SliceData":
		return true
	}
	return false
}

var fnInfos sync.Map // *ssa.Function -> *fnInfo

func infoOf(fn *ssa.Function) *fnInfo {
	if v, ok := fnInfos.Load(fn); ok {
		return v.(*fnInfo)
	}
	fi := &fnInfo{idx: map[ssa.Value]int{}, name: fn.String()}
	add := func(v ssa.Value) {
		fi.idx[v] = fi.n
		fi.n++
	}
	for _, p := range fn.Params {
		add(p)
	}
	for _, fv := range fn.FreeVars {
		add(fv)
	}
	for _, b := range fn.Blocks {
		for _, ins := range b.Instrs {
			if v, ok := ins.(ssa.Value); ok {
				add(v)
			}
			if ia, ok := ins.(*ssa.IndexAddr); ok {
				if refs := ia.Referrers(); refs != nil {
					for _, r := range *refs {
						switch r := r.(type) {
						case *ssa.Convert:
							if b, ok := r.Type().Underlying().(*types.Basic); ok && b.Kind() == types.UnsafePointer {
								if fi.origin == nil {
									fi.origin = map[*ssa.IndexAddr]bool{}
								}
								fi.origin[ia] = true
							}
						case *ssa.Call:
							if bi, ok := r.Call.Value.(*ssa.Builtin); ok && isUnsafeBuiltin(bi.Name()) {
								if fi.origin == nil {
									fi.origin = map[*ssa.IndexAddr]bool{}
								}
								fi.origin[ia] = true
							}
						}
					}
				}
			}
		}
	}
	if fn.Parent() == nil || fn.Synthetic != "" {
		fi.ext = externals[fi.name]
		if fi.ext == nil {
			for _, pe := range patternExternals {
				if e := pe(fn); e != nil {
					fi.ext = e
					break
				}
			}
		}
	}
	fi.policy = policyFor(fn)
	if z := zzLookup(fn); z != nil {
		fi.ext = externalFn(z)
	}
	v, _ := fnInfos.LoadOrStore(fn, fi)
	return v.(*fnInfo)
}

// State of one interpreter instance (one per worker).
type interpreter struct {
	prog               *ssa.Program
	globals            map[*ssa.Global]*value
	priv               map[*ssa.Global]*value // per-path copies of the globals under test
	sizes              types.Sizes
	runtimeErrorString types.Type
	errorsNew          *ssa.Function
	path               *pathState
	sch                *sched
	stubs              map[string]value
	side               *sideTables
	steps              int64
	maxSteps           int64
	trace              bool
	funcsSeen          map[*ssa.Function]bool
	curG               *gstate
	sharedGraph        *graph // objects reachable from non-private globals (never copied)
}

// sideTables hold per-path state of modelled runtime objects.
type sideTables struct {
	mutex   map[*value]*vmutex
	wg      map[*value]*vwg
	cond    map[*value]*vcond
	timers  map[*value]*vtimer
	origin  map[*value][]value // &x[i] -> x[i:cap]
	syncMap map[*value]*omap
	pool    map[*value][]value
	concreteRand bool // zzConcreteRand: math/rand draws are n/2 instead of symbolic
	slept   *term // ghost: total nanoseconds passed to Sleep/After/NewTimer
}

func newSideTables() *sideTables {
	return &sideTables{
		mutex:   map[*value]*vmutex{},
		wg:      map[*value]*vwg{},
		cond:    map[*value]*vcond{},
		timers:  map[*value]*vtimer{},
		origin:  map[*value][]value{},
		syncMap: map[*value]*omap{},
		pool:    map[*value][]value{},
	}
}

type deferred struct {
	fn    value
	args  []value
	instr *ssa.Defer
	tail  *deferred
}

type frame struct {
	i                *interpreter
	caller           *frame
	fn               *ssa.Function
	info             *fnInfo
	block, prevBlock *ssa.BasicBlock
	env              []value
	locals           []value
	defers           *deferred
	result           value
	panicking        bool
	panic            any
	phitemps         []value
	symIters         map[*ssa.If]int
	g                *gstate
	depth            int
}

func (fr *frame) get(key ssa.Value) value {
	switch key := key.(type) {
	case nil:
		return nil
	case *ssa.Function, *ssa.Builtin:
		return key
	case *ssa.Const:
		return constValue(key)
	case *ssa.Global:
		r, ok := fr.i.priv[key]
		if !ok {
			r, ok = fr.i.globals[key]
		}
		if ok {
			if _, isBad := (*r).(poison); isBad {
				panic(unsupported{reason: "global:" + key.String()})
			}
			return r
		}
		panic(unsupported{reason: "global (no storage): " + key.String()})
	}
	if ix, ok := fr.info.idx[key]; ok {
		v := fr.env[ix]
		if _, isP := v.(poison); isP {
			panic(unsupported{reason: "use of a value whose initialiser could not be executed: " + key.Name()})
		}
		if v == nil {
			panic(fmt.Sprintf("get: unset value %s in %s", key.Name(), fr.fn))
		}
		return v
	}
	panic(fmt.Sprintf("get: no value for %T: %v in %s", key, key.Name(), fr.fn))
}

func (fr *frame) set(key ssa.Value, v value) {
	if v == nil {
		v = tuple(nil) // calls without results
	}
	fr.env[fr.info.idx[key]] = v
}

type poison struct{}

// abortPanic unwinds a host goroutine without running target defers.
type abortPanic struct{}

// pathEnd terminates the current path (assume failed, cut, bound, ...).
type pathEnd struct {
	kind   string // "assume", "cut", "bound", "unsupported", "deadlock", "done"
	detail string
}

func isControlPanic(p any) bool {
	switch p.(type) {
	case abortPanic, pathEnd, unsupported, engineFault, *pathEnd, goroutinePanic:
		return true
	}
	if _, ok := p.(runtime.Error); ok {
		return true // engine bug: never presented to the target as a panic
	}
	return false
}

func (fr *frame) runDefer(d *deferred) {
	var ok bool
	defer func() {
		if !ok {
			p := recover()
			if isControlPanic(p) {
				panic(p)
			}
			fr.panicking = true
			fr.panic = p
		}
	}()
	call(fr.i, fr, d.instr.Pos(), d.fn, d.args)
	ok = true
}

func (fr *frame) runDefers() {
	for d := fr.defers; d != nil; d = fr.defers {
		fr.defers = d.tail
		fr.runDefer(d)
	}
	fr.defers = nil
	if fr.panicking {
		panic(fr.panic)
	}
}

func lookupMethod(i *interpreter, typ types.Type, meth *types.Func) *ssa.Function {
	return i.prog.LookupMethod(typ, meth.Pkg(), meth.Name())
}

func nilDeref() targetPanic {
	return targetPanic{msg: "runtime error: invalid memory address or nil pointer dereference"}
}

func (i *interpreter) deref(instr *ssa.UnOp, x value) value {
	switch p := x.(type) {
	case *value:
		if p == nil {
			panic(nilDeref())
		}
		return load(mustDeref(instr.X.Type()), p)
	case *viewptr:
		return p.load(i, mustDeref(instr.X.Type()))
	}
	panic(fmt.Sprintf("deref of %T", x))
}

// concInt returns the concrete int64 of an integer value, concretising
// (forking over feasible values) when it is symbolic.
func (i *interpreter) concInt(v value) int64 {
	if s, ok := v.(*sym); ok {
		return int64(i.path.concretize(s.e))
	}
	return asInt64(v)
}

func (i *interpreter) binop(instr *ssa.BinOp, x, y value) value {
	if hasSym(x, y) {
		return symBinop(i, instr.Op, instr.X.Type(), instr.Y.Type(), x, y)
	}
	switch instr.Op {
	case token.QUO, token.REM:
		if e := scalarTerm(y); e != nil && e.w > 0 && e.val == 0 {
			panic(targetPanic{msg: "runtime error: integer divide by zero"})
		}
	case token.SHL, token.SHR:
		if _, signed, ok := basicInfo(instr.Y.Type()); ok && signed && asInt64(y) < 0 {
			panic(targetPanic{msg: "runtime error: negative shift amount"})
		}
	case token.EQL, token.NEQ:
		r := eqnil(instr.X.Type(), x, y)
		if instr.Op == token.EQL {
			return r
		}
		if b, ok := r.(bool); ok {
			return !b
		}
		return boolVal(tNot(r.(*sym).e))
	}
	return concBinop(instr.Op, instr.X.Type(), x, y)
}

func visitInstr(fr *frame, instr ssa.Instruction) continuation {
	in := fr.i
	switch instr := instr.(type) {
	case *ssa.DebugRef:
		// no-op

	case *ssa.UnOp:
		fr.set(instr, unop(in, instr, fr.get(instr.X)))

	case *ssa.BinOp:
		fr.set(instr, in.binop(instr, fr.get(instr.X), fr.get(instr.Y)))

	case *ssa.Call:
		fn, args := prepareCall(fr, &instr.Call)
		fr.set(instr, call(in, fr, instr.Pos(), fn, args))

	case *ssa.ChangeInterface:
		fr.set(instr, fr.get(instr.X))

	case *ssa.ChangeType:
		fr.set(instr, fr.get(instr.X))

	case *ssa.Convert:
		fr.set(instr, conv(in, instr.Type(), instr.X.Type(), fr.get(instr.X)))

	case *ssa.MultiConvert:
		fr.set(instr, conv(in, instr.Type(), instr.X.Type(), fr.get(instr.X)))

	case *ssa.SliceToArrayPointer:
		fr.set(instr, sliceToArrayPointer(instr.Type(), instr.X.Type(), fr.get(instr.X)))

	case *ssa.MakeInterface:
		fr.set(instr, iface{t: instr.X.Type(), v: fr.get(instr.X)})

	case *ssa.Extract:
		fr.set(instr, fr.get(instr.Tuple).(tuple)[instr.Index])

	case *ssa.Slice:
		fr.set(instr, slice(in, fr.get(instr.X), fr.get(instr.Low), fr.get(instr.High), fr.get(instr.Max)))

	case *ssa.Return:
		switch len(instr.Results) {
		case 0:
		case 1:
			fr.result = fr.get(instr.Results[0])
		default:
			var res []value
			for _, r := range instr.Results {
				res = append(res, fr.get(r))
			}
			fr.result = tuple(res)
		}
		fr.block = nil
		return kReturn

	case *ssa.RunDefers:
		fr.runDefers()

	case *ssa.Panic:
		panic(targetPanic{v: fr.get(instr.X)})

	case *ssa.Send:
		in.chanSend(fr.get(instr.Chan).(*channel), fr.get(instr.X))

	case *ssa.Store:
		addr := fr.get(instr.Addr)
		switch a := addr.(type) {
		case *value:
			if a == nil {
				panic(nilDeref())
			}
			store(mustDeref(instr.Addr.Type()), a, fr.get(instr.Val))
		case *viewptr:
			a.store(in, mustDeref(instr.Addr.Type()), fr.get(instr.Val))
		default:
			panic(fmt.Sprintf("store to %T", addr))
		}

	case *ssa.If:
		succ := 1
		c := fr.get(instr.Cond)
		switch c := c.(type) {
		case bool:
			if c {
				succ = 0
			}
		case *sym:
			if fr.symIters == nil {
				fr.symIters = map[*ssa.If]int{}
			}
			fr.symIters[instr]++
			if fr.symIters[instr] > in.path.unwind {
				panic(pathEnd{"bound", fmt.Sprintf("symbolic branch at %s taken more than %d times in one frame of %s",
					in.prog.Fset.Position(instr.Pos()), in.path.unwind, fr.fn)})
			}
			if in.path.branch(c.e) {
				succ = 0
			}
		}
		fr.prevBlock, fr.block = fr.block, fr.block.Succs[succ]
		return kJump

	case *ssa.Jump:
		fr.prevBlock, fr.block = fr.block, fr.block.Succs[0]
		return kJump

	case *ssa.Defer:
		fn, args := prepareCall(fr, &instr.Call)
		defers := &fr.defers
		if instr.DeferStack != nil {
			if into := fr.get(instr.DeferStack); into != nil {
				defers = into.(**deferred)
			}
		}
		*defers = &deferred{fn: fn, args: args, instr: instr, tail: *defers}

	case *ssa.Go:
		fn, args := prepareCall(fr, &instr.Call)
		in.spawn(fn, args, instr.Pos())

	case *ssa.MakeChan:
		fr.set(instr, newChannel(int(in.concInt(fr.get(instr.Size)))))

	case *ssa.Alloc:
		var addr *value
		if instr.Heap {
			addr = new(value)
			fr.set(instr, addr)
		} else {
			addr = fr.env[fr.info.idx[instr]].(*value)
		}
		*addr = zero(mustDeref(instr.Type()))

	case *ssa.MakeSlice:
		n := in.concInt(fr.get(instr.Cap))
		l := in.concInt(fr.get(instr.Len))
		if l < 0 || n < l || n > 1<<26 {
			panic(targetPanic{msg: fmt.Sprintf("runtime error: makeslice: len/cap out of range (%d,%d)", l, n)})
		}
		sl := make([]value, n)
		tElt := instr.Type().Underlying().(*types.Slice).Elem()
		z := zero(tElt)
		switch z.(type) {
		case structure, array:
			for i := range sl {
				sl[i] = zero(tElt)
			}
		default:
			for i := range sl {
				sl[i] = z
			}
		}
		fr.set(instr, sl[:l])

	case *ssa.MakeMap:
		fr.set(instr, makeMap(instr.Type().Underlying().(*types.Map).Key()))

	case *ssa.Range:
		fr.set(instr, rangeIter(fr.get(instr.X)))

	case *ssa.Next:
		fr.set(instr, fr.get(instr.Iter).(iter).next())

	case *ssa.FieldAddr:
		switch p := fr.get(instr.X).(type) {
		case *value:
			if p == nil {
				panic(nilDeref())
			}
			fr.set(instr, &(*p).(structure)[instr.Field])
		case *viewptr:
			fr.set(instr, p.fieldAddr(in, mustDeref(instr.X.Type()), instr.Field))
		default:
			panic(fmt.Sprintf("FieldAddr on %T", p))
		}

	case *ssa.Field:
		fr.set(instr, fr.get(instr.X).(structure)[instr.Field])

	case *ssa.IndexAddr:
		x := fr.get(instr.X)
		idx := in.concInt(fr.get(instr.Index))
		switch x := x.(type) {
		case []value:
			if idx < 0 || idx >= int64(len(x)) {
				panic(targetPanic{msg: fmt.Sprintf("runtime error: index out of range [%d] with length %d", idx, len(x))})
			}
			p := &x[idx]
			if fr.info.origin[instr] {
				in.side.origin[p] = x[idx:cap(x)]
			}
			fr.set(instr, p)
		case *value: // *array
			if x == nil {
				panic(nilDeref())
			}
			a := (*x).(array)
			if idx < 0 || idx >= int64(len(a)) {
				panic(targetPanic{msg: fmt.Sprintf("runtime error: index out of range [%d] with length %d", idx, len(a))})
			}
			p := &a[idx]
			if fr.info.origin[instr] {
				in.side.origin[p] = a[idx:]
			}
			fr.set(instr, p)
		case *viewptr:
			fr.set(instr, x.indexAddr(in, mustDeref(instr.X.Type()), idx))
		case *viewslice:
			es := sizeofT(x.elem)
			if idx < 0 || idx >= int64(x.n) {
				panic(targetPanic{msg: fmt.Sprintf("runtime error: index out of range [%d] with length %d", idx, x.n)})
			}
			if (idx+1)*es > int64(len(x.base)) {
				panic(targetPanic{msg: "runtime error: reinterpreted slice access beyond the backing array (undefined behaviour natively)"})
			}
			fr.set(instr, &viewptr{base: x.base[idx*es:], t: x.elem})
		default:
			panic(fmt.Sprintf("unexpected x type in IndexAddr: %T", x))
		}

	case *ssa.Index:
		x := fr.get(instr.X)
		idx := in.concInt(fr.get(instr.Index))
		var n int
		switch x := x.(type) {
		case array:
			n = len(x)
		case string:
			n = len(x)
		case sstr:
			n = len(x)
		}
		if idx < 0 || idx >= int64(n) {
			panic(targetPanic{msg: fmt.Sprintf("runtime error: index out of range [%d] with length %d", idx, n)})
		}
		switch x := x.(type) {
		case array:
			fr.set(instr, copyVal(x[idx]))
		case string:
			fr.set(instr, x[idx])
		case sstr:
			fr.set(instr, x[idx])
		default:
			panic(fmt.Sprintf("unexpected x type in Index: %T", x))
		}

	case *ssa.Lookup:
		x := fr.get(instr.X)
		if isStr(x) {
			// string index
			idx := in.concInt(fr.get(instr.Index))
			bs := strBytes(x)
			if idx < 0 || idx >= int64(len(bs)) {
				panic(targetPanic{msg: fmt.Sprintf("runtime error: index out of range [%d] with length %d", idx, len(bs))})
			}
			fr.set(instr, bs[idx])
		} else {
			fr.set(instr, lookup(in, instr, x, fr.get(instr.Index)))
		}

	case *ssa.MapUpdate:
		m := fr.get(instr.Map).(*omap)
		m.insert(in, fr.get(instr.Key), copyVal(fr.get(instr.Value)))

	case *ssa.TypeAssert:
		fr.set(instr, typeAssert(instr, fr.get(instr.X).(iface)))

	case *ssa.MakeClosure:
		var bindings []value
		for _, binding := range instr.Bindings {
			bindings = append(bindings, fr.get(binding))
		}
		fr.set(instr, &closure{instr.Fn.(*ssa.Function), bindings})

	case *ssa.Phi:
		panic("unreachable: phi")

	case *ssa.Select:
		fr.set(instr, in.doSelect(instr, fr))

	default:
		panic(fmt.Sprintf("unexpected instruction: %T", instr))
	}
	return kNext
}

func prepareCall(fr *frame, call *ssa.CallCommon) (fn value, args []value) {
	v := fr.get(call.Value)
	if call.Method == nil {
		fn = v
	} else {
		recv := v.(iface)
		if recv.t == nil {
			if isStubType(call.Value.Type()) {
				res := call.Signature().Results()
				var z value
				switch res.Len() {
				case 0:
				case 1:
					z = zero(res.At(0).Type())
				default:
					z = zero(res)
				}
				return hostFn(func(*interpreter, []value) value { return z }), nil
			}
			panic(nilDeref())
		}
		if f := lookupMethod(fr.i, recv.t, call.Method); f == nil {
			panic(fmt.Sprintf("method set for dynamic type %v does not contain %s", recv.t, call.Method))
		} else {
			fn = f
		}
		args = append(args, recv.v)
	}
	for _, arg := range call.Args {
		args = append(args, copyVal(fr.get(arg)))
	}
	return
}

func call(i *interpreter, caller *frame, callpos token.Pos, fn value, args []value) value {
	switch fn := fn.(type) {
	case *ssa.Function:
		if fn == nil {
			panic(nilDeref())
		}
		return callSSA(i, caller, callpos, fn, args, nil)
	case *closure:
		if fn == nil {
			panic(nilDeref())
		}
		return callSSA(i, caller, callpos, fn.Fn, args, fn.Env)
	case *ssa.Builtin:
		return callBuiltin(caller, fn, args)
	case hostFn:
		return fn(i, args)
	}
	panic(fmt.Sprintf("cannot call %T", fn))
}

// hostFn is an engine-implemented function value callable by target code.
type hostFn func(i *interpreter, args []value) value

func loc(fset *token.FileSet, pos token.Pos) string {
	if pos == token.NoPos {
		return ""
	}
	return " at " + fset.Position(pos).String()
}

const maxDepth = 4000

func callSSA(i *interpreter, caller *frame, callpos token.Pos, fn *ssa.Function, args []value, env []value) value {
	info := infoOf(fn)
	if i.trace {
		fmt.Fprintf(os.Stderr, "Entering %s%s\n", fn, loc(fn.Prog.Fset, fn.Pos()))
	}
	fr := &frame{i: i, caller: caller, fn: fn, info: info}
	if caller != nil {
		fr.depth = caller.depth + 1
		if fr.depth > maxDepth {
			panic(pathEnd{"bound", "call depth exceeded in " + fn.String()})
		}
	}
	if len(i.stubs) > 0 {
		if st, ok := i.stubs[info.name]; ok {
			return call(i, caller, callpos, st, args)
		}
	}
	if info.ext != nil {
		return info.ext(fr, args)
	}
	if fn.Pkg != nil && fn.Name() == "init" && fn.Signature.Recv() == nil && fn.Parent() == nil {
		if g, ok := fn.Pkg.Members["init$guard"].(*ssa.Global); ok {
			if done, _ := (*i.globals[g]).(bool); done {
				return nil
			}
		}
	}
	switch info.policy {
	case polStub:
		return zeroResults(fn)
	case polUnsupported:
		panic(unsupported{reason: "call:" + info.name})
	}
	if fn.Blocks == nil {
		panic(unsupported{reason: "no code for function: " + info.name})
	}
	if fn.TypeParams().Len() > 0 && len(fn.TypeArgs()) == 0 {
		panic(unsupported{reason: "uninstantiated generic: " + info.name})
	}
	if i.funcsSeen != nil {
		i.funcsSeen[fn] = true
	}

	fr.env = make([]value, info.n)
	fr.block = fn.Blocks[0]
	fr.locals = make([]value, len(fn.Locals))
	for k, l := range fn.Locals {
		fr.locals[k] = zero(mustDeref(l.Type()))
		fr.env[info.idx[l]] = &fr.locals[k]
	}
	for k, p := range fn.Params {
		fr.env[info.idx[p]] = args[k]
	}
	for k, fv := range fn.FreeVars {
		fr.env[info.idx[fv]] = env[k]
	}
	for fr.block != nil {
		runFrame(fr)
	}
	return fr.result
}

func zeroResults(fn *ssa.Function) value {
	res := fn.Signature.Results()
	switch res.Len() {
	case 0:
		return nil
	case 1:
		return zero(res.At(0).Type())
	}
	return zero(res)
}

func runFrame(fr *frame) {
	defer func() {
		if fr.block == nil {
			return // normal return
		}
		p := recover()
		if u, ok := p.(unsupported); ok && u.stack == "" {
			u.stack = stackOf(fr)
			panic(u)
		}
		if re, ok := p.(runtime.Error); ok {
			panic(engineFault{fmt.Sprintf("host runtime error: %v; target stack:%s", re, stackOf(fr))})
		}
		if isControlPanic(p) {
			panic(p)
		}
		if s, ok := p.(string); ok {
			// interpreter-internal invariant failure
			panic(engineFault{fmt.Sprintf("%s (in %s)", s, fr.fn)})
		}
		fr.panicking = true
		fr.panic = p
		fr.runDefers()
		fr.block = fr.fn.Recover
		if fr.block == nil {
			// no named results: return zero values
			fr.result = zeroResults(fr.fn)
		}
	}()

	in := fr.i
	for {
		nonPhis := executePhis(fr)
		for _, instr := range nonPhis {
			in.steps++
			if stepDump > 0 && in.steps%stepDump == 0 {
				fmt.Fprintf(os.Stderr, "STEPDUMP steps=%d g=%d%s\n", in.steps, in.curG.id, stackOf(fr))
			}
			if in.steps > in.maxSteps {
				panic(pathEnd{"bound", fmt.Sprintf("instruction budget %d exhausted in %s", in.maxSteps, fr.fn)})
			}
			if in.trace {
				if v, ok := instr.(ssa.Value); ok {
					fmt.Fprintln(os.Stderr, "\t", v.Name(), "=", instr)
				} else {
					fmt.Fprintln(os.Stderr, "\t", instr)
				}
			}
			if visitInstr(fr, instr) == kReturn {
				return
			}
		}
	}
}

var stepDump = func() int64 {
	var n int64
	fmt.Sscanf(os.Getenv("GOSX_STEPDUMP"), "%d", &n)
	return n
}()

func stackOf(fr *frame) string {
	out := ""
	for n := 0; fr != nil && n < 14; fr, n = fr.caller, n+1 {
		out += " <- " + fr.fn.String()
	}
	return out
}

func executePhis(fr *frame) []ssa.Instruction {
	firstNonPhi := -1
	for i, instr := range fr.block.Instrs {
		if _, ok := instr.(*ssa.Phi); !ok {
			firstNonPhi = i
			break
		}
	}
	nonPhis := fr.block.Instrs[firstNonPhi:]
	if firstNonPhi > 0 {
		phis := fr.block.Instrs[:firstNonPhi]
		predIndex := slices.Index(fr.block.Preds, fr.prevBlock)
		fr.phitemps = fr.phitemps[:0]
		for _, phi := range phis {
			phi := phi.(*ssa.Phi)
			fr.phitemps = append(fr.phitemps, fr.get(phi.Edges[predIndex]))
		}
		for i, phi := range phis {
			fr.set(phi.(*ssa.Phi), fr.phitemps[i])
		}
	}
	return nonPhis
}

func doRecover(caller *frame) value {
	if caller != nil && !caller.panicking &&
		caller.caller != nil && caller.caller.panicking {
		caller.caller.panicking = false
		p := caller.caller.panic
		caller.caller.panic = nil
		switch p := p.(type) {
		case targetPanic:
			if p.msg != "" {
				return caller.i.runtimeError(p.msg)
			}
			return p.v
		default:
			panic(fmt.Sprintf("unexpected panic type %T in target call to recover()", p))
		}
	}
	return iface{}
}

// runtimeError builds an error value for a runtime panic message.
func (i *interpreter) runtimeError(msg string) value {
	if i.errorsNew != nil {
		return call(i, nil, token.NoPos, i.errorsNew, []value{msg})
	}
	return iface{t: types.Typ[types.String], v: msg}
}
