package main

// Path exploration by re-execution with a decision prefix.

import (
	"fmt"
	"sort"
	"strings"
	"sync"
	"sync/atomic"
	"time"
)

type decision struct {
	Kind byte     `json:"k"` // 'b' branch, 'c' choice, 'v' concretize
	B    bool     `json:"b,omitempty"`
	N    int      `json:"n,omitempty"`    // choice value
	Val  uint64   `json:"v,omitempty"`    // concretized value
	Set  bool     `json:"s,omitempty"`    // Val is fixed
	Excl []uint64 `json:"x,omitempty"`    // values excluded for a 'v' decision
	Of   int      `json:"of,omitempty"`   // choice arity
	Tag  string   `json:"tag,omitempty"`
}

type inputRec struct {
	Name string `json:"name"`
	W    int    `json:"w"`
	t    *term
}

// draw is one harness-level nondeterministic value (for native replay).
type draw struct {
	Kind string `json:"kind"` // "u","choice"
	Name string `json:"name"`
	W    int    `json:"w,omitempty"`
	Val  uint64 `json:"val"`
	t    *term
}

type violation struct {
	Harness string            `json:"harness"`
	Label   string            `json:"label"`
	Kind    string            `json:"kind"` // "assert", "panic"
	Detail  string            `json:"detail,omitempty"`
	Draws   []draw            `json:"draws"`
	Trace   []decision        `json:"trace"`
	Model   map[string]uint64 `json:"model,omitempty"`
	Notes   map[string]string `json:"notes,omitempty"`
}

type pathResult struct {
	end        string // "done", "assume", "cut:<r>", "bound:<d>", "unsupported:<r>", "deadlock:..", "panic:<msg>"
	violations []violation
	steps      int64
}

type pathState struct {
	ranges  map[string]urange
	ex      *explorer
	w       *worker
	prefix  []decision
	pos     int
	trace   []decision
	pc      []*term
	flushed int
	decls   []string
	declPos int
	varSeq  int
	draws   []draw
	unwind  int
	defs    int
	pr      *printer
	defsBuf strings.Builder
	violations []violation
	notes   map[string]string
	cuts    []string
	harness string
	concrete map[string]uint64 // replay mode: draw values by sequence
	replayDraws []draw
	replayPos int
	nBranch int
	decided map[termKey]bool // conditions already asserted on this path -> their truth value
	memoHits int
	pcHash   termKey // running hash of the asserted path condition (order-sensitive)
	noPush   bool    // the last check() was answered from the cross-path cache (nothing to pop)
}

type explorer struct {
	mu        sync.Mutex
	cond      *sync.Cond
	work      [][]decision
	active    int
	stopped   bool
	maxPaths  int
	deadline  time.Time
	harness   string
	// results
	paths      int
	ends       map[string]int
	violations []violation
	reached    map[string]int
	asserts    map[string]int
	samples    []string
	branches   int
	truncated  string
	unwind     int
	maxSteps   int64
	cutReasons map[string]int
	unknowns   int
	stepsTotal int64
	maxViol    int
	vectors    []vector
	maxVectors int
	doneSeen   int
	usesStubs  bool
	violDeadline time.Time
	violGrace    time.Duration
	retried      int
	crossChecked int
	crossUnknown int
	qcache     sync.Map // qkey -> "sat"/"unsat"
	cacheHits  atomic.Int64
}

// vector is a concrete input assignment for a completed path (used to
// cross-validate the interpreter against the native build).
type vector struct {
	Harness string `json:"harness"`
	Draws   []draw `json:"draws"`
	End     string `json:"end"`
}

func newExplorer(harness string) *explorer {
	e := &explorer{harness: harness, ends: map[string]int{}, reached: map[string]int{}, asserts: map[string]int{},
		cutReasons: map[string]int{}, unwind: 64, maxSteps: 200_000_000, maxPaths: 1 << 30, maxViol: 8, maxVectors: 24, violGrace: 30 * time.Second}
	e.cond = sync.NewCond(&e.mu)
	e.work = [][]decision{nil}
	return e
}

func (e *explorer) push(p []decision) {
	cp := make([]decision, len(p))
	copy(cp, p)
	e.mu.Lock()
	e.work = append(e.work, cp)
	e.mu.Unlock()
	e.cond.Signal()
}

// take returns the next prefix, or ok=false when exploration is finished.
func (e *explorer) take() ([]decision, bool) {
	e.mu.Lock()
	defer e.mu.Unlock()
	for {
		if e.stopped {
			return nil, false
		}
		if len(e.work) > 0 {
			if e.paths+e.active >= e.maxPaths {
				e.truncated = fmt.Sprintf("path limit %d reached", e.maxPaths)
				e.stopped = true
				e.cond.Broadcast()
				return nil, false
			}
			if !e.violDeadline.IsZero() && time.Now().After(e.violDeadline) {
				e.truncated = "stopped after a violation was found (grace period over)"
				e.stopped = true
				e.cond.Broadcast()
				return nil, false
			}
			if !e.deadline.IsZero() && time.Now().After(e.deadline) {
				e.truncated = "time limit reached"
				e.stopped = true
				e.cond.Broadcast()
				return nil, false
			}
			p := e.work[len(e.work)-1]
			e.work = e.work[:len(e.work)-1]
			e.active++
			return p, true
		}
		if e.active == 0 {
			e.cond.Broadcast()
			return nil, false
		}
		e.cond.Wait()
	}
}

func (e *explorer) finish(ps *pathState, res pathResult) {
	e.mu.Lock()
	defer e.mu.Unlock()
	e.active--
	e.paths++
	e.stepsTotal += res.steps
	key := res.end
	if i := strings.Index(key, ":"); i >= 0 && !strings.HasPrefix(key, "unsupported") && !strings.HasPrefix(key, "cut") {
		key = key[:i]
	}
	e.ends[key]++
	if strings.HasPrefix(res.end, "cut:") {
		e.cutReasons[res.end[4:]]++
	}
	e.branches += ps.nBranch
	for _, v := range res.violations {
		same := 0
		for _, o := range e.violations {
			if o.Label == v.Label {
				same++
			}
		}
		if same < 2 && len(e.violations) < e.maxViol {
			e.violations = append(e.violations, v)
		}
	}
	if len(e.violations) >= e.maxViol {
		e.stopped = true
	}
	if len(e.violations) > 0 && e.violDeadline.IsZero() {
		// a violation is already in hand: look for other violated labels for a
		// bounded time only (a broken tree can make every remaining path slow)
		e.violDeadline = time.Now().Add(e.violGrace)
	}
	if len(e.samples) < 5 {
		e.samples = append(e.samples, ps.summary(res))
	}
	e.cond.Broadcast()
}

func (ps *pathState) summary(res pathResult) string {
	var sb strings.Builder
	fmt.Fprintf(&sb, "end=%s decisions=%d draws=[", res.end, len(ps.trace))
	for i, d := range ps.draws {
		if i > 12 {
			sb.WriteString("...")
			break
		}
		if d.Kind == "choice" {
			fmt.Fprintf(&sb, "%s=%d ", d.Name, d.Val)
		} else {
			fmt.Fprintf(&sb, "%s:bv%d ", d.Name, d.W)
		}
	}
	sb.WriteString("] pc=")
	n := 0
	for _, c := range ps.pc {
		if n > 3 {
			sb.WriteString(" ...")
			break
		}
		s := c.String()
		if len(s) > 160 {
			s = s[:160] + "…"
		}
		sb.WriteString(s + " ")
		n++
	}
	return sb.String()
}

// ---- per-path solver interaction -------------------------------------------------------

func (ps *pathState) begin() {
	if ps.w.solver != nil {
		ps.w.solver.send("(push 1)\n")
	}
	ps.pr = &printer{names: map[*term]string{}, defs: &ps.defsBuf, n: &ps.defs}
}

func (ps *pathState) end() {
	if ps.w.solver != nil {
		ps.w.solver.send("(pop 1)\n")
	}
}

func (ps *pathState) fresh(name string, w int) *term {
	ps.varSeq++
	clean := strings.Map(func(r rune) rune {
		if (r >= 'a' && r <= 'z') || (r >= 'A' && r <= 'Z') || (r >= '0' && r <= '9') || r == '_' {
			return r
		}
		return '_'
	}, name)
	t := tVar(fmt.Sprintf("v%d_%s", ps.varSeq, clean), w)
	ps.decls = append(ps.decls, fmt.Sprintf("(declare-const %s %s)\n", t.name, sortOf(w)))
	return t
}

// flush sends pending declarations and path-condition conjuncts.
func (ps *pathState) flush() {
	s := ps.w.solver
	var sb strings.Builder
	for ; ps.declPos < len(ps.decls); ps.declPos++ {
		sb.WriteString(ps.decls[ps.declPos])
	}
	var asserts strings.Builder
	for ; ps.flushed < len(ps.pc); ps.flushed++ {
		r := ps.pr.ref(ps.pc[ps.flushed])
		asserts.WriteString("(assert " + r + ")\n")
	}
	sb.WriteString(ps.defsBuf.String())
	ps.defsBuf.Reset()
	sb.WriteString(asserts.String())
	if sb.Len() > 0 {
		s.send(sb.String())
	}
}

type qkey struct{ pc, c termKey }

// checkCached is check() for callers that only need the verdict: identical
// (path condition, query) pairs recur on every path that shares a prefix, so
// verdicts are shared across paths and workers.
func (ps *pathState) checkCached(extra *term) string {
	if extra.isFalse() {
		ps.noPush = true
		return "unsat"
	}
	k := qkey{ps.pcHash, extra.key()}
	if v, ok := ps.ex.qcache.Load(k); ok {
		ps.noPush = true
		ps.ex.cacheHits.Add(1)
		return v.(string)
	}
	r := ps.check(extra)
	if r == "unknown" {
		if r2 := ps.retryFresh(extra); r2 != "unknown" {
			r = r2
		}
	}
	if r == "sat" || r == "unsat" {
		ps.ex.qcache.Store(k, r)
	}
	return r
}

// check decides satisfiability of pc ∧ extra.
func (ps *pathState) check(extra *term) string {
	ps.noPush = false
	if extra.isFalse() {
		ps.noPush = true
		return "unsat"
	}
	s := ps.w.solver
	if s == nil {
		panic(engineFault{"symbolic query in concrete mode"})
	}
	ps.flush()
	// definitions made while printing `extra` must live outside the inner
	// push so that names cached in the printer stay valid
	r := ps.pr.ref(extra)
	var sb strings.Builder
	for ; ps.declPos < len(ps.decls); ps.declPos++ {
		sb.WriteString(ps.decls[ps.declPos])
	}
	sb.WriteString(ps.defsBuf.String())
	ps.defsBuf.Reset()
	sb.WriteString("(push 1)\n(assert " + r + ")\n")
	s.send(sb.String())
	res := s.checkSat()
	return res
}

func (ps *pathState) popQuery() {
	if ps.noPush {
		ps.noPush = false
		return
	}
	ps.w.solver.send("(pop 1)\n")
}

func (ps *pathState) assert(c *term) {
	if c.isTrue() {
		return
	}
	ps.pc = append(ps.pc, c)
	k := c.key()
	ps.pcHash = termKey{(ps.pcHash.a ^ k.a) * 1099511628211, (ps.pcHash.b + k.b + (ps.pcHash.b << 7)) * 0x9E3779B97F4A7C15}
	if ps.decided == nil {
		ps.decided = map[termKey]bool{}
	}
	if c.op == "not" {
		ps.decided[c.args[0].key()] = false
	} else {
		ps.decided[c.key()] = true
	}
}

// known reports whether c was already decided on this path (the path
// condition only grows, so the recorded side stays the only feasible one).
func (ps *pathState) known(c *term) (bool, bool) {
	if ps.decided == nil {
		return false, false
	}
	if c.op == "not" {
		if v, ok := ps.decided[c.args[0].key()]; ok {
			return !v, true
		}
		return false, false
	}
	v, ok := ps.decided[c.key()]
	return v, ok
}

// branch decides a symbolic condition, forking when both sides are feasible.
func (ps *pathState) branch(c *term) bool {
	if c.isConst() {
		return c.val == 1
	}
	if v, ok := ps.known(c); ok {
		ps.memoHits++
		return v
	}
	if v, ok := ps.decideByRange(c); ok {
		ps.memoHits++
		return v
	}
	ps.nBranch++
	if ps.pos < len(ps.prefix) {
		d := ps.prefix[ps.pos]
		ps.pos++
		if d.Kind != 'b' {
			panic(engineFault{fmt.Sprintf("replay divergence: expected %c decision, got branch", d.Kind)})
		}
		ps.trace = append(ps.trace, d)
		if d.B {
			ps.assert(c)
		} else {
			ps.assert(tNot(c))
		}
		return d.B
	}
	rt := ps.checkCached(c)
	ps.popQuery()
	var rf string
	if rt == "unsat" {
		rf = "sat" // pc is satisfiable by construction
	} else {
		rf = ps.checkCached(tNot(c))
		ps.popQuery()
	}
	if rt == "unknown" || rf == "unknown" {
		ps.ex.mu.Lock()
		ps.ex.unknowns++
		ps.ex.mu.Unlock()
	}
	tOK := rt != "unsat"
	fOK := rf != "unsat"
	switch {
	case tOK && fOK:
		alt := append(append([]decision{}, ps.trace...), decision{Kind: 'b', B: false})
		ps.ex.push(alt)
		ps.trace = append(ps.trace, decision{Kind: 'b', B: true})
		ps.assert(c)
		return true
	case tOK:
		ps.trace = append(ps.trace, decision{Kind: 'b', B: true})
		ps.assert(c)
		return true
	case fOK:
		ps.trace = append(ps.trace, decision{Kind: 'b', B: false})
		ps.assert(tNot(c))
		return false
	}
	panic(engineFault{"both sides of a branch infeasible: path condition unsatisfiable"})
}

// choice returns a value in [0,n), forking over all of them.
func (ps *pathState) choice(n int, tag string) int {
	if n <= 1 {
		return 0
	}
	ps.nBranch++
	if ps.pos < len(ps.prefix) {
		d := ps.prefix[ps.pos]
		ps.pos++
		if d.Kind != 'c' {
			panic(engineFault{fmt.Sprintf("replay divergence: expected %c decision, got choice(%s)", d.Kind, tag)})
		}
		ps.trace = append(ps.trace, d)
		return d.N
	}
	for k := n - 1; k >= 1; k-- {
		alt := append(append([]decision{}, ps.trace...), decision{Kind: 'c', N: k, Of: n, Tag: tag})
		ps.ex.push(alt)
	}
	ps.trace = append(ps.trace, decision{Kind: 'c', N: 0, Of: n, Tag: tag})
	return 0
}

// concretize picks a feasible value of t and forks over the alternatives.
func (ps *pathState) concretize(t *term) uint64 {
	if t.isConst() {
		return t.val
	}
	var excl []uint64
	if ps.pos < len(ps.prefix) {
		d := ps.prefix[ps.pos]
		ps.pos++
		if d.Kind != 'v' {
			panic(engineFault{fmt.Sprintf("replay divergence: expected %c decision, got concretize", d.Kind)})
		}
		if d.Set {
			ps.trace = append(ps.trace, d)
			ps.assert(tCmp("=", t, tConst(t.w, d.Val)))
			return d.Val
		}
		excl = d.Excl
	}
	// ask the solver for a value outside excl
	var cs []*term
	for _, x := range excl {
		cs = append(cs, tNot(tCmp("=", t, tConst(t.w, x))))
	}
	// name the term before the query: definitions made while printing it must be sent (and live)
	// outside the query's push scope
	tref := ps.pr.ref(t)
	r := ps.check(tAnd(cs...))
	if r != "sat" {
		ps.popQuery()
		if r == "unknown" {
			panic(pathEnd{"unknown", "solver could not produce a value to concretize"})
		}
		panic(pathEnd{"infeasible", "no further value"})
	}
	// evaluate t in the model
	probe := ps.w.solver
	probe.send(fmt.Sprintf("(get-value (%s))\n", tref))
	resp := probe.readSexp()
	ps.popQuery()
	v, ok := parseGetValueSingle(resp)
	if !ok {
		panic(engineFault{"cannot parse get-value response: " + resp})
	}
	if len(excl) > 4096 {
		panic(pathEnd{"bound", "concretization enumerated more than 4096 values"})
	}
	alt := append(append([]decision{}, ps.trace...), decision{Kind: 'v', Excl: append(append([]uint64{}, excl...), v)})
	ps.ex.push(alt)
	ps.trace = append(ps.trace, decision{Kind: 'v', Val: v, Set: true})
	ps.assert(tCmp("=", t, tConst(t.w, v)))
	return v
}

func parseGetValueSingle(resp string) (uint64, bool) {
	toks := tokenize(resp)
	// ((expr value)) — value is the last atom before the closing parens
	if len(toks) < 5 {
		return 0, false
	}
	// find last non-")" token; handle (_ bvN w)
	j := len(toks) - 1
	for j >= 0 && toks[j] == ")" {
		j--
	}
	if j < 0 {
		return 0, false
	}
	if j >= 2 && toks[j-2] == "_" && strings.HasPrefix(toks[j-1], "bv") {
		var n uint64
		fmt.Sscanf(toks[j-1][2:], "%d", &n)
		return n, true
	}
	v := toks[j]
	if v == "true" || v == "false" || strings.HasPrefix(v, "#") {
		return parseSMTValue(v), true
	}
	return 0, false
}

// assume adds c to the path condition, ending the path if infeasible.
func (ps *pathState) assume(c *term) {
	if c.isTrue() {
		return
	}
	if c.isFalse() {
		panic(pathEnd{"assume", ""})
	}
	if v, ok := ps.known(c); ok {
		if !v {
			panic(pathEnd{"assume", ""})
		}
		return
	}
	if v, ok := ps.decideByRange(c); ok {
		if !v {
			panic(pathEnd{"assume", ""})
		}
		return
	}
	if ps.pos < len(ps.prefix) {
		// still replaying a known-feasible prefix: the assume held there
		ps.assert(c)
		return
	}
	r := ps.checkCached(c)
	ps.popQuery()
	if r == "unsat" {
		panic(pathEnd{"assume", ""})
	}
	ps.assert(c)
}

// assertion checks c at an assertion site.
func (ps *pathState) assertion(c *term, label string) {
	ex := ps.ex
	ex.mu.Lock()
	ex.reached[label]++
	ex.mu.Unlock()
	if c.isTrue() {
		return
	}
	var model map[string]uint64
	if c.isFalse() {
		model = ps.model(nil)
	} else {
		ex.mu.Lock()
		ex.asserts[label]++
		ex.mu.Unlock()
		r := ps.check(tNot(c))
		if ps.w.cross != nil && (r == "sat" || r == "unsat") {
			ps.crossCheck(tNot(c), r, label)
		}
		if r == "unsat" {
			ps.popQuery()
			ps.assert(c)
			return
		}
		if r == "unknown" {
			if r2 := ps.retryFresh(tNot(c)); r2 == "unsat" {
				ps.popQuery()
				ps.assert(c)
				return
			}
			ps.popQuery()
			panic(pathEnd{"unknown", "assertion " + label + " undecided by the solver"})
		}
		model = ps.modelInScope()
		ps.popQuery()
	}
	ps.recordViolation("assert", label, "", model)
	if c.isFalse() {
		panic(pathEnd{"violation", label})
	}
	// continue only with the inputs for which the assertion holds; if there are
	// none the path ends here (otherwise the path condition would be unsatisfiable)
	r := ps.check(c)
	ps.popQuery()
	if r != "sat" {
		panic(pathEnd{"violation", label})
	}
	ps.assert(c)
}

// standalone prints pc ∧ q as a self-contained script (declarations, definitions, assertions).
func (ps *pathState) standalone(q *term) string {
	var defs strings.Builder
	n := 0
	pr := &printer{names: map[*term]string{}, defs: &defs, n: &n}
	vars := map[string]int{}
	seen := map[*term]bool{}
	var walk func(t *term)
	walk = func(t *term) {
		if seen[t] {
			return
		}
		seen[t] = true
		if t.op == "var" {
			vars[t.name] = t.w
		}
		for _, a := range t.args {
			walk(a)
		}
	}
	all := append(append([]*term{}, ps.pc...), q)
	for _, c := range all {
		walk(c)
	}
	names := make([]string, 0, len(vars))
	for v := range vars {
		names = append(names, v)
	}
	sort.Strings(names)
	var decl, asserts strings.Builder
	for _, v := range names {
		fmt.Fprintf(&decl, "(declare-const %s %s)\n", v, sortOf(vars[v]))
	}
	for _, c := range all {
		asserts.WriteString("(assert " + pr.ref(c) + ")\n")
	}
	return decl.String() + defs.String() + asserts.String()
}

// retryFresh re-decides an undecided query in a fresh process of the newer z3
// with a doubled time limit (an `unknown` under machine load is usually a timeout).
func (ps *pathState) retryFresh(q *term) string {
	s, err := newSolver("z3-new", 2*ps.w.solver.tmoMs)
	if err != nil {
		return "unknown"
	}
	defer s.close()
	s.send(ps.standalone(q))
	r := s.checkSat()
	ps.ex.mu.Lock()
	ps.ex.retried++
	ps.ex.mu.Unlock()
	return r
}

// crossCheck re-decides pc ∧ q from scratch on the second solver and compares.
func (ps *pathState) crossCheck(q *term, primary string, label string) {
	var defs strings.Builder
	n := 0
	pr := &printer{names: map[*term]string{}, defs: &defs, n: &n}
	vars := map[string]int{}
	var walk func(t *term, seen map[*term]bool)
	walk = func(t *term, seen map[*term]bool) {
		if seen[t] {
			return
		}
		seen[t] = true
		if t.op == "var" {
			vars[t.name] = t.w
		}
		for _, a := range t.args {
			walk(a, seen)
		}
	}
	seen := map[*term]bool{}
	var asserts strings.Builder
	for _, c := range append(append([]*term{}, ps.pc...), q) {
		walk(c, seen)
	}
	var decl strings.Builder
	names := make([]string, 0, len(vars))
	for v := range vars {
		names = append(names, v)
	}
	sort.Strings(names)
	for _, v := range names {
		fmt.Fprintf(&decl, "(declare-const %s %s)\n", v, sortOf(vars[v]))
	}
	for _, c := range append(append([]*term{}, ps.pc...), q) {
		asserts.WriteString("(assert " + pr.ref(c) + ")\n")
	}
	cs := ps.w.cross
	cs.send("(push 1)\n" + decl.String() + defs.String() + asserts.String())
	r2 := cs.checkSat()
	cs.send("(pop 1)\n")
	ex := ps.ex
	ex.mu.Lock()
	ex.crossChecked++
	if r2 == "unknown" {
		ex.crossUnknown++
	}
	ex.mu.Unlock()
	if r2 != "unknown" && r2 != primary {
		panic(engineFault{fmt.Sprintf("solver disagreement on assertion %s: %s says %s, %s says %s", label, ps.w.solver.name, primary, cs.name, r2)})
	}
}

func (ps *pathState) inputVars() []*term {
	var vs []*term
	for _, d := range ps.draws {
		if d.t != nil && d.t.op == "var" {
			vs = append(vs, d.t)
		}
	}
	return vs
}

// modelInScope reads the model of the query just answered sat.
func (ps *pathState) modelInScope() map[string]uint64 {
	return ps.w.solver.getValues(ps.inputVars())
}

// model solves pc (∧ extra) and returns input values.
func (ps *pathState) model(extra *term) map[string]uint64 {
	if ps.w.solver == nil {
		return map[string]uint64{}
	}
	if extra == nil {
		extra = tTrue
	}
	if len(ps.inputVars()) == 0 {
		return map[string]uint64{}
	}
	// tTrue is dropped by check's fast path only for false; force a query
	r := ps.check(extra)
	defer ps.popQuery()
	if r != "sat" {
		return nil
	}
	return ps.modelInScope()
}

func (ps *pathState) recordViolation(kind, label, detail string, model map[string]uint64) {
	v := violation{Harness: ps.harness, Label: label, Kind: kind, Detail: detail, Model: model,
		Trace: append([]decision{}, ps.trace...), Notes: map[string]string{}}
	for k, s := range ps.notes {
		v.Notes[k] = s
	}
	for _, d := range ps.draws {
		dd := d
		if d.t != nil && d.t.op == "var" && model != nil {
			dd.Val = model[d.t.name]
		}
		dd.t = nil
		v.Draws = append(v.Draws, dd)
	}
	ps.violations = append(ps.violations, v)
}

// wantVector decides (under the explorer lock) whether this finished path
// should contribute a validation vector.
func (e *explorer) wantVector() bool {
	e.mu.Lock()
	defer e.mu.Unlock()
	e.doneSeen++
	if len(e.vectors) >= e.maxVectors {
		return false
	}
	n := e.doneSeen
	// first 8, then powers-of-two spaced
	return n <= 8 || n&(n-1) == 0 || n%97 == 0
}

func (ps *pathState) takeVector(end string) {
	if ps.w.solver == nil || ps.replayDraws != nil {
		return
	}
	if !ps.ex.wantVector() {
		return
	}
	m := ps.model(nil)
	if m == nil {
		return
	}
	v := vector{Harness: ps.harness, End: end}
	for _, d := range ps.draws {
		dd := d
		if d.t != nil && d.t.op == "var" {
			dd.Val = m[d.t.name]
		}
		dd.t = nil
		v.Draws = append(v.Draws, dd)
	}
	ps.ex.mu.Lock()
	ps.ex.vectors = append(ps.ex.vectors, v)
	ps.ex.mu.Unlock()
}

func sortedKeys(m map[string]int) []string {
	var ks []string
	for k := range m {
		ks = append(ks, k)
	}
	sort.Strings(ks)
	return ks
}
