package main

// Ordered, deterministic maps. Concrete keys are indexed by a canonical
// string; a key with symbolic parts is compared against every live entry and
// each comparison is a (forking) branch of the path.

import (
	"bytes"
	"go/types"
)

type omap struct {
	keyType types.Type
	keys    []value
	vals    []value
	dead    []bool
	idx     map[string]int // concrete keys only
	nsym    int            // live entries with symbolic keys
	n       int            // live entries
}

func makeMap(kt types.Type) *omap {
	return &omap{keyType: kt, idx: map[string]int{}}
}

func (m *omap) len() int {
	if m == nil {
		return 0
	}
	return m.n
}

// find returns the index of key k or -1. May fork.
func (m *omap) find(i *interpreter, k value) int {
	if m == nil {
		return -1
	}
	var buf bytes.Buffer
	if keyString(&buf, k) {
		if j, ok := m.idx[buf.String()]; ok {
			return j
		}
		if m.nsym == 0 {
			return -1
		}
		// compare against symbolic-keyed entries only
		for j := range m.keys {
			if m.dead[j] || !isSymbolic(m.keys[j]) {
				continue
			}
			if i.branchValue(eqValue(m.keyType, m.keys[j], k)) {
				return j
			}
		}
		return -1
	}
	for j := range m.keys {
		if m.dead[j] {
			continue
		}
		if i.branchValue(eqValue(m.keyType, m.keys[j], k)) {
			return j
		}
	}
	return -1
}

func (m *omap) lookup(i *interpreter, k value) (value, bool) {
	j := m.find(i, k)
	if j < 0 {
		return nil, false
	}
	return m.vals[j], true
}

func (m *omap) insert(i *interpreter, k, v value) {
	if m == nil {
		panic(targetPanic{msg: "assignment to entry in nil map"})
	}
	if j := m.find(i, k); j >= 0 {
		m.vals[j] = v
		return
	}
	k = copyVal(k)
	m.keys = append(m.keys, k)
	m.vals = append(m.vals, v)
	m.dead = append(m.dead, false)
	var buf bytes.Buffer
	if keyString(&buf, k) {
		m.idx[buf.String()] = len(m.keys) - 1
	} else {
		m.nsym++
	}
	m.n++
}

func (m *omap) delete(i *interpreter, k value) {
	j := m.find(i, k)
	if j < 0 {
		return
	}
	m.dead[j] = true
	var buf bytes.Buffer
	if keyString(&buf, m.keys[j]) {
		delete(m.idx, buf.String())
	} else {
		m.nsym--
	}
	m.n--
	m.vals[j] = nil
}

func (m *omap) clear() {
	if m == nil {
		return
	}
	m.keys, m.vals, m.dead = nil, nil, nil
	m.idx = map[string]int{}
	m.nsym, m.n = 0, 0
}

type omapIter struct {
	m *omap
	i int
}

func (it *omapIter) next() tuple {
	if it.m != nil {
		for it.i < len(it.m.keys) {
			j := it.i
			it.i++
			if !it.m.dead[j] {
				return tuple{true, it.m.keys[j], it.m.vals[j]}
			}
		}
	}
	return tuple{false, nil, nil}
}
