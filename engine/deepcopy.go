package main

// Snapshot/restore of package-level state between paths.
//
// The object graph reachable from the globals of the packages under test is
// deep-copied for every path; objects reachable from other packages' globals
// (standard library, dependencies) are shared and assumed not to be mutated in
// ways that matter across paths (a divergence shows up as a replay fault).

import (
	"bytes"
	"unsafe"

	"golang.org/x/tools/go/ssa"
)

type contKey struct {
	p *value // address of the LAST element within capacity (stable across reslicing)
}

func sliceKey(s []value) (contKey, []value, bool) {
	if cap(s) == 0 {
		return contKey{}, nil, false
	}
	full := s[:cap(s)]
	return contKey{&full[len(full)-1]}, full, true
}

type graph struct {
	conts    map[contKey][]value // largest tail seen per backing array
	ptrs     map[*value]bool
	closures map[*closure]bool
	maps     map[*omap]bool
	chans    map[*channel]bool
	views    map[*viewptr]bool
}

func newGraph() *graph {
	return &graph{conts: map[contKey][]value{}, ptrs: map[*value]bool{}, closures: map[*closure]bool{},
		maps: map[*omap]bool{}, chans: map[*channel]bool{}, views: map[*viewptr]bool{}}
}

// scan discovers everything reachable from v, stopping at objects in `stop`.
func (g *graph) scan(v value, stop *graph) {
	type item struct{ v value }
	stack := []value{v}
	for len(stack) > 0 {
		v := stack[len(stack)-1]
		stack = stack[:len(stack)-1]
		pushSlice := func(s []value) {
			k, full, ok := sliceKey(s)
			if !ok {
				return
			}
			if stop != nil {
				if t, ok := stop.conts[k]; ok && len(t) >= len(full) {
					return
				}
			}
			if old, ok := g.conts[k]; ok && len(old) >= len(full) {
				return
			}
			g.conts[k] = full
			stack = append(stack, full...)
		}
		switch v := v.(type) {
		case *value:
			if v == nil || g.ptrs[v] || (stop != nil && stop.ptrs[v]) {
				continue
			}
			g.ptrs[v] = true
			stack = append(stack, *v)
		case []value:
			pushSlice(v)
		case structure:
			pushSlice([]value(v))
		case array:
			pushSlice([]value(v))
		case tuple:
			pushSlice([]value(v))
		case sstr:
			// immutable; may hold syms only
		case iface:
			stack = append(stack, v.v)
		case uptr:
			stack = append(stack, v.p)
		case *closure:
			if v == nil || g.closures[v] || (stop != nil && stop.closures[v]) {
				continue
			}
			g.closures[v] = true
			stack = append(stack, v.Env...)
		case *omap:
			if v == nil || g.maps[v] || (stop != nil && stop.maps[v]) {
				continue
			}
			g.maps[v] = true
			stack = append(stack, v.keys...)
			stack = append(stack, v.vals...)
		case *channel:
			if v == nil || g.chans[v] || (stop != nil && stop.chans[v]) {
				continue
			}
			g.chans[v] = true
			stack = append(stack, v.buf...)
		case *viewptr:
			if v == nil || g.views[v] || (stop != nil && stop.views[v]) {
				continue
			}
			g.views[v] = true
			pushSlice(v.base)
		}
	}
}

type copier struct {
	g        *graph
	contNew  map[contKey][]value
	ptrNew   map[*value]*value
	closNew  map[*closure]*closure
	mapNew   map[*omap]*omap
	chanNew  map[*channel]*channel
	viewNew  map[*viewptr]*viewptr
	interior map[*value]*value
}

// copyGraph clones every object in g and returns the translation function.
func copyGraph(g *graph) *copier {
	c := &copier{g: g, contNew: map[contKey][]value{}, ptrNew: map[*value]*value{}, closNew: map[*closure]*closure{},
		mapNew: map[*omap]*omap{}, chanNew: map[*channel]*channel{}, viewNew: map[*viewptr]*viewptr{}, interior: map[*value]*value{}}
	for k, full := range g.conts {
		n := make([]value, len(full))
		c.contNew[k] = n
		for i := range full {
			c.interior[&full[i]] = &n[i]
		}
	}
	for p := range g.ptrs {
		if _, ok := c.interior[p]; ok {
			continue
		}
		c.ptrNew[p] = new(value)
	}
	for cl := range g.closures {
		c.closNew[cl] = &closure{Fn: cl.Fn}
	}
	for m := range g.maps {
		c.mapNew[m] = &omap{keyType: m.keyType}
	}
	for ch := range g.chans {
		c.chanNew[ch] = &channel{cap: ch.cap, closed: ch.closed}
	}
	for v := range g.views {
		c.viewNew[v] = &viewptr{t: v.t}
	}
	// fill
	for k, full := range g.conts {
		n := c.contNew[k]
		for i := range full {
			n[i] = c.tr(full[i])
		}
	}
	for p, np := range c.ptrNew {
		*np = c.tr(*p)
	}
	for cl, ncl := range c.closNew {
		ncl.Env = make([]value, len(cl.Env))
		for i := range cl.Env {
			ncl.Env[i] = c.tr(cl.Env[i])
		}
	}
	for m, nm := range c.mapNew {
		nm.keys = make([]value, len(m.keys))
		nm.vals = make([]value, len(m.vals))
		nm.dead = append([]bool{}, m.dead...)
		nm.idx = map[string]int{}
		nm.n, nm.nsym = m.n, m.nsym
		for i := range m.keys {
			nm.keys[i] = c.tr(m.keys[i])
			nm.vals[i] = c.tr(m.vals[i])
			if !m.dead[i] {
				var buf bytes.Buffer
				if keyString(&buf, nm.keys[i]) {
					nm.idx[buf.String()] = i
				}
			}
		}
	}
	for ch, nch := range c.chanNew {
		for _, v := range ch.buf {
			nch.buf = append(nch.buf, c.tr(v))
		}
	}
	for v, nv := range c.viewNew {
		nv.base = c.trSlice(v.base)
	}
	return c
}

func (c *copier) trSlice(s []value) []value {
	k, full, ok := sliceKey(s)
	if !ok {
		return s
	}
	n, ok := c.contNew[k]
	if !ok {
		return s // shared
	}
	// n corresponds to the largest tail; s is a window of it
	off := len(n) - len(full)
	if off < 0 {
		panic(engineFault{"deepcopy: slice window larger than recorded backing array"})
	}
	_ = unsafe.Pointer(nil)
	return n[off : off+len(s) : off+cap(s)]
}

func (c *copier) tr(v value) value {
	switch v := v.(type) {
	case *value:
		if v == nil {
			return v
		}
		if n, ok := c.interior[v]; ok {
			return n
		}
		if n, ok := c.ptrNew[v]; ok {
			return n
		}
		return v
	case []value:
		if v == nil {
			return v
		}
		return c.trSlice(v)
	case structure:
		return structure(c.trSlice([]value(v)))
	case array:
		return array(c.trSlice([]value(v)))
	case tuple:
		return tuple(c.trSlice([]value(v)))
	case iface:
		return iface{t: v.t, v: c.tr(v.v)}
	case uptr:
		return uptr{p: c.tr(v.p), t: v.t}
	case *closure:
		if n, ok := c.closNew[v]; ok {
			return n
		}
		return v
	case *omap:
		if n, ok := c.mapNew[v]; ok {
			return n
		}
		return v
	case *channel:
		if n, ok := c.chanNew[v]; ok {
			return n
		}
		return v
	case *viewptr:
		if n, ok := c.viewNew[v]; ok {
			return n
		}
		return v
	}
	return v
}

// snapshot is the post-init global state.
type snapshot struct {
	globals map[*ssa.Global]*value
	private []*ssa.Global // globals of packages under test
	shared  *graph
	priv    *graph
}

func takeSnapshot(globals map[*ssa.Global]*value, isPrivate func(*ssa.Global) bool) *snapshot {
	s := &snapshot{globals: globals, shared: newGraph(), priv: newGraph()}
	for g, p := range globals {
		if isPrivate(g) {
			s.private = append(s.private, g)
		} else {
			s.shared.scan(p, nil)
		}
	}
	for _, g := range s.private {
		s.priv.scan(s.globals[g], s.shared)
	}
	return s
}

// instantiate returns a fresh globals table for one path.
func (s *snapshot) instantiate() map[*ssa.Global]*value {
	c := copyGraph(s.priv)
	out := make(map[*ssa.Global]*value, len(s.private))
	for _, g := range s.private {
		out[g] = c.tr(s.globals[g]).(*value)
	}
	return out
}
