package main

// murmur3.strslice reinterprets a []byte header as a string header through
// reflect.StringHeader/SliceHeader (an unsafe idiom the memory model does not
// cover). Semantically it is string(slice) without a copy; the result is only
// read, so a copy is an exact model. The hash itself (SeedStringSum32) is
// interpreted from source. Used by latch.(*Latches).slotID (C17).

func init() {
	ext("github.com/twmb/murmur3.strslice", func(fr *frame, a []value) value {
		bs := bytesOf(a[0])
		out := make(sstr, len(bs))
		copy(out, bs)
		return normStr(out)
	})
}
