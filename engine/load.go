package main

import (
	"fmt"
	"go/types"
	"os"
	"path/filepath"
	"sort"
	"strings"
	"time"

	"golang.org/x/tools/go/packages"
	"golang.org/x/tools/go/ssa"
	"golang.org/x/tools/go/ssa/ssautil"
)

type program struct {
	prog     *ssa.Program
	pkgs     []*ssa.Package
	target   *ssa.Package // package containing the harnesses
	initial  []*packages.Package
	loadTime time.Duration
	ssaTime  time.Duration
	initTime time.Duration
	snap     *snapshot
	initLog  []string
}

const modPrefix = "github.com/tikv/client-go/v2"

// loadProgram loads pkgPath from repoDir with the harness overlay files
// injected into the package directory.
func loadProgram(repoDir, pkgPath string, overlayFiles map[string]string) (*program, error) {
	t0 := time.Now()
	overlay := map[string][]byte{}
	for virt, real := range overlayFiles {
		b, err := os.ReadFile(real)
		if err != nil {
			return nil, err
		}
		overlay[virt] = b
	}
	env := append(os.Environ(), "GOFLAGS=-mod=mod", "GOPROXY=off", "GOTOOLCHAIN=local", "GOWORK=off")
	cfg := &packages.Config{
		Mode:    packages.LoadAllSyntax,
		Dir:     repoDir,
		Env:     env,
		Overlay: overlay,
		Tests:   false,
	}
	initial, err := packages.Load(cfg, pkgPath)
	if err != nil {
		return nil, err
	}
	nerr := 0
	packages.Visit(initial, nil, func(p *packages.Package) {
		for _, e := range p.Errors {
			if nerr < 20 {
				fmt.Fprintf(os.Stderr, "load error: %s: %v\n", p.PkgPath, e)
			}
			nerr++
		}
	})
	if nerr > 0 {
		return nil, fmt.Errorf("%d package load errors", nerr)
	}
	p := &program{initial: initial, loadTime: time.Since(t0)}
	t1 := time.Now()
	prog, pkgs := ssautil.AllPackages(initial, ssa.InstantiateGenerics|ssa.SanityCheckFunctions*0)
	prog.Build()
	p.prog = prog
	p.ssaTime = time.Since(t1)
	for _, sp := range pkgs {
		if sp != nil && sp.Pkg.Path() == pkgPath {
			p.target = sp
		}
	}
	p.pkgs = prog.AllPackages()
	if p.target == nil {
		return nil, fmt.Errorf("target package %s not found", pkgPath)
	}
	return p, nil
}

// Packages whose init is not executed; their initialised globals are poisoned.
var noInitPrefixes = []string{
	"github.com/pingcap/kvproto", "github.com/pingcap/tipb", "github.com/gogo/protobuf", "github.com/golang/protobuf",
	"google.golang.org/", "github.com/prometheus/", "go.uber.org/zap", "go.uber.org/multierr", "github.com/opentracing/",
	"github.com/grpc-ecosystem/", "go.etcd.io/", "github.com/coreos/",
	"net", "os", "syscall", "reflect", "io/ioutil", "crypto", "runtime", "internal/", "encoding/json", "encoding/xml", "encoding/gob",
	"regexp", "html", "text/template", "compress", "archive", "database", "debug", "go/", "image", "mime", "testing",
	"vendor/", "golang.org/x/", "github.com/pingcap/goleveldb", "github.com/pingcap/log", "github.com/pingcap/failpoint",
	"log", "expvar", "flag", "github.com/cznic", "github.com/golang/snappy", "github.com/klauspost", "gopkg.in/",
	"github.com/beorn7", "github.com/cespare", "github.com/json-iterator", "github.com/modern-go", "github.com/uber/",
	"github.com/HdrHistogram", "github.com/benbjohnson", "github.com/cloudfoundry", "github.com/elastic", "github.com/docker",
	"unicode", "encoding/base64", "encoding/hex", "encoding/pem", "encoding/asn1", "path", "io/fs", "embed", "hash", "bufio",
	"text/", "os/", "net/", "math/big", "container/ring", "github.com/stathat", "github.com/spaolacci", "github.com/google/uuid",
	"github.com/tikv/client-go/v2/metrics", "github.com/pingcap/errors", "github.com/VividCortex", "github.com/dgryski",
	"iter", "weak", "unique", "maps", "github.com/twmb/murmur3", "go.uber.org/atomic", "github.com/tikv/client-go/v2/internal/logutil",
	"github.com/tikv/client-go/v2/trace", "github.com/tiancaiamao",
}

// inits that must run although a prefix above matches
var forceInit = map[string]bool{
	"internal/bytealg": false,
	"io":               true,
	"path/filepath":    false,
	"github.com/pingcap/errors": true,
	"unicode/utf8": true,
	"go.uber.org/atomic": true,
}

func wantInit(path string) bool {
	if v, ok := forceInit[path]; ok {
		return v
	}
	return !hasPkgPrefix(path, noInitPrefixes)
}

// runInits creates global storage and executes package initialisers in
// dependency order, one package at a time (a failing init poisons the
// globals that init would have assigned).
func (p *program) runInits(in *interpreter, verbose bool) {
	t0 := time.Now()
	in.globals = map[*ssa.Global]*value{}
	for _, pkg := range p.pkgs {
		for _, m := range pkg.Members {
			if g, ok := m.(*ssa.Global); ok {
				cell := zero(mustDeref(g.Type()))
				in.globals[g] = &cell
			}
		}
	}
	// dependency order
	var order []*ssa.Package
	seen := map[*types.Package]bool{}
	byTypes := map[*types.Package]*ssa.Package{}
	for _, pkg := range p.pkgs {
		byTypes[pkg.Pkg] = pkg
	}
	var visit func(tp *types.Package)
	visit = func(tp *types.Package) {
		if seen[tp] {
			return
		}
		seen[tp] = true
		imps := tp.Imports()
		sort.Slice(imps, func(i, j int) bool { return imps[i].Path() < imps[j].Path() })
		for _, imp := range imps {
			visit(imp)
		}
		if sp := byTypes[tp]; sp != nil {
			order = append(order, sp)
		}
	}
	visit(p.target.Pkg)

	poisonGlobals := func(pkg *ssa.Package) {
		initFn := pkg.Func("init")
		if initFn == nil {
			return
		}
		for _, b := range initFn.Blocks {
			for _, ins := range b.Instrs {
				if st, ok := ins.(*ssa.Store); ok {
					if g, ok := st.Addr.(*ssa.Global); ok && g.Pkg == pkg && g.Name() != "init$guard" {
						*in.globals[g] = poison{}
					}
				}
			}
		}
	}

	for _, pkg := range order {
		path := pkg.Pkg.Path()
		initFn := pkg.Func("init")
		if initFn == nil {
			continue
		}
		// mark guard so that nested import init calls are skipped
		if g, ok := pkg.Members["init$guard"].(*ssa.Global); ok {
			*in.globals[g] = true
		}
		if !wantInit(path) {
			poisonGlobals(pkg)
			continue
		}
		err := p.runOneInit(in, pkg, initFn)
		if err != "" {
			p.initLog = append(p.initLog, path+": "+err)
			if verbose {
				fmt.Fprintf(os.Stderr, "init %s: %s\n", path, err)
			}
			if strings.HasPrefix(path, modPrefix) {
				// an unusable package under test is reported, not hidden
				fmt.Fprintf(os.Stderr, "WARNING: init of %s incomplete: %s\n", path, err)
			}
		}
	}
	p.initTime = time.Since(t0)
}

// runOneInit interprets the body of pkg.init but skips the guard test.
func (p *program) runOneInit(in *interpreter, pkg *ssa.Package, initFn *ssa.Function) (errStr string) {
	in.side = newSideTables()
	in.sch = newSched(in)
	in.steps = 0
	in.path = &pathState{ex: newExplorer("init"), w: &worker{}, unwind: 1 << 30, harness: "init"}
	defer func() {
		if r := recover(); r != nil {
			switch r := r.(type) {
			case unsupported:
				errStr = r.Error()
			case pathEnd:
				errStr = "pathEnd " + r.kind + " " + r.detail
			case targetPanic:
				errStr = "panic: " + r.String()
			case engineFault:
				errStr = "engine fault: " + r.msg
			default:
				errStr = fmt.Sprintf("host panic: %v", r)
			}
			// globals assigned after the failure point are unknown: poison
			// those still holding their zero value is not distinguishable, so
			// poison all globals stored by init that are still zero-valued is
			// skipped; keep what was initialised.
		}
		in.sch.abortAll()
	}()
	// The guard was pre-set to true, which would make init return at once;
	// reset it so the body runs, imports' guards are already true.
	if g, ok := pkg.Members["init$guard"].(*ssa.Global); ok {
		*in.globals[g] = false
	}
	// Interpret the init body instruction by instruction: an instruction
	// that cannot be executed yields a poison value and execution continues,
	// so one unsupported initialiser does not lose the rest of the package.
	info := infoOf(initFn)
	fr := &frame{i: in, fn: initFn, info: info}
	fr.env = make([]value, info.n)
	fr.locals = make([]value, len(initFn.Locals))
	for k, l := range initFn.Locals {
		fr.locals[k] = zero(mustDeref(l.Type()))
		fr.env[info.idx[l]] = &fr.locals[k]
	}
	fr.block = initFn.Blocks[0]
	var fails []string
	for fr.block != nil {
		nonPhis := executePhis(fr)
		jumped := false
		for _, instr := range nonPhis {
			cont, failed := tolerantStep(fr, instr)
			if failed != "" {
				if len(fails) < 4 {
					fails = append(fails, failed)
				}
				if v, ok := instr.(ssa.Value); ok {
					fr.env[info.idx[v]] = poison{}
				}
				if st, ok := instr.(*ssa.Store); ok {
					if g, ok := st.Addr.(*ssa.Global); ok {
						*in.globals[g] = poison{}
					}
				}
				switch instr.(type) {
				case *ssa.If, *ssa.Jump, *ssa.Return, *ssa.Panic:
					fr.block = nil
					jumped = true
				}
				if jumped {
					break
				}
				continue
			}
			if cont == kReturn {
				fr.block = nil
				jumped = true
				break
			}
			if cont == kJump {
				jumped = true
				break
			}
		}
		if !jumped {
			break
		}
	}
	if len(fails) > 0 {
		return "partial: " + strings.Join(fails, "; ")
	}
	return ""
}

func tolerantStep(fr *frame, instr ssa.Instruction) (cont continuation, failed string) {
	defer func() {
		if r := recover(); r != nil {
			switch r := r.(type) {
			case unsupported:
				failed = r.Error()
			case pathEnd:
				failed = "pathEnd " + r.kind + " " + r.detail
			case targetPanic:
				failed = "panic: " + r.String()
			case engineFault:
				failed = "engine fault: " + r.msg
			default:
				failed = fmt.Sprintf("host panic: %v", r)
			}
		}
	}()
	fr.i.steps = 0
	return visitInstr(fr, instr), ""
}

// harnessFiles returns overlay mappings for a harness directory.
func harnessFiles(repoDir, pkgPath, harnessDir, rtFile string) (map[string]string, string, error) {
	rel := strings.TrimPrefix(pkgPath, modPrefix)
	rel = strings.TrimPrefix(rel, "/")
	dir := filepath.Join(repoDir, rel)
	out := map[string]string{}
	ents, err := os.ReadDir(harnessDir)
	if err != nil {
		return nil, "", err
	}
	for _, e := range ents {
		if strings.HasSuffix(e.Name(), ".go") && strings.HasPrefix(e.Name(), "zz_") && !strings.HasSuffix(e.Name(), "_test.go") {
			out[filepath.Join(dir, e.Name())] = filepath.Join(harnessDir, e.Name())
		}
	}
	return out, dir, nil
}
