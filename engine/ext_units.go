package main

// Human-readable size formatting (logging only).
func init() {
	for _, n := range []string{"HumanSize", "HumanSizeWithPrecision", "BytesSize", "CustomSize", "HumanDuration"} {
		ext("github.com/docker/go-units."+n, func(fr *frame, a []value) value { return "<size>" })
	}
}
