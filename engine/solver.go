package main

// One long-lived SMT solver process per worker, spoken to in SMT-LIB2 over a
// pipe. Any "(error" line makes the current answer inconclusive.

import (
	"bufio"
	"fmt"
	"io"
	"os"
	"os/exec"
	"strconv"
	"strings"
	"time"
)

type solverStats struct {
	queries  int
	sat      int
	unsat    int
	unknown  int
	errors   int
	duration time.Duration
}

type solver struct {
	name  string
	cmd   *exec.Cmd
	in    io.WriteCloser
	out   *bufio.Reader
	stats solverStats
	log   io.Writer // optional transcript
	killed bool     // the watchdog killed the process
	tmoMs int
	last  string
}

func solverArgv(kind string, timeoutMs int) []string {
	switch kind {
	case "z3":
		return []string{"/usr/bin/z3", "-in", fmt.Sprintf("-t:%d", timeoutMs)}
	case "z3-new":
		return []string{"z3-new", "-in", fmt.Sprintf("-t:%d", timeoutMs)}
	case "cvc5":
		return []string{"cvc5", "--incremental", "--lang=smt2", "--produce-models", fmt.Sprintf("--tlimit-per=%d", timeoutMs)}
	}
	panic("unknown solver " + kind)
}

func newSolver(kind string, timeoutMs int) (*solver, error) {
	argv := solverArgv(kind, timeoutMs)
	cmd := exec.Command(argv[0], argv[1:]...)
	in, err := cmd.StdinPipe()
	if err != nil {
		return nil, err
	}
	outp, err := cmd.StdoutPipe()
	if err != nil {
		return nil, err
	}
	cmd.Stderr = nil
	if err := cmd.Start(); err != nil {
		return nil, err
	}
	s := &solver{name: kind, cmd: cmd, in: in, out: bufio.NewReaderSize(outp, 1<<16), tmoMs: timeoutMs}
	if dir := os.Getenv("GOSX_SOLVERLOG"); dir != "" {
		// debugging aid: every solver process writes what it is sent to <dir>/<pid>.smt2
		if f, err := os.Create(fmt.Sprintf("%s/%d.smt2", dir, cmd.Process.Pid)); err == nil {
			s.log = f
		}
	}
	s.send("(set-option :produce-models true)\n")
	if kind == "cvc5" {
		s.send("(set-logic QF_BV)\n")
	}
	return s, nil
}

func (s *solver) close() {
	if s == nil || s.cmd == nil {
		return
	}
	s.in.Close()
	done := make(chan struct{})
	go func() { s.cmd.Wait(); close(done) }()
	select {
	case <-done:
	case <-time.After(2 * time.Second):
		s.cmd.Process.Kill()
	}
	s.cmd = nil
}

var slowQueryMs = func() int {
	n := 0
	fmt.Sscanf(os.Getenv("GOSX_SLOWQ"), "%d", &n)
	return n
}()

func (s *solver) send(txt string) {
	if s.killed {
		return
	}
	if slowQueryMs > 0 {
		s.last += txt
		if len(s.last) > 4000 {
			s.last = s.last[len(s.last)-4000:]
		}
	}
	if s.log != nil {
		io.WriteString(s.log, txt)
	}
	if _, err := io.WriteString(s.in, txt); err != nil {
		panic(engineFault{"solver pipe: " + err.Error()})
	}
}

// readSexp reads one complete response: a bare atom line or a balanced
// s-expression (possibly multi-line).
func (s *solver) readSexp() string {
	var sb strings.Builder
	depth := 0
	started := false
	for {
		line, err := s.out.ReadString('\n')
		if err != nil {
			if s.killed {
				// the watchdog of checkSat killed a solver that ignored its soft time-out
				panic(pathEnd{"unknown", "solver killed after the hard time limit"})
			}
			panic(engineFault{"solver died: " + err.Error() + " partial=" + sb.String()})
		}
		trim := strings.TrimSpace(line)
		if trim == "" && !started {
			continue
		}
		started = true
		sb.WriteString(line)
		inStr := false
		for _, c := range line {
			switch {
			case c == '"':
				inStr = !inStr
			case inStr:
			case c == '(':
				depth++
			case c == ')':
				depth--
			}
		}
		if depth <= 0 {
			break
		}
	}
	return strings.TrimSpace(sb.String())
}

// checkSat returns "sat", "unsat" or "unknown" (errors map to "unknown").
func (s *solver) checkSat() string {
	t0 := time.Now()
	s.send("(check-sat)\n")
	// z3 4.8.12 does not always honour -t (preprocessing of some queries never checks the
	// limit): a watchdog kills the process after twice the soft limit; the path ends "unknown"
	// and the worker starts a new solver for its next path.
	var dog *time.Timer
	if s.tmoMs > 0 && s.cmd != nil {
		cmd := s.cmd
		dog = time.AfterFunc(time.Duration(2*s.tmoMs+10000)*time.Millisecond, func() {
			s.killed = true
			cmd.Process.Kill()
		})
	}
	r := s.readSexp()
	if dog != nil {
		dog.Stop()
	}
	s.stats.duration += time.Since(t0)
	s.stats.queries++
	if slowQueryMs > 0 && time.Since(t0) > time.Duration(slowQueryMs)*time.Millisecond {
		l := s.last
		if len(l) > 1500 {
			l = l[len(l)-1500:]
		}
		fmt.Fprintf(os.Stderr, "SLOW QUERY %.2fs -> %s: ...%s\n", time.Since(t0).Seconds(), r, l)
	}
	switch r {
	case "sat":
		s.stats.sat++
		return "sat"
	case "unsat":
		s.stats.unsat++
		return "unsat"
	}
	if strings.Contains(r, "(error") {
		s.stats.errors++
		// drain: an error response replaced the answer; the solver may still
		// print an answer for check-sat — try to resync with an echo.
		s.resync()
	}
	s.stats.unknown++
	return "unknown"
}

func (s *solver) resync() {
	s.send("(echo \"resync!\")\n")
	for {
		r := s.readSexp()
		if strings.Contains(r, "resync!") {
			return
		}
	}
}

// getValues queries the model for the given variables.
func (s *solver) getValues(vars []*term) map[string]uint64 {
	m := map[string]uint64{}
	if len(vars) == 0 {
		return m
	}
	var sb strings.Builder
	sb.WriteString("(get-value (")
	for _, v := range vars {
		sb.WriteString(v.name)
		sb.WriteByte(' ')
	}
	sb.WriteString("))\n")
	s.send(sb.String())
	r := s.readSexp()
	if strings.Contains(r, "(error") {
		s.stats.errors++
		return nil
	}
	// ((name val) (name val) ...)
	toks := tokenize(r)
	// expect ( ( name val ) ... )
	i := 0
	if len(toks) == 0 || toks[0] != "(" {
		return nil
	}
	i++
	for i < len(toks) && toks[i] == "(" {
		if i+3 >= len(toks) {
			return nil
		}
		name := toks[i+1]
		val := toks[i+2]
		j := i + 3
		if val == "(" { // (_ bv123 64)
			if toks[i+3] == "_" && strings.HasPrefix(toks[i+4], "bv") {
				n, _ := strconv.ParseUint(toks[i+4][2:], 10, 64)
				m[name] = n
			}
			for j < len(toks) && toks[j] != ")" {
				j++
			}
			j++
		} else {
			m[name] = parseSMTValue(val)
		}
		if j >= len(toks) || toks[j] != ")" {
			return nil
		}
		i = j + 1
	}
	return m
}

func parseSMTValue(v string) uint64 {
	switch {
	case v == "true":
		return 1
	case v == "false":
		return 0
	case strings.HasPrefix(v, "#x"):
		n, _ := strconv.ParseUint(v[2:], 16, 64)
		return n
	case strings.HasPrefix(v, "#b"):
		n, _ := strconv.ParseUint(v[2:], 2, 64)
		return n
	}
	return 0
}

func tokenize(s string) []string {
	var toks []string
	cur := strings.Builder{}
	flush := func() {
		if cur.Len() > 0 {
			toks = append(toks, cur.String())
			cur.Reset()
		}
	}
	inBar := false
	for _, c := range s {
		if inBar {
			cur.WriteRune(c)
			if c == '|' {
				inBar = false
			}
			continue
		}
		switch c {
		case '|':
			cur.WriteRune(c)
			inBar = true
		case '(', ')':
			flush()
			toks = append(toks, string(c))
		case ' ', '\n', '\t', '\r':
			flush()
		default:
			cur.WriteRune(c)
		}
	}
	flush()
	return toks
}
