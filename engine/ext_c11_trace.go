package main

// client-go's trace package keeps its hooks in atomic pointers that its init()
// fills with no-op defaults; that init is not executed (tracing is outside
// every claim), so the accessors are given their no-op semantics directly:
// no category enabled, no control flags, events dropped. (C11/C14: reached
// from RegionRequestSender.SendReqCtx.)

func init() {
	const p = "github.com/tikv/client-go/v2/trace."
	ext(p+"GetTraceControlFlags", extNop)
	ext(p+"ImmediateLoggingEnabled", extNop)
	ext(p+"IsCategoryEnabled", extNop)
	ext(p+"TraceEvent", extNop)
}
