package main

// Models of the unsafe idioms used by the code under test.
//
// (i) primitive reinterpretation: a pointer into a byte array converted to
//     *uintN / *[k]uintN etc. is a little-endian view (viewptr) of the bytes.

import (
	"fmt"
	"go/types"
)

func byteSized(t types.Type) bool {
	b, ok := t.Underlying().(*types.Basic)
	if !ok {
		return false
	}
	switch b.Kind() {
	case types.Uint8, types.Int8, types.Bool:
		return true
	}
	return false
}

func unsafeAdd(in *interpreter, u uptr, n int64) value {
	if n == 0 {
		return u
	}
	var base []value
	switch p := u.p.(type) {
	case *value:
		org, ok := in.side.origin[p]
		if !ok {
			panic(unsupported{reason: "unsafe.Add: pointer of unknown origin"})
		}
		base = org[:cap(org)]
	case *viewptr:
		base = p.base
	default:
		panic(unsupported{reason: fmt.Sprintf("unsafe.Add on %T", u.p)})
	}
	if len(base) > 0 {
		if _, ok := scalarByte(base[0]); !ok {
			panic(unsupported{reason: "unsafe.Add over non-byte elements"})
		}
	}
	if n < 0 || n > int64(len(base)) {
		panic(unsupported{reason: "unsafe.Add outside the backing array"})
	}
	if n == int64(len(base)) {
		return uptr{p: &viewptr{base: base[n:], t: types.Typ[types.Uint8]}, t: types.NewPointer(types.Typ[types.Uint8])}
	}
	q := &base[n]
	in.side.origin[q] = base[n:]
	return uptr{p: q, t: types.NewPointer(types.Typ[types.Uint8])}
}

func scalarByte(v value) (*term, bool) {
	switch v := v.(type) {
	case uint8:
		return tConst(8, uint64(v)), true
	case int8:
		return tConst(8, uint64(uint8(v))), true
	case *sym:
		if v.e.w == 8 {
			return v.e, true
		}
	}
	return nil, false
}

// viewslice is a slice header reinterpreted with another element type
// (*(*[]uintptr)(unsafe.Pointer(&b))): same data pointer and the same
// length/capacity *numbers*, elements decoded little-endian from the bytes.
type viewslice struct {
	base []value // bytes from the slice's data pointer to the end of its backing array
	elem types.Type
	n    int
}

func reinterpret(in *interpreter, u uptr, d *types.Pointer) value {
	var base []value
	if sp, ok := u.t.Underlying().(*types.Pointer); ok {
		if ss, ok := sp.Elem().Underlying().(*types.Slice); ok {
			if ds, ok := d.Elem().Underlying().(*types.Slice); ok && byteSized(ss.Elem()) {
				if _, _, isInt := basicInfo(ds.Elem()); isInt {
					return &viewptr{hdr: u.p.(*value), t: d.Elem()}
				}
			}
		}
	}
	switch p := u.p.(type) {
	case *viewptr:
		base = p.base
	case *value:
		if org, ok := in.side.origin[p]; ok {
			base = org[:cap(org)]
		} else if a, ok := (*p).(array); ok {
			base = a
		} else {
			panic(unsupported{reason: fmt.Sprintf("unsafe reinterpretation of %s as %s (no byte origin)", u.t, d)})
		}
	}
	if len(base) > 0 {
		if _, ok := scalarByte(base[0]); !ok {
			panic(unsupported{reason: fmt.Sprintf("unsafe reinterpretation of non-byte memory as %s", d)})
		}
	}
	return &viewptr{base: base, t: d.Elem()}
}

func sizeofT(t types.Type) int64 {
	return stdSizes.Sizeof(t)
}

func structOffsets(st *types.Struct) []int64 {
	fields := make([]*types.Var, st.NumFields())
	for k := range fields {
		fields[k] = st.Field(k)
	}
	return stdSizes.Offsetsof(fields)
}

func (p *viewptr) loadAt(in *interpreter, off int64, T types.Type) value {
	switch ut := T.Underlying().(type) {
	case *types.Struct:
		offs := structOffsets(ut)
		out := make(structure, ut.NumFields())
		for k := range out {
			out[k] = p.loadAt(in, off+offs[k], ut.Field(k).Type())
		}
		return out
	case *types.Basic:
		w, _, ok := basicInfo(T)
		if ok && w == 0 {
			if off+1 > int64(len(p.base)) {
				panic(targetPanic{msg: "runtime error: unsafe view load out of range"})
			}
			b, okb := scalarByte(p.base[off])
			if !okb {
				panic(unsupported{reason: "view load over non-byte memory"})
			}
			return boolVal(tNot(tCmp("=", b, tConst(8, 0))))
		}
		if !ok {
			panic(unsupported{reason: "view load of " + T.String()})
		}
		n := int64(w / 8)
		if off+n > int64(len(p.base)) {
			panic(targetPanic{msg: "runtime error: unsafe view load out of range"})
		}
		var e *term
		for k := int64(0); k < n; k++ {
			b, ok := scalarByte(p.base[off+k])
			if !ok {
				panic(unsupported{reason: "view load over non-byte memory"})
			}
			if e == nil {
				e = b
			} else {
				e = tConcat(b, e)
			}
		}
		return wrapTerm(T, e)
	case *types.Array:
		es := sizeofT(ut.Elem())
		out := make(array, ut.Len())
		for k := range out {
			out[k] = p.loadAt(in, off+int64(k)*es, ut.Elem())
		}
		return out
	}
	panic(unsupported{reason: "view load of " + T.String()})
}

func (p *viewptr) storeAt(in *interpreter, off int64, T types.Type, v value) {
	switch ut := T.Underlying().(type) {
	case *types.Struct:
		offs := structOffsets(ut)
		sv := v.(structure)
		for k := range sv {
			p.storeAt(in, off+offs[k], ut.Field(k).Type(), sv[k])
		}
		return
	case *types.Basic:
		w, _, ok := basicInfo(T)
		if ok && w == 0 {
			if off+1 > int64(len(p.base)) {
				panic(targetPanic{msg: "runtime error: unsafe view store out of range"})
			}
			e := tIte(toTerm(v), tConst(8, 1), tConst(8, 0))
			if e.isConst() {
				p.base[off] = uint8(e.val)
			} else {
				p.base[off] = &sym{e}
			}
			return
		}
		if !ok {
			panic(unsupported{reason: "view store of " + T.String()})
		}
		n := int64(w / 8)
		if off+n > int64(len(p.base)) {
			panic(targetPanic{msg: "runtime error: unsafe view store out of range"})
		}
		e := toTerm(v)
		for k := int64(0); k < n; k++ {
			b := tExtract(int(k*8+7), int(k*8), e)
			if b.isConst() {
				p.base[off+k] = uint8(b.val)
			} else {
				p.base[off+k] = &sym{b}
			}
		}
		return
	case *types.Array:
		es := sizeofT(ut.Elem())
		a := v.(array)
		for k := range a {
			p.storeAt(in, off+int64(k)*es, ut.Elem(), a[k])
		}
		return
	}
	panic(unsupported{reason: "view store of " + T.String()})
}

func (p *viewptr) load(in *interpreter, T types.Type) value {
	if p.hdr != nil {
		sl := (*p.hdr).([]value)
		return &viewslice{base: sl[:cap(sl)], elem: T.Underlying().(*types.Slice).Elem(), n: len(sl)}
	}
	return p.loadAt(in, 0, T)
}

func (p *viewptr) store(in *interpreter, T types.Type, v value) {
	if p.hdr != nil {
		panic(unsupported{reason: "store through a reinterpreted slice header"})
	}
	p.storeAt(in, 0, T, v)
}

func (p *viewptr) fieldAddr(in *interpreter, T types.Type, field int) value {
	st := T.Underlying().(*types.Struct)
	fields := make([]*types.Var, st.NumFields())
	for k := range fields {
		fields[k] = st.Field(k)
	}
	offs := stdSizes.Offsetsof(fields)
	off := offs[field]
	if off > int64(len(p.base)) {
		panic(targetPanic{msg: "runtime error: unsafe view field out of range"})
	}
	return &viewptr{base: p.base[off:], t: st.Field(field).Type()}
}

func (p *viewptr) indexAddr(in *interpreter, T types.Type, idx int64) value {
	at, ok := T.Underlying().(*types.Array)
	if !ok {
		panic(unsupported{reason: "view index of " + T.String()})
	}
	es := sizeofT(at.Elem())
	if idx < 0 || idx >= at.Len() {
		panic(targetPanic{msg: fmt.Sprintf("runtime error: index out of range [%d] with length %d", idx, at.Len())})
	}
	off := idx * es
	if off > int64(len(p.base)) {
		panic(targetPanic{msg: "runtime error: unsafe view index out of range"})
	}
	return &viewptr{base: p.base[off:], t: at.Elem()}
}

var stdSizes = types.SizesFor("gc", "amd64")
