package main

// golang.org/x/sync/singleflight is interpreted from source (pdOracle's
// getCurrentTSForValidation, C13). Its only package-level initialiser is
// `errGoexit = errors.New(...)`; run it although golang.org/x/ is otherwise a
// no-init prefix.

func init() {
	forceInit["golang.org/x/sync/singleflight"] = true
}
