package main

// gosx — symbolic executor for go/ssa (see /verif/DESIGN.md §1).
//
//   gosx run    -repo /repo -pkg <import path> -hdir <harness dir> -rt <zz_rt.go> [-funcs a,b] -out res.json
//   gosx replay -repo /repo -pkg <import path> -hdir <harness dir> -rt <zz_rt.go> -file replay.json

import (
	"encoding/json"
	"flag"
	"fmt"
	"go/token"
	"go/types"
	"os"
	"path/filepath"
	"runtime"
	"sort"
	"strings"
	"sync"
	"time"

	"golang.org/x/tools/go/ssa"
)

type worker struct {
	id     int
	in     *interpreter
	solver *solver
	cross  *solver // optional second solver re-deciding every assertion query
	p      *program
}

type harnessResult struct {
	Harness    string            `json:"harness"`
	Paths      int               `json:"paths"`
	Ends       map[string]int    `json:"ends"`
	Branches   int               `json:"branches"`
	Violations []violation       `json:"violations"`
	Reached    map[string]int    `json:"reached"`
	AssertQ    map[string]int    `json:"assert_queries"`
	Cuts       map[string]int    `json:"cuts"`
	Unknowns   int               `json:"unknowns"`
	Truncated  string            `json:"truncated,omitempty"`
	Samples    []string          `json:"samples"`
	Queries    int               `json:"queries"`
	Sat        int               `json:"sat"`
	Unsat      int               `json:"unsat"`
	SolverUnk  int               `json:"solver_unknown"`
	SolverErr  int               `json:"solver_errors"`
	SolverTime float64           `json:"solver_time_s"`
	Wall       float64           `json:"wall_s"`
	Steps      int64             `json:"steps"`
	Fault      string            `json:"fault,omitempty"`
	Funcs      []string          `json:"functions_encoded"`
	Unwind     int               `json:"unwind"`
	Solver     string            `json:"solver"`
	CrossChecked int             `json:"cross_checked"`
	CrossUnknown int             `json:"cross_unknown"`
	CrossSolver  string          `json:"cross_solver,omitempty"`
	Vectors    []vector          `json:"vectors"`
	UsesStubs  bool              `json:"uses_stubs"`
}

type runResult struct {
	Pkg       string          `json:"pkg"`
	LoadS     float64         `json:"load_s"`
	SSAS      float64         `json:"ssa_s"`
	InitS     float64         `json:"init_s"`
	InitLog   []string        `json:"init_log,omitempty"`
	Harnesses []harnessResult `json:"harnesses"`
}

var verboseStacks bool
var crossSolver string
var stackSeen sync.Map

func seenStack(r string) bool {
	_, loaded := stackSeen.LoadOrStore(r, true)
	return loaded
}

func newInterp(p *program) *interpreter {
	in := &interpreter{prog: p.prog, sizes: stdSizes, maxSteps: 200_000_000}
	if rp := p.prog.ImportedPackage("errors"); rp != nil {
		in.errorsNew = rp.Func("New")
	}
	return in
}

func main() {
	if len(os.Args) < 2 {
		fmt.Fprintln(os.Stderr, "usage: gosx run|replay ...")
		os.Exit(2)
	}
	mode := os.Args[1]
	fs := flag.NewFlagSet(mode, flag.ExitOnError)
	repo := fs.String("repo", "/repo", "repository root")
	pkg := fs.String("pkg", "", "import path of the package under test")
	hdir := fs.String("hdir", "", "harness directory (zz_*.go)")
	rt := fs.String("rt", "", "zz runtime source (package clause is rewritten)")
	funcs := fs.String("funcs", "", "comma-separated harness functions (default: all ZZ_*)")
	out := fs.String("out", "", "result JSON file")
	workers := fs.Int("workers", runtime.NumCPU(), "parallel workers")
	solverKind := fs.String("solver", "z3", "z3 | z3-new | cvc5")
	tmo := fs.Int("query-timeout-ms", 60000, "per-query solver timeout")
	maxPaths := fs.Int("max-paths", 1<<30, "path limit per harness")
	timeLimit := fs.Int("time-limit-s", 0, "wall limit per harness (0 = none)")
	unwind := fs.Int("unwind", 64, "symbolic unwinding limit per branch site and frame")
	maxSteps := fs.Int64("max-steps", 30_000_000, "instruction budget per path")
	file := fs.String("file", "", "replay file")
	verbose := fs.Bool("v", false, "verbose")
	trace := fs.Bool("trace", false, "trace instructions (replay)")
	cross := fs.String("cross", "", "second solver (z3-new | cvc5) that re-decides every assertion query")
	params := fs.String("params", "", "harness parameters k=v,k=v (zzParam)")
	fs.Parse(os.Args[2:])
	verboseStacks = *verbose
	for _, kv := range strings.Split(*params, ",") {
		if k, v, ok := strings.Cut(kv, "="); ok {
			var n int
			fmt.Sscanf(v, "%d", &n)
			engineParams[k] = n
		}
	}

	if *pkg == "" || *hdir == "" {
		fmt.Fprintln(os.Stderr, "need -pkg and -hdir")
		os.Exit(2)
	}
	overlay, pkgDir, err := harnessFiles(*repo, *pkg, *hdir, *rt)
	if err != nil {
		fmt.Fprintln(os.Stderr, err)
		os.Exit(2)
	}
	tmpDir := ""
	if *rt != "" {
		// rewrite the package clause of the runtime file for this package
		pkgName, err := packageNameOf(pkgDir)
		if err != nil {
			fmt.Fprintln(os.Stderr, err)
			os.Exit(2)
		}
		src, err := os.ReadFile(*rt)
		if err != nil {
			fmt.Fprintln(os.Stderr, err)
			os.Exit(2)
		}
		tmpDir, _ = os.MkdirTemp("", "gosx")
		defer os.RemoveAll(tmpDir)
		rtOut := filepath.Join(tmpDir, "zz_rt.go")
		os.WriteFile(rtOut, []byte(strings.Replace(string(src), "package PKGNAME", "package "+pkgName, 1)), 0o644)
		overlay[filepath.Join(pkgDir, "zz_rt.go")] = rtOut
	}
	p, err := loadProgram(*repo, *pkg, overlay)
	if err != nil {
		fmt.Fprintln(os.Stderr, "load:", err)
		os.Exit(2)
	}
	initIn := newInterp(p)
	p.runInits(initIn, *verbose)
	p.snap = takeSnapshot(initIn.globals, func(g *ssa.Global) bool {
		return g.Pkg != nil && strings.HasPrefix(g.Pkg.Pkg.Path(), modPrefix)
	})
	if *verbose {
		fmt.Fprintf(os.Stderr, "load %.1fs ssa %.1fs init %.1fs; private graph: %d containers %d cells\n",
			p.loadTime.Seconds(), p.ssaTime.Seconds(), p.initTime.Seconds(), len(p.snap.priv.conts), len(p.snap.priv.ptrs))
	}

	var names []string
	if *funcs != "" {
		names = strings.Split(*funcs, ",")
	} else {
		for n, m := range p.target.Members {
			if _, ok := m.(*ssa.Function); ok && strings.HasPrefix(n, "ZZ_") {
				names = append(names, n)
			}
		}
		sort.Strings(names)
	}

	switch mode {
	case "run":
		res := runResult{Pkg: *pkg, LoadS: p.loadTime.Seconds(), SSAS: p.ssaTime.Seconds(), InitS: p.initTime.Seconds(), InitLog: p.initLog}
		exit := 0
		for _, n := range names {
			fn := p.target.Func(n)
			if fn == nil {
				fmt.Fprintf(os.Stderr, "no harness function %s in %s\n", n, *pkg)
				os.Exit(2)
			}
			crossSolver = *cross
			hr := exploreHarness(p, fn, *workers, *solverKind, *tmo, *maxPaths, *timeLimit, *unwind, *maxSteps, *verbose)
			res.Harnesses = append(res.Harnesses, hr)
			fmt.Fprintf(os.Stderr, "%s: paths=%d ends=%v viol=%d queries=%d solver=%.1fs wall=%.1fs %s\n",
				n, hr.Paths, hr.Ends, len(hr.Violations), hr.Queries, hr.SolverTime, hr.Wall, hr.Fault)
			if hr.Fault != "" {
				exit = 2
			}
		}
		b, _ := json.MarshalIndent(res, "", " ")
		if *out != "" {
			os.WriteFile(*out, b, 0o644)
		} else {
			os.Stdout.Write(b)
		}
		os.Exit(exit)
	case "replay":
		b, err := os.ReadFile(*file)
		if err != nil {
			fmt.Fprintln(os.Stderr, err)
			os.Exit(2)
		}
		var v violation
		if err := json.Unmarshal(b, &v); err != nil {
			fmt.Fprintln(os.Stderr, err)
			os.Exit(2)
		}
		fn := p.target.Func(v.Harness)
		if fn == nil {
			fmt.Fprintf(os.Stderr, "no harness function %s\n", v.Harness)
			os.Exit(2)
		}
		ok, msg := replayConcrete(p, fn, v, *trace)
		fmt.Println(msg)
		if ok {
			fmt.Println("REPRODUCED")
			os.Exit(1)
		}
		fmt.Println("NOT-REPRODUCED")
		os.Exit(0)
	}
	fmt.Fprintln(os.Stderr, "unknown mode", mode)
	os.Exit(2)
}

func packageNameOf(dir string) (string, error) {
	ents, err := os.ReadDir(dir)
	if err != nil {
		return "", err
	}
	for _, e := range ents {
		n := e.Name()
		if strings.HasSuffix(n, ".go") && !strings.HasSuffix(n, "_test.go") {
			b, err := os.ReadFile(filepath.Join(dir, n))
			if err != nil {
				continue
			}
			for _, line := range strings.Split(string(b), "\n") {
				line = strings.TrimSpace(line)
				if strings.HasPrefix(line, "package ") {
					f := strings.Fields(line)
					return f[1], nil
				}
			}
		}
	}
	return "", fmt.Errorf("no Go package in %s", dir)
}

func exploreHarness(p *program, fn *ssa.Function, nw int, solverKind string, tmo, maxPaths, timeLimit, unwind int, maxSteps int64, verbose bool) harnessResult {
	t0 := time.Now()
	ex := newExplorer(fn.Name())
	ex.maxPaths = maxPaths
	ex.unwind = unwind
	ex.maxSteps = maxSteps
	if timeLimit > 0 {
		ex.deadline = t0.Add(time.Duration(timeLimit) * time.Second)
	}
	var wg sync.WaitGroup
	var mu sync.Mutex
	var fault string
	funcs := map[*ssa.Function]bool{}
	var stats solverStats
	for k := 0; k < nw; k++ {
		wg.Add(1)
		go func(id int) {
			defer wg.Done()
			s, err := newSolver(solverKind, tmo)
			if err != nil {
				mu.Lock()
				fault = "solver start: " + err.Error()
				mu.Unlock()
				return
			}
			w := &worker{id: id, in: newInterp(p), solver: s, p: p}
			if crossSolver != "" {
				cs, err := newSolver(crossSolver, tmo)
				if err != nil {
					mu.Lock()
					fault = "cross solver start: " + err.Error()
					mu.Unlock()
					return
				}
				w.cross = cs
				defer cs.close()
			}
			w.in.globals = p.snap.globals
			w.in.sharedGraph = p.snap.shared
			w.in.funcsSeen = map[*ssa.Function]bool{}
			defer func() {
				s := w.solver // may have been restarted
				s.close()
				mu.Lock()
				for f := range w.in.funcsSeen {
					funcs[f] = true
				}
				stats.queries += s.stats.queries
				stats.sat += s.stats.sat
				stats.unsat += s.stats.unsat
				stats.unknown += s.stats.unknown
				stats.errors += s.stats.errors
				stats.duration += s.stats.duration
				mu.Unlock()
			}()
			for {
				prefix, ok := ex.take()
				if !ok {
					return
				}
				f := w.runPath(ex, fn, prefix, nil)
				if f != "" {
					mu.Lock()
					if fault == "" {
						fault = f
					}
					mu.Unlock()
					ex.mu.Lock()
					ex.stopped = true
					ex.cond.Broadcast()
					ex.mu.Unlock()
					return
				}
			}
		}(k)
	}
	wg.Wait()
	hr := harnessResult{Harness: fn.Name(), Paths: ex.paths, Ends: ex.ends, Branches: ex.branches, Violations: ex.violations,
		Reached: ex.reached, AssertQ: ex.asserts, Cuts: ex.cutReasons, Unknowns: ex.unknowns, Truncated: ex.truncated,
		Samples: ex.samples, Queries: stats.queries, Sat: stats.sat, Unsat: stats.unsat, SolverUnk: stats.unknown,
		SolverErr: stats.errors, SolverTime: stats.duration.Seconds(), Wall: time.Since(t0).Seconds(), Steps: ex.stepsTotal,
		Fault: fault, Unwind: unwind, Solver: solverKind, Vectors: ex.vectors, UsesStubs: ex.usesStubs,
		CrossChecked: ex.crossChecked, CrossUnknown: ex.crossUnknown, CrossSolver: crossSolver}
	for f := range funcs {
		path := pkgPathOf(f)
		if strings.HasPrefix(path, modPrefix) && !strings.HasPrefix(f.Name(), "zz") && !strings.HasPrefix(f.Name(), "ZZ_") {
			hr.Funcs = append(hr.Funcs, f.String())
		}
	}
	sort.Strings(hr.Funcs)
	if hr.Violations == nil {
		hr.Violations = []violation{}
	}
	return hr
}

// runPath executes the harness once under the given decision prefix.
// A non-empty return value is an engine fault.
func (w *worker) runPath(ex *explorer, fn *ssa.Function, prefix []decision, replay []draw) (fault string) {
	in := w.in
	if w.solver != nil && w.solver.killed {
		// the previous path lost its solver to the watchdog
		st := w.solver.stats
		w.solver.close()
		ns, err := newSolver(w.solver.name, w.solver.tmoMs)
		if err != nil {
			return "solver restart: " + err.Error()
		}
		ns.stats = st
		w.solver = ns
	}
	in.priv = w.p.snap.instantiate()
	in.side = newSideTables()
	in.sch = newSched(in)
	in.steps = 0
	in.maxSteps = ex.maxSteps
	in.stubs = map[string]value{}
	ps := &pathState{ex: ex, w: w, prefix: prefix, unwind: ex.unwind, harness: fn.Name(), notes: map[string]string{}}
	if replay != nil {
		ps.replayDraws = replay
		ps.concrete = map[string]uint64{}
	}
	in.path = ps
	ps.begin()
	res := pathResult{end: "done"}
	func() {
		defer func() {
			r := recover()
			if r == nil {
				return
			}
			switch r := r.(type) {
			case pathEnd:
				res.end = r.kind
				if r.detail != "" {
					res.end += ":" + r.detail
				}
			case unsupported:
				res.end = "unsupported:" + r.reason
				if verboseStacks && !seenStack(r.reason) {
					fmt.Fprintf(os.Stderr, "unsupported: %s%s\n", r.reason, r.stack)
				}
			case targetPanic:
				res.end = "panic:" + r.String()
				ps.recordViolation("panic", "no-panic", r.String(), ps.model(nil))
			case goroutinePanic:
				res.end = "panic:" + r.tp.String()
				ps.recordViolation("panic", "no-panic", "in a background goroutine: "+r.tp.String(), ps.model(nil))
			case engineFault:
				fault = "engine fault: " + r.msg
			case abortPanic:
				res.end = "aborted"
			default:
				buf := make([]byte, 1<<14)
				n := runtime.Stack(buf, false)
				fault = fmt.Sprintf("host panic: %v\n%s", r, buf[:n])
			}
		}()
		call(in, nil, token.NoPos, fn, nil)
		// let spawned goroutines finish what they can
		in.sch.runOthers()
	}()
	in.sch.abortAll()
	if fault == "" && res.end == "done" && len(ps.violations) == 0 {
		func() {
			defer func() {
				if r := recover(); r != nil {
					fault = fmt.Sprintf("engine fault while sampling a vector: %v", r)
				}
			}()
			ps.takeVector(res.end)
		}()
	}
	ps.end()
	res.violations = ps.violations
	res.steps = in.steps
	if fault == "" && ps.pos < len(ps.prefix) && res.end == "done" {
		fault = fmt.Sprintf("engine fault: replay divergence: %d of %d prefix decisions consumed", ps.pos, len(ps.prefix))
	}
	ex.finish(ps, res)
	return fault
}

// replayConcrete runs the harness with all draws fixed (no solver).
func replayConcrete(p *program, fn *ssa.Function, v violation, trace bool) (bool, string) {
	ex := newExplorer(fn.Name())
	ex.take()
	w := &worker{in: newInterp(p), p: p}
	w.in.globals = p.snap.globals
	w.in.sharedGraph = p.snap.shared
	w.in.trace = trace
	fault := w.runPath(ex, fn, nil, v.Draws)
	if fault != "" {
		return false, fault
	}
	for _, got := range ex.violations {
		if got.Label == v.Label {
			return true, fmt.Sprintf("violation %q reproduced in concrete mode (%s %s)", got.Label, got.Kind, got.Detail)
		}
	}
	return false, fmt.Sprintf("ends=%v violations=%d", ex.ends, len(ex.violations))
}

var _ = types.Typ
