package main

// Interval reasoning for variables that are introduced with a range contract (the protobuf varint
// length over-approximation: an arbitrary value in 1..10). Sums of such variables and constants feed
// "is the size zero" / threshold branches by the hundred in one path; deciding them needs no solver,
// and not adding them to the path condition keeps later queries small. The decision is a pure
// function of the term and of the declared ranges, so exploration and replay agree.

type urange struct{ lo, hi uint64 }

// freshRanged declares a fresh variable constrained to lo..hi (unsigned). A fresh variable with a
// non-empty range keeps the path condition satisfiable: no feasibility query.
func (ps *pathState) freshRanged(name string, w int, lo, hi uint64) *term {
	v := ps.fresh(name, w)
	if ps.ranges == nil {
		ps.ranges = map[string]urange{}
	}
	ps.ranges[v.name] = urange{lo, hi}
	ps.assert(tAnd(tCmp("bvule", tConst(w, lo), v), tCmp("bvule", v, tConst(w, hi))))
	return v
}

// rangeOf returns unsigned bounds of t when they follow from declared ranges alone.
func (ps *pathState) rangeOf(t *term, depth int) (urange, bool) {
	if t.op == "const" {
		return urange{t.val, t.val}, true
	}
	if len(ps.ranges) == 0 || depth > 64 || t.w == 0 || t.w > 64 {
		return urange{}, false
	}
	switch t.op {
	case "var":
		r, ok := ps.ranges[t.name]
		return r, ok
	case "zero_extend":
		return ps.rangeOf(t.args[0], depth+1)
	case "bvadd":
		var lo, hi uint64
		m := mask(t.w)
		for _, a := range t.args {
			r, ok := ps.rangeOf(a, depth+1)
			if !ok {
				return urange{}, false
			}
			if r.hi > m-hi || r.lo > m-lo { // could wrap
				return urange{}, false
			}
			lo += r.lo
			hi += r.hi
		}
		return urange{lo, hi}, true
	case "ite":
		a, ok1 := ps.rangeOf(t.args[1], depth+1)
		b, ok2 := ps.rangeOf(t.args[2], depth+1)
		if !ok1 || !ok2 {
			return urange{}, false
		}
		if b.lo < a.lo {
			a.lo = b.lo
		}
		if b.hi > a.hi {
			a.hi = b.hi
		}
		return a, true
	}
	return urange{}, false
}

// decideByRange decides a comparison whose operands have known ranges.
func (ps *pathState) decideByRange(c *term) (val bool, ok bool) {
	if len(ps.ranges) == 0 {
		return false, false
	}
	if c.op == "not" {
		v, ok := ps.decideByRange(c.args[0])
		return !v, ok
	}
	switch c.op {
	case "=", "bvule", "bvult", "bvsle", "bvslt":
	default:
		return false, false
	}
	if len(c.args) != 2 || c.args[0].w == 0 {
		return false, false
	}
	a, ok1 := ps.rangeOf(c.args[0], 0)
	if !ok1 {
		return false, false
	}
	b, ok2 := ps.rangeOf(c.args[1], 0)
	if !ok2 {
		return false, false
	}
	op := c.op
	if op == "bvsle" || op == "bvslt" {
		// signed order equals unsigned order when neither side reaches the sign bit
		half := uint64(1) << uint(c.args[0].w-1)
		if a.hi >= half || b.hi >= half {
			return false, false
		}
		op = map[string]string{"bvsle": "bvule", "bvslt": "bvult"}[op]
	}
	switch op {
	case "=":
		if a.hi < b.lo || b.hi < a.lo {
			return false, true
		}
		if a.lo == a.hi && b.lo == b.hi && a.lo == b.lo {
			return true, true
		}
	case "bvule":
		if a.hi <= b.lo {
			return true, true
		}
		if a.lo > b.hi {
			return false, true
		}
	case "bvult":
		if a.hi < b.lo {
			return true, true
		}
		if a.lo >= b.hi {
			return false, true
		}
	}
	return false, false
}
