package main

// zap is a stubbed package (log calls are no-ops), but (*zap.Logger).Panic / Fatal do not return
// in the real program: Panic logs and panics with the message, Fatal logs and exits. client-go uses
// logutil.BgLogger().Panic(...) as its "fail loudly" mechanism (iterator used after a write, nil
// checkpoint, ...). A no-op there would let the interpreter run on past the point where the real
// program stops, so both are modelled as a Go panic carrying the message. (C08 (e).)

func init() {
	stop := func(kind string) externalFn {
		return func(fr *frame, a []value) value {
			msg, _ := a[1].(string)
			panic(targetPanic{msg: "zap.Logger." + kind + ": " + msg})
		}
	}
	ext("(*go.uber.org/zap.Logger).Panic", stop("Panic"))
	ext("(*go.uber.org/zap.Logger).Fatal", stop("Fatal"))
}
