package main

// util/redact.Key renders a key for a log line or an error message (hex, or "?"
// when log redaction is on). The hex table lookup indexes by key byte, which would concretise
// every symbolic key byte (256-way forks) for text that no assertion reads. It is given the
// "redaction enabled" behaviour — a legal result of the real function — so the formatted text
// stays out of the path condition. (C07: UnionIter.updateCur logs a deletion of an absent key.)

func init() {
	const p = "github.com/tikv/client-go/v2/util/redact."
	ext(p+"Key", func(fr *frame, a []value) value { return "?" })
}
