package main

// Symbolic arithmetic: Go operator semantics over bit-vector terms.

import (
	"fmt"
	"go/token"
	"go/types"
)

type unsupported struct {
	reason string
	stack  string
}

func (u unsupported) Error() string { return "unsupported: " + u.reason }

type engineFault struct{ msg string }

func basicInfo(t types.Type) (w int, signed bool, ok bool) {
	b, isB := t.Underlying().(*types.Basic)
	if !isB {
		return 0, false, false
	}
	switch b.Kind() {
	case types.Bool, types.UntypedBool:
		return 0, false, true
	case types.Int, types.Int64, types.UntypedInt:
		return 64, true, true
	case types.Int8:
		return 8, true, true
	case types.Int16:
		return 16, true, true
	case types.Int32, types.UntypedRune:
		return 32, true, true
	case types.Uint, types.Uint64, types.Uintptr:
		return 64, false, true
	case types.Uint8:
		return 8, false, true
	case types.Uint16:
		return 16, false, true
	case types.Uint32:
		return 32, false, true
	}
	return 0, false, false
}

// concreteOf converts a constant term back to a host value of type t.
func concreteOf(t types.Type, e *term) value {
	b := t.Underlying().(*types.Basic)
	v := e.val
	switch b.Kind() {
	case types.Bool, types.UntypedBool:
		return v != 0
	case types.Int, types.UntypedInt:
		return int(int64(v))
	case types.Int8:
		return int8(v)
	case types.Int16:
		return int16(v)
	case types.Int32, types.UntypedRune:
		return int32(v)
	case types.Int64:
		return int64(v)
	case types.Uint:
		return uint(v)
	case types.Uint8:
		return uint8(v)
	case types.Uint16:
		return uint16(v)
	case types.Uint32:
		return uint32(v)
	case types.Uint64:
		return v
	case types.Uintptr:
		return uintptr(v)
	}
	panic(fmt.Sprintf("concreteOf: %s", t))
}

func wrapTerm(t types.Type, e *term) value {
	if e.isConst() {
		return concreteOf(t, e)
	}
	return &sym{e}
}

// opaqueFloat is a floating-point value derived from a symbolic integer.
// Arithmetic on it stays opaque; any use that would need its value
// (comparison, conversion to an integer, branching) ends the path as
// unsupported:float.
type opaqueFloat struct{}

func hasSym(x, y value) bool {
	switch x.(type) {
	case *sym, sstr, opaqueFloat:
		return true
	}
	switch y.(type) {
	case *sym, sstr, opaqueFloat:
		return true
	}
	return false
}

// symBinop implements binary operators when at least one operand is symbolic.
// t is the static type of x (and of y except for shifts).
func symBinop(i *interpreter, op token.Token, t, ty types.Type, x, y value) value {
	if _, ok := x.(opaqueFloat); ok {
		return opaqueArith(op)
	}
	if _, ok := y.(opaqueFloat); ok {
		return opaqueArith(op)
	}
	// strings
	if isStr(x) || isStr(y) {
		a, b := strBytes(x), strBytes(y)
		switch op {
		case token.ADD:
			out := make(sstr, 0, len(a)+len(b))
			out = append(out, a...)
			out = append(out, b...)
			return normStr(out)
		case token.EQL:
			return boolVal(bytesEqTerm(a, b))
		case token.NEQ:
			return boolVal(tNot(bytesEqTerm(a, b)))
		case token.LSS:
			return boolVal(tCmp("bvslt", bytesCmpTerm(a, b), tConst(64, 0)))
		case token.LEQ:
			return boolVal(tCmp("bvsle", bytesCmpTerm(a, b), tConst(64, 0)))
		case token.GTR:
			return boolVal(tCmp("bvslt", tConst(64, 0), bytesCmpTerm(a, b)))
		case token.GEQ:
			return boolVal(tCmp("bvsle", tConst(64, 0), bytesCmpTerm(a, b)))
		}
		panic(unsupported{reason: "string op " + op.String()})
	}
	w, signed, ok := basicInfo(t)
	if !ok {
		panic(unsupported{reason: fmt.Sprintf("symbolic %s on %s", op, t)})
	}
	a, b := scalarTerm(x), scalarTerm(y)
	if a == nil || b == nil {
		panic(unsupported{reason: fmt.Sprintf("symbolic %s on %T,%T", op, x, y)})
	}
	if w == 0 { // booleans
		switch op {
		case token.EQL:
			return boolVal(tCmp("=", a, b))
		case token.NEQ:
			return boolVal(tNot(tCmp("=", a, b)))
		case token.AND, token.LAND:
			return boolVal(tAnd(a, b))
		case token.OR, token.LOR:
			return boolVal(tOr(a, b))
		}
		panic(unsupported{reason: "bool op " + op.String()})
	}
	cmp := func(sop, uop string, l, r *term) value {
		if signed {
			return boolVal(tCmp(sop, l, r))
		}
		return boolVal(tCmp(uop, l, r))
	}
	switch op {
	case token.ADD:
		return wrapTerm(t, tBV("bvadd", a, b))
	case token.SUB:
		return wrapTerm(t, tBV("bvsub", a, b))
	case token.MUL:
		return wrapTerm(t, tBV("bvmul", a, b))
	case token.QUO, token.REM:
		// division by zero panics: fork on it.
		if i.branchTerm(tCmp("=", b, tConst(w, 0))) {
			panic(targetPanic{msg: "runtime error: integer divide by zero"})
		}
		var o string
		switch {
		case op == token.QUO && signed:
			o = "bvsdiv"
		case op == token.QUO:
			o = "bvudiv"
		case signed:
			o = "bvsrem"
		default:
			o = "bvurem"
		}
		return wrapTerm(t, tBV(o, a, b))
	case token.AND:
		return wrapTerm(t, tBV("bvand", a, b))
	case token.OR:
		return wrapTerm(t, tBV("bvor", a, b))
	case token.XOR:
		return wrapTerm(t, tBV("bvxor", a, b))
	case token.AND_NOT:
		return wrapTerm(t, tBV("bvand", a, tBVNot(b)))
	case token.SHL, token.SHR:
		yw, ysigned, _ := basicInfo(ty)
		if ysigned {
			if i.branchTerm(tCmp("bvslt", b, tConst(yw, 0))) {
				panic(targetPanic{msg: "runtime error: negative shift amount"})
			}
		}
		// bring count to width w with saturation
		var cnt *term
		var over *term
		if yw > w {
			over = tCmp("bvule", tConst(yw, uint64(w)), b)
			cnt = tExtract(w-1, 0, b)
		} else {
			cnt = tResize(b, w, false)
			over = tCmp("bvule", tConst(w, uint64(w)), cnt)
		}
		var r, sat *term
		switch {
		case op == token.SHL:
			r, sat = tBV("bvshl", a, cnt), tConst(w, 0)
		case signed:
			r = tBV("bvashr", a, cnt)
			sat = tBV("bvashr", a, tConst(w, uint64(w-1)))
		default:
			r, sat = tBV("bvlshr", a, cnt), tConst(w, 0)
		}
		return wrapTerm(t, tIte(over, sat, r))
	case token.EQL:
		return boolVal(tCmp("=", a, b))
	case token.NEQ:
		return boolVal(tNot(tCmp("=", a, b)))
	case token.LSS:
		return cmp("bvslt", "bvult", a, b)
	case token.LEQ:
		return cmp("bvsle", "bvule", a, b)
	case token.GTR:
		return cmp("bvslt", "bvult", b, a)
	case token.GEQ:
		return cmp("bvsle", "bvule", b, a)
	}
	panic(unsupported{reason: "symbolic binop " + op.String()})
}

func opaqueArith(op token.Token) value {
	switch op {
	case token.ADD, token.SUB, token.MUL, token.QUO:
		return opaqueFloat{}
	}
	panic(unsupported{reason: "float: comparison of a value derived from a symbolic integer"})
}

func isStr(v value) bool {
	switch v.(type) {
	case string, sstr:
		return true
	}
	return false
}

func boolVal(e *term) value {
	if e.isConst() {
		return e.val == 1
	}
	return &sym{e}
}

func symUnop(op token.Token, t types.Type, x *sym) value {
	switch op {
	case token.NOT:
		return boolVal(tNot(x.e))
	case token.SUB:
		return wrapTerm(t, tBVNeg(x.e))
	case token.XOR:
		return wrapTerm(t, tBVNot(x.e))
	}
	panic(unsupported{reason: "symbolic unop " + op.String()})
}

// symConv converts symbolic scalar x from t_src to t_dst.
func symConv(tDst, tSrc types.Type, x *sym) value {
	dw, _, dok := basicInfo(tDst)
	sw, ssigned, sok := basicInfo(tSrc)
	if !dok || !sok {
		if b, ok := tDst.Underlying().(*types.Basic); ok && b.Info()&types.IsFloat != 0 {
			// not modelled: the result is an opaque float that may be passed
			// around and fed to stubs, but never compared or converted back
			return opaqueFloat{}
		}
		if b, ok := tDst.Underlying().(*types.Basic); ok && b.Kind() == types.String {
			panic(unsupported{reason: "conversion of symbolic integer to string"})
		}
		panic(unsupported{reason: fmt.Sprintf("symbolic conversion %s -> %s", tSrc, tDst)})
	}
	if dw == 0 || sw == 0 {
		if dw == sw {
			return x
		}
		panic(unsupported{reason: "bool/int conversion"})
	}
	return wrapTerm(tDst, tResize(x.e, dw, ssigned))
}

// toTermTyped converts any scalar value to a term of the width of t.
func toTerm(v value) *term {
	e := scalarTerm(v)
	if e == nil {
		panic(unsupported{reason: fmt.Sprintf("toTerm(%T)", v)})
	}
	return e
}
