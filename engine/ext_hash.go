package main

// Hash functions implemented in assembly: modelled by FNV-1a on concrete
// bytes (only equality of hashes matters to the code under test).

func init() {
	fnv := func(fr *frame, a []value) value {
		bs, ok := allConcreteBytes(bytesOf(a[0]))
		if !ok {
			panic(unsupported{reason: "hash of symbolic bytes: " + fr.fn.String()})
		}
		h := uint64(14695981039346656037)
		for _, b := range bs {
			h ^= uint64(b)
			h *= 1099511628211
		}
		return h
	}
	ext("github.com/dgryski/go-farm.Fingerprint64", fnv)
	ext("github.com/dgryski/go-farm.Hash64", fnv)
	ext("github.com/cespare/xxhash/v2.Sum64", fnv)
}
