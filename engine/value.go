// Portions derived from golang.org/x/tools/go/ssa/interp (BSD-style license,
// Copyright 2013 The Go Authors).

package main

// Values
//
// All interpreter values are boxed in `value`. Dynamic types:
//
// - bool, numbers, string          concrete scalars
// - *sym                           symbolic scalar (Bool or bit-vector term)
// - sstr                           string with concrete length, possibly symbolic bytes
// - *omap                          maps (ordered, deterministic; nil = nil map)
// - *channel                       channels
// - []value                        slices
// - iface, structure, array, *value (pointers), tuple, iter
// - *ssa.Function, *ssa.Builtin, *closure
// - uptr                           unsafe.Pointer (remembers the typed origin)
// - bad                            poison

import (
	"bytes"
	"fmt"
	"go/types"
	"unsafe"

	"golang.org/x/tools/go/ssa"
	"golang.org/x/tools/go/types/typeutil"
)

type value any

type tuple []value

type array []value

type iface struct {
	t types.Type // never an "untyped" type
	v value
}

type structure []value

type iter interface {
	next() tuple
}

type closure struct {
	Fn  *ssa.Function
	Env []value
}

type bad struct{}

// sym is a symbolic scalar. Signedness comes from the static type at each use.
type sym struct {
	e *term
}

// sstr is a string whose bytes may be symbolic (each element uint8 or *sym of
// width 8). Immutable by convention.
type sstr []value

// uptr is an unsafe.Pointer: the original pointer value and its static type.
type uptr struct {
	p value      // *value, viewptr or nil
	t types.Type // static type of the pointer converted (may be nil)
}

var hasher = typeutil.MakeHasher()

// nil-tolerant variant of types.Identical.
func sameType(x, y types.Type) bool {
	if x == nil {
		return y == nil
	}
	return y != nil && types.Identical(x, y)
}

func isSymbolic(v value) bool {
	switch v := v.(type) {
	case *sym:
		return true
	case sstr:
		return true
	case structure:
		for _, e := range v {
			if isSymbolic(e) {
				return true
			}
		}
	case array:
		for _, e := range v {
			if isSymbolic(e) {
				return true
			}
		}
	case iface:
		return isSymbolic(v.v)
	}
	return false
}

// normStr turns an sstr with only concrete bytes into a host string.
func normStr(s sstr) value {
	for _, b := range s {
		if _, ok := b.(*sym); ok {
			return s
		}
	}
	bs := make([]byte, len(s))
	for i, b := range s {
		bs[i] = b.(uint8)
	}
	return string(bs)
}

func strBytes(v value) []value {
	switch v := v.(type) {
	case string:
		out := make([]value, len(v))
		for i := 0; i < len(v); i++ {
			out[i] = v[i]
		}
		return out
	case sstr:
		return []value(v)
	}
	panic(fmt.Sprintf("strBytes: %T", v))
}

// equals returns true iff x and y are equal according to Go's
// equivalence relation for type t; both must be fully concrete.
func equals(t types.Type, x, y value) bool {
	r := eqValue(t, x, y)
	if b, ok := r.(bool); ok {
		return b
	}
	panic(unsupported{reason: "symbolic equality used where a concrete bool is required"})
}

// eqValue returns bool or *sym.
func eqValue(t types.Type, x, y value) value {
	e := eqTerm(t, x, y)
	if e.isConst() {
		return e.val == 1
	}
	return &sym{e}
}

func scalarTerm(v value) *term {
	switch v := v.(type) {
	case *sym:
		return v.e
	case bool:
		return tBool(v)
	case int:
		return tConst(64, uint64(v))
	case int8:
		return tConst(8, uint64(v))
	case int16:
		return tConst(16, uint64(v))
	case int32:
		return tConst(32, uint64(v))
	case int64:
		return tConst(64, uint64(v))
	case uint:
		return tConst(64, uint64(v))
	case uint8:
		return tConst(8, uint64(v))
	case uint16:
		return tConst(16, uint64(v))
	case uint32:
		return tConst(32, uint64(v))
	case uint64:
		return tConst(64, v)
	case uintptr:
		return tConst(64, uint64(v))
	}
	return nil
}

func eqTerm(t types.Type, x, y value) *term {
	_, xs := x.(*sym)
	_, ys := y.(*sym)
	if xs || ys {
		a, b := scalarTerm(x), scalarTerm(y)
		if a == nil || b == nil {
			panic(unsupported{reason: fmt.Sprintf("symbolic equality on %T/%T", x, y)})
		}
		return tCmp("=", a, b)
	}
	switch x := x.(type) {
	case bool:
		return tBool(x == y.(bool))
	case int:
		return tBool(x == y.(int))
	case int8:
		return tBool(x == y.(int8))
	case int16:
		return tBool(x == y.(int16))
	case int32:
		return tBool(x == y.(int32))
	case int64:
		return tBool(x == y.(int64))
	case uint:
		return tBool(x == y.(uint))
	case uint8:
		return tBool(x == y.(uint8))
	case uint16:
		return tBool(x == y.(uint16))
	case uint32:
		return tBool(x == y.(uint32))
	case uint64:
		return tBool(x == y.(uint64))
	case uintptr:
		return tBool(x == y.(uintptr))
	case float32:
		return tBool(x == y.(float32))
	case float64:
		return tBool(x == y.(float64))
	case complex64:
		return tBool(x == y.(complex64))
	case complex128:
		return tBool(x == y.(complex128))
	case string:
		if ys, ok := y.(string); ok {
			return tBool(x == ys)
		}
		return bytesEqTerm(strBytes(x), strBytes(y))
	case sstr:
		return bytesEqTerm(strBytes(x), strBytes(y))
	case *value:
		switch y := y.(type) {
		case *value:
			return tBool(x == y)
		case *viewptr:
			return tBool(x != nil && ptrIdentity(y) == any(x))
		}
		return tFalse
	case *viewptr:
		return tBool(ptrIdentity(x) == ptrIdentity(y))
	case *channel:
		return tBool(x == y.(*channel))
	case uptr:
		yu := y.(uptr)
		return tBool(ptrIdentity(x.p) == ptrIdentity(yu.p))
	case structure:
		ys := y.(structure)
		tStruct := t.Underlying().(*types.Struct)
		var cs []*term
		for i, n := 0, tStruct.NumFields(); i < n; i++ {
			if f := tStruct.Field(i); f.Name() != "_" {
				cs = append(cs, eqTerm(f.Type(), x[i], ys[i]))
			}
		}
		return tAnd(cs...)
	case array:
		ya := y.(array)
		tElt := t.Underlying().(*types.Array).Elem()
		var cs []*term
		for i := range x {
			cs = append(cs, eqTerm(tElt, x[i], ya[i]))
		}
		return tAnd(cs...)
	case iface:
		yi := y.(iface)
		if !sameType(x.t, yi.t) {
			return tFalse
		}
		if x.t == nil {
			return tTrue
		}
		return eqTerm(x.t, x.v, yi.v)
	case *omap:
		// only reachable through interface comparison of uncomparable types
	}
	panic(targetPanic{v: iface{t: nil, v: nil}, msg: fmt.Sprintf("runtime error: comparing uncomparable type %s (%T)", t, x)})
}

func ptrIdentity(p value) any {
	switch p := p.(type) {
	case nil:
		return (*value)(nil)
	case *value:
		return p
	case *viewptr:
		if p == nil {
			return (*value)(nil)
		}
		if p.hdr != nil {
			return p.hdr
		}
		if len(p.base) > 0 {
			return &p.base[0]
		}
		return p
	}
	return p
}

func byteTerm(v value) *term {
	switch v := v.(type) {
	case uint8:
		return tConst(8, uint64(v))
	case *sym:
		return v.e
	}
	panic(fmt.Sprintf("byteTerm: %T", v))
}

func bytesEqTerm(a, b []value) *term {
	if len(a) != len(b) {
		return tFalse
	}
	cs := make([]*term, 0, len(a))
	for i := range a {
		cs = append(cs, tCmp("=", byteTerm(a[i]), byteTerm(b[i])))
	}
	return tAnd(cs...)
}

// bytesCmpTerm returns a 64-bit term in {-1,0,1} (as int).
func bytesCmpTerm(a, b []value) *term {
	n := len(a)
	if len(b) < n {
		n = len(b)
	}
	var tail *term
	switch {
	case len(a) < len(b):
		tail = tConst(64, ^uint64(0))
	case len(a) > len(b):
		tail = tConst(64, 1)
	default:
		tail = tConst(64, 0)
	}
	for i := n - 1; i >= 0; i-- {
		x, y := byteTerm(a[i]), byteTerm(b[i])
		tail = tIte(tCmp("bvult", x, y), tConst(64, ^uint64(0)),
			tIte(tCmp("bvult", y, x), tConst(64, 1), tail))
	}
	return tail
}

// keyString returns a canonical encoding of a fully concrete map key.
func keyString(buf *bytes.Buffer, v value) bool {
	switch v := v.(type) {
	case bool, int, int8, int16, int32, int64, uint, uint8, uint16, uint32, uint64, uintptr, float32, float64, complex64, complex128:
		fmt.Fprintf(buf, "%T:%v;", v, v)
	case string:
		fmt.Fprintf(buf, "s%d:%s;", len(v), v)
	case *value:
		fmt.Fprintf(buf, "p%p;", v)
	case *viewptr:
		fmt.Fprintf(buf, "p%p;", ptrIdentity(v))
	case *channel:
		fmt.Fprintf(buf, "c%p;", v)
	case uptr:
		fmt.Fprintf(buf, "u%p;", ptrIdentity(v.p))
	case structure:
		buf.WriteString("{")
		for _, e := range v {
			if !keyString(buf, e) {
				return false
			}
		}
		buf.WriteString("}")
	case array:
		buf.WriteString("[")
		for _, e := range v {
			if !keyString(buf, e) {
				return false
			}
		}
		buf.WriteString("]")
	case iface:
		if v.t == nil {
			buf.WriteString("nil;")
			return true
		}
		fmt.Fprintf(buf, "i%d(", hasher.Hash(v.t))
		buf.WriteString(v.t.String())
		buf.WriteString(")")
		if !keyString(buf, v.v) {
			return false
		}
	case *sym, sstr:
		return false
	default:
		panic(targetPanic{msg: fmt.Sprintf("runtime error: hash of unhashable type %T", v)})
	}
	return true
}

// load returns the value of type T in *addr.
func load(T types.Type, addr *value) value {
	switch T := T.Underlying().(type) {
	case *types.Struct:
		v := (*addr).(structure)
		a := make(structure, len(v))
		for i := range a {
			a[i] = load(T.Field(i).Type(), &v[i])
		}
		return a
	case *types.Array:
		v := (*addr).(array)
		a := make(array, len(v))
		for i := range a {
			a[i] = load(T.Elem(), &v[i])
		}
		return a
	default:
		return *addr
	}
}

// store stores value v of type T into *addr.
func store(T types.Type, addr *value, v value) {
	switch T := T.Underlying().(type) {
	case *types.Struct:
		lhs := (*addr).(structure)
		rhs := v.(structure)
		for i := range lhs {
			store(T.Field(i).Type(), &lhs[i], rhs[i])
		}
	case *types.Array:
		lhs := (*addr).(array)
		rhs := v.(array)
		for i := range lhs {
			store(T.Elem(), &lhs[i], rhs[i])
		}
	default:
		*addr = v
	}
}

// copyVal makes an unaliased copy of an aggregate value (structs/arrays are
// value types; everything else is immutable or a reference).
func copyVal(v value) value {
	switch v := v.(type) {
	case structure:
		a := make(structure, len(v))
		for i := range v {
			a[i] = copyVal(v[i])
		}
		return a
	case array:
		a := make(array, len(v))
		for i := range v {
			a[i] = copyVal(v[i])
		}
		return a
	case iface:
		return iface{v.t, copyVal(v.v)}
	}
	return v
}

func writeValue(buf *bytes.Buffer, v value) {
	switch v := v.(type) {
	case nil, bool, int, int8, int16, int32, int64, uint, uint8, uint16, uint32, uint64, uintptr, float32, float64, complex64, complex128, string:
		fmt.Fprintf(buf, "%v", v)
	case *sym:
		buf.WriteString("$" + v.e.String())
	case sstr:
		buf.WriteString("str")
		writeValue(buf, []value(v))
	case *omap:
		buf.WriteString("map[")
		if v != nil {
			sep := ""
			for i := range v.keys {
				if v.dead[i] {
					continue
				}
				buf.WriteString(sep)
				sep = " "
				writeValue(buf, v.keys[i])
				buf.WriteString(":")
				writeValue(buf, v.vals[i])
			}
		}
		buf.WriteString("]")
	case *channel:
		fmt.Fprintf(buf, "chan %p", v)
	case *value:
		if v == nil {
			buf.WriteString("<nil>")
		} else {
			fmt.Fprintf(buf, "%p", v)
		}
	case uptr:
		fmt.Fprintf(buf, "unsafe(%p)", ptrIdentity(v.p))
	case iface:
		if v.t == nil {
			buf.WriteString("<nil-iface>")
			return
		}
		fmt.Fprintf(buf, "(%s, ", v.t)
		writeValue(buf, v.v)
		buf.WriteString(")")
	case structure:
		buf.WriteString("{")
		for i, e := range v {
			if i > 0 {
				buf.WriteString(" ")
			}
			writeValue(buf, e)
		}
		buf.WriteString("}")
	case array:
		buf.WriteString("[")
		for i, e := range v {
			if i > 0 {
				buf.WriteString(" ")
			}
			writeValue(buf, e)
		}
		buf.WriteString("]")
	case []value:
		buf.WriteString("[")
		for i, e := range v {
			if i > 0 {
				buf.WriteString(" ")
			}
			writeValue(buf, e)
		}
		buf.WriteString("]")
	case *ssa.Function:
		if v == nil {
			buf.WriteString("<nil-func>")
		} else {
			buf.WriteString(v.String())
		}
	case *ssa.Builtin, *closure:
		fmt.Fprintf(buf, "%p", v)
	case tuple:
		buf.WriteString("(")
		for i, e := range v {
			if i > 0 {
				buf.WriteString(", ")
			}
			writeValue(buf, e)
		}
		buf.WriteString(")")
	default:
		fmt.Fprintf(buf, "<%T>", v)
	}
}

func toString(v value) string {
	var b bytes.Buffer
	writeValue(&b, v)
	return b.String()
}

// ---- iterators ---------------------------------------------------------

type stringIter struct {
	s sstrOrString
	i int
}

type sstrOrString struct {
	s string
	b []value // non-nil for sstr
}

func (it *stringIter) next() tuple {
	okv := make(tuple, 3)
	if it.s.b != nil {
		// symbolic string: iterate bytes as runes only if ASCII-concrete
		if it.i >= len(it.s.b) {
			okv[0] = false
			return okv
		}
		b, ok := it.s.b[it.i].(uint8)
		if !ok || b >= 0x80 {
			panic(unsupported{reason: "range over symbolic string (rune decoding)"})
		}
		okv[0], okv[1], okv[2] = true, it.i, rune(b)
		it.i++
		return okv
	}
	if it.i >= len(it.s.s) {
		okv[0] = false
		return okv
	}
	for j, r := range it.s.s[it.i:] {
		_ = j
		n := len(string(r))
		if r == 0xFFFD {
			// invalid encoding consumes one byte
			if it.s.s[it.i] != 0xEF {
				n = 1
			}
		}
		okv[0], okv[1], okv[2] = true, it.i, r
		it.i += n
		return okv
	}
	okv[0] = false
	return okv
}

var _ = unsafe.Pointer(nil)
