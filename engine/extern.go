package main

// Externals: functions modelled by the engine instead of interpreted from
// source (assembly, runtime linkage, unsafe/reflect-heavy code), and the
// package policy (which packages are stubbed out entirely).

import (
	"fmt"
	"go/token"
	"go/types"
	"math"
	"strings"

	"golang.org/x/tools/go/ssa"
)

type externalFn func(fr *frame, args []value) value

var externals = map[string]externalFn{}

// Packages whose functions return zero values (logging, metrics, tracing).
var stubPkgPrefixes = []string{
	"go.uber.org/zap",
	"go.uber.org/atomic/internal", // none
	"github.com/tikv/client-go/v2/internal/logutil",
	"github.com/pingcap/log",
	"github.com/prometheus/",
	"github.com/opentracing/",
	"github.com/uber/jaeger-client-go",
	"runtime/trace",
	"runtime/pprof",
	"runtime/debug",
	"log",
	"log/slog",
	"expvar",
}

// Packages whose functions are never executed (reaching one ends the path
// as unsupported unless an external exists).
var unsupportedPkgPrefixes = []string{
	"net", "net/", "os", "os/", "syscall", "reflect", "internal/reflectlite",
	"google.golang.org/grpc", "google.golang.org/protobuf", "github.com/golang/protobuf",
	"crypto/", "internal/poll", "io/ioutil", "plugin", "internal/syscall",
	"github.com/pingcap/goleveldb",
}

func hasPkgPrefix(path string, prefixes []string) bool {
	for _, p := range prefixes {
		if path == p || strings.HasPrefix(path, p+"/") || (strings.HasSuffix(p, "/") && strings.HasPrefix(path, p)) {
			return true
		}
	}
	return false
}

func pkgPathOf(fn *ssa.Function) string {
	if fn.Pkg != nil {
		return fn.Pkg.Pkg.Path()
	}
	if o := fn.Origin(); o != nil && o.Pkg != nil {
		return o.Pkg.Pkg.Path()
	}
	if fn.Parent() != nil {
		return pkgPathOf(fn.Parent())
	}
	// wrappers / bound methods: derive from receiver or object
	if obj := fn.Object(); obj != nil && obj.Pkg() != nil {
		return obj.Pkg().Path()
	}
	if fn.Signature.Recv() != nil {
		t := fn.Signature.Recv().Type()
		if p, ok := t.(*types.Pointer); ok {
			t = p.Elem()
		}
		if n, ok := t.(*types.Named); ok && n.Obj().Pkg() != nil {
			return n.Obj().Pkg().Path()
		}
	}
	return ""
}

func policyFor(fn *ssa.Function) int {
	path := pkgPathOf(fn)
	if hasPkgPrefix(path, stubPkgPrefixes) {
		return polStub
	}
	if hasPkgPrefix(path, unsupportedPkgPrefixes) {
		return polUnsupported
	}
	return polInterp
}

func isStubType(t types.Type) bool {
	if p, ok := t.(*types.Pointer); ok {
		t = p.Elem()
	}
	if n, ok := t.(*types.Named); ok && n.Obj().Pkg() != nil {
		return hasPkgPrefix(n.Obj().Pkg().Path(), stubPkgPrefixes)
	}
	return false
}

func ext(name string, f externalFn) { externals[name] = f }

func extNop(fr *frame, args []value) value { return zeroResults(fr.fn) }

func structField(p *value, t types.Type, name string) *value {
	st := t.Underlying().(*types.Struct)
	for k := 0; k < st.NumFields(); k++ {
		if st.Field(k).Name() == name {
			return &(*p).(structure)[k]
		}
	}
	panic("no field " + name + " in " + t.String())
}

func recvElem(fr *frame) types.Type {
	return mustDeref(fr.fn.Signature.Recv().Type())
}

func bytesOf(v value) []value {
	switch v := v.(type) {
	case []value:
		return v
	case string, sstr:
		return strBytes(v)
	}
	panic(fmt.Sprintf("bytesOf %T", v))
}

func allConcreteBytes(vs []value) ([]byte, bool) {
	out := make([]byte, len(vs))
	for k, v := range vs {
		b, ok := v.(uint8)
		if !ok {
			return nil, false
		}
		out[k] = b
	}
	return out, true
}

func intVal(e *term) value { // Go int from 64-bit term
	if e.isConst() {
		return int(int64(e.val))
	}
	return &sym{e}
}

func (in *interpreter) indexByte(s []value, c value) value {
	ct := byteTerm(c)
	for k, b := range s {
		if in.branchTerm(tCmp("=", byteTerm(b), ct)) {
			return k
		}
	}
	return -1
}

func init() {
	// ---- bytes / strings / bytealg --------------------------------------
	ext("bytes.Equal", func(fr *frame, a []value) value {
		return boolVal(bytesEqTerm(bytesOf(a[0]), bytesOf(a[1])))
	})
	ext("bytes.Compare", func(fr *frame, a []value) value {
		return intVal(bytesCmpTerm(bytesOf(a[0]), bytesOf(a[1])))
	})
	ext("internal/bytealg.Compare", externals["bytes.Compare"])
	ext("internal/bytealg.CompareString", externals["bytes.Compare"])
	ext("strings.Compare", externals["bytes.Compare"])
	ext("internal/bytealg.Equal", externals["bytes.Equal"])
	ext("runtime.memequal", externals["bytes.Equal"])
	ext("bytes.IndexByte", func(fr *frame, a []value) value { return fr.i.indexByte(bytesOf(a[0]), a[1]) })
	ext("internal/bytealg.IndexByte", externals["bytes.IndexByte"])
	ext("internal/bytealg.IndexByteString", externals["bytes.IndexByte"])
	ext("strings.IndexByte", externals["bytes.IndexByte"])
	ext("internal/bytealg.LastIndexByte", func(fr *frame, a []value) value {
		s := bytesOf(a[0])
		ct := byteTerm(a[1])
		for k := len(s) - 1; k >= 0; k-- {
			if fr.i.branchTerm(tCmp("=", byteTerm(s[k]), ct)) {
				return k
			}
		}
		return -1
	})
	ext("internal/bytealg.LastIndexByteString", externals["internal/bytealg.LastIndexByte"])
	count := func(fr *frame, a []value) value {
		s := bytesOf(a[0])
		ct := byteTerm(a[1])
		n := tConst(64, 0)
		for _, b := range s {
			n = tBV("bvadd", n, tIte(tCmp("=", byteTerm(b), ct), tConst(64, 1), tConst(64, 0)))
		}
		return intVal(n)
	}
	ext("internal/bytealg.Count", count)
	ext("internal/bytealg.CountString", count)
	index := func(fr *frame, a []value) value {
		s, sep := bytesOf(a[0]), bytesOf(a[1])
		for k := 0; k+len(sep) <= len(s); k++ {
			if fr.i.branchTerm(bytesEqTerm(s[k:k+len(sep)], sep)) {
				return k
			}
		}
		return -1
	}
	ext("internal/bytealg.Index", index)
	ext("internal/bytealg.IndexString", index)
	ext("internal/bytealg.MakeNoZero", func(fr *frame, a []value) value {
		n := fr.i.concInt(a[0])
		out := make([]value, n)
		for k := range out {
			out[k] = uint8(0)
		}
		return out
	})
	ext("internal/abi.NoEscape", func(fr *frame, a []value) value { return a[0] })
	ext("internal/abi.Escape", func(fr *frame, a []value) value { return a[0] })
	ext("internal/stringslite.Clone", func(fr *frame, a []value) value { return a[0] })
	ext("strings.Clone", func(fr *frame, a []value) value { return a[0] })
	ext("internal/race.Enabled", extNop)
	ext("internal/godebug.New", extNop)
	ext("(*internal/godebug.Setting).Value", func(fr *frame, a []value) value { return "" })
	ext("(*internal/godebug.Setting).IncNonDefault", extNop)

	// ---- runtime -----------------------------------------------------------
	ext("runtime.Gosched", func(fr *frame, a []value) value { fr.i.sch.yield(); return nil })
	ext("runtime.GOMAXPROCS", func(fr *frame, a []value) value { return 4 })
	ext("runtime.NumCPU", func(fr *frame, a []value) value { return 4 })
	ext("runtime.NumGoroutine", func(fr *frame, a []value) value { return 1 })
	ext("runtime.GC", extNop)
	ext("runtime.KeepAlive", extNop)
	ext("runtime.SetFinalizer", extNop)
	ext("runtime.Callers", func(fr *frame, a []value) value { return 0 })
	ext("runtime.Caller", func(fr *frame, a []value) value { return tuple{uintptr(0), "", 0, false} })
	ext("runtime.Stack", func(fr *frame, a []value) value { return 0 })
	ext("runtime.Goexit", func(fr *frame, a []value) value { panic(unsupported{reason: "runtime.Goexit"}) })
	ext("runtime.FuncForPC", extNop)
	ext("runtime.ReadMemStats", extNop)
	ext("os.Getenv", func(fr *frame, a []value) value { return "" })
	ext("os.LookupEnv", func(fr *frame, a []value) value { return tuple{"", false} })
	ext("os.Getpid", func(fr *frame, a []value) value { return 4242 })
	ext("os.Hostname", func(fr *frame, a []value) value { return tuple{"verif", iface{}} })
	ext("syscall.Getenv", func(fr *frame, a []value) value { return tuple{"", false} })
	ext("internal/cpu.Initialize", extNop)
	// harness replays run under `go test`, where this is true
	ext("testing.Testing", func(fr *frame, a []value) value { return true })

	// ---- math ------------------------------------------------------------------
	f1 := func(f func(float64) float64) externalFn {
		return func(fr *frame, a []value) value { return f(flt(a[0])) }
	}
	ext("math.Float64bits", func(fr *frame, a []value) value { return math.Float64bits(flt(a[0])) })
	ext("math.Float64frombits", func(fr *frame, a []value) value { return math.Float64frombits(u64c(a[0])) })
	ext("math.Float32bits", func(fr *frame, a []value) value { return math.Float32bits(a[0].(float32)) })
	ext("math.Float32frombits", func(fr *frame, a []value) value { return math.Float32frombits(uint32(u64c(a[0]))) })
	for n, f := range map[string]func(float64) float64{
		"Abs": math.Abs, "Exp": math.Exp, "Log": math.Log, "Sqrt": math.Sqrt, "Floor": math.Floor,
		"Ceil": math.Ceil, "Trunc": math.Trunc, "Round": math.Round, "Log2": math.Log2, "Log10": math.Log10,
		"Exp2": math.Exp2, "Log1p": math.Log1p, "Tanh": math.Tanh, "Sin": math.Sin, "Cos": math.Cos,
	} {
		ext("math."+n, f1(f))
	}
	ext("math.Pow", func(fr *frame, a []value) value { return math.Pow(flt(a[0]), flt(a[1])) })
	ext("math.Mod", func(fr *frame, a []value) value { return math.Mod(flt(a[0]), flt(a[1])) })
	ext("math.Max", func(fr *frame, a []value) value { return math.Max(flt(a[0]), flt(a[1])) })
	ext("math.Min", func(fr *frame, a []value) value { return math.Min(flt(a[0]), flt(a[1])) })
	ext("math.Inf", func(fr *frame, a []value) value { return math.Inf(a[0].(int)) })
	ext("math.NaN", func(fr *frame, a []value) value { return math.NaN() })
	ext("math.IsNaN", func(fr *frame, a []value) value { return math.IsNaN(flt(a[0])) })
	ext("math.IsInf", func(fr *frame, a []value) value { return math.IsInf(flt(a[0]), a[1].(int)) })
	ext("math.Ldexp", func(fr *frame, a []value) value { return math.Ldexp(flt(a[0]), a[1].(int)) })
	ext("math.Copysign", func(fr *frame, a []value) value { return math.Copysign(flt(a[0]), flt(a[1])) })
	ext("math.Signbit", func(fr *frame, a []value) value { return math.Signbit(flt(a[0])) })

	// ---- math/bits on symbolic operands -------------------------------------------
	ext("math/bits.LeadingZeros64", func(fr *frame, a []value) value { return clz(toTerm(a[0]), 64) })
	ext("math/bits.LeadingZeros32", func(fr *frame, a []value) value { return clz(toTerm(a[0]), 32) })
	ext("math/bits.Len64", func(fr *frame, a []value) value {
		return intVal(tBV("bvsub", tConst(64, 64), toTerm(clz(toTerm(a[0]), 64))))
	})
	ext("math/bits.Len32", func(fr *frame, a []value) value {
		return intVal(tBV("bvsub", tConst(64, 32), toTerm(clz(toTerm(a[0]), 32))))
	})
	ext("math/bits.Len", externals["math/bits.Len64"])
	ext("math/bits.TrailingZeros64", func(fr *frame, a []value) value { return ctz(toTerm(a[0]), 64) })
	ext("math/bits.TrailingZeros32", func(fr *frame, a []value) value { return ctz(toTerm(a[0]), 32) })
	ext("math/bits.TrailingZeros16", func(fr *frame, a []value) value { return ctz(toTerm(a[0]), 16) })
	ext("math/bits.OnesCount64", func(fr *frame, a []value) value {
		x := toTerm(a[0])
		n := tConst(64, 0)
		for k := 0; k < 64; k++ {
			n = tBV("bvadd", n, tResize(tExtract(k, k, x), 64, false))
		}
		return intVal(n)
	})
	ext("math/bits.ReverseBytes64", func(fr *frame, a []value) value {
		x := toTerm(a[0])
		var e *term
		for k := 0; k < 8; k++ {
			b := tExtract(k*8+7, k*8, x)
			if e == nil {
				e = b
			} else {
				e = tConcat(e, b)
			}
		}
		return wrapTerm(types.Typ[types.Uint64], e)
	})

	// ---- sync -------------------------------------------------------------------------
	ext("(*sync.Mutex).Lock", func(fr *frame, a []value) value {
		m := fr.i.mutexOf(a[0].(*value))
		fr.i.sch.blockUntil("Mutex.Lock", func() bool {
			if !m.locked {
				m.locked = true
				return true
			}
			return false
		})
		return nil
	})
	ext("(*sync.Mutex).TryLock", func(fr *frame, a []value) value {
		m := fr.i.mutexOf(a[0].(*value))
		if m.locked {
			return false
		}
		m.locked = true
		return true
	})
	ext("(*sync.Mutex).Unlock", func(fr *frame, a []value) value {
		m := fr.i.mutexOf(a[0].(*value))
		if !m.locked {
			panic(targetPanic{msg: "fatal error: sync: unlock of unlocked mutex"})
		}
		m.locked = false
		fr.i.sch.progress++
		return nil
	})
	ext("(*sync.RWMutex).Lock", func(fr *frame, a []value) value {
		m := fr.i.mutexOf(a[0].(*value))
		fr.i.sch.blockUntil("RWMutex.Lock", func() bool {
			if !m.locked && m.readers == 0 {
				m.locked = true
				return true
			}
			return false
		})
		return nil
	})
	ext("(*sync.RWMutex).TryLock", func(fr *frame, a []value) value {
		m := fr.i.mutexOf(a[0].(*value))
		if m.locked || m.readers > 0 {
			return false
		}
		m.locked = true
		return true
	})
	ext("(*sync.RWMutex).Unlock", func(fr *frame, a []value) value {
		m := fr.i.mutexOf(a[0].(*value))
		if !m.locked {
			panic(targetPanic{msg: "fatal error: sync: Unlock of unlocked RWMutex"})
		}
		m.locked = false
		fr.i.sch.progress++
		return nil
	})
	ext("(*sync.RWMutex).RLock", func(fr *frame, a []value) value {
		m := fr.i.mutexOf(a[0].(*value))
		fr.i.sch.blockUntil("RWMutex.RLock", func() bool {
			if !m.locked {
				m.readers++
				return true
			}
			return false
		})
		return nil
	})
	ext("(*sync.RWMutex).TryRLock", func(fr *frame, a []value) value {
		m := fr.i.mutexOf(a[0].(*value))
		if m.locked {
			return false
		}
		m.readers++
		return true
	})
	ext("(*sync.RWMutex).RUnlock", func(fr *frame, a []value) value {
		m := fr.i.mutexOf(a[0].(*value))
		if m.readers <= 0 {
			panic(targetPanic{msg: "fatal error: sync: RUnlock of unlocked RWMutex"})
		}
		m.readers--
		fr.i.sch.progress++
		return nil
	})
	ext("(*sync.WaitGroup).Add", func(fr *frame, a []value) value {
		w := fr.i.wgOf(a[0].(*value))
		w.n += fr.i.concInt(a[1])
		if w.n < 0 {
			panic(targetPanic{msg: "sync: negative WaitGroup counter"})
		}
		fr.i.sch.progress++
		return nil
	})
	ext("(*sync.WaitGroup).Done", func(fr *frame, a []value) value {
		w := fr.i.wgOf(a[0].(*value))
		w.n--
		if w.n < 0 {
			panic(targetPanic{msg: "sync: negative WaitGroup counter"})
		}
		fr.i.sch.progress++
		return nil
	})
	ext("(*sync.WaitGroup).Wait", func(fr *frame, a []value) value {
		w := fr.i.wgOf(a[0].(*value))
		fr.i.sch.blockUntil("WaitGroup.Wait", func() bool { return w.n == 0 })
		return nil
	})
	ext("(*sync.WaitGroup).Go", func(fr *frame, a []value) value {
		w := fr.i.wgOf(a[0].(*value))
		w.n++
		f := a[1]
		in := fr.i
		in.spawn(hostFn(func(i *interpreter, _ []value) value {
			defer func() {
				w.n--
				i.sch.progress++
			}()
			call(i, nil, token.NoPos, f, nil)
			return nil
		}), nil, token.NoPos)
		return nil
	})
	ext("(*sync.Pool).Get", func(fr *frame, a []value) value {
		p := a[0].(*value)
		if lst := fr.i.side.pool[p]; len(lst) > 0 {
			v := lst[len(lst)-1]
			fr.i.side.pool[p] = lst[:len(lst)-1]
			return v
		}
		nf := *structField(p, recvElem(fr), "New")
		switch f := nf.(type) {
		case *ssa.Function:
			if f == nil {
				return iface{}
			}
		case *closure:
			if f == nil {
				return iface{}
			}
		}
		return call(fr.i, fr, token.NoPos, nf, nil)
	})
	ext("(*sync.Pool).Put", func(fr *frame, a []value) value {
		return nil // never reuse: keeps paths independent of pool history
	})
	ext("(*sync.Cond).Wait", func(fr *frame, a []value) value {
		p := a[0].(*value)
		c := fr.i.side.cond[p]
		if c == nil {
			c = &vcond{}
			fr.i.side.cond[p] = c
		}
		L := (*structField(p, recvElem(fr), "L")).(iface)
		callMethod(fr.i, fr, L, "Unlock")
		c.waiters++
		fr.i.sch.blockUntil("Cond.Wait", func() bool {
			if c.signals > 0 {
				c.signals--
				c.waiters--
				return true
			}
			return false
		})
		callMethod(fr.i, fr, L, "Lock")
		return nil
	})
	ext("(*sync.Cond).Signal", func(fr *frame, a []value) value {
		c := fr.i.side.cond[a[0].(*value)]
		if c != nil && c.waiters > c.signals {
			c.signals++
			fr.i.sch.progress++
		}
		return nil
	})
	ext("(*sync.Cond).Broadcast", func(fr *frame, a []value) value {
		c := fr.i.side.cond[a[0].(*value)]
		if c != nil && c.waiters > c.signals {
			c.signals = c.waiters
			fr.i.sch.progress++
		}
		return nil
	})
	// sync.Map as an ordered map
	smap := func(fr *frame, p value) *omap {
		k := p.(*value)
		m := fr.i.side.syncMap[k]
		if m == nil {
			m = makeMap(types.NewInterfaceType(nil, nil))
			fr.i.side.syncMap[k] = m
		}
		return m
	}
	ext("(*sync.Map).Load", func(fr *frame, a []value) value {
		v, ok := smap(fr, a[0]).lookup(fr.i, a[1])
		if !ok {
			return tuple{iface{}, false}
		}
		return tuple{v, true}
	})
	ext("(*sync.Map).Store", func(fr *frame, a []value) value { smap(fr, a[0]).insert(fr.i, a[1], a[2]); return nil })
	ext("(*sync.Map).LoadOrStore", func(fr *frame, a []value) value {
		m := smap(fr, a[0])
		if v, ok := m.lookup(fr.i, a[1]); ok {
			return tuple{v, true}
		}
		m.insert(fr.i, a[1], a[2])
		return tuple{a[2], false}
	})
	ext("(*sync.Map).LoadAndDelete", func(fr *frame, a []value) value {
		m := smap(fr, a[0])
		if v, ok := m.lookup(fr.i, a[1]); ok {
			m.delete(fr.i, a[1])
			return tuple{v, true}
		}
		return tuple{iface{}, false}
	})
	ext("(*sync.Map).Delete", func(fr *frame, a []value) value { smap(fr, a[0]).delete(fr.i, a[1]); return nil })
	ext("(*sync.Map).Swap", func(fr *frame, a []value) value {
		m := smap(fr, a[0])
		v, ok := m.lookup(fr.i, a[1])
		m.insert(fr.i, a[1], a[2])
		if !ok {
			return tuple{iface{}, false}
		}
		return tuple{v, true}
	})
	ext("(*sync.Map).CompareAndSwap", func(fr *frame, a []value) value {
		m := smap(fr, a[0])
		v, ok := m.lookup(fr.i, a[1])
		if ok && fr.i.branchValue(eqValue(types.NewInterfaceType(nil, nil), v, a[2])) {
			m.insert(fr.i, a[1], a[3])
			return true
		}
		return false
	})
	ext("(*sync.Map).Range", func(fr *frame, a []value) value {
		m := smap(fr, a[0])
		for k := 0; k < len(m.keys); k++ {
			if m.dead[k] {
				continue
			}
			r := call(fr.i, fr, token.NoPos, a[1], []value{m.keys[k], m.vals[k]})
			if !fr.i.branchValue(r) {
				break
			}
		}
		return nil
	})
	ext("(*sync.Map).Clear", func(fr *frame, a []value) value { smap(fr, a[0]).clear(); return nil })

	for _, n := range []string{"sync.runtime_registerPoolCleanup", "sync.runtime_notifyListCheck", "sync.throw", "sync.fatal",
		"internal/sync.runtime_registerPoolCleanup", "sync.runtime_registerUniqueMapCleanup"} {
		ext(n, extNop)
	}

	// ---- sync/atomic ------------------------------------------------------------------------
	for _, ty := range []struct {
		name string
		t    types.Type
	}{{"Int32", types.Typ[types.Int32]}, {"Int64", types.Typ[types.Int64]}, {"Uint32", types.Typ[types.Uint32]},
		{"Uint64", types.Typ[types.Uint64]}, {"Uintptr", types.Typ[types.Uintptr]}} {
		t := ty.t
		ext("sync/atomic.Load"+ty.name, func(fr *frame, a []value) value { return *ptrArg(a[0]) })
		ext("sync/atomic.Store"+ty.name, func(fr *frame, a []value) value {
			*ptrArg(a[0]) = a[1]
			fr.i.sch.progress++
			return nil
		})
		ext("sync/atomic.Swap"+ty.name, func(fr *frame, a []value) value {
			p := ptrArg(a[0])
			old := *p
			*p = a[1]
			fr.i.sch.progress++
			return old
		})
		ext("sync/atomic.Add"+ty.name, func(fr *frame, a []value) value {
			p := ptrArg(a[0])
			*p = arith(fr.i, token.ADD, t, *p, a[1])
			fr.i.sch.progress++
			return *p
		})
		ext("sync/atomic.And"+ty.name, func(fr *frame, a []value) value {
			p := ptrArg(a[0])
			old := *p
			*p = arith(fr.i, token.AND, t, *p, a[1])
			return old
		})
		ext("sync/atomic.Or"+ty.name, func(fr *frame, a []value) value {
			p := ptrArg(a[0])
			old := *p
			*p = arith(fr.i, token.OR, t, *p, a[1])
			return old
		})
		ext("sync/atomic.CompareAndSwap"+ty.name, func(fr *frame, a []value) value {
			p := ptrArg(a[0])
			if fr.i.branchValue(eqValue(t, *p, a[1])) {
				*p = a[2]
				fr.i.sch.progress++
				return true
			}
			return false
		})
	}
	ext("sync/atomic.LoadPointer", func(fr *frame, a []value) value { return *ptrArg(a[0]) })
	ext("sync/atomic.StorePointer", func(fr *frame, a []value) value {
		*ptrArg(a[0]) = a[1]
		fr.i.sch.progress++
		return nil
	})
	ext("sync/atomic.SwapPointer", func(fr *frame, a []value) value {
		p := ptrArg(a[0])
		old := *p
		*p = a[1]
		fr.i.sch.progress++
		return old
	})
	ext("sync/atomic.CompareAndSwapPointer", func(fr *frame, a []value) value {
		p := ptrArg(a[0])
		if ptrIdentity((*p).(uptr).p) == ptrIdentity(a[1].(uptr).p) {
			*p = a[2]
			fr.i.sch.progress++
			return true
		}
		return false
	})
	ext("(*sync/atomic.Value).Load", func(fr *frame, a []value) value {
		return *structField(a[0].(*value), recvElem(fr), "v")
	})
	ext("(*sync/atomic.Value).Store", func(fr *frame, a []value) value {
		if a[1].(iface).t == nil {
			panic(targetPanic{msg: "sync/atomic: store of nil value into Value"})
		}
		*structField(a[0].(*value), recvElem(fr), "v") = a[1]
		fr.i.sch.progress++
		return nil
	})
	ext("(*sync/atomic.Value).Swap", func(fr *frame, a []value) value {
		p := structField(a[0].(*value), recvElem(fr), "v")
		old := *p
		*p = a[1]
		fr.i.sch.progress++
		return old
	})
	ext("(*sync/atomic.Value).CompareAndSwap", func(fr *frame, a []value) value {
		p := structField(a[0].(*value), recvElem(fr), "v")
		if fr.i.branchValue(eqValue(types.NewInterfaceType(nil, nil), *p, a[1])) {
			*p = a[2]
			fr.i.sch.progress++
			return true
		}
		return false
	})

	// ---- time ---------------------------------------------------------------------------------------
	ext("time.now", func(fr *frame, a []value) value {
		n := fr.i.sch.now
		return tuple{int64(n / 1e9), int32(n % 1e9), int64(n - virtualEpoch + 1)}
	})
	ext("time.runtimeNano", func(fr *frame, a []value) value { return int64(fr.i.sch.now - virtualEpoch + 1) })
	ext("time.runtimeNow", externals["time.now"])
	ext("time.runtimeIsBubbled", func(fr *frame, a []value) value { return false })
	ext("time.Sleep", func(fr *frame, a []value) value {
		d := fr.i.durArg(a[0])
		fr.i.sleep(d)
		return nil
	})
	ext("time.NewTimer", func(fr *frame, a []value) value {
		return fr.i.newTimer(fr, fr.i.durArg(a[0]), 0, nil, "Timer")
	})
	ext("time.NewTicker", func(fr *frame, a []value) value {
		d := fr.i.concInt(a[0])
		if d <= 0 {
			panic(targetPanic{msg: "non-positive interval for NewTicker"})
		}
		return fr.i.newTimer(fr, d, d, nil, "Ticker")
	})
	ext("time.After", func(fr *frame, a []value) value {
		p := fr.i.newTimer(fr, fr.i.durArg(a[0]), 0, nil, "Timer").(*value)
		return (*p).(structure)[0]
	})
	ext("time.Tick", func(fr *frame, a []value) value {
		d := fr.i.concInt(a[0])
		p := fr.i.newTimer(fr, d, d, nil, "Ticker").(*value)
		return (*p).(structure)[0]
	})
	ext("time.AfterFunc", func(fr *frame, a []value) value {
		return fr.i.newTimer(fr, fr.i.concInt(a[0]), 0, a[1], "Timer")
	})
	stop := func(fr *frame, a []value) value {
		t := fr.i.side.timers[a[0].(*value)]
		if t == nil {
			return zeroResults(fr.fn)
		}
		was := t.active
		t.active = false
		if fr.fn.Signature.Results().Len() == 0 {
			return nil
		}
		return was
	}
	ext("(*time.Timer).Stop", stop)
	ext("(*time.Ticker).Stop", stop)
	reset := func(fr *frame, a []value) value {
		t := fr.i.side.timers[a[0].(*value)]
		if t == nil {
			panic(unsupported{reason: "Reset of unknown timer"})
		}
		d := fr.i.concInt(a[1])
		was := t.active
		t.when = fr.i.sch.now + d
		if t.period > 0 {
			t.period = d
		}
		if t.c != nil {
			t.c.buf = nil // Go 1.23 semantics: no stale values after Reset
		}
		if !t.active {
			fr.i.sch.addTimer(t)
		}
		if fr.fn.Signature.Results().Len() == 0 {
			return nil
		}
		return was
	}
	ext("(*time.Timer).Reset", reset)
	ext("(*time.Ticker).Reset", reset)

	ext("(time.Time).Format", func(fr *frame, a []value) value { return "<time>" })
	ext("(time.Time).String", func(fr *frame, a []value) value { return "<time>" })
	ext("(time.Time).GoString", func(fr *frame, a []value) value { return "<time>" })
	ext("(time.Time).AppendFormat", func(fr *frame, a []value) value { return a[1] })
	ext("(time.Duration).String", func(fr *frame, a []value) value { return "<duration>" })

	// ---- sort ---------------------------------------------------------------------------------------
	sortSlice := func(fr *frame, a []value) value {
		s := a[0].(iface).v.([]value)
		less := a[1]
		// insertion sort: stable, deterministic; comparisons may fork
		for i := 1; i < len(s); i++ {
			for j := i; j > 0; j-- {
				r := call(fr.i, fr, token.NoPos, less, []value{j, j - 1})
				if !fr.i.branchValue(r) {
					break
				}
				s[j], s[j-1] = s[j-1], s[j]
			}
		}
		return nil
	}
	ext("sort.Slice", sortSlice)
	ext("sort.SliceStable", sortSlice)
	ext("sort.SliceIsSorted", func(fr *frame, a []value) value {
		s := a[0].(iface).v.([]value)
		for i := len(s) - 1; i > 0; i-- {
			r := call(fr.i, fr, token.NoPos, a[1], []value{i, i - 1})
			if fr.i.branchValue(r) {
				return false
			}
		}
		return true
	})

	// ---- math/rand -----------------------------------------------------------------------------------
	randN := func(t types.Type) externalFn {
		return func(fr *frame, a []value) value {
			w, _, _ := basicInfo(t)
			n := toTerm(a[len(a)-1])
			if fr.i.branchTerm(tCmp("bvsle", n, tConst(w, 0))) {
				panic(targetPanic{msg: "invalid argument to Intn"})
			}
			if fr.i.side.concreteRand {
				// harness asked for a fixed (arbitrary but legal) draw: n/2
				return wrapTerm(t, tBV("bvlshr", n, tConst(w, 1)))
			}
			// recorded as a draw so that the interpreter's concrete replay reproduces it
			dv := fr.i.path.drawScalar("rand", w, t)
			v := toTerm(dv)
			if v.isConst() {
				return dv
			}
			fr.i.path.assume(tCmp("bvult", v, n))
			return wrapTerm(t, v)
		}
	}
	for _, p := range []string{"math/rand.", "(*math/rand.Rand).", "math/rand/v2.", "(*math/rand/v2.Rand)."} {
		ext(p+"Intn", randN(types.Typ[types.Int]))
		ext(p+"IntN", randN(types.Typ[types.Int]))
		ext(p+"Int63n", randN(types.Typ[types.Int64]))
		ext(p+"Int64N", randN(types.Typ[types.Int64]))
		ext(p+"Int31n", randN(types.Typ[types.Int32]))
		ext(p+"Int32N", randN(types.Typ[types.Int32]))
		ext(p+"Uint64", func(fr *frame, a []value) value {
			return fr.i.path.drawScalar("rand", 64, types.Typ[types.Uint64])
		})
		ext(p+"Uint32", func(fr *frame, a []value) value {
			return fr.i.path.drawScalar("rand", 32, types.Typ[types.Uint32])
		})
		ext(p+"Int63", func(fr *frame, a []value) value {
			dv := fr.i.path.drawScalar("rand", 64, types.Typ[types.Int64])
			v := toTerm(dv)
			if v.isConst() {
				return dv
			}
			fr.i.path.assume(tCmp("bvsle", tConst(64, 0), v))
			return wrapTerm(types.Typ[types.Int64], v)
		})
		ext(p+"Int", externals[p+"Int63"])
		ext(p+"Float64", func(fr *frame, a []value) value { return 0.5 })
		ext(p+"Seed", extNop)
	}
	ext("math/rand.New", func(fr *frame, a []value) value {
		v := zero(mustDeref(fr.fn.Signature.Results().At(0).Type()))
		return &v
	})
	ext("math/rand.NewSource", extNop)

	// ---- errors -----------------------------------------------------------------------------------------
	ext("errors.Is", func(fr *frame, a []value) value { return errorsIs(fr, a[0].(iface), a[1].(iface), 0) })
	ext("errors.As", func(fr *frame, a []value) value { return errorsAs(fr, a[0].(iface), a[1].(iface), 0) })
	ext("github.com/pkg/errors.Is", externals["errors.Is"])
	ext("github.com/pkg/errors.As", externals["errors.As"])

	// ---- context ---------------------------------------------------------------------------------------
	ext("context.WithValue", func(fr *frame, a []value) value {
		parent := a[0].(iface)
		if parent.t == nil {
			panic(targetPanic{msg: "cannot create context from nil parent"})
		}
		if a[1].(iface).t == nil {
			panic(targetPanic{msg: "nil key"})
		}
		pkg := fr.i.prog.ImportedPackage("context")
		t := pkg.Type("valueCtx").Type()
		var v value = structure{parent, a[1], a[2]}
		return iface{t: types.NewPointer(t), v: &v}
	})

	// ---- fmt -----------------------------------------------------------------------------------------------
	ext("fmt.Sprintf", func(fr *frame, a []value) value { return sprintfModel(a[0], a[1].([]value)) })
	ext("fmt.Sprint", func(fr *frame, a []value) value { return sprintModel(a[0].([]value)) })
	ext("fmt.Sprintln", func(fr *frame, a []value) value { return sprintModel(a[0].([]value)) })
	ext("fmt.Errorf", func(fr *frame, a []value) value {
		msg := sprintfModel(a[0], a[1].([]value))
		// %w: wrap the first error operand
		if f, ok := a[0].(string); ok && strings.Contains(f, "%w") {
			for _, arg := range a[1].([]value) {
				it := arg.(iface)
				if it.t != nil && types.Implements(it.t, errorIface) {
					return fr.i.wrapError(msg, it)
				}
			}
		}
		return fr.i.runtimeError(toString(msg))
	})
	for _, n := range []string{"fmt.Printf", "fmt.Println", "fmt.Print", "fmt.Fprintf", "fmt.Fprintln", "fmt.Fprint"} {
		ext(n, extNop)
	}
	ext("(*github.com/pkg/errors.stack).Format", extNop)
	ext("(*github.com/pkg/errors.stack).StackTrace", extNop)
}

var errorIface = types.Universe.Lookup("error").Type().Underlying().(*types.Interface)

func flt(v value) float64 {
	switch v := v.(type) {
	case float64:
		return v
	case float32:
		return float64(v)
	case *sym:
		panic(unsupported{reason: "float: symbolic floating-point operand"})
	}
	panic(fmt.Sprintf("flt(%T)", v))
}

func u64c(v value) uint64 {
	if _, ok := v.(*sym); ok {
		panic(unsupported{reason: "float: symbolic bits to float"})
	}
	return scalarTerm(v).val
}

func ptrArg(v value) *value {
	p, ok := v.(*value)
	if !ok || p == nil {
		panic(nilDeref())
	}
	return p
}

func arith(in *interpreter, op token.Token, t types.Type, x, y value) value {
	if hasSym(x, y) {
		return symBinop(in, op, t, t, x, y)
	}
	return concBinop(op, t, x, y)
}

func clz(x *term, w int) value {
	x = tResize(x, w, false)
	r := tConst(64, uint64(w))
	for k := 0; k < w; k++ {
		// highest set bit k => clz = w-1-k; build from low to high so the highest wins
		r = tIte(tCmp("=", tExtract(k, k, x), tConst(1, 1)), tConst(64, uint64(w-1-k)), r)
	}
	return intVal(r)
}

func ctz(x *term, w int) value {
	x = tResize(x, w, false)
	r := tConst(64, uint64(w))
	for k := w - 1; k >= 0; k-- {
		r = tIte(tCmp("=", tExtract(k, k, x), tConst(1, 1)), tConst(64, uint64(k)), r)
	}
	return intVal(r)
}

func callMethod(in *interpreter, fr *frame, recv iface, name string, args ...value) value {
	if recv.t == nil {
		panic(nilDeref())
	}
	ms := in.prog.MethodSets.MethodSet(recv.t)
	for k := 0; k < ms.Len(); k++ {
		sel := ms.At(k)
		if sel.Obj().Name() == name {
			fn := in.prog.MethodValue(sel)
			return call(in, fr, token.NoPos, fn, append([]value{recv.v}, args...))
		}
	}
	panic(fmt.Sprintf("no method %s on %s", name, recv.t))
}

func findMethod(in *interpreter, t types.Type, name string) *ssa.Function {
	ms := in.prog.MethodSets.MethodSet(t)
	for k := 0; k < ms.Len(); k++ {
		sel := ms.At(k)
		if sel.Obj().Name() == name {
			return in.prog.MethodValue(sel)
		}
	}
	return nil
}

func errorsIs(fr *frame, err, target iface, depth int) value {
	in := fr.i
	if err.t == nil || target.t == nil {
		return err.t == nil && target.t == nil
	}
	if depth > 50 {
		panic(unsupported{reason: "errors.Is: chain too deep"})
	}
	comparable := types.Comparable(target.t)
	for {
		if comparable && sameType(err.t, target.t) {
			if in.branchValue(eqValue(err.t, err.v, target.v)) {
				return true
			}
		}
		if m := findMethod(in, err.t, "Is"); m != nil && m.Signature.Params().Len() == 1 && m.Signature.Results().Len() == 1 {
			if in.branchValue(call(in, fr, token.NoPos, m, []value{err.v, target})) {
				return true
			}
		}
		m := findMethod(in, err.t, "Unwrap")
		if m == nil || m.Signature.Results().Len() != 1 {
			return false
		}
		r := call(in, fr, token.NoPos, m, []value{err.v})
		switch r := r.(type) {
		case iface:
			if r.t == nil {
				return false
			}
			err = r
		case []value:
			for _, e := range r {
				ei := e.(iface)
				if ei.t == nil {
					continue
				}
				if in.branchValue(errorsIs(fr, ei, target, depth+1)) {
					return true
				}
			}
			return false
		default:
			return false
		}
	}
}

func errorsAs(fr *frame, err, target iface, depth int) value {
	in := fr.i
	if err.t == nil {
		return false
	}
	if target.t == nil {
		panic(targetPanic{msg: "errors: target cannot be nil"})
	}
	pt, ok := target.t.Underlying().(*types.Pointer)
	if !ok {
		panic(targetPanic{msg: "errors: target must be a non-nil pointer"})
	}
	tp := target.v.(*value)
	if tp == nil {
		panic(targetPanic{msg: "errors: target must be a non-nil pointer"})
	}
	targetType := pt.Elem()
	_, targetIsIface := targetType.Underlying().(*types.Interface)
	for {
		if targetIsIface {
			if types.Implements(err.t, targetType.Underlying().(*types.Interface)) {
				*tp = err
				return true
			}
		} else if types.Identical(err.t, targetType) {
			*tp = err.v
			return true
		}
		if m := findMethod(in, err.t, "As"); m != nil && m.Signature.Params().Len() == 1 {
			if in.branchValue(call(in, fr, token.NoPos, m, []value{err.v, target})) {
				return true
			}
		}
		m := findMethod(in, err.t, "Unwrap")
		if m == nil || m.Signature.Results().Len() != 1 {
			return false
		}
		r := call(in, fr, token.NoPos, m, []value{err.v})
		switch r := r.(type) {
		case iface:
			if r.t == nil {
				return false
			}
			err = r
		case []value:
			for _, e := range r {
				ei := e.(iface)
				if ei.t == nil {
					continue
				}
				if in.branchValue(errorsAs(fr, ei, target, depth+1)) {
					return true
				}
			}
			return false
		default:
			return false
		}
	}
}

func sprintfModel(format value, args []value) value {
	f, ok := format.(string)
	if !ok {
		return "<fmt>"
	}
	return f
}

func sprintModel(args []value) value {
	out := ""
	for _, a := range args {
		if it, ok := a.(iface); ok {
			if s, ok := it.v.(string); ok {
				out += s
			}
		}
	}
	return out
}

// wrapError builds a *fmt.wrapError{msg, err}.
func (in *interpreter) wrapError(msg value, inner iface) value {
	pkg := in.prog.ImportedPackage("fmt")
	if pkg == nil {
		return in.runtimeError(toString(msg))
	}
	t := pkg.Type("wrapError")
	if t == nil {
		return in.runtimeError(toString(msg))
	}
	var v value = structure{msg, inner}
	return iface{t: types.NewPointer(t.Type()), v: &v}
}

// durArg returns the duration to use for a one-shot wait. A symbolic duration
// is not concretised: the wait is modelled as elapsing at once (the virtual
// clock does not move) and the duration is added to the path's ghost "slept"
// total, which harnesses read with zzSleptNs.
func (in *interpreter) durArg(v value) int64 {
	if s, ok := v.(*sym); ok {
		in.side.slept = tBV("bvadd", in.side.sleptTerm(), s.e)
		return 0
	}
	d := asInt64(v)
	if d > 0 {
		in.side.slept = tBV("bvadd", in.side.sleptTerm(), tConst(64, uint64(d)))
	}
	return d
}

func (st *sideTables) sleptTerm() *term {
	if st.slept == nil {
		st.slept = tConst(64, 0)
	}
	return st.slept
}

// ---- time helpers -------------------------------------------------------------------------------------------------------

func (in *interpreter) timeValue(ns int64) value {
	pkg := in.prog.ImportedPackage("time")
	if pkg == nil {
		panic(unsupported{reason: "time package not loaded"})
	}
	return call(in, nil, token.NoPos, pkg.Func("Unix"), []value{int64(ns / 1e9), int64(ns % 1e9)})
}

func (in *interpreter) sleep(d int64) {
	s := in.sch
	if d <= 0 {
		s.yield()
		return
	}
	c := newChannel(1)
	t := &vtimer{when: s.now + d, c: c}
	s.addTimer(t)
	s.blockUntil("time.Sleep", func() bool { return len(c.buf) > 0 })
}

func (in *interpreter) newTimer(fr *frame, d, period int64, f value, typ string) value {
	s := in.sch
	pkg := in.prog.ImportedPackage("time")
	tt := pkg.Type(typ).Type()
	var sv value = zero(tt)
	p := &sv
	t := &vtimer{when: s.now + d, period: period, timerP: p}
	if f == nil {
		t.c = newChannel(1)
		sv.(structure)[0] = t.c
	} else {
		t.f = f
	}
	sv.(structure)[1] = true
	s.addTimer(t)
	in.side.timers[p] = t
	return p
}
