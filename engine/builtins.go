package main

import (
	"bytes"
	"fmt"
	"go/token"
	"go/types"
	"os"

	"golang.org/x/tools/go/ssa"
)

func callBuiltin(caller *frame, fn *ssa.Builtin, args []value) value {
	in := caller.i
	switch fn.Name() {
	case "append":
		if len(args) == 1 {
			return args[0]
		}
		if isStr(args[1]) {
			arg0 := args[0].([]value)
			return append(arg0, strBytes(args[1])...)
		}
		src := args[1].([]value)
		dst := args[0].([]value)
		if len(src) == 0 {
			return dst
		}
		// elements are value types: copy aggregates
		out := append(dst, src...)
		for k := len(dst); k < len(out); k++ {
			out[k] = copyVal(out[k])
		}
		return out

	case "copy":
		if _, ok := args[0].(*viewslice); ok {
			return copyViews(in, args[0], args[1])
		}
		if _, ok := args[1].(*viewslice); ok {
			return copyViews(in, args[0], args[1])
		}
		src := args[1]
		if isStr(src) {
			src = strBytes(src)
		}
		d, s := args[0].([]value), src.([]value)
		n := len(d)
		if len(s) < n {
			n = len(s)
		}
		if n > 0 {
			// overlapping copy semantics: use host copy on a temp
			tmp := make([]value, n)
			for k := 0; k < n; k++ {
				tmp[k] = copyVal(s[k])
			}
			copy(d, tmp)
		}
		return n

	case "close":
		in.chanClose(args[0].(*channel))
		return nil

	case "delete":
		args[0].(*omap).delete(in, args[1])
		return nil

	case "clear":
		switch x := args[0].(type) {
		case *omap:
			x.clear()
		case []value:
			sl := fn.Type().(*types.Signature).Params().At(0).Type().Underlying().(*types.Slice)
			for k := range x {
				x[k] = zero(sl.Elem())
			}
		}
		return nil

	case "print", "println":
		ln := fn.Name() == "println"
		var buf bytes.Buffer
		for i, arg := range args {
			if i > 0 && ln {
				buf.WriteRune(' ')
			}
			buf.WriteString(toString(arg))
		}
		if ln {
			buf.WriteRune('\n')
		}
		os.Stderr.Write(buf.Bytes())
		return nil

	case "len":
		switch x := args[0].(type) {
		case string:
			return len(x)
		case sstr:
			return len(x)
		case array:
			return len(x)
		case *value:
			if x == nil {
				// len of nil *array: the static length
				pt := fn.Type().(*types.Signature).Params().At(0).Type().Underlying().(*types.Pointer)
				return int(pt.Elem().Underlying().(*types.Array).Len())
			}
			return len((*x).(array))
		case []value:
			return len(x)
		case *omap:
			return x.len()
		case *channel:
			return x.length()
		case *viewslice:
			return x.n
		default:
			panic(fmt.Sprintf("len: illegal operand: %T", x))
		}

	case "cap":
		switch x := args[0].(type) {
		case array:
			return cap(x)
		case *value:
			return len((*x).(array))
		case []value:
			return cap(x)
		case *channel:
			if x == nil {
				return 0
			}
			return x.cap
		default:
			panic(fmt.Sprintf("cap: illegal operand: %T", x))
		}

	case "min", "max":
		t := fn.Type().(*types.Signature).Params().At(0).Type()
		x := args[0]
		for _, y := range args[1:] {
			if hasSym(x, y) {
				op := token.LSS
				if fn.Name() == "max" {
					op = token.GTR
				}
				c := symBinop(in, op, t, t, y, x)
				ct := toTerm(c)
				if isStr(x) || isStr(y) {
					if in.branchTerm(ct) {
						x = y
					}
				} else {
					x = wrapTerm(t, tIte(ct, toTerm(y), toTerm(x)))
				}
				continue
			}
			if fn.Name() == "min" {
				x = min(x, y)
			} else {
				x = max(x, y)
			}
		}
		return x

	case "real":
		switch c := args[0].(type) {
		case complex64:
			return real(c)
		case complex128:
			return real(c)
		}
	case "imag":
		switch c := args[0].(type) {
		case complex64:
			return imag(c)
		case complex128:
			return imag(c)
		}
	case "complex":
		switch f := args[0].(type) {
		case float32:
			return complex(f, args[1].(float32))
		case float64:
			return complex(f, args[1].(float64))
		}

	case "panic":
		panic(targetPanic{v: args[0]})

	case "recover":
		return doRecover(caller)

	case "ssa:wrapnilchk":
		recv := args[0]
		if p, ok := recv.(*value); ok && p == nil {
			panic(nilDeref())
		}
		return recv

	case "ssa:deferstack":
		return &caller.defers

	case "unsafe.String", "String":
		// unsafe.String(ptr *byte, len)
		n := in.concInt(args[1])
		if n == 0 {
			return ""
		}
		p := args[0].(*value)
		org, ok := in.side.origin[p]
		if !ok {
			panic(unsupported{reason: "unsafe.String: pointer of unknown origin"})
		}
		if int64(len(org)) < n {
			// capacity covers
			org = org[:cap(org)]
			if int64(len(org)) < n {
				panic(unsupported{reason: "unsafe.String beyond backing array"})
			}
		}
		out := make(sstr, n)
		copy(out, org[:n])
		return normStr(out)

	case "unsafe.StringData", "StringData":
		bs := strBytes(args[0])
		if len(bs) == 0 {
			return (*value)(nil)
		}
		in.side.origin[&bs[0]] = bs
		return &bs[0]

	case "unsafe.SliceData", "SliceData":
		s := args[0].([]value)
		if cap(s) == 0 {
			return (*value)(nil)
		}
		s = s[:cap(s)]
		in.side.origin[&s[0]] = s
		return &s[0]

	case "unsafe.Slice", "Slice":
		n := in.concInt(args[1])
		p, _ := args[0].(*value)
		if p == nil {
			return []value(nil)
		}
		org, ok := in.side.origin[p]
		if !ok {
			if n == 1 {
				// single-object slice
				panic(unsupported{reason: "unsafe.Slice over a single object"})
			}
			panic(unsupported{reason: "unsafe.Slice: pointer of unknown origin"})
		}
		org = org[:cap(org)]
		if int64(len(org)) < n {
			panic(unsupported{reason: "unsafe.Slice beyond backing array"})
		}
		return org[:n:n]

	case "unsafe.Add", "Add":
		return unsafeAdd(in, args[0].(uptr), in.concInt(args[1]))
	}

	panic(unsupported{reason: "built-in: " + fn.Name()})
}

// viewElems abstracts element access for []value and *viewslice.
func viewLen(v value) int {
	switch v := v.(type) {
	case []value:
		return len(v)
	case *viewslice:
		return v.n
	}
	panic(fmt.Sprintf("viewLen(%T)", v))
}

func copyViews(in *interpreter, dst, src value) value {
	n := viewLen(dst)
	if m := viewLen(src); m < n {
		n = m
	}
	tmp := make([]value, n)
	for k := 0; k < n; k++ {
		switch s := src.(type) {
		case []value:
			tmp[k] = copyVal(s[k])
		case *viewslice:
			tmp[k] = (&viewptr{base: s.base[int64(k)*sizeofT(s.elem):], t: s.elem}).load(in, s.elem)
		}
	}
	for k := 0; k < n; k++ {
		switch d := dst.(type) {
		case []value:
			d[k] = tmp[k]
		case *viewslice:
			(&viewptr{base: d.base[int64(k)*sizeofT(d.elem):], t: d.elem}).store(in, d.elem, tmp[k])
		}
	}
	return n
}

func rangeIter(x value) iter {
	switch x := x.(type) {
	case *omap:
		return &omapIter{m: x}
	case string:
		return &stringIter{s: sstrOrString{s: x}}
	case sstr:
		return &stringIter{s: sstrOrString{b: []value(x)}}
	}
	panic(fmt.Sprintf("cannot range over %T", x))
}

// conv converts x of type tSrc to tDst.
func conv(in *interpreter, tDst, tSrc types.Type, x value) value {
	utSrc := tSrc.Underlying()
	utDst := tDst.Underlying()

	// unsafe.Pointer conversions
	if b, ok := utDst.(*types.Basic); ok && b.Kind() == types.UnsafePointer {
		switch x := x.(type) {
		case uptr:
			return x
		case *value, *viewptr:
			return uptr{p: x, t: tSrc}
		case uintptr:
			if x == 0 {
				return uptr{}
			}
			panic(unsupported{reason: "uintptr -> unsafe.Pointer"})
		}
	}
	if b, ok := utSrc.(*types.Basic); ok && b.Kind() == types.UnsafePointer {
		u := x.(uptr)
		switch d := utDst.(type) {
		case *types.Pointer:
			return fromUnsafe(in, u, d)
		case *types.Basic:
			if d.Kind() == types.Uintptr {
				if u.p == nil {
					return uintptr(0)
				}
				if p, ok := u.p.(*value); ok && p == nil {
					return uintptr(0)
				}
				panic(unsupported{reason: "unsafe.Pointer -> uintptr"})
			}
		}
	}

	switch x := x.(type) {
	case opaqueFloat:
		if b, ok := utDst.(*types.Basic); ok && b.Info()&types.IsFloat != 0 {
			return x
		}
		panic(unsupported{reason: "float: conversion of an opaque float"})
	case *sym:
		return symConv(tDst, tSrc, x)
	case sstr:
		switch d := utDst.(type) {
		case *types.Basic:
			if d.Kind() == types.String {
				return x
			}
		case *types.Slice:
			if eb, ok := d.Elem().Underlying().(*types.Basic); ok && eb.Kind() == types.Byte {
				out := make([]value, len(x))
				copy(out, x)
				return out
			}
		}
		panic(unsupported{reason: fmt.Sprintf("conversion of symbolic string to %s", tDst)})
	case []value:
		if d, ok := utDst.(*types.Basic); ok && d.Kind() == types.String {
			if s, ok := utSrc.(*types.Slice); ok {
				if eb, ok := s.Elem().Underlying().(*types.Basic); ok && eb.Kind() == types.Byte {
					out := make(sstr, len(x))
					copy(out, x)
					return normStr(out)
				}
			}
		}
	}
	return concConv(tDst, tSrc, x)
}

// ---- unsafe models --------------------------------------------------------

// viewptr is a pointer that reinterprets a run of boxed elements (usually a
// byte array) as another type; see unsafe.go.
type viewptr struct {
	base []value // elements from the pointed-to position to the end of the backing array
	t    types.Type
	hdr  *value // non-nil: a reinterpreted slice header (cell holding the []value)
}

func fromUnsafe(in *interpreter, u uptr, d *types.Pointer) value {
	if u.p == nil {
		return (*value)(nil)
	}
	if p, ok := u.p.(*value); ok && p == nil {
		return (*value)(nil)
	}
	if u.t != nil {
		if sp, ok := u.t.Underlying().(*types.Pointer); ok && types.Identical(sp.Elem(), d.Elem()) {
			return u.p
		}
		if sp, ok := u.t.Underlying().(*types.Pointer); ok && layoutCompatible(sp.Elem(), d.Elem()) {
			return u.p
		}
	}
	return reinterpret(in, u, d)
}

// layoutCompatible: same underlying type (ignoring names), which the boxed
// representation shares.
func layoutCompatible(a, b types.Type) bool {
	return types.Identical(a.Underlying(), b.Underlying())
}
