package main

// util.FormatDuration renders a duration for log lines and runtime-stats strings (it rounds
// through float64). On a symbolic duration (virtual back-off sleep totals, C10: logSendReqError)
// the float arithmetic cannot be modelled; the text is never read by an assertion, so the
// function returns a fixed placeholder — formatted text stays out of the path condition, like
// fmt.Sprintf and redact.Key.

func init() {
	ext("github.com/tikv/client-go/v2/util.FormatDuration", func(fr *frame, a []value) value { return "<duration>" })
}
