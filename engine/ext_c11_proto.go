package main

// Text formatting of protobuf messages (the generated String() methods of
// kvproto call proto.CompactTextString, which is reflection based). The text is
// only ever used for log lines and error messages, never for decisions, and
// harness assertions never inspect formatted text (same rule as fmt.Sprintf):
// return a fixed opaque string. (C11/C14: errors.New(regionErr.String()).)

func init() {
	opaque := func(fr *frame, a []value) value { return "<proto>" }
	ext("github.com/golang/protobuf/proto.CompactTextString", opaque)
	ext("github.com/golang/protobuf/proto.MarshalTextString", opaque)
	ext("github.com/gogo/protobuf/proto.CompactTextString", opaque)
	ext("github.com/gogo/protobuf/proto.MarshalTextString", opaque)
}
