package main

// Harness intrinsics (zz*): nondeterministic inputs, assumptions, assertions,
// cuts, function seams.

import (
	"fmt"
	"go/types"
	"strings"

	"golang.org/x/tools/go/ssa"
)

func (in *interpreter) branchTerm(c *term) bool { return in.path.branch(c) }

func (in *interpreter) branchValue(v value) bool {
	switch v := v.(type) {
	case bool:
		return v
	case *sym:
		return in.path.branch(v.e)
	}
	panic(fmt.Sprintf("branchValue(%T)", v))
}

func strArg(v value) string {
	s, ok := v.(string)
	if !ok {
		panic(engineFault{"zz: name/label argument must be a constant string"})
	}
	return s
}

func (ps *pathState) drawScalar(name string, w int, t types.Type) value {
	if ps.replayDraws != nil {
		if ps.replayPos >= len(ps.replayDraws) {
			panic(pathEnd{"replay-exhausted", name})
		}
		d := ps.replayDraws[ps.replayPos]
		ps.replayPos++
		ps.draws = append(ps.draws, d)
		if w == 0 {
			return d.Val != 0
		}
		return concreteOf(t, tConst(w, d.Val))
	}
	v := ps.fresh(name, w)
	ps.draws = append(ps.draws, draw{Kind: "u", Name: name, W: w, t: v})
	return &sym{v}
}

func (ps *pathState) drawChoice(name string, n int) int {
	if ps.replayDraws != nil {
		if ps.replayPos >= len(ps.replayDraws) {
			panic(pathEnd{"replay-exhausted", name})
		}
		d := ps.replayDraws[ps.replayPos]
		ps.replayPos++
		ps.draws = append(ps.draws, d)
		return int(d.Val)
	}
	k := ps.choice(n, name)
	ps.draws = append(ps.draws, draw{Kind: "choice", Name: name, Val: uint64(k)})
	return k
}

var engineParams = map[string]int{}

type zzFn func(fr *frame, args []value) value

var zzIntrinsics map[string]zzFn

func init() {
	scalar := func(w int, t types.Type) zzFn {
		return func(fr *frame, a []value) value { return fr.i.path.drawScalar(strArg(a[0]), w, t) }
	}
	zzIntrinsics = map[string]zzFn{
		"zzU64":  scalar(64, types.Typ[types.Uint64]),
		"zzU32":  scalar(32, types.Typ[types.Uint32]),
		"zzU16":  scalar(16, types.Typ[types.Uint16]),
		"zzU8":   scalar(8, types.Typ[types.Uint8]),
		"zzI64":  scalar(64, types.Typ[types.Int64]),
		"zzI32":  scalar(32, types.Typ[types.Int32]),
		"zzInt":  scalar(64, types.Typ[types.Int]),
		"zzBool": scalar(0, types.Typ[types.Bool]),
		"zzChoice": func(fr *frame, a []value) value {
			n := int(fr.i.concInt(a[1]))
			if n <= 0 {
				panic(engineFault{"zzChoice: n must be positive"})
			}
			return fr.i.path.drawChoice(strArg(a[0]), n)
		},
		"zzBytes": func(fr *frame, a []value) value {
			name := strArg(a[0])
			max := int(fr.i.concInt(a[1]))
			n := fr.i.path.drawChoice(name+".len", max+1)
			out := make([]value, n)
			for k := range out {
				out[k] = fr.i.path.drawScalar(fmt.Sprintf("%s.%d", name, k), 8, types.Typ[types.Uint8])
			}
			return out
		},
		"zzBytesN": func(fr *frame, a []value) value {
			name := strArg(a[0])
			n := int(fr.i.concInt(a[1]))
			out := make([]value, n)
			for k := range out {
				out[k] = fr.i.path.drawScalar(fmt.Sprintf("%s.%d", name, k), 8, types.Typ[types.Uint8])
			}
			return out
		},
		"zzAssume": func(fr *frame, a []value) value {
			switch c := a[0].(type) {
			case bool:
				if !c {
					panic(pathEnd{"assume", ""})
				}
			case *sym:
				fr.i.path.assume(c.e)
			}
			return nil
		},
		"zzAssert": func(fr *frame, a []value) value {
			label := strArg(a[1])
			fr.i.path.assertion(toTerm(a[0]), label)
			return nil
		},
		"zzCut": func(fr *frame, a []value) value {
			panic(pathEnd{"cut", strArg(a[0])})
		},
		"zzUnwind": func(fr *frame, a []value) value {
			fr.i.path.unwind = int(fr.i.concInt(a[0]))
			return nil
		},
		"zzSchedule": func(fr *frame, a []value) value {
			fr.i.sch.forkLimit = int(fr.i.concInt(a[0]))
			return nil
		},
		"zzRunAll": func(fr *frame, a []value) value {
			fr.i.sch.runOthers()
			return nil
		},
		"zzYield": func(fr *frame, a []value) value {
			fr.i.sch.yield()
			return nil
		},
		"zzAdvance": func(fr *frame, a []value) value {
			fr.i.sch.advance(fr.i.concInt(a[0]))
			return nil
		},
		"zzConc": func(fr *frame, a []value) value {
			if s, ok := a[0].(*sym); ok {
				return fr.i.path.concretize(s.e)
			}
			return a[0]
		},
		"zzSymbolic": func(fr *frame, a []value) value {
			return fr.i.path.replayDraws == nil
		},
		"zzInterp": func(fr *frame, a []value) value { return true },
		"zzNote": func(fr *frame, a []value) value {
			fr.i.path.notes[strArg(a[0])] = toString(a[1].(iface).v)
			return nil
		},
		"zzStub": func(fr *frame, a []value) value {
			fr.i.stubs[strArg(a[0])] = a[1].(iface).v
			fr.i.path.ex.usesStubs = true
			return nil
		},
		"zzUnstub": func(fr *frame, a []value) value {
			delete(fr.i.stubs, strArg(a[0]))
			return nil
		},
		"zzAnd": func(fr *frame, a []value) value { return boolVal(tAnd(toTerm(a[0]), toTerm(a[1]))) },
		"zzOr":  func(fr *frame, a []value) value { return boolVal(tOr(toTerm(a[0]), toTerm(a[1]))) },
		"zzImplies": func(fr *frame, a []value) value {
			return boolVal(tOr(tNot(toTerm(a[0])), toTerm(a[1])))
		},
		"zzIte64": func(fr *frame, a []value) value {
			return wrapTerm(types.Typ[types.Uint64], tIte(toTerm(a[0]), toTerm(a[1]), toTerm(a[2])))
		},
		"zzSleptNs": func(fr *frame, a []value) value {
			return wrapTerm(types.Typ[types.Int64], fr.i.side.sleptTerm())
		},
		"zzEngineOnly": func(fr *frame, a []value) value {
			// virtual time / scheduler control: replayed by the interpreter, not natively
			fr.i.path.ex.usesStubs = true
			return nil
		},
		"zzConcreteRand": func(fr *frame, a []value) value {
			fr.i.side.concreteRand = true
			return nil
		},
		"zzParam": func(fr *frame, a []value) value {
			if v, ok := engineParams[strArg(a[0])]; ok {
				return v
			}
			return int(fr.i.concInt(a[1]))
		},
		"zzIsSym": func(fr *frame, a []value) value {
			return isSymbolic(a[0].(iface).v)
		},
	}
}

func zzLookup(fn *ssa.Function) zzFn {
	if fn.Pkg == nil || fn.Parent() != nil || fn.Signature.Recv() != nil {
		return nil
	}
	n := fn.Name()
	if !strings.HasPrefix(n, "zz") {
		return nil
	}
	return zzIntrinsics[n]
}
