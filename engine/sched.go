package main

// Cooperative goroutines on host goroutines with a baton: exactly one runs at
// a time; switches happen only at blocking operations (and explicit yields).
// Scheduling is deterministic (lowest runnable id after the current one) unless
// the harness enables schedule forking (zzSchedule).

import (
	"fmt"
	"go/token"
	"go/types"
	"sort"

	"golang.org/x/tools/go/ssa"
)

// goroutinePanic carries an unrecovered target panic of a background goroutine
// to the path runner (it cannot be recovered by the main goroutine's defers).
type goroutinePanic struct{ tp targetPanic }

type gstate struct {
	id      int
	wake    chan struct{}
	done    bool
	started bool
	stuckAt uint64 // progress counter value at last failed attempt; ^0 = not blocked
	blocked bool
	what    string
	fn      value
	args    []value
}

type sched struct {
	idleSteps int64
	idleFires int
	in        *interpreter
	gs        []*gstate
	cur       *gstate
	progress  uint64
	aborted   bool
	now       int64 // virtual nanoseconds
	timers    []*vtimer
	timerSeq  int
	forkLimit int // schedule forks allowed (preemption bound); 0 = deterministic
	forksUsed int
	mainDone  chan any // result/panic of non-main goroutines reported here
	failure   any
}

const virtualEpoch = int64(1_700_000_000) * 1_000_000_000

func newSched(in *interpreter) *sched {
	s := &sched{in: in, now: virtualEpoch}
	g := &gstate{id: 0, wake: make(chan struct{}, 1), started: true}
	s.gs = []*gstate{g}
	s.cur = g
	in.curG = g
	return s
}

func (in *interpreter) spawn(fn value, args []value, pos token.Pos) {
	s := in.sch
	g := &gstate{id: len(s.gs), wake: make(chan struct{}, 1), fn: fn, args: args}
	s.gs = append(s.gs, g)
	s.progress++
	go func() {
		<-g.wake
		defer func() {
			p := recover()
			g.done = true
			if p != nil {
				if _, ok := p.(abortPanic); !ok && s.failure == nil {
					if tp, ok := p.(targetPanic); ok {
						// an unrecovered panic in a goroutine kills the program
						s.failure = goroutinePanic{tp}
					} else {
						s.failure = p
					}
				}
			}
			s.progress++
			s.handoffFromDead()
		}()
		if s.aborted {
			panic(abortPanic{})
		}
		g.started = true
		call(in, nil, pos, g.fn, g.args)
	}()
}

// pickNext chooses the next goroutine to run, excluding stuck ones.
// Returns nil if nobody can run.
func (s *sched) candidates() []*gstate {
	var out []*gstate
	n := len(s.gs)
	start := 0
	if s.cur != nil {
		start = s.cur.id + 1
	}
	for k := 0; k < n; k++ {
		g := s.gs[(start+k)%n]
		if g.done {
			continue
		}
		if g.blocked && g.stuckAt == s.progress {
			continue
		}
		out = append(out, g)
	}
	return out
}

func (s *sched) pickNext() *gstate {
	for {
		c := s.candidates()
		if len(c) > 0 {
			if s.forkLimit > 0 && len(c) > 1 && s.forksUsed < s.forkLimit {
				k := s.in.path.choice(len(c), "sched")
				if k != 0 {
					s.forksUsed++
				}
				return c[k]
			}
			return c[0]
		}
		// nobody runnable: fire the earliest timer, if any
		if !s.fireNextTimer() {
			return nil
		}
		// a periodic timer whose ticks nobody consumes would spin here for ever without
		// executing a single instruction: every goroutine is blocked for good
		if s.in.steps == s.idleSteps {
			s.idleFires++
			if s.idleFires > 100000 {
				return nil
			}
		} else {
			s.idleSteps, s.idleFires = s.in.steps, 0
		}
	}
}

// switchTo hands the baton to g and parks the current goroutine.
func (s *sched) switchTo(g *gstate) {
	me := s.cur
	if g == me {
		return
	}
	s.cur = g
	s.in.curG = g
	g.wake <- struct{}{}
	<-me.wake
	if s.aborted {
		panic(abortPanic{})
	}
	if s.failure != nil && me.id == 0 {
		f := s.failure
		s.failure = nil
		panic(f)
	}
}

func (s *sched) handoffFromDead() {
	// called on a finished goroutine's host thread
	if s.aborted {
		return
	}
	if s.failure != nil {
		// wake main to report
		s.cur = s.gs[0]
		s.in.curG = s.cur
		s.gs[0].wake <- struct{}{}
		return
	}
	g := s.pickNext()
	if g == nil {
		// deadlock among the remaining goroutines: report through main
		s.failure = pathEnd{"deadlock", s.describeBlocked()}
		s.cur = s.gs[0]
		s.in.curG = s.cur
		s.gs[0].wake <- struct{}{}
		return
	}
	s.cur = g
	s.in.curG = g
	g.wake <- struct{}{}
}

func (s *sched) describeBlocked() string {
	out := ""
	for _, g := range s.gs {
		if !g.done {
			out += fmt.Sprintf("g%d:%s ", g.id, g.what)
		}
	}
	return out
}

// blockUntil retries try() until it succeeds, yielding in between.
func (s *sched) blockUntil(what string, try func() bool) {
	me := s.cur
	for {
		if try() {
			me.blocked = false
			s.progress++
			return
		}
		me.blocked = true
		me.stuckAt = s.progress
		me.what = what
		g := s.pickNext()
		if g == nil {
			panic(pathEnd{"deadlock", s.describeBlocked()})
		}
		if g == me {
			continue
		}
		s.switchTo(g)
	}
}

// yield lets other runnable goroutines run (runtime.Gosched, zzYield).
func (s *sched) yield() {
	me := s.cur
	me.blocked = false
	n := len(s.gs)
	for k := 1; k < n; k++ {
		g := s.gs[(me.id+k)%n]
		if g.done || (g.blocked && g.stuckAt == s.progress) {
			continue
		}
		s.switchTo(g)
		return
	}
}

// runOthers runs every other goroutine until all are blocked or done.
func (s *sched) runOthers() {
	for {
		before := s.progress
		s.yield()
		if s.progress == before {
			return
		}
	}
}

// abortAll terminates all parked goroutines of this path.
func (s *sched) abortAll() {
	s.aborted = true
	for _, g := range s.gs[1:] {
		if !g.done {
			select {
			case g.wake <- struct{}{}:
			default:
			}
		}
	}
}

// ---- channels ---------------------------------------------------------------

type channel struct {
	buf    []value
	cap    int
	closed bool
	// rendezvous for unbuffered channels
	recvWaiting int
	handoff     []value // values handed to waiting receivers
}

func newChannel(n int) *channel { return &channel{cap: n} }

func (c *channel) length() int {
	if c == nil {
		return 0
	}
	return len(c.buf)
}

func (in *interpreter) chanSend(c *channel, v value) {
	s := in.sch
	if c == nil {
		s.blockUntil("send on nil chan", func() bool { return false })
	}
	v = copyVal(v)
	if c.cap > 0 {
		s.blockUntil("chan send", func() bool {
			if c.closed {
				panic(targetPanic{msg: "send on closed channel"})
			}
			if len(c.buf) < c.cap {
				c.buf = append(c.buf, v)
				return true
			}
			return false
		})
		return
	}
	// unbuffered: wait for a receiver to be waiting, hand off.
	s.blockUntil("chan send (unbuffered)", func() bool {
		if c.closed {
			panic(targetPanic{msg: "send on closed channel"})
		}
		if c.recvWaiting > len(c.handoff) {
			c.handoff = append(c.handoff, v)
			return true
		}
		return false
	})
}

func (in *interpreter) chanRecv(c *channel) (value, bool) {
	s := in.sch
	if c == nil {
		s.blockUntil("recv on nil chan", func() bool { return false })
	}
	var out value
	ok := false
	if c.cap > 0 {
		s.blockUntil("chan recv", func() bool {
			if len(c.buf) > 0 {
				out, ok = c.buf[0], true
				c.buf = c.buf[1:]
				return true
			}
			return c.closed
		})
		return out, ok
	}
	registered := false
	s.blockUntil("chan recv (unbuffered)", func() bool {
		if registered {
			if len(c.handoff) > 0 {
				out, ok = c.handoff[0], true
				c.handoff = c.handoff[1:]
				c.recvWaiting--
				return true
			}
			if c.closed {
				c.recvWaiting--
				return true
			}
			return false
		}
		if c.closed && len(c.handoff) == 0 {
			return true
		}
		registered = true
		c.recvWaiting++
		s.progress++ // a new waiting receiver may unblock a sender
		return false
	})
	return out, ok
}

func (in *interpreter) chanClose(c *channel) {
	if c == nil {
		panic(targetPanic{msg: "close of nil channel"})
	}
	if c.closed {
		panic(targetPanic{msg: "close of closed channel"})
	}
	c.closed = true
	in.sch.progress++
}

// doSelect implements ssa.Select.
func (in *interpreter) doSelect(instr *ssa.Select, fr *frame) value {
	s := in.sch
	type st struct {
		c    *channel
		send bool
		v    value
	}
	states := make([]st, len(instr.States))
	for k, x := range instr.States {
		states[k].c = fr.get(x.Chan).(*channel)
		if x.Dir == types.SendOnly {
			states[k].send = true
			states[k].v = copyVal(fr.get(x.Send))
		}
	}
	chosen := -1
	var recv value
	recvOk := false
	registered := make([]bool, len(states))
	unregister := func() {
		for k, r := range registered {
			if r {
				states[k].c.recvWaiting--
				registered[k] = false
			}
		}
	}
	ready := func(k int) bool {
		c := states[k].c
		if c == nil {
			return false
		}
		if states[k].send {
			if c.closed {
				return true // will panic on commit
			}
			if c.cap > 0 {
				return len(c.buf) < c.cap
			}
			return c.recvWaiting > len(c.handoff)
		}
		if c.cap > 0 {
			return len(c.buf) > 0 || c.closed
		}
		if registered[k] {
			// one of the handoffs may be for us
			return len(c.handoff) > 0 || c.closed
		}
		return c.closed && len(c.handoff) == 0
	}
	commit := func(k int) {
		c := states[k].c
		chosen = k
		if states[k].send {
			if c.closed {
				unregister()
				panic(targetPanic{msg: "send on closed channel"})
			}
			if c.cap > 0 {
				c.buf = append(c.buf, states[k].v)
			} else {
				c.handoff = append(c.handoff, states[k].v)
			}
			return
		}
		if c.cap > 0 {
			if len(c.buf) > 0 {
				recv, recvOk = c.buf[0], true
				c.buf = c.buf[1:]
			}
			return
		}
		if len(c.handoff) > 0 && registered[k] {
			recv, recvOk = c.handoff[0], true
			c.handoff = c.handoff[1:]
		}
	}
	try := func() bool {
		var rd []int
		for k := range states {
			if ready(k) {
				rd = append(rd, k)
			}
		}
		if len(rd) == 0 {
			return false
		}
		pick := rd[0]
		if len(rd) > 1 && s.forkLimit > 0 && s.forksUsed < s.forkLimit {
			j := in.path.choice(len(rd), "select")
			if j != 0 {
				s.forksUsed++
			}
			pick = rd[j]
		}
		commit(pick)
		unregister()
		return true
	}
	if !instr.Blocking {
		if !try() {
			chosen = -1
		} else {
			s.progress++
		}
	} else {
		first := true
		s.blockUntil("select", func() bool {
			if try() {
				return true
			}
			if first {
				first = false
				// register as waiting receiver on unbuffered channels
				for k := range states {
					c := states[k].c
					if c != nil && !states[k].send && c.cap == 0 && !registered[k] {
						registered[k] = true
						c.recvWaiting++
						s.progress++
					}
				}
			}
			return false
		})
	}
	r := tuple{chosen, recvOk}
	for k, x := range instr.States {
		if x.Dir == types.RecvOnly {
			var v value
			if k == chosen && recvOk {
				v = recv
			} else {
				v = zero(x.Chan.Type().Underlying().(*types.Chan).Elem())
			}
			r = append(r, v)
		}
	}
	return r
}

// ---- mutexes, wait groups, conds ------------------------------------------------

type vmutex struct {
	locked  bool
	readers int
}

func (in *interpreter) mutexOf(p *value) *vmutex {
	m := in.side.mutex[p]
	if m == nil {
		m = &vmutex{}
		in.side.mutex[p] = m
	}
	return m
}

type vwg struct{ n int64 }

func (in *interpreter) wgOf(p *value) *vwg {
	w := in.side.wg[p]
	if w == nil {
		w = &vwg{}
		in.side.wg[p] = w
	}
	return w
}

type vcond struct {
	waiters int
	signals int
	gen     uint64
}

// ---- timers and virtual time -----------------------------------------------------

type vtimer struct {
	when   int64
	period int64
	c      *channel // nil for AfterFunc
	f      value    // AfterFunc function
	active bool
	seq    int
	timerP *value // address of the time.Timer/Ticker struct (for Stop/Reset)
}

func (s *sched) addTimer(t *vtimer) {
	s.timerSeq++
	t.seq = s.timerSeq
	t.active = true
	s.timers = append(s.timers, t)
}

func (s *sched) fireNextTimer() bool {
	var act []*vtimer
	for _, t := range s.timers {
		if t.active {
			act = append(act, t)
		}
	}
	s.timers = act
	if len(act) == 0 {
		return false
	}
	sort.SliceStable(act, func(a, b int) bool {
		if act[a].when != act[b].when {
			return act[a].when < act[b].when
		}
		return act[a].seq < act[b].seq
	})
	t := act[0]
	if t.when > s.now {
		s.now = t.when
	}
	s.fire(t)
	return true
}

// advance moves virtual time forward by d, firing timers that come due.
func (s *sched) advance(d int64) {
	target := s.now + d
	for {
		var next *vtimer
		for _, t := range s.timers {
			if t.active && t.when <= target && (next == nil || t.when < next.when || (t.when == next.when && t.seq < next.seq)) {
				next = t
			}
		}
		if next == nil {
			break
		}
		if next.when > s.now {
			s.now = next.when
		}
		s.fire(next)
	}
	if target > s.now {
		s.now = target
	}
}

func (s *sched) fire(t *vtimer) {
	if t.period > 0 {
		t.when += t.period
	} else {
		t.active = false
	}
	s.progress++
	if t.c != nil {
		if len(t.c.buf) < t.c.cap {
			t.c.buf = append(t.c.buf, s.in.timeValue(s.now))
		}
		return
	}
	if t.f != nil {
		s.in.spawn(t.f, nil, token.NoPos)
	}
}
