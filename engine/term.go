package main

// SMT terms (QF_BV + Bool) with light constant folding. A term of width 0 is
// Bool; width w>0 is (_ BitVec w).

import (
	"fmt"
	"math/bits"
	"strings"
)

type term struct {
	op   string // "const" "var" or an SMT-LIB operator name
	w    int
	args []*term
	val  uint64 // const payload (bool: 0/1)
	name string // var name
	p1   int    // extract hi / extension amount
	p2   int    // extract lo
	size int    // saturating tree size
	h1   uint64 // structural hash (0 = not computed)
	h2   uint64
}

type termKey struct{ a, b uint64 }

// key returns a 128-bit structural hash of the term (memoised per node).
func (t *term) key() termKey {
	if t.h1 != 0 || t.h2 != 0 {
		return termKey{t.h1, t.h2}
	}
	const p1, p2 = 1099511628211, 0x9E3779B97F4A7C15
	a, b := uint64(14695981039346656037), uint64(0x2545F4914F6CDD1D)
	mix := func(v uint64) {
		a = (a ^ v) * p1
		b = (b + v + (b << 7) + (b >> 3)) * p2
	}
	for i := 0; i < len(t.op); i++ {
		mix(uint64(t.op[i]))
	}
	mix(uint64(t.w) + 0x100)
	mix(t.val)
	for i := 0; i < len(t.name); i++ {
		mix(uint64(t.name[i]) + 0x200)
	}
	mix(uint64(t.p1)<<16 | uint64(t.p2))
	for _, x := range t.args {
		k := x.key()
		mix(k.a)
		mix(k.b)
	}
	if a == 0 && b == 0 {
		a = 1
	}
	t.h1, t.h2 = a, b
	return termKey{a, b}
}

var (
	tTrue  = &term{op: "const", w: 0, val: 1, size: 1}
	tFalse = &term{op: "const", w: 0, val: 0, size: 1}
)

func mask(w int) uint64 {
	if w >= 64 {
		return ^uint64(0)
	}
	return (uint64(1) << uint(w)) - 1
}

func tBool(b bool) *term {
	if b {
		return tTrue
	}
	return tFalse
}

func tConst(w int, v uint64) *term {
	if w == 0 {
		return tBool(v != 0)
	}
	return &term{op: "const", w: w, val: v & mask(w), size: 1}
}

func tVar(name string, w int) *term { return &term{op: "var", w: w, name: name, size: 1} }

func (t *term) isConst() bool { return t.op == "const" }
func (t *term) isTrue() bool  { return t.op == "const" && t.w == 0 && t.val == 1 }
func (t *term) isFalse() bool { return t.op == "const" && t.w == 0 && t.val == 0 }

func mk(op string, w int, args ...*term) *term {
	sz := 1
	for _, a := range args {
		sz += a.size
		if sz > 1<<30 {
			sz = 1 << 30
		}
	}
	return &term{op: op, w: w, args: args, size: sz}
}

func sext64(v uint64, w int) int64 {
	if w >= 64 {
		return int64(v)
	}
	sh := uint(64 - w)
	return int64(v<<sh) >> sh
}

// tBV builds a bit-vector operation with constant folding.
func tBV(op string, a, b *term) *term {
	w := a.w
	if a.w != b.w {
		panic(fmt.Sprintf("tBV %s: width mismatch %d vs %d", op, a.w, b.w))
	}
	if a.isConst() && b.isConst() {
		x, y := a.val, b.val
		var r uint64
		switch op {
		case "bvadd":
			r = x + y
		case "bvsub":
			r = x - y
		case "bvmul":
			r = x * y
		case "bvand":
			r = x & y
		case "bvor":
			r = x | y
		case "bvxor":
			r = x ^ y
		case "bvudiv":
			if y == 0 {
				r = mask(w)
			} else {
				r = x / y
			}
		case "bvurem":
			if y == 0 {
				r = x
			} else {
				r = x % y
			}
		case "bvsdiv":
			sx, sy := sext64(x, w), sext64(y, w)
			if sy == 0 {
				if sx < 0 {
					r = 1
				} else {
					r = mask(w)
				}
			} else if sy == -1 {
				r = uint64(-sx)
			} else {
				r = uint64(sx / sy)
			}
		case "bvsrem":
			sx, sy := sext64(x, w), sext64(y, w)
			if sy == 0 {
				r = x
			} else if sy == -1 {
				r = 0
			} else {
				r = uint64(sx % sy)
			}
		case "bvshl":
			if y >= uint64(w) {
				r = 0
			} else {
				r = x << y
			}
		case "bvlshr":
			if y >= uint64(w) {
				r = 0
			} else {
				r = x >> y
			}
		case "bvashr":
			sx := sext64(x, w)
			if y >= uint64(w) {
				if sx < 0 {
					r = mask(w)
				} else {
					r = 0
				}
			} else {
				r = uint64(sx >> y)
			}
		default:
			panic("tBV: unknown op " + op)
		}
		return tConst(w, r)
	}
	// byte (dis)assembly: keep shifts/ors of zero-extended pieces as concats
	switch op {
	case "bvshl":
		if b.isConst() && b.val > 0 && b.val < uint64(w) {
			k := int(b.val)
			if inner := stripZext(a); inner.w+k <= w {
				return tResize(tConcat(inner, tConst(k, 0)), w, false)
			}
		}
	case "bvor":
		if r := orAssemble(a, b, w); r != nil {
			return r
		}
		if r := orAssemble(b, a, w); r != nil {
			return r
		}
	case "bvand":
		for _, pr := range [][2]*term{{a, b}, {b, a}} {
			if m := pr[1]; m.isConst() && m.val != 0 && m.val != mask(w) && (m.val&(m.val+1)) == 0 {
				k := bits.Len64(m.val)
				return tResize(tExtract(k-1, 0, pr[0]), w, false)
			}
		}
	}
	// identities
	switch op {
	case "bvadd", "bvor", "bvxor":
		if a.isConst() && a.val == 0 {
			return b
		}
		if b.isConst() && b.val == 0 {
			return a
		}
	case "bvsub", "bvshl", "bvlshr", "bvashr":
		if b.isConst() && b.val == 0 {
			return a
		}
	case "bvand":
		if a.isConst() && a.val == 0 {
			return a
		}
		if b.isConst() && b.val == 0 {
			return b
		}
		if a.isConst() && a.val == mask(w) {
			return b
		}
		if b.isConst() && b.val == mask(w) {
			return a
		}
	case "bvmul":
		if a.isConst() && a.val == 1 {
			return b
		}
		if b.isConst() && b.val == 1 {
			return a
		}
		if (a.isConst() && a.val == 0) || (b.isConst() && b.val == 0) {
			return tConst(w, 0)
		}
	}
	return mk(op, w, a, b)
}

// stripZext removes zero extensions.
func stripZext(a *term) *term {
	for a.op == "zero_extend" {
		a = a.args[0]
	}
	return a
}

// lowZeros returns k if the low k bits of a are a constant zero block
// (a = concat(p, 0_k)), else 0.
func lowZeros(a *term) (k int, p *term) {
	if a.op == "concat" && a.args[1].isConst() && a.args[1].val == 0 {
		return a.args[1].w, a.args[0]
	}
	return 0, nil
}

// orAssemble: zext(concat(p, 0_k)) | zext(y) with y narrower than k bits is
// zext(concat(p, zext_k(y))).
func orAssemble(x, y *term, w int) *term {
	ax, ay := stripZext(x), stripZext(y)
	k, p := lowZeros(ax)
	if k == 0 || ay.w > k || ay.isConst() && ay.w > k {
		return nil
	}
	return tResize(tConcat(p, tResize(ay, k, false)), w, false)
}

func tBVNot(a *term) *term {
	if a.isConst() {
		return tConst(a.w, ^a.val)
	}
	return mk("bvnot", a.w, a)
}

func tBVNeg(a *term) *term {
	if a.isConst() {
		return tConst(a.w, -a.val)
	}
	return mk("bvneg", a.w, a)
}

// tCmp builds a comparison: op in "=", "bvult","bvule","bvslt","bvsle".
func tCmp(op string, a, b *term) *term {
	if a.w != b.w {
		panic(fmt.Sprintf("tCmp %s: width mismatch %d vs %d", op, a.w, b.w))
	}
	if a == b {
		switch op {
		case "=", "bvule", "bvsle":
			return tTrue
		default:
			return tFalse
		}
	}
	if a.isConst() && b.isConst() {
		x, y := a.val, b.val
		switch op {
		case "=":
			return tBool(x == y)
		case "bvult":
			return tBool(x < y)
		case "bvule":
			return tBool(x <= y)
		case "bvslt":
			return tBool(sext64(x, a.w) < sext64(y, a.w))
		case "bvsle":
			return tBool(sext64(x, a.w) <= sext64(y, a.w))
		}
	}
	if op == "=" && a.w == 0 {
		if a.isConst() {
			if a.val == 1 {
				return b
			}
			return tNot(b)
		}
		if b.isConst() {
			if b.val == 1 {
				return a
			}
			return tNot(a)
		}
	}
	// (= (ite c k1 k2) k) with constants folds to c / not c / false: keeps
	// compare-chain results small.
	if op == "=" && b.isConst() && a.op == "ite" && a.args[1].isConst() && a.args[2].isConst() {
		e1 := a.args[1].val == b.val
		e2 := a.args[2].val == b.val
		switch {
		case e1 && e2:
			return tTrue
		case e1:
			return a.args[0]
		case e2:
			return tNot(a.args[0])
		default:
			return tFalse
		}
	}
	return mk(op, 0, a, b)
}

func tNot(a *term) *term {
	if a.isConst() {
		return tBool(a.val == 0)
	}
	if a.op == "not" {
		return a.args[0]
	}
	return mk("not", 0, a)
}

func tAnd(xs ...*term) *term {
	var out []*term
	for _, x := range xs {
		if x.isFalse() {
			return tFalse
		}
		if x.isTrue() {
			continue
		}
		out = append(out, x)
	}
	switch len(out) {
	case 0:
		return tTrue
	case 1:
		return out[0]
	}
	return mk("and", 0, out...)
}

func tOr(xs ...*term) *term {
	var out []*term
	for _, x := range xs {
		if x.isTrue() {
			return tTrue
		}
		if x.isFalse() {
			continue
		}
		out = append(out, x)
	}
	switch len(out) {
	case 0:
		return tFalse
	case 1:
		return out[0]
	}
	return mk("or", 0, out...)
}

func tIte(c, a, b *term) *term {
	if a.w != b.w {
		panic("tIte: width mismatch")
	}
	if c.isTrue() {
		return a
	}
	if c.isFalse() {
		return b
	}
	if a == b {
		return a
	}
	if a.isConst() && b.isConst() && a.val == b.val {
		return a
	}
	if a.w == 0 {
		if a.isTrue() && b.isFalse() {
			return c
		}
		if a.isFalse() && b.isTrue() {
			return tNot(c)
		}
	}
	return mk("ite", a.w, c, a, b)
}

func tExtract(hi, lo int, a *term) *term {
	w := hi - lo + 1
	if w == a.w {
		return a
	}
	if a.isConst() {
		return tConst(w, a.val>>uint(lo))
	}
	if a.op == "zero_extend" || a.op == "sign_extend" {
		inner := a.args[0]
		if hi < inner.w {
			return tExtract(hi, lo, inner)
		}
	}
	if a.op == "bvlshr" && a.args[1].isConst() {
		k := int(a.args[1].val)
		if a.args[1].val < uint64(a.w) && hi+k < a.w {
			return tExtract(hi+k, lo+k, a.args[0])
		}
	}
	if a.op == "bvshl" && a.args[1].isConst() {
		k := int(a.args[1].val)
		if a.args[1].val < uint64(a.w) && lo >= k {
			return tExtract(hi-k, lo-k, a.args[0])
		}
	}
	if a.op == "extract" {
		return tExtract(hi+a.p2, lo+a.p2, a.args[0])
	}
	if a.op == "concat" {
		// concat(hiPart, loPart)
		lw := a.args[1].w
		if hi < lw {
			return tExtract(hi, lo, a.args[1])
		}
		if lo >= lw {
			return tExtract(hi-lw, lo-lw, a.args[0])
		}
	}
	t := mk("extract", w, a)
	t.p1, t.p2 = hi, lo
	return t
}

func tConcat(hi, lo *term) *term {
	if hi.isConst() && lo.isConst() && hi.w+lo.w <= 64 {
		return tConst(hi.w+lo.w, hi.val<<uint(lo.w)|lo.val)
	}
	// adjacent extracts of one term merge back
	if hi.op == "extract" && lo.op == "extract" && hi.args[0] == lo.args[0] && hi.p2 == lo.p1+1 {
		return tExtract(hi.p1, lo.p2, hi.args[0])
	}
	if hi.op == "extract" && lo.op == "concat" && lo.args[0].op == "extract" && hi.args[0] == lo.args[0].args[0] && hi.p2 == lo.args[0].p1+1 {
		return tConcat(tExtract(hi.p1, lo.args[0].p2, hi.args[0]), lo.args[1])
	}
	// a full-width low part that is itself x's low bits: concat(extract(x,w-1,k), extract(x,k-1,0)) handled above
	return mk("concat", hi.w+lo.w, hi, lo)
}

// tResize converts a to width w, sign- or zero-extending.
func tResize(a *term, w int, signed bool) *term {
	if a.w == w {
		return a
	}
	if a.w > w {
		return tExtract(w-1, 0, a)
	}
	if a.isConst() {
		if signed {
			return tConst(w, uint64(sext64(a.val, a.w)))
		}
		return tConst(w, a.val)
	}
	op := "zero_extend"
	if signed {
		op = "sign_extend"
	}
	t := mk(op, w, a)
	t.p1 = w - a.w
	return t
}

// ---- printing -------------------------------------------------------------

func sortOf(w int) string {
	if w == 0 {
		return "Bool"
	}
	return fmt.Sprintf("(_ BitVec %d)", w)
}

func constStr(t *term) string {
	if t.w == 0 {
		if t.val == 1 {
			return "true"
		}
		return "false"
	}
	if t.w%4 == 0 {
		return fmt.Sprintf("#x%0*x", t.w/4, t.val)
	}
	return fmt.Sprintf("#b%0*b", t.w, t.val)
}

// printer emits terms, introducing define-fun abbreviations for large shared
// nodes so that output stays linear in the number of DAG nodes.
type printer struct {
	names map[*term]string
	defs  *strings.Builder
	n     *int
}

const inlineLimit = 24

func (p *printer) ref(t *term) string {
	switch t.op {
	case "const":
		return constStr(t)
	case "var":
		return t.name
	}
	if s, ok := p.names[t]; ok {
		return s
	}
	var sb strings.Builder
	sb.WriteByte('(')
	switch t.op {
	case "extract":
		fmt.Fprintf(&sb, "(_ extract %d %d)", t.p1, t.p2)
	case "zero_extend", "sign_extend":
		fmt.Fprintf(&sb, "(_ %s %d)", t.op, t.p1)
	default:
		sb.WriteString(t.op)
	}
	for _, a := range t.args {
		sb.WriteByte(' ')
		sb.WriteString(p.ref(a))
	}
	sb.WriteByte(')')
	s := sb.String()
	if t.size > inlineLimit {
		*p.n++
		name := fmt.Sprintf("d!%d", *p.n)
		fmt.Fprintf(p.defs, "(define-fun %s () %s %s)\n", name, sortOf(t.w), s)
		p.names[t] = name
		return name
	}
	return s
}

// String renders a term as a tree (debugging / samples only).
func (t *term) String() string {
	n := 0
	var defs strings.Builder
	p := &printer{names: map[*term]string{}, defs: &defs, n: &n}
	s := p.ref(t)
	if defs.Len() > 0 {
		return "<" + fmt.Sprint(n) + " defs> " + s
	}
	return s
}

// evalTerm evaluates t under a model (var name -> value); used to validate
// counterexamples and to concretise.
func evalTerm(t *term, m map[string]uint64, memo map[*term]uint64) uint64 {
	if v, ok := memo[t]; ok {
		return v
	}
	var r uint64
	switch t.op {
	case "const":
		r = t.val
	case "var":
		r = m[t.name] & mask64(t.w)
	default:
		vs := make([]uint64, len(t.args))
		for i, a := range t.args {
			vs[i] = evalTerm(a, m, memo)
		}
		r = evalOp(t, vs)
	}
	memo[t] = r
	return r
}

func mask64(w int) uint64 {
	if w == 0 {
		return 1
	}
	return mask(w)
}

func evalOp(t *term, vs []uint64) uint64 {
	c := func(i int) *term { return tConst(t.args[i].w, vs[i]) }
	switch t.op {
	case "not":
		return vs[0] ^ 1
	case "and":
		for _, v := range vs {
			if v == 0 {
				return 0
			}
		}
		return 1
	case "or":
		for _, v := range vs {
			if v != 0 {
				return 1
			}
		}
		return 0
	case "ite":
		if vs[0] != 0 {
			return vs[1]
		}
		return vs[2]
	case "=", "bvult", "bvule", "bvslt", "bvsle":
		return tCmp(t.op, c(0), c(1)).val
	case "bvnot":
		return ^vs[0] & mask(t.w)
	case "bvneg":
		return -vs[0] & mask(t.w)
	case "extract":
		return (vs[0] >> uint(t.p2)) & mask(t.w)
	case "concat":
		return (vs[0]<<uint(t.args[1].w) | vs[1]) & mask(t.w)
	case "zero_extend":
		return vs[0]
	case "sign_extend":
		return uint64(sext64(vs[0], t.args[0].w)) & mask(t.w)
	default:
		return tBV(t.op, c(0), c(1)).val
	}
}

