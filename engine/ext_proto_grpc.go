package main

import (
	"strings"

	"golang.org/x/tools/go/ssa"
)

// Externals for protobuf text formatting and grpc status inspection: code
// under test calls them for logging / error classification only.

// patternExternals select an external by function shape instead of exact name.
var patternExternals []func(fn *ssa.Function) externalFn

// sovModel: protobuf varint size ((bits.Len64(x|1)+6)/7). Exact on concrete
// operands; on a symbolic operand an arbitrary value in 1..10 (sound
// over-approximation, stated in evidence assumptions).
func sovModel(fr *frame, a []value) value {
	x := tResize(toTerm(a[0]), 64, false)
	if x.isConst() {
		n := 1
		for v := x.val; v >= 0x80; v >>= 7 {
			n++
		}
		return n
	}
	// symbolic operand: the exact ladder (9 comparisons over sums of symbolic
	// timestamps) makes z3 answer unknown; sizes only feed batching thresholds
	// and metrics, so over-approximate with an arbitrary legal varint length.
	v := fr.i.path.freshRanged("sov", 64, 1, 10)
	return intVal(v)
}

func init() {
	patternExternals = append(patternExternals, func(fn *ssa.Function) externalFn {
		if fn.Pkg == nil || fn.Signature.Recv() != nil {
			return nil
		}
		p := fn.Pkg.Pkg.Path()
		if (strings.HasPrefix(p, "github.com/pingcap/kvproto/") || strings.HasPrefix(p, "github.com/pingcap/tipb/")) &&
			strings.HasPrefix(fn.Name(), "sov") && fn.Signature.Params().Len() == 1 {
			return sovModel
		}
		return nil
	})
	for _, n := range []string{
		"github.com/golang/protobuf/proto.CompactTextString",
		"github.com/gogo/protobuf/proto.CompactTextString",
		"github.com/golang/protobuf/proto.MarshalTextString",
		"github.com/gogo/protobuf/proto.MarshalTextString",
	} {
		ext(n, func(fr *frame, a []value) value { return "<proto>" })
	}
	// proto.Clone: deep copy of the message object graph
	clone := func(fr *frame, a []value) value {
		it := a[0].(iface)
		if it.t == nil {
			return it
		}
		g := newGraph()
		g.scan(it.v, fr.i.sharedGraph)
		c := copyGraph(g)
		return iface{t: it.t, v: c.tr(it.v)}
	}
	ext("github.com/golang/protobuf/proto.Clone", clone)
	ext("github.com/gogo/protobuf/proto.Clone", clone)
	ext("google.golang.org/protobuf/proto.Clone", clone)

	// status.Code(err): a harness transport error is not a grpc status => codes.Unknown (2);
	// nil => codes.OK (0)
	ext("google.golang.org/grpc/status.Code", func(fr *frame, a []value) value {
		if a[0].(iface).t == nil {
			return uint32(0)
		}
		return uint32(2)
	})
	ext("google.golang.org/grpc/status.Convert", extNop)
	ext("google.golang.org/grpc/status.FromError", func(fr *frame, a []value) value {
		return tuple{zero(fr.fn.Signature.Results().At(0).Type()), a[0].(iface).t == nil}
	})
}
