#!/usr/bin/env python3
"""c15_catalogue.py <repo> <outdir> [--inventory]

Generates zz_gen_c15_catalogue.go for package internal/apicodec: the C15
catalogue harnesses, derived from the *current* source:

  * every constant of type tikvrpc.CmdType (tikvrpc/tikvrpc.go),
  * its request accessor / message type (the accessor methods of
    *tikvrpc.Request and the dispatch in CallRPC / CallDebugRPC),
  * its response message type (the TikvClient / DebugClient interfaces of the
    kvproto version pinned in go.mod),
  * the (recursive) field structure of those messages (kvproto *.pb.go).

Per message type the generator emits a `fill` and a `check` function that visit,
in the same order, every bytes field that carries a user key (by protobuf
field name, see KEY_NAMES / is_key_name) anywhere below the message; region
descriptions (metapb.Region, errorpb.KeyNotInRegion) are memcomparable on the
wire.  Exceptions come from props/C15.allow.json and nowhere else.

Nothing here lists commands or fields by hand: a new CmdType constant, a new
key-bearing request field, or a new response field of a key-carrying message
type is picked up on the next run; what the generator cannot classify makes it
fail (the check is then reported broken, not green).
"""
import json, os, re, subprocess, sys

VERIF = os.path.dirname(os.path.dirname(os.path.abspath(__file__)))
MOD = "github.com/tikv/client-go/v2"
KVPROTO = "github.com/pingcap/kvproto"


def die(msg):
    sys.exit("c15_catalogue: " + msg)


# ------------------------------------------------------------------ kvproto

def kvproto_dir(repo):
    env = dict(os.environ, GOFLAGS="-mod=mod", GOPROXY="off")
    env.pop("GOTOOLCHAIN", None)
    env.pop("GOSUMDB", None)
    r = subprocess.run(["go", "list", "-m", "-f", "{{.Dir}}", KVPROTO], cwd=repo, env=env, capture_output=True, text=True)
    d = r.stdout.strip()
    if r.returncode != 0 or not d or not os.path.isdir(d):
        die("cannot locate kvproto: " + r.stderr)
    return d


class Field:
    __slots__ = ("go", "name", "kind", "ref", "repeated", "oneof", "gotype")
    # kind: bytes | string | scalar | msg | map | oneof | other


class Msg:
    __slots__ = ("pkg", "name", "fields")

    @property
    def key(self):
        return self.pkg + "." + self.name


class Proto:
    """Lazy parser of kvproto/pkg/<pkg>/*.pb.go struct definitions."""

    def __init__(self, root):
        self.root = root
        self.pkgs = {}  # short name -> {msgname: Msg}
        self.src = {}

    def source(self, pkg):
        if pkg not in self.src:
            d = os.path.join(self.root, "pkg", pkg)
            if not os.path.isdir(d):
                die("kvproto package %s not found" % pkg)
            s = ""
            for fn in sorted(os.listdir(d)):
                if fn.endswith(".pb.go"):
                    s += open(os.path.join(d, fn)).read() + "\n"
            self.src[pkg] = s
        return self.src[pkg]

    def load(self, pkg):
        if pkg in self.pkgs:
            return self.pkgs[pkg]
        src = self.source(pkg)
        # import aliases -> kvproto package short name
        alias = {}
        for m in re.finditer(r'(?m)^\t(\w+) "([^"]+)"$', src):
            if m.group(2).startswith(KVPROTO + "/pkg/"):
                alias[m.group(1)] = m.group(2).rsplit("/", 1)[1]
        msgs = {}
        for m in re.finditer(r"(?ms)^type (\w+) struct \{\n(.*?)^\}", src):
            name, body = m.group(1), m.group(2)
            mm = Msg()
            mm.pkg, mm.name, mm.fields = pkg, name, []
            for line in body.split("\n"):
                fm = re.match(r'^\t(\w+)\s+(.+?)\s+`(protobuf[^`]*)`', line)
                if not fm:
                    continue
                f = Field()
                f.go, f.gotype, tag = fm.group(1), fm.group(2), fm.group(3)
                f.repeated, f.ref, f.oneof = False, None, False
                if tag.startswith("protobuf_oneof"):
                    f.kind, f.name = "oneof", re.search(r'protobuf_oneof:"([^"]+)"', tag).group(1)
                    mm.fields.append(f)
                    continue
                pm = re.search(r'protobuf:"([^"]*)"', tag)
                parts = pm.group(1).split(",")
                nm = [p for p in parts if p.startswith("name=")]
                f.name = nm[0][5:] if nm else f.go
                f.oneof = "oneof" in parts
                t = f.gotype
                if "protobuf_key" in tag or t.startswith("map["):
                    f.kind = "map"
                elif t == "[]byte":
                    f.kind = "bytes"
                elif t == "[][]byte":
                    f.kind, f.repeated = "bytes", True
                elif t == "string" or t == "[]string":
                    f.kind, f.repeated = "string", t.startswith("[]")
                elif parts[0] == "bytes":
                    # a message (pointer, slice of pointers, or gogoproto non-nullable / customtype)
                    tm = re.match(r"^(\[\])?(\*)?(?:(\w+)\.)?(\w+)$", t)
                    if not tm:
                        f.kind = "other"
                    elif "customtype=" in pm.group(1):
                        f.kind = "other"
                    else:
                        f.repeated = bool(tm.group(1))
                        if not tm.group(2):
                            f.kind = "other"  # non-pointer embedded message: not used by the catalogue today
                        else:
                            f.kind = "msg"
                            p = tm.group(3)
                            if p is None:
                                f.ref = (pkg, tm.group(4))
                            elif p in alias:
                                f.ref = (alias[p], tm.group(4))
                            else:
                                f.kind = "other"
                else:
                    f.kind, f.repeated = "scalar", t.startswith("[]")
                mm.fields.append(f)
            msgs[name] = mm
        self.pkgs[pkg] = msgs
        return msgs

    def msg(self, pkg, name):
        m = self.load(pkg).get(name)
        if m is None:
            die("message %s.%s not found in kvproto" % (pkg, name))
        return m


# ------------------------------------------------------------------ tikvrpc catalogue

def parse_catalogue(repo, proto):
    src = open(os.path.join(repo, "tikvrpc", "tikvrpc.go")).read()
    # 1. constants of type CmdType (all const blocks; aliases `CmdA = CmdB` are skipped)
    cmds = []
    aliases = {}
    for blk in re.finditer(r"(?ms)^const \(\n(.*?)^\)", src):
        body = blk.group(1)
        if "CmdType" not in body and not re.search(r"(?m)^\s*Cmd\w+\s*=\s*Cmd\w+", body):
            continue
        for line in body.split("\n"):
            line = line.split("//")[0].strip()
            m = re.match(r"^(Cmd\w+)(\s+CmdType)?(\s*=\s*(.*))?$", line)
            if not m:
                continue
            if m.group(4) and re.match(r"^Cmd\w+$", m.group(4).strip()):
                aliases[m.group(1)] = m.group(4).strip()
                continue  # alias
            cmds.append(m.group(1))
    if len(cmds) < 40:
        die("found only %d CmdType constants" % len(cmds))
    # 2. accessors: func (req *Request) X() *pkg.T { return req.Req.(*pkg.T) }
    acc = {}
    for m in re.finditer(r"(?m)^func \(req \*Request\) (\w+)\(\) \*(\w+)\.(\w+) \{\n\treturn req\.Req\.\(\*(\w+)\.(\w+)\)\n\}", src):
        acc[m.group(1)] = (m.group(2), m.group(3))
    imports = {}
    for m in re.finditer(r'(?m)^\t(?:(\w+) )?"([^"]+)"$', src):
        path = m.group(2)
        imports[m.group(1) or path.rsplit("/", 1)[-1]] = path
    # 3. dispatch: CallRPC / CallDebugRPC
    disp = {}
    for fn, iface_pkg, iface in (("CallRPC", "tikvpb", "TikvClient"), ("CallDebugRPC", "debugpb", "DebugClient")):
        fm = re.search(r"(?ms)^func %s\(.*?^\}" % fn, src)
        if not fm:
            die("function %s not found" % fn)
        body = fm.group(0)
        for cm in re.finditer(r"(?ms)^\tcase (Cmd\w+):\n(.*?)(?=^\tcase |^\tdefault:)", body):
            cmd, blk = cm.group(1), cm.group(2)
            cmd = aliases.get(cmd, cmd)
            mm = re.search(r"client\.(\w+)\(ctx, req\.(\w+)\(\)\)", blk)
            if mm:
                disp[cmd] = (iface_pkg, iface, mm.group(1), mm.group(2))
            else:
                lm = re.search(r"resp\.Resp, err = &(\w+)\.(\w+)\{\}, nil", blk)
                if not lm:
                    die("cannot understand the dispatch of %s in %s" % (cmd, fn))
                disp[cmd] = (None, None, None, (lm.group(1), lm.group(2)))
    # 4. client interfaces
    def iface_methods(pkg, iface):
        s = proto.source(pkg)
        im = re.search(r"(?ms)^type %s interface \{\n(.*?)^\}" % iface, s)
        if not im:
            die("interface %s.%s not found" % (pkg, iface))
        out = {}
        for m in re.finditer(r"(?m)^\t(\w+)\(ctx context\.Context, in \*(?:(\w+)\.)?(\w+), opts \.\.\.grpc\.CallOption\) \((\*)?(?:(\w+)\.)?(\w+), error\)", im.group(1)):
            out[m.group(1)] = ((m.group(2) or pkg, m.group(3)), (m.group(5) or pkg, m.group(6)), bool(m.group(4)))
        return out
    ifaces = {}
    cat = []
    for cmd in cmds:
        if cmd not in disp:
            die("%s is a CmdType constant but neither CallRPC nor CallDebugRPC dispatches it" % cmd)
        ipkg, iface, meth, accessor = disp[cmd]
        e = {"cmd": cmd}
        if ipkg is None:
            # local response (CmdEmpty): request accessor = the one whose type is the *Request twin
            rp, rn = accessor
            e["resp"] = (rp, rn)
            twin = rn.replace("Response", "Request")
            cands = [a for a, t in acc.items() if t == (rp, twin)]
            if len(cands) != 1:
                die("cannot find the request accessor of %s" % cmd)
            e["accessor"], e["req"], e["stream"] = cands[0], acc[cands[0]], False
        else:
            if (ipkg, iface) not in ifaces:
                ifaces[(ipkg, iface)] = iface_methods(ipkg, iface)
            ms = ifaces[(ipkg, iface)]
            if meth not in ms:
                die("%s: client method %s not in %s.%s" % (cmd, meth, ipkg, iface))
            if accessor not in acc:
                die("%s: accessor %s not found" % (cmd, accessor))
            reqt, respt, isptr = ms[meth]
            if acc[accessor] != reqt:
                die("%s: accessor %s returns %s but %s takes %s" % (cmd, accessor, acc[accessor], meth, reqt))
            e["accessor"], e["req"], e["resp"], e["stream"] = accessor, reqt, respt, not isptr
        cat.append(e)
    return cat, src


# ------------------------------------------------------------------ classification

PLAIN_KEY_NAMES = {"key", "keys", "start", "end", "primary", "primary_lock", "secondaries"}
REGION_TYPES = {"metapb.Region", "errorpb.KeyNotInRegion"}  # start_key/end_key are memcomparable region bounds
RANGE_PAIRS = [("start_key", "end_key"), ("start", "end")]


def is_key_name(n):
    return n in PLAIN_KEY_NAMES or n.endswith("_key") or n.endswith("_keys")


class Plan:
    """For a message type: ordered list of items to visit.
       ('key', field, mode)           mode: plain | optional
       ('keys', field)
       ('range', fstart, fend, frev|None, region:bool)
       ('msg', field, Msg, backedge:bool)
       ('opaque', field)              non-key bytes: must be preserved
    """


def build_plans(proto, roots, allow, direction):
    allow_fields = {a["field"]: a for a in allow.get("fields", []) if a.get("dir", direction) == direction}
    used_allow = set()
    plans, haskeys = {}, {}

    def direct_items(m):
        items = []
        names = {f.name: f for f in m.fields}
        paired = {}
        for a, b in RANGE_PAIRS:
            fa, fb = names.get(a), names.get(b)
            if fa and fb and fa.kind == "bytes" and fb.kind == "bytes" and not fa.repeated and not fb.repeated:
                paired[a] = paired[b] = (fa, fb)
        seen_pairs = set()
        for f in m.fields:
            fq = "%s.%s" % (m.key, f.name)
            if f.kind == "oneof":
                continue
            if f.kind == "bytes":
                al = allow_fields.get(fq)
                if not is_key_name(f.name):
                    if not f.repeated:
                        items.append(("opaque", f))
                    continue
                if al and al["mode"] in ("opaque", "unread"):
                    used_allow.add(fq)
                    continue
                if f.name in paired:
                    fa, fb = paired[f.name]
                    ala = allow_fields.get("%s.%s" % (m.key, fa.name))
                    alb = allow_fields.get("%s.%s" % (m.key, fb.name))
                    if (ala and ala["mode"] in ("opaque", "unread")) or (alb and alb["mode"] in ("opaque", "unread")):
                        used_allow.add("%s.%s" % (m.key, fa.name))
                        used_allow.add("%s.%s" % (m.key, fb.name))
                        continue
                    if fa.name in seen_pairs:
                        continue
                    seen_pairs.add(fa.name)
                    rev = names.get("reverse")
                    if rev is not None and rev.gotype != "bool":
                        rev = None
                    items.append(("range", fa, fb, rev, m.key in REGION_TYPES))
                    continue
                if f.repeated:
                    items.append(("keys", f))
                else:
                    mode = "plain"
                    if al and al["mode"] == "optional":
                        used_allow.add(fq)
                        mode = "optional"
                    items.append(("key", f, mode))
            elif f.kind == "msg":
                al = allow_fields.get(fq)
                if al and al["mode"] in ("opaque", "unread"):
                    used_allow.add(fq)
                    continue
                items.append(("msg", f, proto.msg(*f.ref)))
        return items

    # collect reachable message types
    order, seen = [], set()

    def visit(m):
        if m.key in seen:
            return
        seen.add(m.key)
        its = direct_items(m)
        plans[m.key] = (m, its)
        for it in its:
            if it[0] == "msg":
                visit(it[2])
        order.append(m.key)
    for r in roots:
        visit(r)
    # fixpoint: which types carry keys somewhere
    for k in plans:
        haskeys[k] = any(it[0] in ("key", "keys", "range") for it in plans[k][1])
    changed = True
    while changed:
        changed = False
        for k, (m, its) in plans.items():
            if not haskeys[k] and any(it[0] == "msg" and haskeys[it[2].key] for it in its):
                haskeys[k] = changed = True
    # prune message edges to key-free types; mark back edges (recursion)
    final = {}
    for k, (m, its) in plans.items():
        final[k] = (m, [it for it in its if it[0] != "msg" or haskeys[it[2].key]])
    # back edges by DFS
    back = set()
    state = {}

    def dfs(k):
        state[k] = 1
        for it in final[k][1]:
            if it[0] == "msg":
                t = it[2].key
                if state.get(t) == 1:
                    back.add((k, it[1].name))
                elif t not in state:
                    dfs(t)
        state[k] = 2
    for r in roots:
        if r.key not in state:
            dfs(r.key)
    return final, haskeys, back, set((direction, u) for u in used_allow)


# ------------------------------------------------------------------ code generation

def goid(key):
    return key.replace(".", "_")


def gen_types(final, haskeys, back, fam):
    out = []
    for k in sorted(final):
        m, its = final[k]
        if not haskeys[k]:
            continue
        T = "*%s.%s" % (m.pkg, m.name)
        fid = goid(k)
        # ---- fill
        out.append("func zzC15%sFill_%s(b *zzC15Bag, d int) %s {" % (fam, fid, T))
        out.append("\tm := &%s.%s{}" % (m.pkg, m.name))
        for it in its:
            if it[0] == "opaque":
                out.append("\tm.%s = []byte{0xEE}" % it[1].go)
            elif it[0] == "key":
                out.append("\tm.%s = b.putKey(%s)" % (it[1].go, "true" if it[2] == "optional" else "false"))
            elif it[0] == "keys":
                out.append("\tm.%s = [][]byte{b.putKey(false), b.putKey(false)}" % it[1].go)
            elif it[0] == "range":
                _, fa, fb, rev, region = it
                if rev is not None:
                    out.append("\tm.%s = b.rev" % rev.go)
                    out.append("\tm.%s, m.%s = b.putRange(%s, b.rev)" % (fa.go, fb.go, "true" if region else "false"))
                else:
                    out.append("\tm.%s, m.%s = b.putRange(%s, false)" % (fa.go, fb.go, "true" if region else "false"))
            elif it[0] == "msg":
                f, t = it[1], it[2]
                call = "zzC15%sFill_%s(b, %s)" % (fam, goid(t.key), "d-1" if (k, f.name) in back else "d")
                guard = "d > 0" if (k, f.name) in back else None
                ind = "\t"
                if guard:
                    out.append("\tif %s {" % guard)
                    ind = "\t\t"
                if f.repeated:
                    out.append("%sm.%s = []*%s.%s{%s, %s}" % (ind, f.go, t.pkg, t.name, call, call))
                else:
                    out.append("%sm.%s = %s" % (ind, f.go, call))
                if guard:
                    out.append("\t}")
        out.append("\treturn m\n}\n")
        # ---- check
        out.append("func zzC15%sCheck_%s(b *zzC15Bag, m %s, d int, path string) {" % (fam, fid, T))
        out.append("\tif m == nil {\n\t\tb.fail(path + \": message missing\")\n\t\treturn\n\t}")
        for it in its:
            if it[0] == "opaque":
                out.append("\tb.expectOpaque(m.%s, path+\".%s\")" % (it[1].go, it[1].name))
            elif it[0] == "key":
                out.append("\tb.expectKey(m.%s, %s, path+\".%s\")" % (it[1].go, "true" if it[2] == "optional" else "false", it[1].name))
            elif it[0] == "keys":
                f = it[1]
                out.append("\tif len(m.%s) != 2 {\n\t\tb.fail(path + \".%s: element count\")\n\t\tb.skip(2)\n\t} else {" % (f.go, f.name))
                out.append("\t\tb.expectKey(m.%s[0], false, path+\".%s[]\")" % (f.go, f.name))
                out.append("\t\tb.expectKey(m.%s[1], false, path+\".%s[]\")\n\t}" % (f.go, f.name))
            elif it[0] == "range":
                _, fa, fb, rev, region = it
                r = "b.rev" if rev is not None else "false"
                if rev is not None:
                    out.append("\tif m.%s != b.rev {\n\t\tb.fail(path + \".%s: changed\")\n\t}" % (rev.go, rev.name))
                out.append("\tb.expectRange(m.%s, m.%s, %s, %s, path+\".%s/%s\")" % (fa.go, fb.go, "true" if region else "false", r, fa.name, fb.name))
            elif it[0] == "msg":
                f, t = it[1], it[2]
                isback = (k, f.name) in back
                dd = "d-1" if isback else "d"
                ind = "\t"
                if isback:
                    out.append("\tif d > 0 {")
                    ind = "\t\t"
                if f.repeated:
                    out.append("%sif len(m.%s) != 2 {\n%s\tb.fail(path + \".%s: element count\")\n%s\tb.abort()\n%s} else {" % (ind, f.go, ind, f.name, ind, ind))
                    out.append("%s\tzzC15%sCheck_%s(b, m.%s[0], %s, path+\".%s[]\")" % (ind, fam, goid(t.key), f.go, dd, f.name))
                    out.append("%s\tzzC15%sCheck_%s(b, m.%s[1], %s, path+\".%s[]\")\n%s}" % (ind, fam, goid(t.key), f.go, dd, f.name, ind))
                else:
                    out.append("%szzC15%sCheck_%s(b, m.%s, %s, path+\".%s\")" % (ind, fam, goid(t.key), f.go, dd, f.name))
                if isback:
                    out.append("\t}")
        out.append("}\n")
    return "\n".join(out)


def main():
    if len(sys.argv) < 3:
        die("usage: c15_catalogue.py <repo> <outdir> [--inventory]")
    repo, outdir = sys.argv[1], sys.argv[2]
    inventory = "--inventory" in sys.argv
    proto = Proto(kvproto_dir(repo))
    allow = json.load(open(os.path.join(VERIF, "props", "C15.allow.json")))
    cat, rpcsrc = parse_catalogue(repo, proto)
    allow_cmds = {a["cmd"]: a for a in allow.get("commands", [])}

    req_roots = []
    resp_roots = []
    for e in cat:
        e["reqmsg"] = proto.msg(*e["req"])
        req_roots.append(e["reqmsg"])
        if not e["stream"]:
            e["respmsg"] = proto.msg(*e["resp"])
            resp_roots.append(e["respmsg"])
    P = {"request": build_plans(proto, req_roots, allow, "request"),
         "response": build_plans(proto, resp_roots, allow, "response")}

    if inventory:
        def dump(final, back, k, ind, stack):
            m, its = final[k]
            for it in its:
                if it[0] == "key":
                    print("%s%s  KEY%s" % (ind, it[1].name, " (optional)" if it[2] == "optional" else ""))
                elif it[0] == "keys":
                    print("%s%s  KEYS" % (ind, it[1].name))
                elif it[0] == "range":
                    print("%s%s/%s  %sRANGE%s" % (ind, it[1].name, it[2].name, "REGION-" if it[4] else "", " +reverse" if it[3] else ""))
                elif it[0] == "msg":
                    t = it[2].key
                    print("%s%s%s -> %s%s" % (ind, it[1].name, "[]" if it[1].repeated else "", t, " (recursive)" if (k, it[1].name) in back else ""))
                    if t not in stack:
                        dump(final, back, t, ind + "    ", stack + [t])
        for e in cat:
            print("%s  accessor=%s req=%s.%s resp=%s.%s%s" % (e["cmd"], e["accessor"], e["req"][0], e["req"][1], e["resp"][0], e["resp"][1], " (stream)" if e["stream"] else ""))
            print("  request:")
            dump(P["request"][0], P["request"][2], e["reqmsg"].key, "    ", [e["reqmsg"].key])
            if not e["stream"]:
                print("  response:")
                dump(P["response"][0], P["response"][2], e["respmsg"].key, "    ", [e["respmsg"].key])
        return

    gen_harness(repo, outdir, proto, cat, P, allow, allow_cmds)


def batch_wrappers(proto, which):
    """(pkg, msg) -> oneof member name of tikvpb.BatchCommands<which>"""
    src = proto.source("tikvpb")
    out = {}
    for m in re.finditer(r"(?m)^type BatchCommands%s_(\w+) struct \{\n\t(\w+) \*(?:(\w+)\.)?(\w+) " % which, src):
        out[(m.group(3) or "tikvpb", m.group(4))] = (m.group(1), m.group(2))
    if len(out) < 20:
        die("found only %d BatchCommands%s wrappers" % (len(out), which))
    return out


def gen_harness(repo, outdir, proto, cat, P, allow, allow_cmds):
    reqF, reqH, reqB, reqU = P["request"]
    respF, respH, respB, respU = P["response"]
    # every allow-list entry must still be needed (a stale entry hides nothing, but says the source moved)
    used = reqU | respU
    for a in allow.get("fields", []):
        dirs = [a["dir"]] if "dir" in a else ["request", "response"]
        if not any((d, a["field"]) in used for d in dirs):
            die("allow-list entry %s (%s) matches no key-bearing field any more" % (a["field"], a.get("dir", "both")))
    known_cmds = {e["cmd"] for e in cat}
    for c in allow_cmds:
        if c not in known_cmds:
            die("allow-list names unknown command " + c)
    wreq = batch_wrappers(proto, "Request_Request")
    wresp = batch_wrappers(proto, "Response_Response")
    pkgs = set(["kvrpcpb", "errorpb", "tikvpb"])
    body = []
    body.append(gen_types(reqF, reqH, reqB, "Req"))
    body.append(gen_types(respF, respH, respB, "Resp"))
    for d in (reqF, respF):
        for k, (m, its) in d.items():
            hk = reqH if d is reqF else respH
            if hk[k]:
                pkgs.add(m.pkg)
    names = []
    for e in cat:
        cmd, acc = e["cmd"], e["accessor"]
        rm = e["reqmsg"]
        RT = "%s.%s" % (rm.pkg, rm.name)
        pkgs.add(rm.pkg)
        ex = allow_cmds.get(cmd, {}).get("exempt", [])
        # ------------------------------------------------ encode
        o = []
        fn = "ZZ_C15_cat_enc_" + cmd
        names.append(fn)
        o.append("// %s: EncodeRequest(%s) prefixes every key-bearing member of %s and leaves the caller's request alone." % (fn, cmd, RT))
        o.append("func %s() {" % fn)
        o.append("\tc, mode, id := zzC15CodecQ(\"mode\", \"id\")\n\tif c == nil {\n\t\treturn\n\t}")
        o.append("\tb := zzC15NewBag(mode, id, false)")
        o.append("\t_ = b")
        hasrev = any(it[0] == "range" and it[3] is not None for it in reqF[rm.key][1])
        if hasrev:
            o.append("\tb.rev = zzChoice(\"reverse\", 2) == 1")
        if reqH[rm.key]:
            o.append("\tmsg := zzC15ReqFill_%s(b, 1)" % goid(rm.key))
        else:
            o.append("\tmsg := &%s{}" % RT)
        # callers always provide the singular sub-messages
        for f in rm.fields:
            if f.kind == "msg" and not f.repeated and f.name != "context":
                t = proto.msg(*f.ref)
                pkgs.add(t.pkg)
                o.append("\tif msg.%s == nil {\n\t\tmsg.%s = &%s.%s{}\n\t}" % (f.go, f.go, t.pkg, t.name))
        o.append("\treq := tikvrpc.NewRequest(tikvrpc.%s, msg)" % cmd)
        o.append("\treq.ForwardedHost = \"h\"")
        o.append("\tenc, err := c.EncodeRequest(req)")
        o.append("\tzzAssert(err == nil && enc != nil, \"enc.%s.err\")" % cmd)
        o.append("\tif err != nil || enc == nil {\n\t\treturn\n\t}")
        o.append("\tzzAssert(enc != req, \"enc.%s.request-not-reused\")" % cmd)
        o.append("\tzzAssert(enc.Type == tikvrpc.%s && enc.ForwardedHost == \"h\", \"enc.%s.request-members-kept\")" % (cmd, cmd))
        o.append("\tzzAssert(enc.GetApiVersion() == kvrpcpb.APIVersion_V2 && enc.GetKeyspaceId() == id, \"enc.%s.api-context\")" % cmd)
        o.append("\tzzAssert(req.GetApiVersion() == kvrpcpb.APIVersion_V1 && req.Keyspace == nil, \"enc.%s.original-context-untouched\")" % cmd)
        o.append("\torig, ok := req.Req.(*%s)" % RT)
        o.append("\tzzAssert(ok && orig == msg, \"enc.%s.original-message-kept\")" % cmd)
        if reqH[rm.key]:
            o.append("\tb.restart(false, true)")
            o.append("\tzzC15ReqCheck_%s(b, msg, 1, \"original\")" % goid(rm.key))
            o.append("\tzzAssert(b.visited == b.filled, \"enc.%s.original-visited\")" % cmd)
            o.append("\tif !b.allOK {\n\t\tb.restart(false, false)\n\t\tzzC15ReqCheck_%s(b, msg, 1, \"original\")\n\t}" % goid(rm.key))
            o.append("\tb.restart(true, true)")
            o.append("\tzzC15ReqCheck_%s(b, enc.%s(), 1, \"encoded\")" % (goid(rm.key), acc))
            o.append("\tzzAssert(b.visited == b.filled && b.filled > 0, \"enc.%s.encoded-visited\")" % cmd)
            o.append("\tif !b.allOK {\n\t\tb.restart(true, false)\n\t\tzzC15ReqCheck_%s(b, enc.%s(), 1, \"encoded\")\n\t}" % (goid(rm.key), acc))
            o.append("\tzzNote(\"fields\", b.failed)")
            o.append("\tzzAssert(b.nfailed == 0, \"enc.%s.key-fields\")" % cmd)
        o.append("}\n")
        body.append("\n".join(o))
        # ------------------------------------------------ decode
        if not e["stream"]:
            sm = e["respmsg"]
            ST = "%s.%s" % (sm.pkg, sm.name)
            pkgs.add(sm.pkg)
            o = []
            fn = "ZZ_C15_cat_dec_" + cmd
            names.append(fn)
            o.append("// %s: DecodeResponse(%s) strips the prefix from every key of %s." % (fn, cmd, ST))
            o.append("func %s() {" % fn)
            o.append("\tc, mode, id := zzC15CodecQ(\"mode\", \"id\")\n\tif c == nil {\n\t\treturn\n\t}")
            o.append("\tb := zzC15NewBag(mode, id, true)")
            o.append("\tb.wire = true")
            o.append("\t_ = id")
            if respH[sm.key] and "decode" not in ex:
                o.append("\tmsg := zzC15RespFill_%s(b, 1)" % goid(sm.key))
            else:
                o.append("\tmsg := &%s{}" % ST)
            o.append("\treq := tikvrpc.NewRequest(tikvrpc.%s, &%s{})" % (cmd, RT))
            o.append("\tout, err := c.DecodeResponse(req, &tikvrpc.Response{Resp: msg})")
            o.append("\tzzAssert(err == nil && out != nil, \"dec.%s.err\")" % cmd)
            o.append("\tif err != nil || out == nil {\n\t\treturn\n\t}")
            o.append("\ttyped, ok := out.Resp.(*%s)" % ST)
            o.append("\tzzAssert(ok && typed != nil, \"dec.%s.type\")" % cmd)
            if respH[sm.key] and "decode" not in ex:
                o.append("\tif !ok {\n\t\treturn\n\t}")
                o.append("\tb.restart(false, true)")
                o.append("\tzzC15RespCheck_%s(b, typed, 1, \"response\")" % goid(sm.key))
                o.append("\tzzAssert(b.visited == b.filled && b.filled > 0, \"dec.%s.visited\")" % cmd)
                o.append("\tif !b.allOK {\n\t\tb.restart(false, false)\n\t\tzzC15RespCheck_%s(b, typed, 1, \"response\")\n\t}" % goid(sm.key))
                o.append("\tzzNote(\"fields\", b.failed)")
                o.append("\tzzAssert(b.nfailed == 0, \"dec.%s.key-fields\")" % cmd)
            o.append("}\n")
            body.append("\n".join(o))
        # ------------------------------------------------ attach / region error / batch
        o = []
        fn = "ZZ_C15_cat_rpc_" + cmd
        names.append(fn)
        hasctx = any(f.name == "context" and f.kind == "msg" and f.ref == ("kvrpcpb", "Context") for f in rm.fields)
        o.append("// %s: AttachContext, GenRegionErrorResp/GetRegionError and the batch wire form for %s." % (fn, cmd))
        o.append("func %s() {" % fn)
        o.append("\tmsg := &%s{}" % RT)
        o.append("\treq := tikvrpc.NewRequest(tikvrpc.%s, msg)" % cmd)
        o.append("\tr1, r2 := zzU64(\"region1\"), zzU64(\"region2\")")
        o.append("\tzzAssume(r1 != r2)")
        o.append("\tok1 := tikvrpc.AttachContext(req, kvrpcpb.Context{RegionId: r1, Term: 3})")
        o.append("\tzzAssert(req.Context.RegionId == r1 && req.Context.Term == 3, \"rpc.%s.request-context\")" % cmd)
        if hasctx and "attach" not in ex:
            o.append("\tzzAssert(ok1, \"rpc.%s.attach\")" % cmd)
            o.append("\tm1 := req.%s()" % acc)
            o.append("\tzzAssert(m1.Context != nil && m1.Context.RegionId == r1 && m1.Context.Term == 3, \"rpc.%s.attached\")" % cmd)
            o.append("\tok2 := tikvrpc.AttachContext(req, kvrpcpb.Context{RegionId: r2})")
            o.append("\tm2 := req.%s()" % acc)
            o.append("\tzzAssert(ok2 && m2.Context != nil && m2.Context.RegionId == r2, \"rpc.%s.reattached\")" % cmd)
            o.append("\tzzAssert(m1.Context != nil && m1.Context.RegionId == r1, \"rpc.%s.handed-out-message-not-patched\")" % cmd)
        elif hasctx:
            o.append("\t_ = ok1 // allow-listed: %s" % allow_cmds[cmd]["reason"].replace("\n", " "))
        else:
            o.append("\t_ = ok1 // the request message has no context member")
        o.append("\tverr := tikvrpc.SetContextNoAttach(tikvrpc.NewRequest(tikvrpc.%s, &%s{}), nil, nil)" % (cmd, RT))
        o.append("\tzzAssert((verr == nil) == ok1, \"rpc.%s.valid-type-agrees\")" % cmd)
        # region error
        if e["stream"]:
            has_re = True if cmd == "CmdCopStream" else False
            has_re = False  # stream wrappers: read back only when generation succeeds
            sm = None
        else:
            sm = e["respmsg"]
            has_re = any(f.name == "region_error" and f.kind == "msg" and f.ref == ("errorpb", "Error") for f in sm.fields)
        o.append("\tre := &errorpb.Error{Message: \"e\"}")
        o.append("\tgen, gerr := tikvrpc.GenRegionErrorResp(req, re)")
        if has_re and "region_error" not in ex:
            o.append("\tzzAssert(gerr == nil && gen != nil, \"rpc.%s.region-error-generated\")" % cmd)
            o.append("\tif gerr == nil && gen != nil {")
            o.append("\t\t_, isT := gen.Resp.(*%s.%s)" % (sm.pkg, sm.name))
            o.append("\t\tzzAssert(isT, \"rpc.%s.region-error-type\")" % cmd)
            o.append("\t\tback, berr := gen.GetRegionError()")
            o.append("\t\tzzAssert(berr == nil && back == re, \"rpc.%s.region-error-read-back\")" % cmd)
            o.append("\t}")
        else:
            o.append("\tgenOK := true")
            o.append("\tif gerr == nil && gen != nil {")
            o.append("\t\tback, berr := gen.GetRegionError()")
            o.append("\t\tgenOK = berr == nil && (back == re || gen.Resp == nil)")
            o.append("\t}")
            o.append("\tzzAssert(genOK, \"rpc.%s.region-error-consistent\")" % cmd)
        # batch
        o.append("\tcur := req.%s()" % acc)
        o.append("\tbr := req.ToBatchCommandsRequest()")
        if (rm.pkg, rm.name) in wreq and not e["stream"]:
            wn, wf = wreq[(rm.pkg, rm.name)]
            o.append("\tzzAssert(br == nil || br.Get%s() == cur, \"rpc.%s.batch-request\")" % (wf, cmd))
            if sm is not None and (sm.pkg, sm.name) in wresp:
                sn, sf = wresp[(sm.pkg, sm.name)]
                o.append("\tif br != nil {")
                o.append("\t\trm := &%s.%s{}" % (sm.pkg, sm.name))
                o.append("\t\tres, rerr := tikvrpc.FromBatchCommandsResponse(&tikvpb.BatchCommandsResponse_Response{Cmd: &tikvpb.BatchCommandsResponse_Response_%s{%s: rm}})" % (sn, sf))
                o.append("\t\tzzAssert(rerr == nil && res != nil && res.Resp == interface{}(rm), \"rpc.%s.batch-response\")" % cmd)
                o.append("\t}")
            else:
                o.append("\tzzAssert(br == nil, \"rpc.%s.batch-response-has-no-wire-form\")" % cmd)
        else:
            o.append("\t_ = cur")
            o.append("\tzzAssert(br == nil, \"rpc.%s.not-batchable\")" % cmd)
        o.append("}\n")
        body.append("\n".join(o))

    hdr = ["// Code generated by /verif/gen/c15_catalogue.py from the current source. DO NOT EDIT.", "",
           "package apicodec", "", "import ("]
    for pkg in sorted(pkgs):
        hdr.append("\t\"%s/pkg/%s\"" % (KVPROTO, pkg))
    hdr.append("\t\"%s/tikvrpc\"" % MOD)
    hdr.append(")\n")
    hdr.append("// zzC15Catalogue: the commands found in tikvrpc/tikvrpc.go")
    hdr.append("var zzC15Catalogue = []tikvrpc.CmdType{")
    for e in cat:
        hdr.append("\ttikvrpc.%s," % e["cmd"])
    hdr.append("}\n")
    os.makedirs(outdir, exist_ok=True)
    with open(os.path.join(outdir, "zz_gen_c15_catalogue.go"), "w") as f:
        f.write("\n".join(hdr) + "\n" + "\n".join(body))


if __name__ == "__main__":
    main()
