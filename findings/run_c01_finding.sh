#!/bin/bash
# Runs the native reproduction of the C01 known finding against ${VERIF_REPO:-/repo} (overlay, nothing is written there).
repo=${VERIF_REPO:-/repo}
w=$(mktemp -d /tmp/zzfind.XXXXXX)
printf '{"Replace":{"%s/integration_tests/zz_c01_finding_test.go":"/verif/findings/c01_insert_deleted_again_test.go"}}' "$repo" > $w/overlay.json
cd $repo/integration_tests && GOPROXY=off go test -mod=mod -vet=off -count=1 -run 'TestZZC01InsertDeletedAgain' -overlay $w/overlay.json . 2>&1 | grep -v "^\[20" | tail -25
rm -rf $w
