package tikv_test

// Native reproduction of the C01 known finding "insert deleted again is only checked at prewrite":
// run from /repo/integration_tests with
//   go test -mod=mod -vet=off -count=1 -run TestZZC01InsertDeletedAgain -overlay <overlay.json> .
// (see /verif/findings/run_c01_finding.sh). Both store flavours of the repo (mocktikv, unistore)
// show it; it is a protocol-level behaviour (Op_CheckNotExists takes no lock), not a local bug.

import (
	"context"
	"testing"

	"github.com/stretchr/testify/require"
	"github.com/tikv/client-go/v2/kv"
	"github.com/tikv/client-go/v2/oracle"
	"github.com/tikv/client-go/v2/tikv"
	"github.com/tikv/client-go/v2/txnkv/transaction"
)

func zzC01InsertDeletedAgain(t *testing.T, store *tikv.KVStore) {
	defer store.Close()
	ctx := context.Background()
	a, x := []byte("zz-a"), []byte("zz-x")

	// T1: insert a (presumed not to exist), delete it again, write x
	t1, err := store.Begin()
	require.NoError(t, err)
	require.NoError(t, t1.GetMemBuffer().SetWithFlags(a, []byte("v1"), kv.SetPresumeKeyNotExists))
	require.NoError(t, t1.Delete(a))
	require.NoError(t, t1.Set(x, []byte("x1")))
	c1, err := transaction.TxnProbe{KVTxn: t1}.NewCommitter(1)
	require.NoError(t, err)
	require.NoError(t, c1.PrewriteAllMutations(ctx)) // existence of a is checked here, no lock is left on a

	// T0 begins and commits a value for a while T1 sits between prewrite and commit
	t0, err := store.Begin()
	require.NoError(t, err)
	require.NoError(t, t0.Set(a, []byte("v0")))
	require.NoError(t, t0.Commit(ctx))

	// T1 commits: at its commit point a has a value
	ts, err := store.GetOracle().GetTimestamp(ctx, &oracle.Option{TxnScope: oracle.GlobalTxnScope})
	require.NoError(t, err)
	c1.SetCommitTS(ts)
	errCommit := c1.CommitMutations(ctx)

	r, err := store.Begin()
	require.NoError(t, err)
	va, errA := r.Get(ctx, a)
	vx, errX := r.Get(ctx, x)
	t.Logf("T1 commit error: %v; a=%q (%v) x=%q (%v)", errCommit, va.Value, errA, vx.Value, errX)
	// the property as stated: T1 commits only if a has no value at its commit point
	require.False(t, errCommit == nil && errA == nil && errX == nil,
		"T1 (insert a; delete a; set x) committed at %d although a has the value %q committed by T0 before T1's commit point", ts, va.Value)
}

func TestZZC01InsertDeletedAgainMockTiKV(t *testing.T) { zzC01InsertDeletedAgain(t, NewTestStore(t)) }
func TestZZC01InsertDeletedAgainUniStore(t *testing.T) { zzC01InsertDeletedAgain(t, NewTestUniStore(t)) }
